#!/bin/bash
# usage: trymut.sh <patch> <prop[,prop]> [tier]  -- applies a patch to /repo, runs checks, reverts.
set -u
patch=$1; props=$2; tier=${3:-quick}
cd /repo || exit 2
if ! git diff --quiet; then echo "/repo dirty"; exit 2; fi
git apply "$patch" || { echo "patch does not apply"; exit 2; }
/verif/bin/stunlint -prop "$props" -tier "$tier" -no-evidence | grep -v '^  (also' | cut -c1-400
rc=${PIPESTATUS[0]}
git checkout -- . ; git clean -fdq
echo "exit=$rc"
