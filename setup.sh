#!/bin/sh
# Builds the checker offline from /verif/checker into /verif/bin/stunlint.
set -e
cd "$(dirname "$0")"
export GOFLAGS=-mod=mod GOPROXY=off GOSUMDB=off GOTOOLCHAIN=local
unset GOWORK
mkdir -p bin evidence
cd checker
go build -o ../bin/stunlint .
