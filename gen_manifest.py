#!/usr/bin/env python3
"""Generates MANIFEST.json from the table below (one entry per built property)."""
import json
props=[json.loads(l) for l in open('/verif/properties.jsonl')]
ids=[p['id'] for p in props]
CLAIMED = {
 "C01": dict(level="other", technique="static bounds proving on SSA (difference-bound + congruence prover over dominating guards), value summary of the padding function, loop-variant and call-graph-cycle check, taint of allocation sizes, path rule on entry points",
   text="Decides for every byte string and every buffer capacity, in both build tags (and GOARCH=386 in the thorough tier), that no index/slice/fixed-width access in the decode closure can leave len of its operand, that the attribute window is Raw[20:20+declared] and advances by the padded length, that every loop has a monotone variant, that no allocation size comes from the wire, that each entry point copies and returns Decode's error, and that Decode's success implies IsMessage. It is a static proof of the memory-safety/termination clauses, not of the Go runtime or stdlib (EXT table).",
   note="Trusted: go/types + go/ssa construction, the 900-line prover (checker/prove.go, summary.go), the EXT contracts listed in the evidence (binary.BigEndian accessors, io.Reader.Read, fmt). Not decided: stdlib/runtime behaviour, a misbehaving io.Reader.", ref="DESIGN.md section 4, C01"),
 "C07": dict(level="other", technique="static bounds proving (len-bounded) over the getter/checker closure with nil-return summaries, field-access locality rule, save/restore path rule, sibling agreement of build-tag variants, panic-construct scan",
   text="Decides, for every decodable message, capacity and both build tags: every index/slice/accessor/XorBytes in the getter/checker closure stays within len of its operand (so no panic and no read of padding, neighbours or spare capacity); getters load only their own attribute and the transaction ID; nothing in the closure writes message state except two verified save/restore pairs whose restore (field and header bytes) is on every path to every return; the release and debug variants of CheckSize/CheckOverflow/checkHMAC/checkFingerprint return nil under the same reference condition. Four obligations rest on reviewed invariants listed in the evidence (justified table).",
   note="Trusted: go/ssa, the prover, EXT contracts (binary accessors, xor.XorBytes, hash.Hash), the justified-exception table (2 decoded-message invariants, 2 destination-buffer idioms, 2 write-side helpers). Not decided: correctness of the returned values (C06).", ref="DESIGN.md section 4, C07"),
 "C09": dict(level="other", technique="predicate-consistent path rule (no mutation before a non-nil error return) over every Setter, effective-limit extraction from CheckOverflow call sites against a reviewed table, guard/dominance rules for IP length, default reason, FINGERPRINT and Build",
   text="Decides for every path through every library setter that raw bytes, length and attribute list are untouched when a non-nil error is returned (nested setters by their own atomicity), that each text/error-code setter adds only on the nil edge of a length check whose effective limit equals the reviewed limit for its attribute type, that address setters add only for 4- or 16-byte IPs, that ErrorCode without default reason and integrity-after-FINGERPRINT are rejected before any mutation, and that Build stops at and returns the first error. Both build tags.",
   note="Trusted: go/ssa, path engine, nil-return summary of CheckOverflow (rule C09.tags). The limit table (513/763) is the library's documented limits, reviewed against RFC 5389. User-supplied Setters are outside the analysis.", ref="DESIGN.md section 4, C09"),
 "C10": dict(level="other", technique="path, dominance and ownership rules on the SSA form of client.go (once-guard, pool re-initialisation, removal/completion pairing with a registered bit, rollback, lookup-before-return, Do handshake ordering under the condition lock)",
   text="Decides the structural premises of exactly-once completion for every branch history of the client: handler only under atomic.AddInt32==1, counter reset only on fresh pool objects before publication, all 7 transaction fields re-assigned before publication, every removal from the client table followed by exactly one completion while unregistered or by a complete re-registration, Start's registration rolled back on every error return, no return of the agent callback before the table lookup, Do waits iff Start succeeded, wait loop and callback/processed/broadcast ordering under the lock. It does not establish exactly-once as a property of concurrent traces.",
   note="Trusted: go/ssa, path engine, sync/atomic and sync.Cond semantics, agent side by C13. Not decided: scheduler liveness; the Start-vs-Close window noted in DESIGN.md.", ref="DESIGN.md section 4, C10"),
 "C11": dict(level="other", technique="alias/copy data-flow rules, who-may-write-the-connection rule, path rule for the strict attempt guard and single increment, field-access ownership of the RTO, canonical formula match",
   text="Decides: the stored request is append(own[:0], msg.Raw...), the retransmitted buffer is a private full copy made before re-publication, only Start and the retransmission branch write the connection, every path to the retransmission write established attempt < maxAttempts and a non-nil event error and incremented the counter exactly once, Start zeroes the counter, WithNoRetransmit stores 0, the client RTO is read only at Start (atomically) and copied into the transaction, the deadline is now+(attempt+1)*rto, and the agent's deadline test is strict (C13). These are the premises of 'at most n+1 identical writes on schedule', not a timing measurement.",
   note="Trusted: go/ssa, append/copy semantics. Not decided: wall-clock behaviour, SetRTO interleavings as traces.", ref="DESIGN.md section 4, C11"),
 "C12": dict(level="other", technique="data-flow identity rules (lookup key, completed entry, event construction), lockset rule for atomic find-and-delete, dominance rules for the reader and the fallback handler, pool reset rule",
   text="Decides: the client table is indexed by the event's own TransactionID; handle's receiver is the entry found and receives that event and message; lookup and removal are in one write-locked section; Agent.Process builds the event from the message's own ID and the message; the reader calls Process only on the nil edge of ReadFrom of the same message; the fallback handler is called only on the not-found edge and never for ErrTransactionStopped; put clears id/raw/attempt and no completion happens while the entry is registered (no stale entry survives recycling).",
   note="Trusted: go/ssa, local store-to-load forwarding for the Event structs. Not decided: delivery over long pooled histories as traces.", ref="DESIGN.md section 4, C12"),
 "C15": dict(level="other", technique="must-lockset dataflow with read/write modes, field-write ownership (construction phase vs shared phase), atomic-access consistency, must-pass-through pairing of go/Add/Done/Wait and of closed/collector/agent, dominance gate rules, lock-order graph",
   text="Decides for every schedule and branch history: closed is tested and set in one write-locked section with ErrClientClosed on the second Close; Client.closed/t only under the mutex; fields set during construction are never stored later and rto/maxAttempts are only accessed atomically; the connection is closed only in Close under closeConn and outside loops; both goroutines are Add-registered, defer Done, and their owner's Close waits on every path after the stop signal; Close closes collector and agent on every path; Start's side effects and the retransmission branch are dominated by the not-closed edge; nothing foreign is called under the client mutex and the lock-order graph is acyclic.",
   note="Trusted: go/ssa, VTA call graph, sync semantics. Not decided: goroutine exit as a runtime fact; injected collectors/connections beyond their stated preconditions.", ref="DESIGN.md section 4, C15"),
 "C16": dict(level="other", technique="call-graph cycle detection, loop-variant check, bounds proving and panic-construct scan over the closure of ParseURI",
   text="Decides for every input string: the module code reachable from ParseURI has no call-graph cycle (constant stack depth), every loop has a monotone variant, every index/slice is proved within len, and there is no explicit panic or unchecked assertion; with the four stdlib parsers total and linear (EXT) time and stack are bounded by the input length.",
   note="Trusted: go/ssa, EXT contracts for net.SplitHostPort, url.Parse, url.ParseQuery, strconv.Atoi. err.Error() dispatch is treated as bounded by the wrapping depth of the error value.", ref="DESIGN.md section 4, C16"),
 "C13": dict(level="other", technique="per-method path and dominance rules on the SSA form of agent.go (closed guard, duplicate guard, removal/event pairing, strict deadline predicate, full scans)",
   text="Decides for every path through every Agent method the premises from which the abstract-table behaviour follows by induction over the call sequence: closed test first and ErrAgentClosed on the closed edge, insertion only on the not-exists edge, every removal paired with exactly one handler event carrying the removed ID (and the message for Process), handlers after removal and after unlock, strict deadline-before predicate, table scans without early exit, Close drains then drops the table and sets closed. It does not establish trace equivalence with the abstract table as such.",
   note="Trusted: go/ssa, the path engine (predicate-consistent CFG exploration), time.Time.Before/After/Compare semantics, map range visiting every entry. Not decided: equivalence over all call sequences as a trace property.", ref="DESIGN.md section 4, C13"),
 "C14": dict(level="other", technique="must-lockset dataflow, critical-section counting, must-pass-through release check, who-may-be-called-under-lock rule, lock-order graph over a VTA-resolved call graph",
   text="Decides for every schedule (it is a property of code shape): every access to the agent's table, closed flag and handler field holds the agent mutex; each method has exactly one critical section containing the deciding lookup and the update; the mutex is released on every path; nothing but builtins, map operations and pure predicates is called while it is held (Close's handler call is the property's stated exception); the lock-order graph of the library is acyclic. Linearizability itself is not decided, only these structural premises.",
   note="Trusted: go/ssa, VTA call graph (x/tools v0.29.0), sync.Mutex semantics; user-supplied handlers are leaves. Not decided: linearizability as a trace property, scheduler liveness.", ref="DESIGN.md section 4, C14"),
 "C19": dict(level="proof", technique="bit-provenance abstract interpretation of MessageType.Value/ReadValue on the SSA form",
   text="Every one of the 16 result bits of Value() and every stored bit of ReadValue() is derived symbolically as 'input bit k' or constant 0 and compared with RFC 5389 figure 3; the two derived maps are checked to be inverse on the 14 live bits. The abstract interpretation is exact for this code (masks, constant shifts, additions of disjoint bit sets), so this is a proof over the complete 2^16 domain in both directions.",
   note="Trusted base: go/types + go/ssa, the transfer functions in checker/bits.go (~300 lines), Go semantics of & | ^ << >> + on uint16. If the code leaves the supported operator set the bits become unknown and the check fails (never passes vacuously).", ref="DESIGN.md section 4, C19"),
}
REASON_UNBUILT="designed in DESIGN.md section 4; its rules are not built and validated yet, so it is not claimed"
checks=[]
for pid in ids:
    if pid not in CLAIMED: continue
    c=CLAIMED[pid]
    checks.append({
      "property_id":pid,
      "quick_cmd":f"./bin/stunlint -prop {pid} -tier quick",
      "thorough_cmd":f"./bin/stunlint -prop {pid} -tier thorough",
      "evidence_file":f"/verif/evidence/{pid}.json",
      "replay_cmd_template":"./bin/stunlint -explain {path}",
      "engine":"stunlint",
      "level_claimed":{"category":c["level"],"text":c["text"],"design_ref":c["ref"]},
      "level_note":c["note"],
      "technique":c["technique"],
    })
m={
 "version":1,
 "setup_cmd":"./setup.sh",
 "hooks":{"guard":"verif","enable":"none needed: static analysis reads the unmodified source of /repo on every run; there are no hook commits",
  "baseline_off_cmd":"cd /repo && GOFLAGS=-mod=mod GOPROXY=off GOSUMDB=off go test -vet=off -count=1 ./...",
  "source_commits":[],"add_only":True},
 "engines":[{"name":"stunlint","path":"checker","serves_properties":sorted(CLAIMED),"kind_free_text":"repository-specific static analyzer over go/types + go/ssa (x/tools v0.29.0): bounds prover, path/lockset/call-graph rules, bit-provenance interpreter; each run re-loads /repo for every build configuration"}],
 "checks":checks,
 "notes":"Technique family: static analysis only; no check runs pion/stun code, tests or a solver. Quick = tags {none, debug} on amd64; thorough adds GOARCH=386. Known findings: known_findings.txt. Self test of the checker (firing and quiet witnesses, seeded changes): witnesses/selftest.py.",
 "not_applicable":[{"property_id":pid,"reason":REASON_UNBUILT} for pid in ids if pid not in CLAIMED]
}
json.dump(m,open('/verif/MANIFEST.json','w'),indent=1)
print("claimed",sorted(CLAIMED))
