#!/usr/bin/env python3
"""Generates MANIFEST.json from the table below (one entry per built property)."""
import json
props=[json.loads(l) for l in open('/verif/properties.jsonl')]
ids=[p['id'] for p in props]
CLAIMED = {
 "C01": dict(level="other", technique="static bounds proving on SSA (difference-bound + congruence prover over dominating guards), value summary of the padding function, loop-variant and call-graph-cycle check, taint of allocation sizes, path rule on entry points",
   text="Decides for every byte string and every buffer capacity, in both build tags (and GOARCH=386 in the thorough tier), that no index/slice/fixed-width access in the decode closure can leave len of its operand, that the attribute window is Raw[20:20+declared] and advances by the padded length, that every loop has a monotone variant, that no allocation size comes from the wire, that each entry point copies and returns Decode's error, and that Decode's success implies IsMessage. It is a static proof of the memory-safety/termination clauses, not of the Go runtime or stdlib (EXT table).",
   note="Trusted: go/types + go/ssa construction, the 900-line prover (checker/prove.go, summary.go), the EXT contracts listed in the evidence (binary.BigEndian accessors, io.Reader.Read, fmt). Not decided: stdlib/runtime behaviour, a misbehaving io.Reader.", ref="DESIGN.md section 4, C01"),
 "C13": dict(level="other", technique="per-method path and dominance rules on the SSA form of agent.go (closed guard, duplicate guard, removal/event pairing, strict deadline predicate, full scans)",
   text="Decides for every path through every Agent method the premises from which the abstract-table behaviour follows by induction over the call sequence: closed test first and ErrAgentClosed on the closed edge, insertion only on the not-exists edge, every removal paired with exactly one handler event carrying the removed ID (and the message for Process), handlers after removal and after unlock, strict deadline-before predicate, table scans without early exit, Close drains then drops the table and sets closed. It does not establish trace equivalence with the abstract table as such.",
   note="Trusted: go/ssa, the path engine (predicate-consistent CFG exploration), time.Time.Before/After/Compare semantics, map range visiting every entry. Not decided: equivalence over all call sequences as a trace property.", ref="DESIGN.md section 4, C13"),
 "C14": dict(level="other", technique="must-lockset dataflow, critical-section counting, must-pass-through release check, who-may-be-called-under-lock rule, lock-order graph over a VTA-resolved call graph",
   text="Decides for every schedule (it is a property of code shape): every access to the agent's table, closed flag and handler field holds the agent mutex; each method has exactly one critical section containing the deciding lookup and the update; the mutex is released on every path; nothing but builtins, map operations and pure predicates is called while it is held (Close's handler call is the property's stated exception); the lock-order graph of the library is acyclic. Linearizability itself is not decided, only these structural premises.",
   note="Trusted: go/ssa, VTA call graph (x/tools v0.29.0), sync.Mutex semantics; user-supplied handlers are leaves. Not decided: linearizability as a trace property, scheduler liveness.", ref="DESIGN.md section 4, C14"),
 "C19": dict(level="proof", technique="bit-provenance abstract interpretation of MessageType.Value/ReadValue on the SSA form",
   text="Every one of the 16 result bits of Value() and every stored bit of ReadValue() is derived symbolically as 'input bit k' or constant 0 and compared with RFC 5389 figure 3; the two derived maps are checked to be inverse on the 14 live bits. The abstract interpretation is exact for this code (masks, constant shifts, additions of disjoint bit sets), so this is a proof over the complete 2^16 domain in both directions.",
   note="Trusted base: go/types + go/ssa, the transfer functions in checker/bits.go (~300 lines), Go semantics of & | ^ << >> + on uint16. If the code leaves the supported operator set the bits become unknown and the check fails (never passes vacuously).", ref="DESIGN.md section 4, C19"),
}
REASON_UNBUILT="designed in DESIGN.md section 4; its rules are not built and validated yet, so it is not claimed"
checks=[]
for pid in ids:
    if pid not in CLAIMED: continue
    c=CLAIMED[pid]
    checks.append({
      "property_id":pid,
      "quick_cmd":f"./bin/stunlint -prop {pid} -tier quick",
      "thorough_cmd":f"./bin/stunlint -prop {pid} -tier thorough",
      "evidence_file":f"/verif/evidence/{pid}.json",
      "replay_cmd_template":"./bin/stunlint -explain {path}",
      "engine":"stunlint",
      "level_claimed":{"category":c["level"],"text":c["text"],"design_ref":c["ref"]},
      "level_note":c["note"],
      "technique":c["technique"],
    })
m={
 "version":1,
 "setup_cmd":"./setup.sh",
 "hooks":{"guard":"verif","enable":"none needed: static analysis reads the unmodified source of /repo on every run; there are no hook commits",
  "baseline_off_cmd":"cd /repo && GOFLAGS=-mod=mod GOPROXY=off GOSUMDB=off go test -vet=off -count=1 ./...",
  "source_commits":[],"add_only":True},
 "engines":[{"name":"stunlint","path":"checker","serves_properties":sorted(CLAIMED),"kind_free_text":"repository-specific static analyzer over go/types + go/ssa (x/tools v0.29.0): bounds prover, path/lockset/call-graph rules, bit-provenance interpreter; each run re-loads /repo for every build configuration"}],
 "checks":checks,
 "notes":"Technique family: static analysis only; no check runs pion/stun code, tests or a solver. Quick = tags {none, debug} on amd64; thorough adds GOARCH=386. Known findings: known_findings.txt. Self test of the checker (firing and quiet witnesses, seeded changes): witnesses/selftest.py.",
 "not_applicable":[{"property_id":pid,"reason":REASON_UNBUILT} for pid in ids if pid not in CLAIMED]
}
json.dump(m,open('/verif/MANIFEST.json','w'),indent=1)
print("claimed",sorted(CLAIMED))
