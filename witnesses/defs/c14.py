fire("c14-handler-before-unlock", "C14", "C14.nocall", ("agent.go", """	h := a.handler
	delete(a.transactions, m.TransactionID)
	a.mux.Unlock()
	h(event)
""", """	h := a.handler
	delete(a.transactions, m.TransactionID)
	h(event)
	a.mux.Unlock()
"""))
fire("c14-handler-read-after-unlock", "C14", "C14.lockset", ("agent.go", """	delete(a.transactions, id)
	h := a.handler
	a.mux.Unlock()
	if !exists {""", """	delete(a.transactions, id)
	a.mux.Unlock()
	h := a.handler
	if !exists {"""))
fire("c14-two-sections", "C14", "C14.atomic", ("agent.go", """	t, exists := a.transactions[id]
	delete(a.transactions, id)
	h := a.handler""", """	t, exists := a.transactions[id]
	a.mux.Unlock()
	a.mux.Lock()
	delete(a.transactions, id)
	h := a.handler"""))
fire("c14-return-without-unlock", "C14", "C14.release", ("agent.go", """func (a *Agent) SetHandler(h Handler) error {
	a.mux.Lock()
	if a.closed {
		a.mux.Unlock()

		return ErrAgentClosed""", """func (a *Agent) SetHandler(h Handler) error {
	a.mux.Lock()
	if a.closed {
		return ErrAgentClosed"""))
fire("c14-unlocked-closed-fastpath", "C14", "C14.lockset", ("agent.go", """func (a *Agent) Process(m *Message) error {
	event := Event{""", """func (a *Agent) Process(m *Message) error {
	if a.closed {
		return ErrAgentClosed
	}
	event := Event{"""))
fire("c14-stop-calls-start-under-lock", "C14", "C14.nocall", ("agent.go", """	a.handler = h
	a.mux.Unlock()

	return nil""", """	a.handler = h
	_ = a.Collect(time.Time{})
	a.mux.Unlock()

	return nil"""))
quiet("c14-defer-unlock-in-sethandler", "C14", ("agent.go", """func (a *Agent) SetHandler(h Handler) error {
	a.mux.Lock()
	if a.closed {
		a.mux.Unlock()

		return ErrAgentClosed
	}
	if h == nil {
		h = NoopHandler()
	}
	a.handler = h
	a.mux.Unlock()

	return nil""", """func (a *Agent) SetHandler(h Handler) error {
	a.mux.Lock()
	defer a.mux.Unlock()
	if a.closed {
		return ErrAgentClosed
	}
	if h == nil {
		h = NoopHandler()
	}
	a.handler = h

	return nil"""))
quiet("c14-rename-mux", "C14,C13", ("agent.go", "mux          sync.Mutex", "lck          sync.Mutex"), ("agent.go", "a.mux.", "a.lck.", True))
seeded("seed-C14-A", "C14", "C14.nocall", "seeded/C14-A/patch.diff")
seeded("seed-C14-B", "C14", "C14.lockset", "seeded/C14-B/patch.diff")
seeded("seed-C13-B-in-C14", "C14", "C14.atomic", "seeded/C13-B/patch.diff")
