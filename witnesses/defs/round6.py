# defect-hunter round: pre-repair forms of D12-D18 as firing witnesses, alternative repairs as quiet ones
fire("c11-D14-prefix-write-branch", "C11", "C11.removal", ("client.go", "	if writeErr != nil {\n		if !c.delete(id) {\n			// Transaction is completed already by someone else.\n			return\n		}\n", "	if writeErr != nil {\n		c.delete(id)\n"))
fire("c03-D12-prefix-equal-nil", "C03", "C03.equal", ("message.go", "func attrEqual(attrA, attrB Attributes) bool {\n", "func attrEqual(attrA, attrB Attributes) bool {\n	if attrA == nil && attrB == nil {\n		return true\n	}\n	if attrA == nil || attrB == nil {\n		return false\n	}\n"))
fire("c13-D15-prefix-sethandler-nil", "C13", "C13.sethandler", ("agent.go", "	if h == nil {\n		h = NoopHandler()\n	}\n	a.handler = h\n	a.mux.Unlock()\n", "	a.handler = h\n	a.mux.Unlock()\n"))
quiet("c13-sethandler-nil-guard-as-else", "C13,C14", ("agent.go", "	if h == nil {\n		h = NoopHandler()\n	}\n	a.handler = h\n	a.mux.Unlock()\n", "	if h != nil {\n		a.handler = h\n	} else {\n		a.handler = NoopHandler()\n	}\n	a.mux.Unlock()\n"))
fire("c17-D16-prefix-repeated-transport", "C17", "C17.tables", ("uri.go", " || len(qArgs[\"transport\"]) > 1", ""))
fire("c17-D17-prefix-separator-only-query", "C17", "C17.tables", ("uri.go", "		if err != nil || len(qArgs) > 0 || rawParts.RawQuery != \"\" {\n			return nil, ErrSTUNQuery\n		}\n		uri.Proto = ProtoTypeTCP", "		if err != nil || len(qArgs) > 0 {\n			return nil, ErrSTUNQuery\n		}\n		uri.Proto = ProtoTypeTCP"))
quiet("c17-stun-query-raw-test-only", "C17,C16", ("uri.go", "		qArgs, err := url.ParseQuery(rawParts.RawQuery)\n		if err != nil || len(qArgs) > 0 || rawParts.RawQuery != \"\" {\n			return nil, ErrSTUNQuery\n		}\n		uri.Proto = ProtoTypeUDP", "		if len(rawParts.RawQuery) > 0 {\n			return nil, ErrSTUNQuery\n		}\n		uri.Proto = ProtoTypeUDP"))
fire("c17-D18-prefix-os-resolver", "C17", "C17.net", ("client.go", "nw.ResolveUDPAddr(\"udp\", addr)", "net.ResolveUDPAddr(\"udp\", addr)"))
fire("c17-os-dial", "C17", "C17.net", ("client.go", "		if conn, err = nw.Dial(\"udp\", addr); err != nil {", "		if conn, err = net.Dial(\"udp\", addr); err != nil {"))

# D13 (first repaired by cutting Raw in Decode, 83ead49; that repair moved Check's scratch space onto the
# caller's next message when Raw is a window of a larger buffer, so it was replaced by 0a62791: the setters
# hash Raw[:20+Length]): pre-repair forms and near misses
fire("c04-D13-prefix-hmac-over-whole-raw", "C04", "C04.flow", ("integrity.go", "newHMAC(i, msg.Raw[:end], msg.Raw[len(msg.Raw):])", "newHMAC(i, msg.Raw, msg.Raw[len(msg.Raw):])"))
fire("c05-D13-prefix-crc-over-whole-raw", "C05", "C05.add", ("fingerprint.go", "FingerprintValue(m.Raw[:end])", "FingerprintValue(m.Raw)"))
fire("c04-hmac-span-from-bumped-length", "C04", "C04.flow", ("integrity.go", "	end := messageHeaderSize + int(length)\n", "	end := messageHeaderSize + int(msg.Length)\n"))
fire("c05-crc-span-one-short", "C05", "C05.add", ("fingerprint.go", "	end := messageHeaderSize + int(l)\n", "	end := messageHeaderSize + int(l) - 1\n"))
quiet("c05-crc-span-inline", "C05,C03,C07", ("fingerprint.go", "	end := messageHeaderSize + int(l)\n	m.grow(end)\n	val := FingerprintValue(m.Raw[:end])\n", "	m.grow(messageHeaderSize + int(l))\n	val := FingerprintValue(m.Raw[0 : int(l)+messageHeaderSize])\n"))
# D27, D28, D29 (second hunter round): pre-repair forms
fire("c08-D27-prefix-header-before-length-reset", "C08", "C08.reset", ("message.go", "	m.Length = 0\n	m.WriteHeader()\n	m.WriteAttributes()", "	m.WriteHeader()\n	m.Length = 0\n	m.WriteAttributes()"))
fire("c03-D28-prefix-tid-without-grow", "C03", "C03.hdrbounds", ("message.go", "	m.grow(messageHeaderSize)\n	copy(m.Raw[8:messageHeaderSize], m.TransactionID[:]) // transaction ID\n}\n\n// WriteAttributes", "	copy(m.Raw[8:messageHeaderSize], m.TransactionID[:]) // transaction ID\n}\n\n// WriteAttributes"))
fire("c03-writetype-grow-too-small", "C03", "C03.hdrbounds", ("message.go", "	m.grow(2)\n", "	m.grow(1)\n"))
fire("c17-D29-prefix-connected-socket-to-dtls", "C17", "C17.dtlsconn", ("client.go", "dtls.Client(dtlsnet.PacketConnFromConn(udpConn), udpConn.RemoteAddr(), &dtlsCfg)", "dtls.Client(udpConn, udpConn.RemoteAddr(), &dtlsCfg)"), ("client.go", "	dtlsnet \"github.com/pion/dtls/v3/pkg/net\"\n", ""))
# D30: pre-repair form (interface-to-interface conversion on the hot path)
fire("c20-D30-prefix-iface-conversion", "C20", "C20.ifaceconv", ("integrity.go", "	// Not writeOrPanic: converting mac to io.Writer allocates a runtime\n	// type-assertion cache entry at an unpredictable call.\n	if _, err := mac.Write(message); err != nil {\n		panic(err) //nolint\n	}\n", "	writeOrPanic(mac, message)\n"))
