fire("c10-handle-no-counter", "C10", "C10.once", ("client.go", "	if atomic.AddInt32(&t.calls, 1) == 1 {\n		t.h(e)\n	}", "	t.h(e)"))
fire("c10-start-no-calls-reset", "C10", "C10.init", ("client.go", "		t.calls = 0\n", ""))
fire("c10-write-error-no-handle", "C10", "C10.removal", ("client.go", "				Cause: writeErr,\n			}\n		}\n		transaction.handle(event)\n		putClientTransaction(transaction)\n", "				Cause: writeErr,\n			}\n		}\n		putClientTransaction(transaction)\n"))
fire("c10-start-write-error-no-delete", "C10", "C10.rollback", ("client.go", "		if !c.delete(msg.TransactionID) {\n			// Transaction is completed already (e.g. timed out or closed),\n			// so the handler got the outcome and must not get an error too.\n			return nil\n		}\n", ""))
# D11 (repaired by 79c26e2): the pre-repair form - the rollback is not confirmed before Start reports the write error
fire("c10-D11-prefix-unconfirmed-rollback", "C10", "C10.rollback", ("client.go", "		if !c.delete(msg.TransactionID) {\n			// Transaction is completed already (e.g. timed out or closed),\n			// so the handler got the outcome and must not get an error too.\n			return nil\n		}\n", "		c.delete(msg.TransactionID)\n"))
# the confirmation tested the wrong way round
fire("c10-rollback-confirmation-inverted", "C10", "C10.rollback", ("client.go", "		if !c.delete(msg.TransactionID) {\n			// Transaction is completed already", "		if c.delete(msg.TransactionID) {\n			// Transaction is completed already"))
fire("c10-do-wait-before-error-test", "C10", "C10.do", ("client.go", "	if err := c.Start(m, h.handler); err != nil {\n		return err\n	}\n	h.wait()\n\n	return nil", "	err := c.Start(m, h.handler)\n	h.wait()\n\n	return err"))
fire("c10-D4-prefix-no-rollback-on-agent-error", "C10", "C10.rollback", ("client.go", "		if err := c.a.Start(msg.TransactionID, d); err != nil {\n			if !c.delete(msg.TransactionID) {\n				// Transaction is completed already, see below.\n				return nil\n			}\n\n			return err", "		if err := c.a.Start(msg.TransactionID, d); err != nil {\n			return err"))
# D23 (repaired by 41e38f7): the pre-repair form of the agent-error rollback
fire("c10-D23-prefix-unconfirmed-rollback-agent-error", "C10", "C10.rollback", ("client.go", "			if !c.delete(msg.TransactionID) {\n				// Transaction is completed already, see below.\n				return nil\n			}\n", "			c.delete(msg.TransactionID)\n"))
# D14 (repaired by 0a7d316): the pre-repair forms of the two error branches of the retransmission path
fire("c10-D14-prefix-agent-start-branch", "C10", "C10.removal", ("client.go", "	if startErr := c.a.Start(id, timeOut); startErr != nil {\n		if !c.delete(id) {\n			// Transaction is completed already by someone else.\n			return\n		}\n", "	if startErr := c.a.Start(id, timeOut); startErr != nil {\n		c.delete(id)\n"))
fire("c10-D14-prefix-write-branch", "C10", "C10.removal", ("client.go", "	if writeErr != nil {\n		if !c.delete(id) {\n			// Transaction is completed already by someone else.\n			return\n		}\n", "	if writeErr != nil {\n		c.delete(id)\n"))
fire("c10-D5-prefix-early-return-when-closed", "C10", "C10.closed", ("client.go", "	c.mux.Lock()\n	closed := c.closed\n	transaction, found := c.t[event.TransactionID]", "	c.mux.Lock()\n	closed := c.closed\n	if closed {\n		c.mux.Unlock()\n\n		return\n	}\n	transaction, found := c.t[event.TransactionID]"))
fire("c10-wait-if-instead-of-for", "C10", "C10.do", ("client.go", "	for !s.processed {\n		s.cond.Wait()\n	}", "	if !s.processed {\n		s.cond.Wait()\n	}"))
fire("c10-double-handle", "C10", "C10.removal", ("client.go", "		// Transaction completed.\n		transaction.handle(event)\n", "		// Transaction completed.\n		transaction.handle(event)\n		transaction.handle(event)\n"))
fire("c10-retransmit-error-handle-while-registered", "C10", "C10.removal", ("client.go", "	if startErr := c.a.Start(id, timeOut); startErr != nil {\n		if !c.delete(id) {\n			// Transaction is completed already by someone else.\n			return\n		}\n", "	if startErr := c.a.Start(id, timeOut); startErr != nil {\n"))
quiet("c10-attempt-guard-commuted", "C10", ("client.go", "atomic.LoadInt32(&c.maxAttempts) <= transaction.attempt", "transaction.attempt >= atomic.LoadInt32(&c.maxAttempts)"))
quiet("c10-start-reorder-inits", "C10", ("client.go", "		t.id = msg.TransactionID\n		t.start = c.clock.Now()\n		t.h = handler\n", "		t.h = handler\n		t.start = c.clock.Now()\n		t.id = msg.TransactionID\n"))
seeded("seed-C10-A", "C10", "C10.init", "seeded/C10-A/patch.diff")
seeded("seed-C10-B", "C10", "C10.do", "seeded/C10-B/patch.diff")
seeded("seed-C12-A-in-C10", "C10", "C10.removal", "seeded/C12-A/patch.diff")
