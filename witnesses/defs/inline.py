# helper normalisation (inline.go): violations placed inside NEW unexported helpers must be seen
# through the helper; behaviour-preserving extractions must stay quiet.
fire("inl-c14-unlocked-read-in-helper", "C14", "C14.lockset",
     ("agent.go", "func (a *Agent) Start(id [TransactionIDSize]byte, deadline time.Time) error {\n	a.mux.Lock()\n	defer a.mux.Unlock()\n	if a.closed {\n		return ErrAgentClosed\n	}",
      "func (a *Agent) isClosed() bool { return a.closed }\n\nfunc (a *Agent) Start(id [TransactionIDSize]byte, deadline time.Time) error {\n	if a.isClosed() {\n		return ErrAgentClosed\n	}\n	a.mux.Lock()\n	defer a.mux.Unlock()"))
quiet("inl-c14-locked-read-in-helper", "C13,C14",
     ("agent.go", "func (a *Agent) Start(id [TransactionIDSize]byte, deadline time.Time) error {\n	a.mux.Lock()\n	defer a.mux.Unlock()\n	if a.closed {\n		return ErrAgentClosed\n	}",
      "func (a *Agent) isClosed() bool { return a.closed }\n\nfunc (a *Agent) Start(id [TransactionIDSize]byte, deadline time.Time) error {\n	a.mux.Lock()\n	defer a.mux.Unlock()\n	if a.isClosed() {\n		return ErrAgentClosed\n	}"))
fire("inl-c03-padding-helper-skips-last-byte", "C03", "C03.padzero",
     ("message.go", "		for i := range buf {\n			buf[i] = 0\n		}\n		m.Raw = m.Raw[:last] // increasing buffer length", "		clearPad(buf)\n		m.Raw = m.Raw[:last] // increasing buffer length"),
     ("message.go", "// Add appends new attribute to message. Not goroutine-safe.", "func clearPad(b []byte) {\n	for i := 1; i < len(b); i++ {\n		b[i] = 0\n	}\n}\n\n// Add appends new attribute to message. Not goroutine-safe."))
quiet("inl-c03-padding-helper", "C03,C08,C20",
     ("message.go", "		for i := range buf {\n			buf[i] = 0\n		}\n		m.Raw = m.Raw[:last] // increasing buffer length", "		clearPad(buf)\n		m.Raw = m.Raw[:last] // increasing buffer length"),
     ("message.go", "// Add appends new attribute to message. Not goroutine-safe.", "func clearPad(b []byte) {\n	for i := range b {\n		b[i] = 0\n	}\n}\n\n// Add appends new attribute to message. Not goroutine-safe."))
fire("inl-c20-allocating-helper", "C20", "C20.alloc",
     ("message.go", "		buf = m.Raw[last-bytesToAdd : last]\n		for i := range buf {\n			buf[i] = 0\n		}", "		buf = m.Raw[last-bytesToAdd : last]\n		copy(buf, zeroes(bytesToAdd))"),
     ("message.go", "// Add appends new attribute to message. Not goroutine-safe.", "func zeroes(n int) []byte {\n	return make([]byte, n)\n}\n\n// Add appends new attribute to message. Not goroutine-safe."))
fire("inl-c15-helper-skips-wait", "C15", "C15.join",
     ("client.go", "	close(c.close)\n	c.wg.Wait()\n	if agentErr == nil && connErr == nil {", "	c.stopReader(agentErr != nil)\n	if agentErr == nil && connErr == nil {"),
     ("client.go", "// Indicate sends indication m to server.", "func (c *Client) stopReader(failed bool) {\n	close(c.close)\n	if failed {\n		return\n	}\n	c.wg.Wait()\n}\n\n// Indicate sends indication m to server."))
quiet("inl-c15-helper-stops-and-waits", "C10,C15",
     ("client.go", "	close(c.close)\n	c.wg.Wait()\n	if agentErr == nil && connErr == nil {", "	c.stopReader()\n	if agentErr == nil && connErr == nil {"),
     ("client.go", "// Indicate sends indication m to server.", "func (c *Client) stopReader() {\n	close(c.close)\n	c.wg.Wait()\n}\n\n// Indicate sends indication m to server."))
