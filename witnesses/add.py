#!/usr/bin/env python3
# helper: add.py appends witnesses defined in python files under defs/ into witnesses.json
import json, glob, os
here=os.path.dirname(os.path.abspath(__file__))
W=[]
def fire(name, prop, rule, *edits, **kw):
    W.append(dict(name=name, prop=prop, kind="fire", expect_rule=rule, edits=[dict(file=e[0], old=e[1], new=e[2], all=(len(e)>3 and e[3])) for e in edits], **kw))
def quiet(name, prop, *edits, **kw):
    W.append(dict(name=name, prop=prop, kind="quiet", edits=[dict(file=e[0], old=e[1], new=e[2], all=(len(e)>3 and e[3])) for e in edits], **kw))
def seeded(name, prop, rule, patch, **kw):
    W.append(dict(name=name, prop=prop, kind="fire", expect_rule=rule, patch=patch, edits=[], **kw))
def refactor(name, patch, **kw):
    W.append(dict(name=name, prop="all", kind="quiet", patch=patch, edits=[], **kw))
for f in sorted(glob.glob(os.path.join(here,"defs","*.py"))):
    exec(open(f).read())
names=[w["name"] for w in W]
assert len(names)==len(set(names)), [n for n in names if names.count(n)>1]
json.dump(W, open(os.path.join(here,"witnesses.json"),"w"), indent=1)
print(len(W),"witnesses")
