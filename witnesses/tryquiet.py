#!/usr/bin/env python3
"""Runs externally written behaviour-preserving patches: applies each to a scratch copy of /repo,
runs the pinned suite there, then all 20 checks; reports false alarms.  usage: tryquiet.py <patch>..."""
import os, shutil, subprocess, sys, tempfile, concurrent.futures
ENV=dict(os.environ, GOFLAGS="-mod=mod", GOPROXY="off", GOSUMDB="off", GOTOOLCHAIN="local"); ENV.pop("GOWORK",None)
def one(patch):
    d=tempfile.mkdtemp(prefix="stunq-", dir="/root")
    try:
        dst=os.path.join(d,"repo"); shutil.copytree("/repo",dst,ignore=shutil.ignore_patterns(".git"))
        r=subprocess.run(["patch","-p1","-s","-i",patch],cwd=dst,capture_output=True,text=True)
        if r.returncode: return patch,"NOAPPLY",r.stdout[:200]
        t=subprocess.run("go build ./... && go test -vet=off -count=1 ./... 2>&1 | tail -5 && go test -vet=off -count=1 -tags debug . 2>&1 | tail -2",cwd=dst,env=ENV,shell=True,capture_output=True,text=True)
        if "FAIL" in t.stdout or t.returncode: return patch,"TESTFAIL",t.stdout[-300:]+t.stderr[-300:]
        r=subprocess.run(["/verif/bin/stunlint","-prop","all","-tier","quick","-repo",dst,"-no-evidence"],capture_output=True,text=True,env=ENV)
        out=r.stdout.replace(dst+"/","")
        if r.returncode==0: return patch,"QUIET",""
        return patch,"ALARM"," | ".join(l[:230] for l in out.splitlines() if "[C" in l)[:1500]
    finally:
        shutil.rmtree(d,ignore_errors=True)
with concurrent.futures.ThreadPoolExecutor(max_workers=5) as ex:
    for p,st,msg in ex.map(one, sys.argv[1:]):
        print("%-9s %s %s"%(st,p,msg),flush=True)
