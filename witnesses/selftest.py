#!/usr/bin/env python3
"""Self test of the checker, both ways.

witnesses.json: list of {name, prop, kind: fire|quiet, expect_rule (for fire), edits:[{file, old, new}]}
Each witness is applied to a scratch copy of /repo (outside /repo and /verif), the owning
property's check is run on the copy (-repo, -no-evidence) and the copy is removed.
fire: exit 1 and a report of expect_rule.   quiet: exit 0 (behaviour-preserving edit).
A witness whose context no longer exists is skipped (never a verdict on /repo).
usage: selftest.py [-k substring] [-p PROP] [-j N]
"""
import json, os, shutil, subprocess, sys, tempfile, concurrent.futures, argparse

VERIF = os.path.dirname(os.path.dirname(os.path.abspath(__file__)))
REPO = os.environ.get("STUN_REPO", "/repo")
ENV = dict(os.environ, GOFLAGS="-mod=mod", GOPROXY="off", GOSUMDB="off", GOTOOLCHAIN="local")
ENV.pop("GOWORK", None)

def run_one(w):
    d = tempfile.mkdtemp(prefix="stunwit-", dir=os.environ.get("SCRATCH", "/root"))
    try:
        dst = os.path.join(d, "repo")
        shutil.copytree(REPO, dst, ignore=shutil.ignore_patterns(".git"))
        for e in w.get("edits", []):
            p = os.path.join(dst, e["file"])
            s = open(p).read()
            if s.count(e["old"]) < 1:
                return (w, "SKIP", "context not found in " + e["file"])
            s = s.replace(e["old"], e["new"], 1 if not e.get("all") else -1)
            open(p, "w").write(s)
        if w.get("patch"):
            r = subprocess.run(["patch", "-p1", "-s", "-i", os.path.join(VERIF, w["patch"])], cwd=dst, capture_output=True, text=True)
            if r.returncode != 0:
                return (w, "SKIP", "patch does not apply")
        b = subprocess.run(["go", "build", "./..."], cwd=dst, env=ENV, capture_output=True, text=True)
        if b.returncode != 0:
            return (w, "BROKEN", "witness does not compile: " + b.stderr[:300])
        tier = w.get("tier", "quick")
        r = subprocess.run([os.path.join(VERIF, "bin/stunlint"), "-prop", w["prop"], "-tier", tier, "-repo", dst, "-no-evidence"],
                           capture_output=True, text=True, env=ENV)
        out = r.stdout.replace(dst + "/", "")
        if w["kind"] == "fire":
            rule = w.get("expect_rule", "")
            hit = [l for l in out.splitlines() if "[" + rule in l] if rule else []
            if r.returncode == 1 and (hit or not rule):
                return (w, "OK", (hit[0] if hit else "fired")[:200])
            return (w, "MISS", "exit=%d; wanted rule %s; got: %s" % (r.returncode, rule, " | ".join(l[:160] for l in out.splitlines() if l.startswith(("VIOL",)) or "[C" in l)[:600]))
        else:
            if r.returncode == 0 and "VIOLATION" not in out:
                return (w, "OK", "quiet")
            return (w, "FALSE-ALARM", " | ".join(l[:200] for l in out.splitlines() if "[C" in l)[:800])
    finally:
        shutil.rmtree(d, ignore_errors=True)

def main():
    ap = argparse.ArgumentParser()
    ap.add_argument("-k", default="")
    ap.add_argument("-p", default="")
    ap.add_argument("-j", type=int, default=6)
    ap.add_argument("--json", default="")
    a = ap.parse_args()
    ws = json.load(open(os.path.join(VERIF, "witnesses", "witnesses.json")))
    ws = [w for w in ws if a.k in w["name"] and (not a.p or w["prop"] == a.p or a.p in w["prop"].split(","))]
    res = []
    with concurrent.futures.ThreadPoolExecutor(max_workers=a.j) as ex:
        for w, st, msg in ex.map(run_one, ws):
            print("%-11s %-4s %-5s %-40s %s" % (st, w["prop"], w["kind"], w["name"], msg), flush=True)
            res.append({"name": w["name"], "prop": w["prop"], "kind": w["kind"], "status": st, "detail": msg})
    bad = [r for r in res if r["status"] in ("MISS", "FALSE-ALARM", "BROKEN")]
    print("witnesses: %d run, %d ok, %d skipped, %d failed" % (len(res), sum(r["status"] == "OK" for r in res), sum(r["status"] == "SKIP" for r in res), len(bad)))
    if a.json:
        json.dump(res, open(a.json, "w"), indent=1)
    sys.exit(1 if bad else 0)

if __name__ == "__main__":
    main()
