package main

import (
	"go/types"
	"sort"

	"golang.org/x/tools/go/callgraph"
	"golang.org/x/tools/go/callgraph/cha"
	"golang.org/x/tools/go/callgraph/vta"
	"golang.org/x/tools/go/ssa"
	"golang.org/x/tools/go/ssa/ssautil"
)

// CallSite is one call, go or defer instruction with its resolved callees.
type CallSite struct {
	Caller   *ssa.Function
	Instr    ssa.CallInstruction
	Callees  []*ssa.Function // module functions that may be called
	External []*ssa.Function // resolved callees outside the module
	// ExtIface is set for an interface method call that may dispatch outside
	// the module (e.g. hash.Hash.Write): "pkg.Iface.Method".
	ExtIface string
	// Dynamic: call of a function value that is not a literal closure (field, parameter, result).
	Dynamic bool
}

// CallGraph: per function call sites plus function-value references.
type CallGraph struct {
	p     *Prog
	Sites map[*ssa.Function][]*CallSite
	Refs  map[*ssa.Function][]*ssa.Function // functions whose value is taken (closures, bound methods)
	vta   *callgraph.Graph
}

func (p *Prog) CG() *CallGraph {
	if p.cg != nil {
		return p.cg
	}
	g := &CallGraph{p: p, Sites: map[*ssa.Function][]*CallSite{}, Refs: map[*ssa.Function][]*ssa.Function{}}
	p.cg = g
	for _, f := range p.Funcs() {
		g.build(f)
	}
	return g
}

func (g *CallGraph) build(f *ssa.Function) {
	for _, b := range f.Blocks {
		for _, in := range b.Instrs {
			// function values referenced
			var ops []*ssa.Value
			ops = in.Operands(ops)
			for _, o := range ops {
				if o == nil || *o == nil {
					continue
				}
				switch v := (*o).(type) {
				case *ssa.Function:
					if ci, ok := in.(ssa.CallInstruction); ok && ci.Common().Value == v {
						continue // direct call, not a reference
					}
					g.Refs[f] = append(g.Refs[f], v)
				case *ssa.MakeClosure:
					if fn, ok := v.Fn.(*ssa.Function); ok {
						g.Refs[f] = append(g.Refs[f], fn)
					}
				}
			}
			if mc, ok := in.(*ssa.MakeClosure); ok {
				if fn, ok := mc.Fn.(*ssa.Function); ok {
					g.Refs[f] = append(g.Refs[f], fn)
				}
			}
			ci, ok := in.(ssa.CallInstruction)
			if !ok {
				continue
			}
			cs := &CallSite{Caller: f, Instr: ci}
			cc := ci.Common()
			switch {
			case cc.IsInvoke():
				g.resolveInvoke(cs, cc)
			default:
				if sc := cc.StaticCallee(); sc != nil {
					g.addCallee(cs, sc)
				} else if _, isB := cc.Value.(*ssa.Builtin); isB {
					// builtin: no callee
				} else {
					// closure created locally and called through a phi etc.
					cs.Dynamic = true
				}
			}
			g.Sites[f] = append(g.Sites[f], cs)
		}
	}
}

func (g *CallGraph) addCallee(cs *CallSite, fn *ssa.Function) {
	if fn == nil {
		return
	}
	// unwrap synthetic wrappers/bound thunks to the declared function when possible
	if fn.Pkg != nil && g.p.isModulePkg(fn.Pkg.Pkg) || (fn.Pkg == nil && fn.Object() != nil && g.p.isModulePkg(fn.Object().Pkg())) {
		if fn.Synthetic != "" && fn.Object() != nil {
			if fo, ok := fn.Object().(*types.Func); ok {
				if df := g.p.SSA.FuncValue(fo); df != nil && df.Synthetic == "" {
					fn = df
				}
			}
		}
		for _, c := range cs.Callees {
			if c == fn {
				return
			}
		}
		cs.Callees = append(cs.Callees, fn)
		return
	}
	if fn.Parent() != nil { // anonymous function inside a module function
		cs.Callees = append(cs.Callees, fn)
		return
	}
	cs.External = append(cs.External, fn)
}

func (g *CallGraph) resolveInvoke(cs *CallSite, cc *ssa.CallCommon) {
	iface, ok := cc.Value.Type().Underlying().(*types.Interface)
	if !ok {
		cs.Dynamic = true
		return
	}
	impls := g.p.Implementers(iface)
	for _, t := range impls {
		sel := g.p.SSA.MethodSets.MethodSet(t).Lookup(cc.Method.Pkg(), cc.Method.Name())
		if sel == nil {
			continue
		}
		fn := g.p.SSA.MethodValue(sel)
		if fn != nil {
			g.addCallee(cs, fn)
		}
	}
	// May the interface be implemented outside the module? Interfaces declared in
	// the module with only module implementers and used as API parameters (Setter,
	// Getter, Checker, Connection, ClientAgent, Collector, Clock) can be implemented
	// by users: those are the property's "preconditions" and are leaves. Interfaces
	// declared outside the module (hash.Hash, io.Reader, net.Conn...) dispatch externally.
	name := cc.Method.Name()
	tn := ""
	if n, ok := cc.Value.Type().(*types.Named); ok {
		if n.Obj().Pkg() != nil {
			tn = n.Obj().Pkg().Name() + "." + n.Obj().Name()
		} else {
			tn = n.Obj().Name()
		}
		if !g.p.isModulePkg(n.Obj().Pkg()) || len(cs.Callees) == 0 {
			cs.ExtIface = tn + "." + name
		}
	} else {
		cs.ExtIface = "interface." + name
	}
}

// WithVTA refines Dynamic call sites using the VTA call graph (thorough tier).
func (g *CallGraph) WithVTA() {
	if g.vta != nil {
		return
	}
	all := ssautil.AllFunctions(g.p.SSA)
	g.vta = vta.CallGraph(all, cha.CallGraph(g.p.SSA))
	for f, sites := range g.Sites {
		node := g.vta.Nodes[f]
		if node == nil {
			continue
		}
		for _, cs := range sites {
			if !cs.Dynamic {
				continue
			}
			for _, e := range node.Out {
				if e.Site == cs.Instr {
					g.addCallee(cs, e.Callee.Func)
				}
			}
		}
	}
}

// Closure returns the set of module functions reachable from the entries through
// calls and function-value references (restricted by keep, if non-nil).
func (g *CallGraph) Closure(entries []*ssa.Function, keep func(*ssa.Function) bool) []*ssa.Function {
	seen := map[*ssa.Function]bool{}
	var order []*ssa.Function
	var visit func(f *ssa.Function)
	visit = func(f *ssa.Function) {
		if f == nil || seen[f] {
			return
		}
		if keep != nil && !keep(f) {
			return
		}
		if f.Blocks == nil {
			return
		}
		seen[f] = true
		order = append(order, f)
		for _, cs := range g.Sites[f] {
			for _, c := range cs.Callees {
				visit(c)
			}
		}
		for _, rf := range g.Refs[f] {
			visit(rf)
		}
	}
	for _, e := range entries {
		visit(e)
	}
	sort.SliceStable(order, func(i, j int) bool { return fnName(order[i]) < fnName(order[j]) })
	return order
}

// isModuleFn reports whether fn belongs to the module (including anonymous functions).
func (p *Prog) isModuleFn(fn *ssa.Function) bool {
	for fn != nil && fn.Parent() != nil {
		fn = fn.Parent()
	}
	if fn == nil {
		return false
	}
	if fn.Pkg != nil {
		return p.isModulePkg(fn.Pkg.Pkg)
	}
	if fn.Object() != nil {
		return p.isModulePkg(fn.Object().Pkg())
	}
	return false
}

func (p *Prog) isLibFn(fn *ssa.Function) bool {
	for fn != nil && fn.Parent() != nil {
		fn = fn.Parent()
	}
	if fn == nil {
		return false
	}
	if fn.Pkg != nil {
		return p.isLibPkg(fn.Pkg.Pkg)
	}
	if fn.Object() != nil {
		return p.isLibPkg(fn.Object().Pkg())
	}
	return false
}

// SCCs returns the strongly connected components with more than one member or a self loop
// among the given functions (call edges only, not references).
func (g *CallGraph) Cycles(fns []*ssa.Function) [][]*ssa.Function {
	in := map[*ssa.Function]bool{}
	for _, f := range fns {
		in[f] = true
	}
	index := map[*ssa.Function]int{}
	low := map[*ssa.Function]int{}
	on := map[*ssa.Function]bool{}
	var stack []*ssa.Function
	var out [][]*ssa.Function
	n := 0
	var strong func(v *ssa.Function)
	strong = func(v *ssa.Function) {
		index[v] = n
		low[v] = n
		n++
		stack = append(stack, v)
		on[v] = true
		self := false
		for _, cs := range g.Sites[v] {
			if cc := cs.Instr.Common(); cc.IsInvoke() && cc.Method.Name() == "Error" && types.Identical(cc.Value.Type(), types.Universe.Lookup("error").Type()) {
				// err.Error() on an error value: nesting is bounded by the wrapping depth of the value, not by control flow
				continue
			}
			for _, w := range cs.Callees {
				if !in[w] {
					continue
				}
				if w == v {
					self = true
				}
				if _, ok := index[w]; !ok {
					strong(w)
					if low[w] < low[v] {
						low[v] = low[w]
					}
				} else if on[w] && index[w] < low[v] {
					low[v] = index[w]
				}
			}
		}
		if low[v] == index[v] {
			var comp []*ssa.Function
			for {
				w := stack[len(stack)-1]
				stack = stack[:len(stack)-1]
				on[w] = false
				comp = append(comp, w)
				if w == v {
					break
				}
			}
			if len(comp) > 1 || self {
				out = append(out, comp)
			}
		}
	}
	for _, f := range fns {
		if _, ok := index[f]; !ok {
			strong(f)
		}
	}
	return out
}
