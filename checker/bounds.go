package main

import (
	"fmt"
	"go/token"
	"go/types"
	"strings"

	"golang.org/x/tools/go/ssa"
)

// Obligation is one bounds obligation of an instruction.
type Obligation struct {
	In    ssa.Instruction
	Desc  string // source-like construct, line independent: "value[2:4]"
	Canon string // same with parameters named by position (used to match justified entries)
	Kind  string // slice, index, accessor, xor, div
	Base  ssa.Value
	Goals []Goal
	// CapIdiom: x[:cap(x)] (accepted re-slice to capacity)
	CapIdiom bool
}

var accessorWidth = map[string]int64{
	"Uint16": 2, "PutUint16": 2, "Uint32": 4, "PutUint32": 4, "Uint64": 8, "PutUint64": 8,
}

// accessorCall: binary.BigEndian/LittleEndian fixed-width accessor; returns width and the buffer argument.
func accessorCall(in ssa.Instruction) (name string, width int64, buf ssa.Value, ok bool) {
	c, isCall := in.(ssa.CallInstruction)
	if !isCall {
		return "", 0, nil, false
	}
	sc := c.Common().StaticCallee()
	if sc == nil || sc.Pkg == nil || sc.Pkg.Pkg.Path() != "encoding/binary" || sc.Signature.Recv() == nil {
		return "", 0, nil, false
	}
	w, okw := accessorWidth[sc.Name()]
	if !okw {
		return "", 0, nil, false
	}
	args := c.Common().Args
	if len(args) < 2 {
		return "", 0, nil, false
	}
	return sc.Name(), w, args[1], true
}

// boundsObligations enumerates the len-bounded obligations of fn.
func boundsObligations(pr *Prover, fn *ssa.Function) []Obligation {
	var out []Obligation
	eachInstr(fn, func(b *ssa.BasicBlock, i int, in ssa.Instruction) {
		switch x := in.(type) {
		case *ssa.Slice:
			ob := Obligation{In: x, Desc: exprDepth(x, 0), Canon: exprCanon(x), Kind: "slice", Base: x.X}
			length := pr.lenOfOperand(x.X)
			// cap idiom
			if x.Low == nil && x.High != nil {
				if c, ok := x.High.(*ssa.Call); ok && isBuiltinCall(c, "cap") {
					if pr.K.Key(c.Call.Args[0]) == pr.K.Key(x.X) {
						ob.CapIdiom = true
						out = append(out, ob)
						return
					}
				}
			}
			if x.Low != nil {
				ob.Goals = append(ob.Goals, Goal{X: nil, Y: x.Low, C: 0, Desc: "0 <= lo"})
			}
			if x.High != nil {
				l := length
				ob.Goals = append(ob.Goals, Goal{X: x.High, YL: &l, C: 0, Desc: "hi <= len", extra: []ssa.Value{x.X}})
				if x.Low != nil {
					ob.Goals = append(ob.Goals, Goal{X: x.Low, Y: x.High, C: 0, Desc: "lo <= hi"})
				} else {
					ob.Goals = append(ob.Goals, Goal{X: nil, Y: x.High, C: 0, Desc: "0 <= hi"})
				}
			} else if x.Low != nil {
				l := length
				ob.Goals = append(ob.Goals, Goal{X: x.Low, YL: &l, C: 0, Desc: "lo <= len", extra: []ssa.Value{x.X}})
			}
			if x.Max != nil {
				ob.Goals = append(ob.Goals, Goal{X: x.Max, YL: &lin{"cap(" + pr.K.Key(x.X) + ")", 0}, C: 0, Desc: "max <= cap"})
			}
			out = append(out, ob)
		case *ssa.IndexAddr:
			ob := Obligation{In: x, Desc: exprDepth(x, 0), Canon: exprCanon(x), Kind: "index", Base: x.X}
			l := pr.lenOfOperand(x.X)
			ob.Goals = append(ob.Goals, Goal{X: nil, Y: x.Index, C: 0, Desc: "0 <= i"},
				Goal{X: x.Index, YL: &l, C: -1, Desc: "i < len", extra: []ssa.Value{x.X}})
			out = append(out, ob)
		case *ssa.Index:
			ob := Obligation{In: x, Desc: exprDepth(x, 0), Canon: exprCanon(x), Kind: "index", Base: x.X}
			l := pr.lenOfOperand(x.X)
			ob.Goals = append(ob.Goals, Goal{X: nil, Y: x.Index, C: 0, Desc: "0 <= i"},
				Goal{X: x.Index, YL: &l, C: -1, Desc: "i < len", extra: []ssa.Value{x.X}})
			out = append(out, ob)
		case *ssa.Lookup:
			if _, isStr := x.X.Type().Underlying().(*types.Basic); isStr {
				ob := Obligation{In: x, Desc: exprDepth(x, 0), Canon: exprCanon(x), Kind: "index", Base: x.X}
				l := pr.lenOfOperand(x.X)
				ob.Goals = append(ob.Goals, Goal{X: nil, Y: x.Index, C: 0, Desc: "0 <= i"},
					Goal{X: x.Index, YL: &l, C: -1, Desc: "i < len", extra: []ssa.Value{x.X}})
				out = append(out, ob)
			}
		case *ssa.BinOp:
			if (x.Op == token.QUO || x.Op == token.REM) && isIntType(x.Type()) {
				if c, ok := constInt(x.Y); ok && c != 0 {
					return
				}
				ob := Obligation{In: x, Desc: exprDepth(x, 0), Kind: "div", Base: x.Y}
				ob.Goals = append(ob.Goals, Goal{X: nil, Y: x.Y, C: -1, Desc: "0 < divisor"})
				out = append(out, ob)
			}
		default:
			if name, w, buf, ok := accessorCall(in); ok {
				if _, isDefer := in.(*ssa.Defer); isDefer {
					return
				}
				ob := Obligation{In: in, Desc: fmt.Sprintf("%s(%s)", name, exprDepth(buf, 0)), Kind: "accessor", Base: buf}
				l := pr.linLen(buf, "len")
				ob.Goals = append(ob.Goals, Goal{XL: &lin{zeroTerm, w}, YL: &l, C: 0, Desc: fmt.Sprintf("%d <= len(buf)", w), extra: []ssa.Value{buf}})
				out = append(out, ob)
				return
			}
			if isPkgFuncCall(in, "github.com/pion/transport/v3/utils/xor", "XorBytes") {
				args := callArgs(in)
				if len(args) == 3 {
					ob := Obligation{In: in, Desc: fmt.Sprintf("XorBytes(%s, %s, %s)", exprDepth(args[0], 0), exprDepth(args[1], 0), exprDepth(args[2], 0)), Kind: "xor", Base: args[1]}
					ob.Goals = []Goal{{Desc: "min(len(a),len(b)) <= len(dst)"}}
					out = append(out, ob)
				}
			}
		}
	})
	return out
}

// dischargeObligation proves all goals of ob. It returns per-goal results.
func dischargeObligation(pr *Prover, ob Obligation) (ok bool, trivial bool, failed string, facts []string) {
	if ob.CapIdiom {
		return true, true, "", []string{"x[:cap(x)] re-slice to capacity (accepted idiom)"}
	}
	if ob.Kind == "xor" {
		args := callArgs(ob.In)
		dst := pr.linLen(args[0], "len")
		for _, src := range []ssa.Value{args[1], args[2]} {
			r := pr.Prove(ob.In, Goal{XL: ptrLin(pr.linLen(src, "len")), YL: &dst, C: 0, extra: []ssa.Value{args[0], src}})
			if r.OK {
				return true, r.Trivial, "", r.Facts
			}
		}
		return false, false, "min(len(a),len(b)) <= len(dst)", nil
	}
	trivial = true
	for _, g := range ob.Goals {
		r := pr.Prove(ob.In, g)
		if !r.OK {
			return false, false, g.Desc + " i.e. " + r.Goal, nil
		}
		if !r.Trivial {
			trivial = false
		}
		facts = append(facts, r.Facts...)
	}
	if len(facts) > 6 {
		facts = facts[:6]
	}
	return true, trivial, "", facts
}

func ptrLin(l lin) *lin { return &l }

// panicConstructs lists explicit panic sources other than bounds (explicit panic, unchecked type
// assertion, nil-map store is not detectable, channel operations).
type panicSite struct {
	In   ssa.Instruction
	Desc string
}

func panicConstructs(fn *ssa.Function) []panicSite {
	var out []panicSite
	eachInstr(fn, func(b *ssa.BasicBlock, i int, in ssa.Instruction) {
		switch x := in.(type) {
		case *ssa.Panic:
			out = append(out, panicSite{in, "panic(" + exprDepth(x.X, 0) + ")"})
		case *ssa.TypeAssert:
			if !x.CommaOk {
				out = append(out, panicSite{in, "unchecked type assertion " + exprDepth(x.X, 0) + ".(" + typeShort(x.AssertedType) + ")"})
			}
		case *ssa.Send:
			out = append(out, panicSite{in, "channel send"})
		case *ssa.SliceToArrayPointer:
			out = append(out, panicSite{in, "slice to array pointer conversion"})
		case *ssa.Call:
			if isBuiltinCall(x, "close") {
				out = append(out, panicSite{in, "close(channel)"})
			}
		}
	})
	return out
}

// messageDerived reports whether the slice value derives from message bytes: a load of
// Message.Raw, a RawAttribute.Value, the result of (*Message).Get / Attributes.Get, or a data parameter.
func messageDerived(v ssa.Value, depth int) bool {
	if v == nil || depth > 8 {
		return false
	}
	switch x := v.(type) {
	case *ssa.Slice:
		return messageDerived(x.X, depth+1)
	case *ssa.Phi:
		for _, e := range x.Edges {
			if messageDerived(e, depth+1) {
				return true
			}
		}
	case *ssa.UnOp:
		if x.Op == token.MUL {
			if _, fv := addrField(x.X); fv != nil {
				if fv.Name() == "Raw" || fv.Name() == "Value" {
					return true
				}
			}
			if fa, ok := x.X.(*ssa.FieldAddr); ok {
				if a, ok := fa.X.(*ssa.Alloc); ok {
					if fv, _ := localFieldValue(a, fa.Field, x, 0); fv != nil {
						return messageDerived(fv, depth+1)
					}
				}
			}
		}
	case *ssa.Extract:
		if c, ok := x.Tuple.(*ssa.Call); ok {
			if sc := c.Call.StaticCallee(); sc != nil && sc.Name() == "Get" && strings.Contains(sc.String(), modulePath) {
				return true
			}
		}
	case *ssa.Parameter:
		if s, ok := x.Type().Underlying().(*types.Slice); ok {
			if b, ok := s.Elem().Underlying().(*types.Basic); ok && b.Kind() == types.Byte {
				// an unexported helper's parameter is what its library callers pass; an exported
				// function's data parameter is (possibly) message data
				if args, known := callerArgsOf(x); known {
					for _, a := range args {
						if messageDerived(a, depth+1) {
							return true
						}
					}
					return false
				}
				return true
			}
		}
	case *ssa.ChangeType:
		return messageDerived(x.X, depth+1)
	case *ssa.Field:
		if st, ok := x.X.Type().Underlying().(*types.Struct); ok && st.Field(x.Field).Name() == "Value" {
			return true
		}
	}
	return false
}

// callerArgsOf: for a parameter of an unexported, non-method-value library function, the arguments
// passed at all its static call sites in the module; known=false when the function is exported, is
// never called statically, or its address is taken.
var callerProg *Prog

func callerArgsOf(pa *ssa.Parameter) ([]ssa.Value, bool) {
	fn := pa.Parent()
	if fn != nil && fn.Parent() != nil && fn.Object() == nil {
		// a function literal: its parameters are what the calls of that literal in the enclosing
		// function pass (only when the literal is used nowhere but as the callee of those calls)
		idx := paramIndex(fn, pa)
		var out []ssa.Value
		okAll := idx >= 0
		eachInstr(fn.Parent(), func(b *ssa.BasicBlock, i int, in ssa.Instruction) {
			if c, isC := in.(ssa.CallInstruction); isC {
				cc := c.Common()
				callee := cc.Value
				if mc, isMC := callee.(*ssa.MakeClosure); isMC {
					callee = mc.Fn
				}
				if callee == ssa.Value(fn) && idx < len(cc.Args) {
					out = append(out, cc.Args[idx])
				}
			}
		})
		// any other use of the literal (stored, passed on) makes its arguments unknown
		check := func(v ssa.Value) {
			if refs := v.Referrers(); refs != nil {
				for _, u := range *refs {
					switch y := u.(type) {
					case ssa.CallInstruction:
						if y.Common().Value != v {
							okAll = false
						}
					case *ssa.DebugRef:
					default:
						okAll = false
					}
				}
			}
		}
		eachInstr(fn.Parent(), func(b *ssa.BasicBlock, i int, in ssa.Instruction) {
			if mc, isMC := in.(*ssa.MakeClosure); isMC && mc.Fn == ssa.Value(fn) {
				check(mc)
			}
		})
		return out, okAll && len(out) > 0
	}
	if fn == nil || callerProg == nil || fn.Object() == nil || fn.Object().Exported() {
		return nil, false
	}
	idx := -1
	for i, q := range fn.Params {
		if q == pa {
			idx = i
		}
	}
	if idx < 0 {
		return nil, false
	}
	var out []ssa.Value
	for _, caller := range callerProg.Funcs() {
		for _, r := range callerProg.CG().Refs[caller] {
			if r == fn {
				return nil, false
			}
		}
		eachInstr(caller, func(b *ssa.BasicBlock, i int, in ssa.Instruction) {
			if c, ok := in.(ssa.CallInstruction); ok && c.Common().StaticCallee() == fn && idx < len(c.Common().Args) {
				out = append(out, c.Common().Args[idx])
			}
		})
	}
	return out, len(out) > 0
}
