package main

import (
	"fmt"
	"go/token"
	"go/types"
	"strings"

	"golang.org/x/tools/go/ssa"
)

func init() { register("C13", "other", runC13) }

// blockReach: blocks reachable from b (inclusive).
func blockReach(b *ssa.BasicBlock) map[*ssa.BasicBlock]bool {
	seen := map[*ssa.BasicBlock]bool{}
	stack := []*ssa.BasicBlock{b}
	for len(stack) > 0 {
		n := stack[len(stack)-1]
		stack = stack[:len(stack)-1]
		if seen[n] {
			continue
		}
		seen[n] = true
		stack = append(stack, n.Succs...)
	}
	return seen
}

// ifOn finds If instructions in fn whose condition is (a possibly negated) value satisfying pred.
// It returns for each the successor taken when the value is true and when it is false.
type condIf struct {
	If      *ssa.If
	OnTrue  *ssa.BasicBlock
	OnFalse *ssa.BasicBlock
	Val     ssa.Value
}

func ifsOn(fn *ssa.Function, pred func(v ssa.Value) bool) []condIf {
	var out []condIf
	for _, b := range fn.Blocks {
		if len(b.Instrs) == 0 {
			continue
		}
		iff, ok := b.Instrs[len(b.Instrs)-1].(*ssa.If)
		if !ok {
			continue
		}
		c := iff.Cond
		pol := true
		for {
			if u, ok := c.(*ssa.UnOp); ok && u.Op == token.NOT {
				pol = !pol
				c = u.X
				continue
			}
			break
		}
		if !pred(c) {
			continue
		}
		ci := condIf{If: iff, Val: c}
		if pol {
			ci.OnTrue, ci.OnFalse = b.Succs[0], b.Succs[1]
		} else {
			ci.OnTrue, ci.OnFalse = b.Succs[1], b.Succs[0]
		}
		out = append(out, ci)
	}
	return out
}

// sameMapField: both values are loads of field fv from the same base object.
func isLoadOfField(v ssa.Value, fv *types.Var) (base ssa.Value, ok bool) {
	b, f := loadedField(v)
	if f == fv && f != nil {
		return b, true
	}
	return nil, false
}

func runC13(r *Run) {
	p := r.P
	r.Res.Explanation = "per-method premises of the abstract transaction table, decided on the SSA form of agent.go for every path: closed guard first, duplicate guard on insertion, every removal paired with exactly one handler event carrying the removed ID, handler invoked after removal and after unlock, strict deadline predicate, full-table scans without early exit, Close drains and drops the table in one critical section"
	r.NotDecided("equivalence with the abstract table over all call sequences as a trace property (the rules decide the per-call premises from which it follows by induction over the sequence)")
	r.Assume("time.Time.Before/After are strict; Compare returns -1/0/+1", "map range visits every entry present for the whole loop")
	m, missing := resolveAgent(p)
	an := r.Rule("C13.anchors", "Agent type, fields, methods and ErrAgentClosed resolve", 5)
	for _, s := range missing {
		an.Fail(s, "anchor not found")
	}
	if m != nil {
		for _, v := range []*types.Var{m.Mux, m.Tx, m.Closed, m.Handler} {
			if v != nil {
				an.Instance("field "+v.Name(), false, nil)
			}
		}
		if m.ErrClosed != nil {
			an.Instance("ErrAgentClosed", false, nil)
		}
	}
	an.Done()
	if m == nil || len(missing) > 0 {
		return
	}
	fields := map[*types.Var]bool{m.Tx: true, m.Handler: true}
	k := newKeyer()
	k.fwdLocal = true
	k.pureFieldLoads = true

	closed := r.Rule("C13.closed", "every Agent method that touches the table or the handler first tests the closed flag; on the closed edge it touches neither and returns ErrAgentClosed", 6)
	start := r.Rule("C13.start", "insertion into the table is dominated by the not-exists edge of a lookup of the same key; the exists edge returns an error", 1)
	terminal := r.Rule("C13.terminal", "every removal from the table pairs with exactly one handler event carrying the removed ID on the path that reports success (StopWithError: only if it existed; Process: always, with the message; Collect: one per removed ID; Close: one per entry)", 4)
	order := r.Rule("C13.order", "handler invocations happen after the removal, and outside Close after the mutex is released", 3)
	collect := r.Rule("C13.collect", "the timeout selection is the strict predicate deadline-before-gcTime and scans the whole table (no early exit)", 1)
	closeR := r.Rule("C13.close", "Close marks the agent closed and drops the table on its success path, after emitting one closed event per entry from a full scan", 1)

	evField := func(call *ssa.Call, name string) (string, bool) {
		if len(call.Call.Args) != 1 {
			return "", false
		}
		arg := call.Call.Args[0]
		ld, ok := arg.(*ssa.UnOp)
		if !ok || ld.Op != token.MUL {
			return "", false
		}
		a, ok := ld.X.(*ssa.Alloc)
		if !ok {
			return "", false
		}
		pt, _ := a.Type().Underlying().(*types.Pointer)
		st, _ := pt.Elem().Underlying().(*types.Struct)
		if st == nil {
			return "", false
		}
		for i := 0; i < st.NumFields(); i++ {
			if st.Field(i).Name() == name {
				return k.localFieldKey(a, i, ld, 0)
			}
		}
		return "", false
	}

	for _, fn := range m.Methods {
		// nothing an agent method calls can panic: a panic between a removal and its event loses the event (and,
		// under the lock, leaves the agent locked for good) - in whichever build configuration it is compiled in
		eachInstr(fn, func(b *ssa.BasicBlock, i int, in ssa.Instruction) {
			ci, ok := in.(ssa.CallInstruction)
			if !ok {
				return
			}
			sc := ci.Common().StaticCallee()
			if sc == nil || !p.isLibFn(sc) || sc.Blocks == nil {
				return
			}
			if site := mayPanicSite(p, sc, 0, map[*ssa.Function]bool{}); site != nil {
				terminal.Violation(fn, instrPos(in), "call of "+fnName(sc)+", which can panic", "an agent method calls a function that can panic ("+p.pos(instrPos(site))+"): a transaction that was removed just before never receives its terminal event, and a panic under the mutex leaves every later call blocked")
			}
		})
		accs := sharedAccesses(fn, fields)
		if len(accs) == 0 {
			continue
		}
		r.Analysed(fn)
		li := computeLocks(fn)
		hcalls := handlerCalls(fn, m.Handler)

		// ---- closed guard
		cifs := ifsOn(fn, func(v ssa.Value) bool { _, ok := isLoadOfField(v, m.Closed); return ok })
		closed.Instance(fnName(fn), true, map[string]interface{}{"fn": fnName(fn), "closed_tests": len(cifs)})
		if len(cifs) == 0 {
			closed.Violation(fn, fn.Pos(), "missing closed test", "method touches the table/handler without testing the closed flag: after Close it must return ErrAgentClosed and emit nothing")
		} else {
			// per path: a mutation of the shared state or a handler call needs closed == false known on
			// the path; a path on which closed == true is known touches nothing and returns ErrAgentClosed
			// (plain reads before the test are harmless: a closed agent's table is nil and reads as empty)
			ckey, cpol := k.condKey(cifs[0].Val)
			mutating := map[ssa.Instruction]sharedAccess{}
			for _, a := range accs {
				if _, fresh := a.Base.(*ssa.Alloc); fresh {
					continue
				}
				if a.isWrite() {
					mutating[a.In] = a
				}
			}
			isH := map[ssa.Instruction]bool{}
			for _, hc := range hcalls {
				isH[hc] = true
			}
			const touched = 1
			rep := map[ssa.Instruction]bool{}
			nClosedRet := 0
			idx := errorResultIndex(fn)
			q := &PathQuery{P: p, Fn: fn, K: k}
			q.Step = func(in ssa.Instruction, deferred bool, st uint64, c *PathCtx) (uint64, bool) {
				a, isM := mutating[in]
				if !isM && !isH[in] {
					return st, false
				}
				v, known := c.Known(ckey)
				isClosed := known && v == cpol
				if !rep[in] {
					what := "handler call"
					if isM {
						what = describeAccess(a)
					}
					switch {
					case !known:
						rep[in] = true
						closed.ViolationPath(fn, instrPos(in), what, "shared state is changed (or an event emitted) on a path that has not tested the closed flag", c.Witness(fn, in))
					case isClosed:
						rep[in] = true
						closed.ViolationPath(fn, instrPos(in), what, "shared state is changed (or an event emitted) on the closed edge", c.Witness(fn, in))
					}
				}
				return st | touched, false
			}
			q.AtReturn = func(ret *ssa.Return, st uint64, c *PathCtx) {
				v, known := c.Known(ckey)
				if !known || v != cpol {
					return
				}
				nClosedRet++
				if rep[ret] {
					return
				}
				if idx < 0 || !loadsGlobal(c.Resolve(deref(c.Resolve(ret.Results[idx]))), m.ErrClosed) {
					rep[ret] = true
					closed.ViolationPath(fn, instrPos(ret), "return on closed edge", "the closed edge must return ErrAgentClosed", c.Witness(fn, ret))
				}
			}
			q.Run()
			if q.Exhausted {
				closed.Violation(fn, fn.Pos(), "path exploration exhausted", "undecided")
			}
			if nClosedRet == 0 {
				closed.Violation(fn, instrPos(cifs[0].If), "closed edge", "the closed edge does not return: calls on a closed agent go on to use the table")
			}
		}

		// ---- insertion
		for _, a := range accs {
			if a.Kind != "mapwrite" {
				continue
			}
			mu := a.In.(*ssa.MapUpdate)
			start.Instance(fnName(fn)+"|insert", true, map[string]string{"fn": fnName(fn), "insert": exprDepth(mu.Key, 0)})
			ok := false
			for _, l := range accs {
				lk, isL := l.In.(*ssa.Lookup)
				if !isL || !lk.CommaOk || k.Key(lk.Index) != k.Key(mu.Key) {
					continue
				}
				for _, ci := range ifsOn(fn, func(v ssa.Value) bool {
					e, isE := v.(*ssa.Extract)
					return isE && e.Tuple == ssa.Value(lk) && e.Index == 1
				}) {
					if len(ci.OnFalse.Preds) == 1 && blockDominates(ci.OnFalse, mu.Block()) && !blockReach(ci.OnTrue)[mu.Block()] {
						ok = true
						// exists edge returns error
						for _, ret := range returnsOf(fn) {
							if blockReach(ci.OnTrue)[ret.Block()] && !blockReach(ci.OnFalse)[ret.Block()] {
								idx := errorResultIndex(fn)
								c := &PathCtx{K: k, assign: map[string]bool{}, phiSel: map[*ssa.Phi]ssa.Value{}, P: p}
								if idx < 0 || c.NilState(ret.Results[idx]) != -1 {
									start.Violation(fn, instrPos(ret), "duplicate edge", "Start for an already registered ID must fail with an error")
								}
							}
						}
					}
				}
			}
			if !ok {
				start.Violation(fn, instrPos(mu), "insert "+exprDepth(mu.Key, 0), "the insertion is not guarded by the not-exists edge of a lookup of the same key: a duplicate Start overwrites a registered transaction (its terminal event is lost)")
			}
		}

		// ---- removals
		var deletes []sharedAccess
		var dropTable []sharedAccess
		for _, a := range accs {
			if a.Kind == "mapdelete" {
				deletes = append(deletes, a)
			}
			if a.Kind == "store" && a.Field == m.Tx {
				if _, fresh := a.Base.(*ssa.Alloc); !fresh {
					dropTable = append(dropTable, a)
				}
			}
		}
		loops := loopsOf(fn)
		isClose := len(dropTable) > 0
		for _, d := range deletes {
			dc := d.In.(*ssa.Call)
			key := dc.Call.Args[1]
			kk := k.Key(key)
			lp := inLoop(loops, dc.Block())
			if lp == nil {
				// single removal: exactly one handler call with that ID on every success path
				terminal.Instance(fnName(fn)+"|delete", true, map[string]string{"fn": fnName(fn), "removed_key": exprDepth(key, 0)})
				// lookup of same key (commaok)?
				var existsIf *condIf
				var lookupKey string
				for _, l := range accs {
					lk, isL := l.In.(*ssa.Lookup)
					if !isL || !lk.CommaOk || k.Key(lk.Index) != kk {
						continue
					}
					lookupKey = k.Key(lk)
					var isExists func(v ssa.Value, depth int) bool
					isExists = func(v ssa.Value, depth int) bool {
						if e, isE := v.(*ssa.Extract); isE {
							return e.Tuple == ssa.Value(lk) && e.Index == 1
						}
						// exists declared first and assigned under a condition: false unless looked up
						ph, isPhi := v.(*ssa.Phi)
						if !isPhi || depth > 3 {
							return false
						}
						n := 0
						for _, e := range ph.Edges {
							if c, isC := e.(*ssa.Const); isC && c.Value != nil && c.Value.String() == "false" {
								continue
							}
							if !isExists(e, depth+1) {
								return false
							}
							n++
						}
						return n > 0
					}
					cis := ifsOn(fn, func(v ssa.Value) bool { return isExists(v, 0) })
					if len(cis) > 0 {
						existsIf = &cis[0]
					}
				}
				hasMsgParam := false
				for _, pa := range fn.Params[1:] {
					if pt, ok := pa.Type().(*types.Pointer); ok {
						if n, ok := pt.Elem().(*types.Named); ok && n.Obj().Name() == "Message" {
							hasMsgParam = true
						}
					}
				}
				if existsIf == nil && !hasMsgParam {
					terminal.Violation(fn, instrPos(dc), "removal without existence test", "a terminator that is given an ID must report not-exists (and emit nothing) when the ID is not registered: the handler call is not guarded by the result of a lookup of that ID")
				}
				if len(hcalls) == 0 {
					terminal.Violation(fn, instrPos(dc), "removal without event", "the entry is removed but no handler event is emitted: the transaction never receives its terminal event")
				}
				for _, hc := range hcalls {
					id, ok := evField(hc, "TransactionID")
					accept := map[string]bool{kk: true}
					if lookupKey != "" {
						accept[lookupKey+"#0.id"] = true
						// the looked-up entry kept in a local declared beforehand (var t T; t, ok = table[id]):
						// the local has that single store and it is passed on every path to the call
						for _, l := range accs {
							lk, isL := l.In.(*ssa.Lookup)
							if !isL || k.Key(lk) != lookupKey {
								continue
							}
							for _, u := range *lk.Referrers() {
								e, isE := u.(*ssa.Extract)
								if !isE || e.Index != 0 {
									continue
								}
								for _, u2 := range *e.Referrers() {
									st, isS := u2.(*ssa.Store)
									al, isA := st2alloc(st, isS)
									if !isA {
										continue
									}
									nStores := 0
									for _, u3 := range *al.Referrers() {
										if s3, ok := u3.(*ssa.Store); ok && s3.Addr == ssa.Value(al) {
											nStores++
										}
									}
									if nStores == 1 && passesOnEveryPath(p, fn, k, st, hc) {
										accept["*&"+k.Key(al)+".id"] = true
									}
								}
							}
						}
					}
					if !ok || !accept[id] {
						terminal.Violation(fn, instrPos(hc), "event ID", fmt.Sprintf("the emitted event carries TransactionID %q, not the removed ID %q", id, kk))
					}
					if existsIf != nil {
						if !(blockDominates(existsIf.OnTrue, hc.Block()) && len(existsIf.OnTrue.Preds) == 1) {
							terminal.Violation(fn, instrPos(hc), "event without registration", "the handler is invoked although the ID was not registered (must report not-exists and emit nothing)")
						}
					}
				}
				// count handler calls per path from the delete
				q := &PathQuery{P: p, Fn: fn, K: k, From: dc}
				q.Step = func(in ssa.Instruction, deferred bool, st uint64, c *PathCtx) (uint64, bool) {
					if call, ok := in.(*ssa.Call); ok {
						for _, hc := range hcalls {
							if hc == call {
								if st < 3 {
									st++
								}
							}
						}
					}
					return st, false
				}
				reported := map[*ssa.Return]bool{}
				q.AtReturn = func(ret *ssa.Return, st uint64, c *PathCtx) {
					idx := errorResultIndex(fn)
					ns := 0
					if idx >= 0 {
						ns = c.NilState(ret.Results[idx])
					}
					if ns == -1 {
						// error return: nothing may have been emitted
						if st != 0 && !reported[ret] {
							reported[ret] = true
							terminal.ViolationPath(fn, instrPos(ret), "event on error return", "an event was emitted on a path that returns an error", c.Witness(fn, ret))
						}
						return
					}
					if st != 1 && !reported[ret] {
						reported[ret] = true
						terminal.ViolationPath(fn, instrPos(ret), fmt.Sprintf("%d events for one removal", st), "a successful removal must be followed by exactly one handler event for that ID", c.Witness(fn, ret))
					}
				}
				q.Run()
				// Process: message carried
				if existsIf == nil {
					for _, hc := range hcalls {
						msg, ok := evField(hc, "Message")
						var mparam string
						for _, pa := range fn.Params[1:] {
							if _, isPtr := pa.Type().(*types.Pointer); isPtr {
								mparam = k.Key(pa)
							}
						}
						if mparam != "" {
							terminal.Instance(fnName(fn)+"|message", true, nil)
							if !ok || msg != mparam {
								terminal.Violation(fn, instrPos(hc), "event message", "Process must emit the processed message itself")
							}
						}
					}
				}
				// order
				for _, hc := range hcalls {
					order.Instance(fnName(fn)+"|order", true, map[string]string{"fn": fnName(fn), "lockset_at_handler_call": heldString(li.Held(hc))})
					if !instrDominates(dc, hc) {
						// path form: no feasible path reaches the handler call without passing the removal
						hc := hc
						badPath := ""
						oq := &PathQuery{P: p, Fn: fn, K: k}
						oq.Step = func(in ssa.Instruction, deferred bool, st uint64, c *PathCtx) (uint64, bool) {
							if in == ssa.Instruction(dc) {
								return st | 1, false
							}
							if in == ssa.Instruction(hc) && st&1 == 0 {
								if badPath == "" {
									badPath = c.Witness(fn, hc)
								}
								return st, true
							}
							return st, false
						}
						oq.Run()
						if badPath != "" {
							order.ViolationPath(fn, instrPos(hc), "handler before removal", "the handler runs before the transaction is unregistered: a re-entrant or concurrent call still sees it (second terminal event)", badPath)
						}
					}
				}
				continue
			}
			// removal inside a loop over a slice S: pair with handler loop over same S
			ia := rangeElemSource(key)
			var S ssa.Value
			if ia == nil {
				// fused form: the entry is removed inside the scan of the table itself, in the very block
				// that appends its key to the collected slice (deleting the visited entry while ranging is
				// allowed); the collected slice is then the scan loop's own accumulator
				if e, isE := key.(*ssa.Extract); isE && e.Index == 1 {
					if nx, isN := e.Tuple.(*ssa.Next); isN && lp.Body[nx.Block()] {
						for _, in := range dc.Block().Instrs {
							ap, isC := in.(*ssa.Call)
							if !isC || !isBuiltinCall(ap, "append") || len(ap.Call.Args) != 2 {
								continue
							}
							for _, el := range appendedElems(ap) {
								if el == ssa.Value(e) {
									// the accumulator: the header phi this append feeds
									for _, hin := range lp.Header.Instrs {
										if ph, isP := hin.(*ssa.Phi); isP {
											for _, pe := range ph.Edges {
												if pe == ssa.Value(ap) {
													S = ph
												}
											}
										}
									}
								}
							}
						}
					}
				}
				if S == nil {
					terminal.Violation(fn, instrPos(dc), "removal in loop", "removal loop is not a range over a collected slice: pairing with events undecided")
					continue
				}
				terminal.Instance(fnName(fn)+"|loopdelete", true, map[string]string{"fn": fnName(fn), "slice": exprDepth(S, 0), "form": "removed while scanning"})
			} else {
				S = ia.X
				terminal.Instance(fnName(fn)+"|loopdelete", true, map[string]string{"fn": fnName(fn), "slice": exprDepth(S, 0)})
				if !fullRangeLoop(lp, S, ia) {
					terminal.Violation(fn, instrPos(dc), "partial removal loop", "the removal loop does not range over the whole collected slice")
				}
			}
			paired := false
			for _, hc := range hcalls {
				hl := inLoop(loops, hc.Block())
				if hl == nil || hl == lp {
					continue
				}
				idKey, ok := evField(hc, "TransactionID")
				if !ok {
					continue
				}
				// the ID must be an element of S at the handler loop's induction variable
				var hia *ssa.IndexAddr
				eachInstr(fn, func(b *ssa.BasicBlock, i int, in ssa.Instruction) {
					if x, ok := in.(*ssa.IndexAddr); ok && hl.Body[b] && (x.X == S || canonPhi(x.X) == canonPhi(S)) {
						if strings.Contains(idKey, k.Key(x)) || idKey == "*"+k.Key(x) {
							hia = x
						}
					}
				})
				if hia != nil && (fullRangeLoop(hl, S, hia) || fullRangeLoop(hl, hia.X, hia)) && blockDominates(lp.Header, hl.Header) {
					paired = true
				}
			}
			if !paired {
				terminal.Violation(fn, instrPos(dc), "unpaired removal loop", "no handler loop over the same collected slice emits one event per removed ID")
			}
			for _, hc := range hcalls {
				order.Instance(fnName(fn)+"|order", true, map[string]string{"fn": fnName(fn), "lockset_at_handler_call": heldString(li.Held(hc))})
				if !blockDominates(lp.Header, hc.Block()) || lp.Body[hc.Block()] {
					order.Violation(fn, instrPos(hc), "handler before removal", "handlers run before all collected transactions are unregistered")
				}
			}
			// the collection loop
			checkCollect(r, collect, fn, m, S, loops, k)
		}
		// handler calls must be outside the lock except in Close
		if !isClose {
			for _, hc := range hcalls {
				held := li.Held(hc)
				for obj := range held {
					if strings.HasSuffix(obj, "."+m.Mux.Name()) {
						order.Violation(fn, instrPos(hc), "handler under lock", "the handler is invoked while the agent mutex is held")
					}
				}
			}
			if len(hcalls) > 0 && len(deletes) == 0 {
				terminal.Violation(fn, instrPos(hcalls[0]), "event without removal", "an event is emitted but the transaction stays registered: it will receive a second terminal event")
			}
		}

		// ---- Close
		if isClose {
			closeR.Instance(fnName(fn), true, map[string]string{"fn": fnName(fn)})
			terminal.Instance(fnName(fn)+"|drain", true, nil)
			dt := dropTable[0].In
			// a full range over the table with a handler call per entry dominates the drop
			okDrain := false
			for _, a := range accs {
				rg, isR := a.In.(*ssa.Range)
				if !isR {
					continue
				}
				var next *ssa.Next
				for _, u := range *rg.Referrers() {
					if n, ok := u.(*ssa.Next); ok {
						next = n
					}
				}
				if next == nil {
					continue
				}
				lp := inLoop(loops, next.Block())
				if lp == nil || !instrDominates(next, dt) {
					continue
				}
				if ex := lp.Exits(); len(ex) != 1 || ex[0][0] != next.Block() {
					closeR.Violation(fn, instrPos(next), "early exit from drain loop", "Close leaves its scan of the table early: remaining transactions get no closed event")
					continue
				}
				for _, hc := range hcalls {
					if !lp.Body[hc.Block()] {
						continue
					}
					// every path through the body passes the call: the call's block dominates the latch
					domAll := true
					for _, lt := range lp.Latch {
						if !blockDominates(hc.Block(), lt) {
							domAll = false
						}
					}
					id, ok := evField(hc, "TransactionID")
					nk := k.Key(next)
					if domAll && ok && (id == nk+"#1" || id == nk+"#2.id") {
						okDrain = true
					} else if domAll {
						closeR.Violation(fn, instrPos(hc), "closed event ID", fmt.Sprintf("closed event carries %q, not the ID of the entry being drained", id))
						okDrain = true
					}
				}
			}
			if !okDrain {
				closeR.Violation(fn, instrPos(dt), "table dropped without events", "Close drops the table without emitting one closed event per remaining transaction")
			}
			// closed = true on every success path
			setClosed := false
			if idx := errorResultIndex(fn); idx >= 0 {
				closedStores := map[ssa.Instruction]bool{}
				for _, a := range sharedAccesses(fn, map[*types.Var]bool{m.Closed: true}) {
					if st, ok := a.In.(*ssa.Store); ok && a.Kind == "store" {
						if c, ok := st.Val.(*ssa.Const); ok && c.Value != nil && c.Value.String() == "true" {
							closedStores[st] = true
						}
					}
				}
				nSucc, nBad := 0, 0
				q := &PathQuery{P: p, Fn: fn}
				q.Step = func(in ssa.Instruction, _ bool, st uint64, c *PathCtx) (uint64, bool) {
					if closedStores[in] {
						return st | 1, false
					}
					return st, false
				}
				q.AtReturn = func(ret *ssa.Return, st uint64, c *PathCtx) {
					if c.NilState(ret.Results[idx]) == -1 {
						return
					}
					nSucc++
					if st&1 == 0 {
						nBad++
					}
				}
				q.Run()
				setClosed = nSucc > 0 && nBad == 0
			}
			if !setClosed {
				closeR.Violation(fn, instrPos(dt), "closed flag not set", "Close returns success without marking the agent closed: later calls are accepted and emit events")
			}
		}
	}
	closed.Done()
	start.Done()
	terminal.Done()
	order.Done()
	collect.Done()
	closeR.Done()

	// "after Close every call returns ErrAgentClosed": it returns, i.e. no path leaves the mutex held
	// ---- the handler field never holds nil while the agent is open
	sh := r.Rule("C13.sethandler", "every value stored into the agent's handler field is non-nil on the path of the store (a guarded parameter or a function value), except the nil stored by the method that marks the agent closed: an event never calls a nil function", 2)
	for _, fn := range p.LibFuncs() {
		var stores []*ssa.Store
		setsClosed := false
		for _, a := range sharedAccesses(fn, map[*types.Var]bool{m.Handler: true, m.Closed: true}) {
			st, ok := a.In.(*ssa.Store)
			if !ok || a.Kind != "store" {
				continue
			}
			if a.Field == m.Handler {
				stores = append(stores, st)
			}
			if a.Field == m.Closed {
				if c, isC := st.Val.(*ssa.Const); isC && c.Value != nil && c.Value.String() == "true" {
					setsClosed = true
				}
			}
		}
		if len(stores) == 0 {
			continue
		}
		r.Analysed(fn)
		isStore := map[ssa.Instruction]bool{}
		for _, st := range stores {
			isStore[st] = true
		}
		rep := map[ssa.Instruction]bool{}
		q := &PathQuery{P: p, Fn: fn}
		q.Step = func(in ssa.Instruction, deferred bool, st uint64, c *PathCtx) (uint64, bool) {
			if !isStore[in] || rep[in] {
				return st, false
			}
			v := in.(*ssa.Store).Val
			ns := c.NilState(v)
			if ns == -1 {
				return st, false
			}
			if ns == +1 && setsClosed {
				return st, false // Close drops the handler of an agent that will never emit again
			}
			rep[in] = true
			sh.ViolationPath(fn, instrPos(in), "handler = "+exprDepth(c.Resolve(v), 0), "the handler field may be set to nil while the agent is open (NewAgent replaces a nil handler by the no-op handler, this store does not): the next event unregisters its transaction and then calls a nil function - the terminal event is lost in a panic, and Close panics while holding the mutex so that every later call blocks", c.Witness(fn, in))
			return st, false
		}
		q.Run()
		sh.Instance(fnName(fn)+"|handler stores", true, map[string]interface{}{"fn": fnName(fn), "stores": len(stores), "marks_closed": setsClosed})
	}
	sh.Done()

	r.Borrow("C14", map[string]string{"C14.release": "C13.release"})
	// lookup and removal happen in one exclusive critical section: what a method decided about the table is still
	// true when it acts on it (shared with C14)
	r.Borrow("C14", map[string]string{"C14.lockset": "C13.lockset", "C14.atomic": "C13.atomic"})
}

// rangeElemSource: v is (a conversion of) a load of &S[i]; returns the IndexAddr.
func rangeElemSource(v ssa.Value) *ssa.IndexAddr {
	for i := 0; i < 4; i++ {
		switch x := v.(type) {
		case *ssa.ChangeType:
			v = x.X
		case *ssa.Convert:
			v = x.X
		case *ssa.UnOp:
			if x.Op == token.MUL {
				if ia, ok := x.X.(*ssa.IndexAddr); ok {
					return ia
				}
				return nil
			}
			return nil
		default:
			return nil
		}
	}
	return nil
}

// fullRangeLoop: loop lp is `for i := range S` (index phi(-1, i+1), exit only at i+1 >= len(S)) and ia indexes S with it.
func fullRangeLoop(lp *Loop, S ssa.Value, ia *ssa.IndexAddr) bool {
	if lp == nil {
		return false
	}
	ex := lp.Exits()
	if len(ex) != 1 || ex[0][0] != lp.Header {
		return false
	}
	idx, start, bound, ok := indexLoopInfo(lp)
	if !ok || start != 0 {
		return false
	}
	ln, ok := bound.(*ssa.Call)
	if !ok || !isBuiltinCall(ln, "len") || ln.Call.Args[0] != S {
		return false
	}
	return ia.Index == idx && ia.X == S && lp.Header.Succs[0] != nil && lp.Body[ia.Block()]
}

// checkCollect checks the loop that builds slice S from the table.
func checkCollect(r *Run, collect *RuleCtx, fn *ssa.Function, m *agentModel, S ssa.Value, loops []*Loop, k *keyer) {
	p := r.P
	// the list of IDs to notify is private to this call: events are delivered after the mutex is
	// released, so a list living in the agent would be rewritten by an overlapping (or re-entrant) call
	if f, _, ok := rootField(S, 0); ok && f != nil {
		collect.Violation(fn, fn.Pos(), "collected IDs kept in "+f.Name(), "the slice of timed-out IDs is storage of the agent, read after the mutex is released: a second Collect (from a handler, or concurrently) overwrites it and transactions get two timeout events or none")
	}
	// S is a phi over appends in a map range loop
	var appends []*ssa.Call
	seen := map[ssa.Value]bool{}
	var walk func(v ssa.Value)
	walk = func(v ssa.Value) {
		if seen[v] {
			return
		}
		seen[v] = true
		switch x := v.(type) {
		case *ssa.Phi:
			for _, e := range x.Edges {
				walk(e)
			}
		case *ssa.Call:
			if isBuiltinCall(x, "append") {
				appends = append(appends, x)
				walk(x.Call.Args[0])
			}
		}
	}
	walk(S)
	if len(appends) == 0 {
		collect.Violation(fn, fn.Pos(), "collection", "the slice of timed-out IDs is not built by appending table keys: selection predicate undecided")
		return
	}
	for _, ap := range appends {
		lp := inLoop(loops, ap.Block())
		collect.Instance(fnName(fn)+"|select", true, map[string]string{"fn": fnName(fn)})
		if lp == nil {
			collect.Violation(fn, instrPos(ap), "append outside scan", "timed-out IDs are not collected in a scan of the table")
			continue
		}
		// the loop is a range over the table with the single exit at Next
		var next *ssa.Next
		for _, in := range lp.Header.Instrs {
			if n, ok := in.(*ssa.Next); ok {
				next = n
			}
		}
		if next == nil {
			collect.Violation(fn, instrPos(ap), "scan", "the collecting loop is not a range over the table")
			continue
		}
		rg, _ := next.Iter.(*ssa.Range)
		if rg == nil {
			collect.Violation(fn, instrPos(ap), "scan", "the collecting loop is not a range over the table")
			continue
		}
		// every path that reports success has scanned the table (no early `return nil` in front of the scan:
		// what Collect(t) times out depends on t and the table only, not on earlier calls)
		{
			idx := errorResultIndex(fn)
			rep := map[*ssa.Return]bool{}
			q := &PathQuery{P: p, Fn: fn}
			q.Step = func(in ssa.Instruction, deferred bool, st uint64, c *PathCtx) (uint64, bool) {
				if in == ssa.Instruction(rg) {
					st |= 1
				}
				return st, false
			}
			q.AtReturn = func(ret *ssa.Return, st uint64, c *PathCtx) {
				if idx >= 0 && c.NilState(ret.Results[idx]) != -1 && st&1 == 0 && !rep[ret] {
					rep[ret] = true
					collect.ViolationPath(fn, instrPos(ret), "success without scanning the table", "Collect reports success on a path that never looks at the table: overdue transactions stay registered and never get their timeout", c.Witness(fn, ret))
				}
			}
			q.Run()
		}
		if _, ok := isLoadOfField(rg.X, m.Tx); !ok {
			collect.Violation(fn, instrPos(ap), "scan", "the collecting loop does not range over the agent's table")
		}
		if ex := lp.Exits(); len(ex) != 1 || ex[0][0] != next.Block() {
			collect.Violation(fn, instrPos(next), "early exit from scan", "the scan of the table can end before every entry has been examined: expired transactions are left without a timeout event")
		}
		// appended element is the range key
		elemOK := false
		if len(ap.Call.Args) == 2 {
			if sl, ok := ap.Call.Args[1].(*ssa.Slice); ok {
				if al, ok := sl.X.(*ssa.Alloc); ok {
					for _, u := range *al.Referrers() {
						if ia, ok := u.(*ssa.IndexAddr); ok {
							for _, w := range *ia.Referrers() {
								if st, ok := w.(*ssa.Store); ok {
									if e, ok := st.Val.(*ssa.Extract); ok && e.Tuple == ssa.Value(next) && e.Index == 1 {
										elemOK = true
									}
									if kk := k.Key(st.Val); kk == k.Key(next)+"#2.id" {
										elemOK = true
									}
								}
							}
						}
					}
				}
			}
		}
		if !elemOK {
			collect.Violation(fn, instrPos(ap), "collected element", "the collected element is not the key (or id) of the scanned entry")
		}
		// guarding condition: nearest If whose successor dominates the append block
		var guard *ssa.If
		var onTrue bool
		for b := ap.Block(); b != nil && lp.Body[b]; b = b.Idom() {
			id := b.Idom()
			if id == nil || !lp.Body[id] {
				break
			}
			if iff, ok := id.Instrs[len(id.Instrs)-1].(*ssa.If); ok && len(b.Preds) == 1 {
				if _, isNext := iff.Cond.(*ssa.Extract); isNext && id == next.Block() {
					break
				}
				guard = iff
				onTrue = id.Succs[0] == b
				break
			}
		}
		if guard == nil {
			collect.Violation(fn, instrPos(ap), "unconditional collection", "every transaction is collected regardless of its deadline")
			continue
		}
		strict, desc := strictBeforePredicate(guard.Cond, onTrue, next, fn)
		collect.Instance(fnName(fn)+"|predicate", true, map[string]string{"predicate": desc})
		if !strict {
			collect.Violation(fn, instrPos(guard), "selection predicate "+desc, "Collect(t) must select exactly the transactions whose deadline is strictly before t (a transaction whose deadline equals t must survive)")
		}
	}
	_ = p
}

// strictBeforePredicate decides whether cond (taken with polarity pol) is "deadline < gcTime",
// where gcTime derives from a parameter and deadline from the scanned entry.
func strictBeforePredicate(cond ssa.Value, pol bool, next *ssa.Next, fn *ssa.Function) (bool, string) {
	for {
		if u, ok := cond.(*ssa.UnOp); ok && u.Op == token.NOT {
			pol = !pol
			cond = u.X
			continue
		}
		break
	}
	isParam := func(v ssa.Value) bool {
		for i := 0; i < 4; i++ {
			switch x := v.(type) {
			case *ssa.Parameter:
				return true
			case *ssa.UnOp:
				if x.Op == token.MUL {
					if a, ok := x.X.(*ssa.Alloc); ok {
						// spilled parameter
						for _, u := range *a.Referrers() {
							if st, ok := u.(*ssa.Store); ok && st.Addr == ssa.Value(a) {
								if _, isP := st.Val.(*ssa.Parameter); isP {
									return true
								}
							}
						}
					}
				}
				return false
			case *ssa.ChangeType:
				v = x.X
			default:
				return false
			}
		}
		return false
	}
	isTimeMethod := func(v ssa.Value, name string) (*ssa.Call, bool) {
		c, ok := v.(*ssa.Call)
		if !ok {
			return nil, false
		}
		return c, isMethodCall(c, "time", "Time", name) && len(c.Call.Args) == 2
	}
	if c, ok := isTimeMethod(cond, "Before"); ok {
		x, y := c.Call.Args[0], c.Call.Args[1]
		if !isParam(x) && isParam(y) {
			return pol, fmt.Sprintf("deadline.Before(gcTime)=%v", pol)
		}
		if isParam(x) && !isParam(y) {
			return false, fmt.Sprintf("gcTime.Before(deadline)=%v", pol)
		}
	}
	if c, ok := isTimeMethod(cond, "After"); ok {
		x, y := c.Call.Args[0], c.Call.Args[1]
		if isParam(x) && !isParam(y) {
			return pol, fmt.Sprintf("gcTime.After(deadline)=%v", pol)
		}
		if !isParam(x) && isParam(y) {
			return false, fmt.Sprintf("deadline.After(gcTime)=%v", pol)
		}
	}
	if b, ok := cond.(*ssa.BinOp); ok {
		if c, ok := isTimeMethod(b.X, "Compare"); ok {
			if z, isC := constInt(b.Y); isC {
				x, y := c.Call.Args[0], c.Call.Args[1]
				dFirst := !isParam(x) && isParam(y)
				pFirst := isParam(x) && !isParam(y)
				op := b.Op
				if !pol {
					switch op {
					case token.LSS:
						op = token.GEQ
					case token.GEQ:
						op = token.LSS
					case token.GTR:
						op = token.LEQ
					case token.LEQ:
						op = token.GTR
					case token.EQL:
						op = token.NEQ
					case token.NEQ:
						op = token.EQL
					}
				}
				// deadline.Compare(gc) < 0  |  <= -1  | == -1
				if dFirst && ((op == token.LSS && z == 0) || (op == token.LEQ && z == -1) || (op == token.EQL && z == -1)) {
					return true, "deadline.Compare(gcTime) < 0"
				}
				if pFirst && ((op == token.GTR && z == 0) || (op == token.GEQ && z == 1) || (op == token.EQL && z == 1)) {
					return true, "gcTime.Compare(deadline) > 0"
				}
				return false, "Compare form " + op.String()
			}
		}
	}
	return false, "unrecognised predicate " + exprDepth(cond, 0)
}

func st2alloc(st *ssa.Store, ok bool) (*ssa.Alloc, bool) {
	if !ok || st == nil {
		return nil, false
	}
	al, isA := st.Addr.(*ssa.Alloc)
	return al, isA
}

// passesOnEveryPath: every feasible path from the entry that reaches instruction at has executed must.
func passesOnEveryPath(p *Prog, fn *ssa.Function, k *keyer, must, at ssa.Instruction) bool {
	if instrDominates(must, at) {
		return true
	}
	ok := true
	q := &PathQuery{P: p, Fn: fn, K: k}
	q.Step = func(in ssa.Instruction, deferred bool, st uint64, c *PathCtx) (uint64, bool) {
		if in == must {
			return st | 1, false
		}
		if in == at && st&1 == 0 {
			ok = false
			return st, true
		}
		return st, false
	}
	q.Run()
	return ok
}

// mayPanicSite: an explicit panic reachable in fn or the module functions it calls statically (depth <= 4).
func mayPanicSite(p *Prog, fn *ssa.Function, depth int, seen map[*ssa.Function]bool) ssa.Instruction {
	if fn == nil || fn.Blocks == nil || seen[fn] || depth > 4 || !p.isLibFn(fn) {
		return nil
	}
	seen[fn] = true
	var site ssa.Instruction
	eachInstr(fn, func(b *ssa.BasicBlock, i int, in ssa.Instruction) {
		if site != nil {
			return
		}
		if pn, ok := in.(*ssa.Panic); ok {
			site = pn
			return
		}
		if ci, ok := in.(ssa.CallInstruction); ok {
			if s2 := mayPanicSite(p, ci.Common().StaticCallee(), depth+1, seen); s2 != nil {
				site = s2
			}
		}
	})
	return site
}
