package main

import (
	"fmt"
	"go/constant"
	"go/token"
	"go/types"
	"sort"
	"strings"

	"golang.org/x/tools/go/ssa"
)

// LAYOUT engine: wire sites of a function - fixed-width accessors, copy, element loads/stores and
// XorBytes - each with the root buffer (slice chains stripped, offsets accumulated as linear
// expressions) and the value written or produced.

type wireSite struct {
	In    ssa.Instruction
	Kind  string // Uint16, PutUint16, Uint32, PutUint32, copy, xor, store, load
	Role  string // "dst" or "src" for the buffer operand this site describes
	Root  ssa.Value
	Lo    linExpr
	Hi    *linExpr  // nil: open (to the end of the root window)
	Val   ssa.Value // value written (Put*, store) / value produced (Uint*, load) / the other operand (copy, xor)
	Width int64
}

func (w wireSite) Range() string {
	hi := "end"
	if w.Hi != nil {
		hi = w.Hi.String()
	}
	return "[" + w.Lo.String() + ":" + hi + ")"
}

// window strips the slice chain of v.
func (le *linEval) window(v ssa.Value) (root ssa.Value, lo linExpr, hi *linExpr) {
	zero := linExpr{Terms: map[string]int64{}}
	switch x := v.(type) {
	case *ssa.Slice:
		r, l, h := le.window(x.X)
		nlo := l
		if x.Low != nil {
			nlo = l.add(le.Eval(x.Low), 1)
		}
		nh := h
		if x.High != nil {
			t := l.add(le.Eval(x.High), 1)
			nh = &t
		}
		return r, nlo, nh
	case *ssa.ChangeType:
		return le.window(x.X)
	case *ssa.Phi:
		if c := canonPhi(x); c != ssa.Value(x) {
			return le.window(c)
		}
	case *ssa.UnOp:
		if x.Op == token.MUL {
			if fa, ok := x.X.(*ssa.FieldAddr); ok {
				if a, ok := fa.X.(*ssa.Alloc); ok {
					if fv, _ := localFieldValue(a, fa.Field, x, 0); fv != nil {
						return le.window(fv)
					}
				}
			}
			if d := deref(x); d != ssa.Value(x) {
				return le.window(d)
			}
		}
	}
	return v, zero, nil
}

func wireSites(le *linEval, fn *ssa.Function) []wireSite {
	var out []wireSite
	eachInstr(fn, func(b *ssa.BasicBlock, i int, in ssa.Instruction) {
		if _, isD := in.(*ssa.Defer); isD {
			return
		}
		if name, w, buf, ok := accessorCall(in); ok {
			root, lo, hi := le.window(buf)
			s := wireSite{In: in, Kind: name, Root: root, Lo: lo, Hi: hi, Width: w}
			if strings.HasPrefix(name, "Put") {
				s.Role = "dst"
				s.Val = callArgs(in)[2]
			} else {
				s.Role = "src"
				s.Val = in.(ssa.Value)
			}
			out = append(out, s)
			return
		}
		switch x := in.(type) {
		case *ssa.Call:
			if isBuiltinCall(x, "copy") {
				r, lo, hi := le.window(x.Call.Args[0])
				out = append(out, wireSite{In: in, Kind: "copy", Role: "dst", Root: r, Lo: lo, Hi: hi, Val: x.Call.Args[1]})
				r2, lo2, hi2 := le.window(x.Call.Args[1])
				out = append(out, wireSite{In: in, Kind: "copy", Role: "src", Root: r2, Lo: lo2, Hi: hi2, Val: x.Call.Args[0]})
			}
			if isPkgFuncCall(x, "github.com/pion/transport/v3/utils/xor", "XorBytes") && len(x.Call.Args) == 3 {
				for i, role := range []string{"dst", "src", "mask"} {
					r, lo, hi := le.window(x.Call.Args[i])
					out = append(out, wireSite{In: in, Kind: "xor", Role: role, Root: r, Lo: lo, Hi: hi})
				}
			}
		case *ssa.Store:
			if ia, ok := x.Addr.(*ssa.IndexAddr); ok {
				if _, isSl := ia.X.Type().Underlying().(*types.Slice); isSl {
					r, lo, _ := le.window(ia.X)
					l := lo.add(le.Eval(ia.Index), 1)
					h := l.add(linExpr{C: 1, Terms: map[string]int64{}}, 1)
					out = append(out, wireSite{In: in, Kind: "store", Role: "dst", Root: r, Lo: l, Hi: &h, Val: x.Val, Width: 1})
				}
			}
		case *ssa.UnOp:
			if x.Op == token.MUL {
				if ia, ok := x.X.(*ssa.IndexAddr); ok {
					if _, isSl := ia.X.Type().Underlying().(*types.Slice); isSl {
						r, lo, _ := le.window(ia.X)
						l := lo.add(le.Eval(ia.Index), 1)
						h := l.add(linExpr{C: 1, Terms: map[string]int64{}}, 1)
						out = append(out, wireSite{In: in, Kind: "load", Role: "src", Root: r, Lo: l, Hi: &h, Val: x, Width: 1})
					}
				}
			}
		}
	})
	out = append(out, compositeSites(le, fn, out)...)
	return out
}

// compositeSites recognises hand-written big-endian accessors and reports them as the fixed-width
// sites they are equivalent to:
//
//	uint32(b[i])<<24 | uint32(b[i+1])<<16 | uint32(b[i+2])<<8 | uint32(b[i+3])      Uint32 at [i:i+4)
//	b[i], b[i+1] = byte(v>>8), byte(v)                                              PutUint16 at [i:i+2)
//
// Every byte of the group must be present with exactly the shift of its position; the read is attributed
// to the root of the OR tree, the write to the last store of the group (all in one block).
func compositeSites(le *linEval, fn *ssa.Function, single []wireSite) []wireSite {
	var out []wireSite
	loadSite := map[ssa.Value]*wireSite{}
	for i := range single {
		if single[i].Kind == "load" {
			loadSite[single[i].Val] = &single[i]
		}
	}
	bitsOf := func(t types.Type) int64 {
		if w, signed, ok := intWidth(t); ok && !signed {
			return int64(w)
		}
		return 0
	}
	// ---- reads
	isOr := func(v ssa.Value) (*ssa.BinOp, bool) {
		b, ok := v.(*ssa.BinOp)
		return b, ok && (b.Op == token.OR || b.Op == token.ADD && false)
	}
	eachInstr(fn, func(_ *ssa.BasicBlock, _ int, in ssa.Instruction) {
		root, ok := isOr(asValue(in))
		if !ok {
			return
		}
		// maximal tree only
		for _, u := range *root.Referrers() {
			if b, isB := isOr(asValue(u)); isB && b != root {
				return
			}
		}
		bits := bitsOf(root.Type())
		if bits != 16 && bits != 32 && bits != 64 {
			return
		}
		n := bits / 8
		type leaf struct {
			ld    *wireSite
			shift int64
		}
		var leaves []leaf
		bad := false
		var walk func(v ssa.Value)
		walk = func(v ssa.Value) {
			if b, isB := isOr(v); isB {
				walk(b.X)
				walk(b.Y)
				return
			}
			shift := int64(0)
			if b, isB := v.(*ssa.BinOp); isB && b.Op == token.SHL {
				k, isC := constInt(b.Y)
				if !isC {
					bad = true
					return
				}
				shift = k
				v = b.X
			}
			cv, isConv := v.(*ssa.Convert)
			if !isConv || bitsOf(cv.Type()) != bits || bitsOf(cv.X.Type()) != 8 {
				bad = true
				return
			}
			ls := loadSite[cv.X]
			if ls == nil {
				bad = true
				return
			}
			leaves = append(leaves, leaf{ls, shift})
		}
		walk(root)
		if bad || int64(len(leaves)) != n {
			return
		}
		// order by shift descending = ascending offset
		var first *wireSite
		for _, l := range leaves {
			if l.shift == 8*(n-1) {
				first = l.ld
			}
		}
		if first == nil {
			return
		}
		seen := map[int64]bool{}
		for _, l := range leaves {
			if l.ld.Root != first.Root || l.shift%8 != 0 {
				return
			}
			d := l.ld.Lo.add(first.Lo, -1)
			c, isC := d.isConst()
			if !isC || c < 0 || c >= n || l.shift != 8*(n-1-c) || seen[c] {
				return
			}
			seen[c] = true
		}
		hi := first.Lo.add(linExpr{C: n, Terms: map[string]int64{}}, 1)
		out = append(out, wireSite{In: root, Kind: fmt.Sprintf("Uint%d", bits), Role: "src", Root: first.Root, Lo: first.Lo, Hi: &hi, Val: root, Width: n})
	})
	// ---- writes
	type wkey struct {
		root string // the root by address shape: m.Raw[2], m.Raw[3] = ... loads the field once per element
		src  ssa.Value
		blk  *ssa.BasicBlock
	}
	rk := newKeyer()
	rk.pureFieldLoads = true
	rootKey := func(st *wireSite) string {
		// loads of one heap field within a block denote the same slice as long as nothing between
		// them can store the field: no call and no store to that field between the group's stores
		// (checked when the group is closed)
		return rk.Key(st.Root)
	}
	sameFieldUntouched := func(a, b ssa.Instruction) bool {
		if a.Block() != b.Block() {
			return false
		}
		i, j := instrIndex(a), instrIndex(b)
		if i > j {
			i, j = j, i
		}
		if i == j {
			return true
		}
		for _, in := range a.Block().Instrs[i+1 : j] {
			switch x := in.(type) {
			case *ssa.Call:
				if _, isB := x.Call.Value.(*ssa.Builtin); !isB {
					return false
				}
			case *ssa.Store:
				if _, isFA := x.Addr.(*ssa.FieldAddr); isFA {
					return false
				}
			case *ssa.Go, *ssa.Defer:
				return false
			}
		}
		return true
	}
	type wbyte struct {
		site  *wireSite
		shift int64
	}
	groups := map[wkey][]wbyte{}
	var order []wkey
	for i := range single {
		st := &single[i]
		if st.Kind != "store" {
			continue
		}
		cv, isConv := st.Val.(*ssa.Convert)
		if !isConv || bitsOf(cv.Type()) != 8 {
			continue
		}
		v := cv.X
		shift := int64(0)
		if b, isB := v.(*ssa.BinOp); isB && b.Op == token.SHR {
			k, isC := constInt(b.Y)
			if !isC {
				continue
			}
			shift = k
			v = b.X
		}
		if bitsOf(v.Type()) == 0 || bitsOf(v.Type()) == 8 {
			continue
		}
		k := wkey{rootKey(st), v, st.In.Block()}
		if _, have := groups[k]; !have {
			order = append(order, k)
		}
		groups[k] = append(groups[k], wbyte{st, shift})
	}
	for _, k := range order {
		g := groups[k]
		bits := bitsOf(k.src.Type())
		n := bits / 8
		if int64(len(g)) != n {
			continue
		}
		var first *wireSite
		for _, b := range g {
			if b.shift == 8*(n-1) {
				first = b.site
			}
		}
		if first == nil {
			continue
		}
		okAll := true
		seen := map[int64]bool{}
		var last ssa.Instruction
		for _, b := range g {
			d := b.site.Lo.add(first.Lo, -1)
			c, isC := d.isConst()
			if !isC || c < 0 || c >= n || b.shift != 8*(n-1-c) || seen[c] {
				okAll = false
				break
			}
			seen[c] = true
			if last == nil || instrIndex(b.site.In) > instrIndex(last) {
				last = b.site.In
			}
		}
		if !okAll {
			continue
		}
		for _, b := range g {
			if !sameFieldUntouched(first.In, b.site.In) {
				okAll = false
			}
		}
		if !okAll {
			continue
		}
		hi := first.Lo.add(linExpr{C: n, Terms: map[string]int64{}}, 1)
		out = append(out, wireSite{In: last, Kind: fmt.Sprintf("PutUint%d", bits), Role: "dst", Root: first.Root, Lo: first.Lo, Hi: &hi, Val: k.src, Width: n})
	}
	// constant groups: b[4], b[5], b[6], b[7] = 0x21, 0x12, 0xa4, 0x42 (the bytes of a constant the compiler
	// has folded): a maximal run of 2, 4 or 8 constant byte stores at consecutive constant offsets in one block
	type cbyte struct {
		site *wireSite
		off  int64
		val  int64
	}
	cgroups := map[string][]cbyte{}
	var corder []string
	for i := range single {
		st := &single[i]
		if st.Kind != "store" {
			continue
		}
		c, isC := st.Val.(*ssa.Const)
		if !isC || c.Value == nil || bitsOf(c.Type()) != 8 {
			continue
		}
		off, okOff := st.Lo.isConst()
		v, okV := constInt(c)
		if !okOff || !okV {
			continue
		}
		key := fmt.Sprintf("%s|b%d", rootKey(st), st.In.Block().Index)
		if _, have := cgroups[key]; !have {
			corder = append(corder, key)
		}
		cgroups[key] = append(cgroups[key], cbyte{st, off, v & 0xff})
	}
	for _, key := range corder {
		g := cgroups[key]
		sort.Slice(g, func(i, j int) bool { return g[i].off < g[j].off })
		for i := 0; i < len(g); {
			j := i
			for j+1 < len(g) && g[j+1].off == g[j].off+1 {
				j++
			}
			n := int64(j - i + 1)
			if n == 2 || n == 4 || n == 8 {
				okRun := true
				var val uint64
				var last ssa.Instruction
				for _, b := range g[i : j+1] {
					val = val<<8 | uint64(b.val)
					if !sameFieldUntouched(g[i].site.In, b.site.In) {
						okRun = false
					}
					if last == nil || instrIndex(b.site.In) > instrIndex(last) {
						last = b.site.In
					}
				}
				if okRun {
					var tt types.Type = types.Typ[types.Uint16]
					switch n {
					case 4:
						tt = types.Typ[types.Uint32]
					case 8:
						tt = types.Typ[types.Uint64]
					}
					hi := g[i].site.Lo.add(linExpr{C: n, Terms: map[string]int64{}}, 1)
					out = append(out, wireSite{In: last, Kind: fmt.Sprintf("PutUint%d", n*8), Role: "dst", Root: g[i].site.Root, Lo: g[i].site.Lo, Hi: &hi, Val: ssa.NewConst(constant.MakeUint64(val), tt), Width: n})
				}
			}
			i = j + 1
		}
	}
	return out
}

func asValue(in ssa.Instruction) ssa.Value {
	v, _ := in.(ssa.Value)
	return v
}

func instrIndex(in ssa.Instruction) int {
	for i, x := range in.Block().Instrs {
		if x == in {
			return i
		}
	}
	return -1
}

// constRange returns (lo, hi) when the site's range is constant.
func (w wireSite) constRange() (int64, int64, bool) {
	lo, ok := w.Lo.isConst()
	if !ok || w.Hi == nil {
		return 0, 0, false
	}
	hi, ok := w.Hi.isConst()
	return lo, hi, ok
}

func describeSite(w wireSite) string {
	return fmt.Sprintf("%s %s %s", w.Kind, w.Role, w.Range())
}

// stripConvs removes integer conversions.
func stripConvs(v ssa.Value) ssa.Value {
	for i := 0; i < 6; i++ {
		v = canonPhi(v)
		switch x := v.(type) {
		case *ssa.Convert:
			v = x.X
		case *ssa.ChangeType:
			v = x.X
		default:
			return v
		}
	}
	return v
}

// constSetOf: the set of integer constants a value may take through phis (nil if some edge is not constant).
func constSetOf(v ssa.Value, depth int) map[int64]bool {
	v = stripConvs(v)
	if c, ok := constInt(v); ok {
		return map[int64]bool{c: true}
	}
	if depth > 6 {
		return nil
	}
	if ld, ok := v.(*ssa.UnOp); ok && ld.Op == token.MUL {
		if d := deref(ld); d != ssa.Value(ld) {
			return constSetOf(d, depth+1)
		}
	}
	if ph, ok := v.(*ssa.Phi); ok {
		out := map[int64]bool{}
		edges := ph.Edges
		if le := phiLiveEdges(ph); le != nil {
			edges = le // the merged result of a normalised helper: failure-path values are dead at the uses
		}
		for _, e := range edges {
			s := constSetOf(e, depth+1)
			if s == nil {
				return nil
			}
			for k := range s {
				out[k] = true
			}
		}
		return out
	}
	return nil
}
