package main

import (
	"fmt"
	"go/token"
	"go/types"
	"strings"

	"golang.org/x/tools/go/ssa"
)

func init() {
	register("C04", "other", runC04)
	d := registry["C04"]
	d.Post = postTags("C04")
	registry["C04"] = d
	register("C05", "other", runC05)
	d5 := registry["C05"]
	d5.Post = postTags("C05")
	registry["C05"] = d5
}

const (
	attrMessageIntegrity = 0x0008
	attrFingerprint      = 0x8028
	fingerprintXOR       = 0x5354554e
)

// padCallee: the int->int padding function Decode uses.
func padCallee(p *Prog, dm *ssa.Function) *ssa.Function {
	var padFn *ssa.Function
	eachInstr(dm, func(b *ssa.BasicBlock, i int, in ssa.Instruction) {
		if c, ok := in.(*ssa.Call); ok {
			if sc := c.Call.StaticCallee(); sc != nil && p.isLibFn(sc) && len(sc.Params) == 1 && isIntType(sc.Params[0].Type()) && sc.Signature.Results().Len() == 1 && isIntType(sc.Signature.Results().At(0).Type()) {
				padFn = sc
			}
		}
	})
	return padFn
}

func runC04(r *Run) {
	p := r.P
	r.Res.Explanation = "structure of MESSAGE-INTEGRITY decided statically: Check compares the first MESSAGE-INTEGRITY value (Get) with newHMAC(receiver, Raw[:20+Length'-24]) where Length' is Length minus, for every attribute after the first MAC, 4 + padded(length) - the same expression by which Decode advances; the header length is rewritten before the HMAC call and restored (field and bytes) on every path; AddTo pre-adjusts by 4+20, hashes the whole Raw and refuses FINGERPRINT before any mutation; newHMAC acquires with the key, writes the message, sums into the scratch and never uses the pooled object after Put; checkHMAC is hmac.Equal = ConstantTimeCompare==1 in both tag sets; the long-term key is MD5(username:realm:password)"
	r.NotDecided("equality with HMAC-SHA1 for all keys and messages (the SHA-1 core is stdlib; C18 covers the pooled wrapper structurally)", "bit-flip detection as such")
	r.Assume("EXT: crypto/subtle.ConstantTimeCompare returns 1 iff equal length and content", "decoded-message invariant Length = len(Raw)-20")
	cl := p.buildClosures()
	msg := cl.Message
	rawF, lenF, attrsF := FieldVar(msg, "Raw"), FieldVar(msg, "Length"), FieldVar(msg, "Attributes")
	check, addTo := p.Meth("MessageIntegrity", "Check"), p.Meth("MessageIntegrity", "AddTo")
	newHMAC := p.Fn("newHMAC")
	wl := p.Meth("Message", "WriteLength")
	getM := p.Meth("Message", "Get")
	an := r.Rule("C04.anchors", "MessageIntegrity.AddTo/Check, newHMAC, WriteLength, Get resolve", 5)
	for n, f := range map[string]*ssa.Function{"MessageIntegrity.Check": check, "MessageIntegrity.AddTo": addTo, "newHMAC": newHMAC, "WriteLength": wl, "Message.Get": getM} {
		if f != nil {
			an.Instance(n, false, nil)
			r.Analysed(f)
		} else {
			an.Fail(n, "anchor not found")
		}
	}
	an.Done()
	if check == nil || addTo == nil || newHMAC == nil || wl == nil || getM == nil || cl.DecodeM == nil {
		return
	}
	le := newLinEval(p)
	padFn := padCallee(p, cl.DecodeM)

	// ---- span
	sp := r.Rule("C04.span", "Check: per attribute after the first MAC the length is reduced by 4 + padded(attribute length) (Decode's advance); the HMAC covers Raw[:20 + Length' - 24]; the accumulation is guarded by the after-MAC flag which is set by the type test on 0x0008 later in the same iteration", 4)
	var hcall *ssa.Call
	eachInstr(check, func(b *ssa.BasicBlock, i int, in ssa.Instruction) {
		if c, ok := in.(*ssa.Call); ok && callsFn(c, newHMAC) {
			hcall = c
		}
	})
	var adjStore *ssa.Store
	sr := newSaveRestore(p, check, lenF)
	for _, st := range sr.stores {
		if !sr.isSaved(st.Val) {
			adjStore = st
		}
	}
	if hcall == nil || adjStore == nil {
		sp.Violation(check, check.Pos(), "structure", "Check does not adjust Length and call newHMAC: structure not recognised (undecided)")
	} else {
		// message operand
		root, lo, hi := le.window(hcall.Call.Args[1])
		_, f := loadedField(root)
		sp.Instance("hmac span", true, map[string]string{"span": exprDepth(hcall.Call.Args[1], 0)})
		if f != rawF || hi == nil {
			sp.Violation(check, instrPos(hcall), "HMAC input "+exprDepth(hcall.Call.Args[1], 0), "the HMAC is not computed over a prefix of Raw")
		} else {
			if c, ok := lo.isConst(); !ok || c != 0 {
				sp.Violation(check, instrPos(hcall), "HMAC input start", "the HMAC input does not start at the first header byte")
			}
			d := hi.add(le.Eval(adjStore.Val), -1)
			if c, ok := d.isConst(); !ok || c != 20-24 {
				sp.Violation(check, instrPos(hcall), "HMAC input end "+hi.String(), fmt.Sprintf("the HMAC input must end at 20 + adjusted Length - (4+20), i.e. where the MESSAGE-INTEGRITY TLV starts (difference to the adjusted length is %s, want -4)", d))
			}
		}
		// the adjusted length = in:Length - sizeReduced(phi)
		adj := le.Eval(adjStore.Val)
		var red *ssa.Phi
		accFn := check // the function that holds the accumulation loop (Check itself or a one-level helper)
		_ = adj
		if bo, ok := stripConvs(adjStore.Val).(*ssa.BinOp); ok && bo.Op == token.SUB {
			y := stripConvs(bo.Y)
			if ph, ok := y.(*ssa.Phi); ok && isIntType(ph.Type()) {
				red = ph
			} else if c, ok := y.(*ssa.Call); ok {
				// helper(msg.Attributes) returning the accumulated size
				if sc := c.Call.StaticCallee(); sc != nil && p.isLibFn(sc) && len(c.Call.Args) == 1 && valueIsLoadOfField(c.Call.Args[0], attrsF) {
					for _, ret := range returnsOf(sc) {
						if ph, ok := stripConvs(ret.Results[0]).(*ssa.Phi); ok && isIntType(ph.Type()) {
							red = ph
							accFn = sc
							r.Analysed(sc)
						}
					}
				}
			}
		}
		if red == nil {
			sp.Violation(check, instrPos(adjStore), "size reduction", "no accumulator of trailing attribute sizes found: undecided")
		} else {
			// adjusted = in:Length - final accumulator value
			final := stripConvs(adjStore.Val)
			okAdj := false
			if bo, ok := final.(*ssa.BinOp); ok && bo.Op == token.SUB && fieldLoadIs(bo.X, lenF) {
				acc := stripConvs(bo.Y)
				if reachesPhi(acc, red, 0) || accFn != check {
					okAdj = true
				}
			}
			sp.Instance("adjusted length", true, map[string]string{"adjusted": exprDepth(adjStore.Val, 0)})
			if !okAdj {
				sp.Violation(check, instrPos(adjStore), "adjusted length "+exprDepth(adjStore.Val, 0), "the temporary length must be Length minus the accumulated size of the attributes after the MAC")
			}
			// per-iteration amounts: collect all phis in the accumulator cycle and their increments
			incs := accumulatorIncrements(le, red)
			sp.Instance("per-attribute amount", true, map[string]interface{}{"increments": fmt.Sprint(incs)})
			okInc := false
			for _, inc := range incs {
				c := inc.C
				if c == 4 && len(inc.Terms) == 1 {
					for t := range inc.Terms {
						if padFn != nil && len(t) > len(fnName(padFn)) && t[:len(fnName(padFn))+1] == fnName(padFn)+"(" && inc.Terms[t] == 1 {
							okInc = true
						}
					}
				}
			}
			if !okInc {
				sp.Violation(accFn, instrPos(red), "per-attribute amount", fmt.Sprintf("each attribute after the MAC must reduce the covered length by 4 + %s(length), the amount by which Decode advances; found %v (attributes with unpadded lengths shift the covered span)", nameOf(padFn), incs))
			}
			// guard: accumulation under the flag; flag set by the type test later in the iteration
			checkAfterFlag(r, sp, accFn, red)
		}
		// order: WriteLength between adjust and HMAC
		var wlMid ssa.Instruction
		eachInstr(check, func(b *ssa.BasicBlock, i int, in ssa.Instruction) {
			if callsFn(in, wl) && instrDominates(adjStore, in) && instrDominates(in, hcall) {
				wlMid = in
			}
		})
		sp.Instance("order", true, nil)
		if wlMid == nil {
			sp.Violation(check, instrPos(hcall), "header length not rewritten before the HMAC", "the HMAC is computed over a header that still carries the full length (every message with trailing attributes fails verification, or the wrong bytes are authenticated)")
		}
	}
	sp.Done()

	// ---- restore
	rs := r.Rule("C04.restore", "Check restores Length and rewrites the header bytes on every path to every return", 1)
	{
		viol, _ := sr.run(true)
		rs.Instance(fnName(check), true, map[string]int{"saved": len(sr.saved), "stores": len(sr.stores)})
		for _, v := range viol {
			what := "Length not restored"
			if v.State&srDirty == 0 {
				what = "header bytes not rewritten after the restore"
			}
			rs.ViolationPath(check, instrPos(v.Ret), what, "after a failed (or successful) Check the message reports a shorter length: the next Check covers the wrong span, FINGERPRINT and re-decoding break", v.Witness)
		}
	}
	rs.Done()

	// ---- cmp
	cm := r.Rule("C04.cmp", "Check returns checkHMAC(value of the first MESSAGE-INTEGRITY attribute, computed HMAC); checkHMAC is nil iff hmac.Equal on the whole slices; hmac.Equal is ConstantTimeCompare == 1", 3)
	{
		chk := p.Fn("checkHMAC")
		var gc *ssa.Call
		eachInstr(check, func(b *ssa.BasicBlock, i int, in ssa.Instruction) {
			if c, ok := in.(*ssa.Call); ok && callsFn(c, getM) {
				gc = c
			}
		})
		okGet := false
		if gc != nil {
			if t, ok := constInt(gc.Call.Args[1]); ok && t == attrMessageIntegrity {
				okGet = true
			}
		}
		cm.Instance("Get(MESSAGE-INTEGRITY)", true, nil)
		if !okGet {
			cm.Violation(check, check.Pos(), "MAC lookup", "Check does not take the first MESSAGE-INTEGRITY attribute (Get(0x0008))")
		}
		okRet := false
		for _, ret := range returnsOf(check) {
			v := deref(ret.Results[0])
			c, ok := v.(*ssa.Call)
			if !ok || chk == nil || !callsFn(c, chk) {
				continue
			}
			a0, a1 := c.Call.Args[0], c.Call.Args[1]
			isVal := func(x ssa.Value) bool {
				e, ok := x.(*ssa.Extract)
				return ok && gc != nil && e.Tuple == ssa.Value(gc) && e.Index == 0
			}
			if (isVal(a0) && a1 == ssa.Value(hcall)) || (isVal(a1) && a0 == ssa.Value(hcall)) {
				okRet = true
			}
		}
		cm.Instance("return checkHMAC(val, expected)", true, nil)
		if !okRet {
			cm.Violation(check, check.Pos(), "comparison", "Check's verdict is not checkHMAC(attribute value, computed HMAC) on the whole slices")
		}
		r.Res.Extra = map[string]interface{}{"nilconds": checkHelperConds(r, cm)}
	}
	cm.Done()

	// ---- flow
	fw := r.Rule("C04.flow", "newHMAC(key, message, buf) = AcquireSHA1(key); Write(message); Sum(buf); Put after the last use; AddTo and Check pass the receiver as key; AddTo hashes exactly Raw[:20+Length(on entry)] after rewriting the header length", 4)
	checkNewHMAC(r, fw, newHMAC)
	for _, fn := range []*ssa.Function{addTo, check} {
		eachInstr(fn, func(b *ssa.BasicBlock, i int, in ssa.Instruction) {
			if c, ok := in.(*ssa.Call); ok && callsFn(c, newHMAC) {
				fw.Instance(fnName(fn)+"|key", true, nil)
				if stripConvs(c.Call.Args[0]) != ssa.Value(fn.Params[0]) {
					fw.Violation(fn, instrPos(c), "HMAC key "+exprDepth(c.Call.Args[0], 0), "the HMAC key is not the integrity credential (the receiver)")
				}
				if fn == addTo {
					if !isMessageSpan(newLinEval(p), c.Call.Args[1], rawF, lenF) {
						fw.Violation(fn, instrPos(c), "HMAC input "+exprDepth(c.Call.Args[1], 0), "AddTo must authenticate exactly the message up to the attribute being added, Raw[:20+Length] with the Length the message had on entry: Raw as a whole may hold bytes that follow the message (Decode keeps them), and a MAC over them does not verify")
					}
					okOrder := false
					eachInstr(fn, func(bb *ssa.BasicBlock, j int, x ssa.Instruction) {
						if callsFn(x, wl) && instrDominates(x, c) {
							okOrder = true
						}
					})
					if !okOrder {
						fw.Violation(fn, instrPos(c), "HMAC before the header length is rewritten", "the MAC is computed over a header whose length does not yet include the MESSAGE-INTEGRITY attribute")
					}
				}
				if !isSpareCapacityView(c.Call.Args[2]) {
					fw.Violation(fn, instrPos(c), "HMAC scratch "+exprDepth(c.Call.Args[2], 0), "the scratch buffer must be the zero-length view behind Raw, otherwise Sum overwrites message bytes")
				}
			}
		})
	}
	// AddTo adds type 0x0008 with a copy of the MAC
	{
		add := p.Meth("Message", "Add")
		okAdd := false
		eachInstr(addTo, func(b *ssa.BasicBlock, i int, in ssa.Instruction) {
			if c, ok := in.(*ssa.Call); ok && callsFn(c, add) {
				if t, ok := constInt(c.Call.Args[1]); ok && t == attrMessageIntegrity {
					okAdd = true
				}
			}
		})
		fw.Instance("AddTo|Add(0x0008)", true, nil)
		if !okAdd {
			fw.Violation(addTo, addTo.Pos(), "attribute type", "the MAC is not added as attribute 0x0008")
		}
	}
	fw.Done()

	// ---- fp guard (shared with C09.fp)
	fp := r.Rule("C04.fp", "AddTo refuses a message that already carries FINGERPRINT, before any mutation", 1)
	checkFPGuard(r, fp, newMutInfo(p))
	fp.Done()

	// ---- long-term key
	lt := r.Rule("C04.longterm", "NewLongTermIntegrity = MD5(username \":\" realm \":\" password)", 1)
	checkLongTerm(r, lt)
	lt.Done()
	ky := r.Rule("C04.key", "the HMAC implementation behind newHMAC only reads the integrity key (hmac.New and the pool's re-keying never write into or retain the caller's key): the same credential yields the same MAC on every use (shared with C18.keyread)", 2)
	if ht := namedIn(p.Hmac.Pkg, "hmac"); ht != nil {
		checkKeyRead(r, ky, []*ssa.Function{p.Hmac.Func("New"), p.MethodOf(ht, "resetTo")})
	} else {
		ky.Fail("internal/hmac.hmac", "type not found")
	}
	ky.Done()
	wr := r.Rule("C04.wire", "Decode and everything it calls never write a byte of the message (Raw and views of it): the HMAC is computed over the bytes as received", 1)
	checkDecodeReadOnly(r, wr)
	wr.Done()
	_ = attrsF
	// ---- the verdict is the MAC comparison and nothing else
	vd := r.Rule("C04.verdict", "every error MessageIntegrity.Check returns is either the error of looking up MESSAGE-INTEGRITY (Get) or the result of checkHMAC on the received and the computed MAC: no other test - of attributes behind the MAC, of bytes behind the message - can make a correctly signed message fail", 2)
	if ck := p.Meth("MessageIntegrity", "Check"); ck != nil {
		getM := p.Meth("Message", "Get")
		chk := p.Fn("checkHMAC")
		idx := errorResultIndex(ck)
		var allowed func(v ssa.Value, depth int) bool
		allowed = func(v ssa.Value, depth int) bool {
			if depth > 8 || v == nil {
				return false
			}
			v = deref(v)
			switch x := v.(type) {
			case *ssa.Const:
				return false // Check has no unconditional verdict
			case *ssa.Call:
				return chk != nil && callsFn(x, chk)
			case *ssa.Extract:
				if c, ok := x.Tuple.(*ssa.Call); ok && getM != nil && callsFn(c, getM) && x.Index == 1 {
					return true
				}
			case *ssa.Phi:
				for _, e := range x.Edges {
					if !allowed(e, depth+1) {
						return false
					}
				}
				return len(x.Edges) > 0
			}
			return false
		}
		for _, ret := range returnsOf(ck) {
			if idx < 0 {
				break
			}
			vd.Instance(fmt.Sprintf("%s|return@b%d", fnName(ck), ret.Block().Index), true, map[string]string{"returns": exprCanon(ret.Results[idx])})
			if !allowed(ret.Results[idx], 0) {
				vd.Violation(ck, instrPos(ret), "return "+exprCanon(ret.Results[idx]), "Check returns a verdict that is neither the lookup's error nor the MAC comparison: the outcome depends on something RFC 5389 15.4 says to ignore (what follows MESSAGE-INTEGRITY, or bytes behind the message)")
			}
		}
	}
	vd.Done()
	// ---- the MAC handed to Add is a private copy
	av := r.Rule("C04.addvalue", "the value MessageIntegrity.AddTo hands to Add does not live in the message's own buffer: the digest was summed into Raw's spare capacity, exactly where Add writes the attribute header, so it is copied out first on every path", 1)
	if at := p.Meth("MessageIntegrity", "AddTo"); at != nil {
		addM := p.Meth("Message", "Add")
		n := 0
		eachInstr(at, func(b *ssa.BasicBlock, i int, in ssa.Instruction) {
			c, ok := in.(*ssa.Call)
			if !ok || addM == nil || !callsFn(c, addM) || len(c.Call.Args) < 3 {
				return
			}
			n++
			var inRaw func(v ssa.Value, depth int) bool
			inRaw = func(v ssa.Value, depth int) bool {
				if depth > 8 || v == nil {
					return false
				}
				if messageDerived(v, 0) {
					return true
				}
				switch x := v.(type) {
				case *ssa.Slice:
					return inRaw(x.X, depth+1)
				case *ssa.ChangeType:
					return inRaw(x.X, depth+1)
				case *ssa.Phi:
					for _, e := range x.Edges {
						if inRaw(e, depth+1) {
							return true
						}
					}
				case *ssa.Call:
					if isBuiltinCall(x, "append") {
						return inRaw(x.Call.Args[0], depth+1)
					}
					if x.Call.IsInvoke() && x.Call.Method.Name() == "Sum" && len(x.Call.Args) == 1 {
						return inRaw(x.Call.Args[0], depth+1)
					}
					if sc := x.Call.StaticCallee(); sc != nil && p.isLibFn(sc) {
						for _, j := range sumScratchParams(p, sc, map[*ssa.Function]bool{}) {
							if j < len(x.Call.Args) && inRaw(x.Call.Args[j], depth+1) {
								return true
							}
						}
					}
				}
				return false
			}
			v := c.Call.Args[2]
			av.Instance(fnName(at)+"|Add value", true, map[string]string{"fn": fnName(at), "value": exprCanon(v)})
			if inRaw(v, 0) {
				av.Violation(at, instrPos(c), "Add("+exprCanon(v)+")", "the digest handed to Add still sits in Raw's spare capacity: when the buffer does not have to move, Add writes the 4-byte attribute header over the first bytes of the very value it is about to copy - the message carries a MAC that does not verify")
			}
		})
		if n == 0 {
			av.Fail(fnName(at), "no call of Add found in MessageIntegrity.AddTo")
		}
	}
	av.Done()
	// the setter restores Length and the header on every path, refusals included: a signed message that was
	// handed to AddTo once more (and refused) still verifies (shared with C03)
	r.Borrow("C03", map[string]string{"C03.restore": "C04.addrestore"})
	// a message without MESSAGE-INTEGRITY is answered with the lookup's error, not verified with a nil value (shared with C07)
	r.Borrow("C07", map[string]string{"C07.lookup": "C04.lookup"})
}

func nameOf(f *ssa.Function) string {
	if f == nil {
		return "pad"
	}
	return fnName(f)
}

func fieldLoadIs(v ssa.Value, fv *types.Var) bool {
	return valueIsLoadOfField(stripConvs(v), fv)
}

func reachesPhi(v ssa.Value, ph *ssa.Phi, depth int) bool {
	if depth > 6 {
		return false
	}
	v = stripConvs(v)
	if v == ssa.Value(ph) {
		return true
	}
	if p2, ok := v.(*ssa.Phi); ok {
		for _, e := range p2.Edges {
			if reachesPhi(e, ph, depth+1) {
				return true
			}
		}
	}
	return false
}

// accumulatorIncrements: the distinct non-zero amounts added to the accumulator cycle of phi.
func accumulatorIncrements(le *linEval, ph *ssa.Phi) []linExpr {
	var out []linExpr
	seen := map[ssa.Value]bool{}
	var walk func(v ssa.Value, acc linExpr, depth int)
	walk = func(v ssa.Value, acc linExpr, depth int) {
		if depth > 8 {
			return
		}
		v = stripConvs(v)
		if v == ssa.Value(ph) && depth > 0 {
			if c, isC := acc.isConst(); !(isC && c == 0) {
				dup := false
				for _, o := range out {
					if o.equal(acc) {
						dup = true
					}
				}
				if !dup {
					out = append(out, acc)
				}
			}
			return
		}
		switch x := v.(type) {
		case *ssa.Phi:
			if seen[x] && x != ph {
				return
			}
			seen[x] = true
			for _, e := range x.Edges {
				walk(e, acc, depth+1)
			}
		case *ssa.BinOp:
			if x.Op == token.ADD {
				// which operand leads back to the accumulator?
				if leadsTo(x.X, ph, 0) {
					walk(x.X, acc.add(le.Eval(x.Y), 1), depth+1)
				} else if leadsTo(x.Y, ph, 0) {
					walk(x.Y, acc.add(le.Eval(x.X), 1), depth+1)
				}
			}
		}
	}
	walk(ph, linExpr{Terms: map[string]int64{}}, 0)
	return out
}

func leadsTo(v ssa.Value, ph *ssa.Phi, depth int) bool {
	if depth > 8 {
		return false
	}
	v = stripConvs(v)
	if v == ssa.Value(ph) {
		return true
	}
	switch x := v.(type) {
	case *ssa.Phi:
		for _, e := range x.Edges {
			if e != ssa.Value(x) && leadsTo(e, ph, depth+1) {
				return true
			}
		}
	case *ssa.BinOp:
		return leadsTo(x.X, ph, depth+1) || leadsTo(x.Y, ph, depth+1)
	}
	return false
}

// checkAfterFlag: the accumulation happens only under a boolean loop-carried flag that is set on the
// match edge of Type == MESSAGE-INTEGRITY, and the flag test precedes the type test in the iteration.
func checkAfterFlag(r *Run, rc *RuleCtx, fn *ssa.Function, acc *ssa.Phi) {
	var flag *ssa.Phi
	for _, in := range acc.Block().Instrs {
		if ph, ok := in.(*ssa.Phi); ok && isBoolType(ph.Type()) {
			flag = ph
		}
	}
	rc.Instance("after-MAC flag", true, nil)
	if flag == nil {
		if ok, why := accumulatesAfterFirstMAC(fn, acc); !ok {
			rc.Violation(fn, instrPos(acc), "no after-MAC flag", "attributes before the MAC are counted too (or none are): "+why)
		}
		return
	}
	// flag starts false
	for i, e := range flag.Edges {
		pred := flag.Block().Preds[i]
		if !blockDominates(flag.Block(), pred) {
			if c, ok := e.(*ssa.Const); !ok || c.Value == nil || c.Value.String() != "false" {
				rc.Violation(fn, instrPos(flag), "flag initial value", "the after-MAC flag must start false")
			}
		}
	}
	flagIfs := ifsOn(fn, func(v ssa.Value) bool { return v == ssa.Value(flag) })
	typeIfs := ifsOn(fn, func(v ssa.Value) bool {
		b, ok := v.(*ssa.BinOp)
		if !ok || (b.Op != token.EQL && b.Op != token.NEQ) {
			return false
		}
		c, ok := constInt(b.Y)
		if !ok {
			c, ok = constInt(b.X)
		}
		return ok && c == attrMessageIntegrity
	})
	if len(flagIfs) == 0 || len(typeIfs) == 0 {
		rc.Violation(fn, instrPos(flag), "flag/type tests", "the loop does not test the flag and the attribute type 0x0008")
		return
	}
	// accumulation edges come from blocks dominated by the flag's true edge
	fi := flagIfs[0]
	for i, e := range acc.Edges {
		if stripConvs(e) == ssa.Value(acc) {
			continue
		}
		pred := acc.Block().Preds[i]
		if !blockDominates(acc.Block(), pred) {
			continue
		}
		// e is a phi merging accumulate / not: check the incrementing definition's block
		checkIncUnder(rc, fn, e, acc, fi, 0)
	}
	if !blockDominates(fi.If.Block(), typeIfs[0].If.Block()) {
		rc.Violation(fn, instrPos(typeIfs[0].If), "type test before flag test", "the MESSAGE-INTEGRITY attribute itself is counted as trailing (the covered span ends 24 bytes early)")
	}
	// flag becomes true exactly on the match edge
	ti := typeIfs[0]
	b := ti.Val.(*ssa.BinOp)
	eq := ti.OnTrue
	if b.Op == token.NEQ {
		eq = ti.OnFalse
	}
	setOK := false
	var walk func(v ssa.Value, depth int)
	walk = func(v ssa.Value, depth int) {
		if depth > 4 {
			return
		}
		if ph, ok := v.(*ssa.Phi); ok {
			for i, e := range ph.Edges {
				if c, ok := e.(*ssa.Const); ok && c.Value != nil && c.Value.String() == "true" {
					pred := ph.Block().Preds[i]
					if eq == pred || blockDominates(eq, pred) {
						setOK = true
					}
				} else if e != ssa.Value(flag) {
					walk(e, depth+1)
				}
			}
		}
	}
	for _, e := range flag.Edges {
		walk(e, 0)
		if c, ok := e.(*ssa.Const); ok && c.Value != nil && c.Value.String() == "true" {
			setOK = true
		}
	}
	if !setOK {
		rc.Violation(fn, instrPos(flag), "flag never set on the MAC", "no attribute is ever counted as trailing")
	}
}

func checkIncUnder(rc *RuleCtx, fn *ssa.Function, v ssa.Value, acc *ssa.Phi, fi condIf, depth int) {
	if depth > 6 {
		return
	}
	v = stripConvs(v)
	switch x := v.(type) {
	case *ssa.Phi:
		if x == acc {
			return
		}
		for _, e := range x.Edges {
			checkIncUnder(rc, fn, e, acc, fi, depth+1)
		}
	case *ssa.BinOp:
		if x.Op == token.ADD && leadsTo(x, acc, 0) {
			if !(blockDominates(fi.OnTrue, x.Block()) && len(fi.OnTrue.Preds) == 1) {
				rc.Violation(fn, instrPos(x), "accumulation outside the after-MAC branch", "attributes before the MAC reduce the covered length")
			}
			checkIncUnder(rc, fn, x.X, acc, fi, depth+1)
			checkIncUnder(rc, fn, x.Y, acc, fi, depth+1)
		}
	}
}

func checkNewHMAC(r *Run, rc *RuleCtx, fn *ssa.Function) {
	p := r.P
	if len(fn.Params) != 3 {
		rc.Violation(fn, fn.Pos(), "signature", "newHMAC(key, message, buf) expected")
		return
	}
	key, message, buf := fn.Params[0], fn.Params[1], fn.Params[2]
	acq := p.Hmac.Func("AcquireSHA1")
	put := p.Hmac.Func("PutSHA1")
	var mac *ssa.Call
	var putIn ssa.Instruction
	var putDeferred bool
	var sum *ssa.Call
	wrote := false
	eachInstr(fn, func(b *ssa.BasicBlock, i int, in ssa.Instruction) {
		if c, ok := in.(*ssa.Call); ok && callsFn(c, acq) {
			mac = c
		}
	})
	if mac == nil {
		rc.Violation(fn, fn.Pos(), "acquire", "newHMAC does not acquire a pooled HMAC-SHA1")
		return
	}
	rc.Instance("acquire", true, nil)
	if stripConvs(mac.Call.Args[0]) != ssa.Value(key) {
		rc.Violation(fn, instrPos(mac), "acquire key", "the pooled HMAC is not keyed with the key argument")
	}
	eachInstr(fn, func(b *ssa.BasicBlock, i int, in ssa.Instruction) {
		if callsFn(in, put) {
			putIn = in
			_, putDeferred = in.(*ssa.Defer)
		}
		if c, ok := in.(*ssa.Call); ok {
			if c.Call.IsInvoke() && c.Call.Value == ssa.Value(mac) {
				switch c.Call.Method.Name() {
				case "Sum":
					sum = c
				case "Write":
					if c.Call.Args[0] == ssa.Value(message) {
						wrote = true
					}
				}
			}
			// writeOrPanic(mac, message)
			if sc := c.Call.StaticCallee(); sc != nil && p.isLibFn(sc) && len(c.Call.Args) == 2 {
				if mi, ok := c.Call.Args[0].(*ssa.ChangeInterface); ok && mi.X == ssa.Value(mac) && c.Call.Args[1] == ssa.Value(message) {
					wrote = true
				}
			}
		}
	})
	rc.Instance("write", true, nil)
	rc.Instance("sum", true, nil)
	rc.Instance("put", true, nil)
	if !wrote {
		rc.Violation(fn, fn.Pos(), "write", "the message argument is not written into the HMAC")
	}
	if sum == nil || sum.Call.Args[0] != ssa.Value(buf) {
		rc.Violation(fn, fn.Pos(), "sum", "the result is not mac.Sum(buf)")
	}
	if putIn == nil {
		rc.Violation(fn, fn.Pos(), "put", "the pooled HMAC is never returned to the pool")
		return
	}
	if !putDeferred {
		// every use of mac must precede the Put
		for _, u := range *mac.Referrers() {
			if u == putIn {
				continue
			}
			if reachableFrom(putIn, u) {
				rc.Violation(fn, instrPos(u), "use of the pooled HMAC after Put", "another goroutine may already have re-keyed the object: the MAC computed here belongs to a different key/message")
			}
		}
	}
}

func checkLongTerm(r *Run, rc *RuleCtx) {
	p := r.P
	fn := p.Fn("NewLongTermIntegrity")
	if fn == nil || len(fn.Params) != 3 {
		rc.Fail("NewLongTermIntegrity", "not found")
		return
	}
	r.Analysed(fn)
	rc.Instance(fnName(fn), true, nil)
	var h ssa.Value
	eachInstr(fn, func(b *ssa.BasicBlock, i int, in ssa.Instruction) {
		if c, ok := in.(*ssa.Call); ok && isPkgFuncCall(c, "crypto/md5", "New") {
			h = c
		}
	})
	if h == nil {
		rc.Violation(fn, fn.Pos(), "key derivation", "the long-term key is not MD5 over the joined credentials")
		return
	}
	// the string built from the parameters, as a sequence of parts: "p0".."p2" for the parameters, quoted
	// literals for constants (strings.Join over a literal list and + concatenation are understood)
	var parts func(v ssa.Value, depth int) ([]string, bool)
	parts = func(v ssa.Value, depth int) ([]string, bool) {
		if depth > 10 || v == nil {
			return nil, false
		}
		switch x := v.(type) {
		case *ssa.Parameter:
			for i, pa := range fn.Params {
				if pa == x {
					return []string{fmt.Sprintf("p%d", i)}, true
				}
			}
		case *ssa.Const:
			if sv, ok := constString(x); ok {
				if sv == "" {
					return nil, true
				}
				return []string{fmt.Sprintf("%q", sv)}, true
			}
		case *ssa.Convert:
			return parts(x.X, depth+1)
		case *ssa.ChangeType:
			return parts(x.X, depth+1)
		case *ssa.MakeInterface:
			return parts(x.X, depth+1)
		case *ssa.BinOp:
			if x.Op == token.ADD {
				a, ok1 := parts(x.X, depth+1)
				b, ok2 := parts(x.Y, depth+1)
				return append(append([]string{}, a...), b...), ok1 && ok2
			}
		case *ssa.Call:
			if isPkgFuncCall(x, "strings", "Join") && len(x.Call.Args) == 2 {
				sep, okS := parts(x.Call.Args[1], depth+1)
				sl, okL := x.Call.Args[0].(*ssa.Slice)
				if !okS || !okL {
					return nil, false
				}
				al, okA := sl.X.(*ssa.Alloc)
				if !okA {
					return nil, false
				}
				got := map[int64]ssa.Value{}
				for _, u := range *al.Referrers() {
					if ia, ok := u.(*ssa.IndexAddr); ok {
						idx, _ := constInt(ia.Index)
						for _, w := range *ia.Referrers() {
							if st, ok := w.(*ssa.Store); ok {
								got[idx] = st.Val
							}
						}
					}
				}
				var out []string
				for i := int64(0); i < int64(len(got)); i++ {
					e, ok := parts(got[i], depth+1)
					if !ok {
						return nil, false
					}
					if i > 0 {
						out = append(out, sep...)
					}
					out = append(out, e...)
				}
				return out, len(got) > 0
			}
		}
		return nil, false
	}
	want := []string{"p0", `":"`, "p1", `":"`, "p2"}
	sumOK, fed := false, false
	var fedAt ssa.Instruction
	var gotParts []string
	eachInstr(fn, func(b *ssa.BasicBlock, i int, in ssa.Instruction) {
		c, ok := in.(*ssa.Call)
		if !ok {
			return
		}
		if c.Call.IsInvoke() && c.Call.Value == h && c.Call.Method.Name() == "Sum" {
			sumOK = true
		}
		// something is written into the hash: h.Write(x), h.WriteString / io.WriteString(h, x), fmt.Fprint(h, x)
		intoHash := c.Call.IsInvoke() && c.Call.Value == h && strings.HasPrefix(c.Call.Method.Name(), "Write")
		if !intoHash && !c.Call.IsInvoke() {
			for _, a := range c.Call.Args {
				if dependsOn(a, h, 0) {
					intoHash = true
				}
			}
		}
		if !intoHash {
			return
		}
		for _, a := range c.Call.Args {
			if dependsOn(a, h, 0) {
				continue
			}
			// fmt.Fprint's variadic list: the elements of the literal slice
			cands := []ssa.Value{a}
			if sl, isSl := a.(*ssa.Slice); isSl {
				if al, isAl := sl.X.(*ssa.Alloc); isAl {
					for _, u := range *al.Referrers() {
						if ia, isIA := u.(*ssa.IndexAddr); isIA {
							for _, w := range *ia.Referrers() {
								if st, isSt := w.(*ssa.Store); isSt {
									cands = append(cands, st.Val)
								}
							}
						}
					}
				}
			}
			for _, cv := range cands {
				if ps, okP := parts(cv, 0); okP && len(ps) > 0 {
					fedAt, gotParts = c, ps
					if strings.Join(ps, "") == strings.Join(want, "") {
						fed = true
					}
				}
			}
		}
	})
	if !fed {
		pos := fn.Pos()
		what := "the joined credentials are not written into the MD5 hash"
		if fedAt != nil {
			pos = instrPos(fedAt)
			what = "what is hashed is " + strings.Join(gotParts, " + ") + ", not username \":\" realm \":\" password (RFC 5389 15.4): another key than every other implementation derives"
		}
		rc.Violation(fn, pos, "hash input", what)
	}
	if !sumOK {
		rc.Violation(fn, fn.Pos(), "hash output", "the key is not the MD5 sum")
	}
}

func dependsOn(v ssa.Value, target ssa.Value, depth int) bool {
	if depth > 8 || v == nil {
		return false
	}
	if v == target {
		return true
	}
	switch x := v.(type) {
	case *ssa.MakeInterface:
		return dependsOn(x.X, target, depth+1)
	case *ssa.ChangeInterface:
		return dependsOn(x.X, target, depth+1)
	case *ssa.Convert:
		return dependsOn(x.X, target, depth+1)
	case *ssa.ChangeType:
		return dependsOn(x.X, target, depth+1)
	case *ssa.Slice:
		return dependsOn(x.X, target, depth+1)
	case *ssa.Alloc:
		for _, u := range *x.Referrers() {
			if ia, ok := u.(*ssa.IndexAddr); ok {
				for _, w := range *ia.Referrers() {
					if st, ok := w.(*ssa.Store); ok && dependsOn(st.Val, target, depth+1) {
						return true
					}
				}
			}
		}
	}
	return false
}

// ---------------------------------------------------------------------------
// C05

func runC05(r *Run) {
	p := r.P
	r.Res.Explanation = "structure of FINGERPRINT decided statically: FingerprintValue is crc32.ChecksumIEEE(b) XOR 0x5354554e; AddTo pre-adjusts Length by 4+4, rewrites the header, computes the value over the whole Raw, restores Length and adds attribute 0x8028 with the big-endian value; Check takes the first FINGERPRINT (Get), requires a 4-byte value (CheckSize nil edge) before reading it, computes the value over Raw[:len(Raw)-8] and returns checkFingerprint(got, expected), which is nil iff equal in both tag sets"
	r.NotDecided("the burst-detection clause: it is a theorem about CRC-32 over the span established here (hash/crc32), not a property of this code's shape")
	r.Assume("EXT: hash/crc32.ChecksumIEEE is CRC-32/IEEE", "decoded-message invariant: a message with a 4-byte FINGERPRINT has len(Raw) >= 28")
	cl := p.buildClosures()
	rawF, lenF := FieldVar(cl.Message, "Raw"), FieldVar(cl.Message, "Length")
	fv := p.Fn("FingerprintValue")
	addTo, check := p.Meth("FingerprintAttr", "AddTo"), p.Meth("FingerprintAttr", "Check")
	wl, add, getM := p.Meth("Message", "WriteLength"), p.Meth("Message", "Add"), p.Meth("Message", "Get")
	an := r.Rule("C05.anchors", "FingerprintValue, FingerprintAttr.AddTo/Check resolve", 3)
	for n, f := range map[string]*ssa.Function{"FingerprintValue": fv, "FingerprintAttr.AddTo": addTo, "FingerprintAttr.Check": check} {
		if f != nil {
			an.Instance(n, false, nil)
			r.Analysed(f)
		} else {
			an.Fail(n, "anchor not found")
		}
	}
	an.Done()
	if fv == nil || addTo == nil || check == nil || wl == nil || add == nil || getM == nil {
		return
	}
	le := newLinEval(p)

	// ---- value
	vl := r.Rule("C05.value", "FingerprintValue(b) = crc32.ChecksumIEEE(b) XOR 0x5354554e", 1)
	{
		ok := false
		for _, ret := range returnsOf(fv) {
			if b, isB := ret.Results[0].(*ssa.BinOp); isB && b.Op == token.XOR {
				c, isC := b.X.(*ssa.Call)
				k, isK := constInt(b.Y)
				if !isC {
					c, isC = b.Y.(*ssa.Call)
					k, isK = constInt(b.X)
				}
				if isC && isK && k == fingerprintXOR && isPkgFuncCall(c, "hash/crc32", "ChecksumIEEE") && c.Call.Args[0] == ssa.Value(fv.Params[0]) {
					ok = true
				}
			}
		}
		vl.Instance(fnName(fv), true, nil)
		if !ok {
			vl.Violation(fv, fv.Pos(), "fingerprint value", "the value must be CRC-32 (IEEE) of exactly the given bytes XOR 0x5354554e")
		}
	}
	vl.Done()

	// ---- add
	ad := r.Rule("C05.add", "AddTo: Length += 8 and WriteLength precede FingerprintValue(whole Raw); Length is restored before Add(0x8028, 4-byte big-endian value)", 3)
	{
		sr := newSaveRestore(p, addTo, lenF)
		var adj *ssa.Store
		for _, st := range sr.stores {
			if !sr.isSaved(st.Val) {
				adj = st
			}
		}
		var fvc, addc *ssa.Call
		var wlc ssa.Instruction
		eachInstr(addTo, func(b *ssa.BasicBlock, i int, in ssa.Instruction) {
			if c, ok := in.(*ssa.Call); ok {
				if callsFn(c, fv) {
					fvc = c
				}
				if callsFn(c, add) {
					addc = c
				}
			}
			if callsFn(in, wl) {
				wlc = in
			}
		})
		ad.Instance("structure", true, map[string]bool{"pre_adjust": adj != nil, "value_call": fvc != nil, "write_length": wlc != nil, "add": addc != nil})
		if adj == nil || fvc == nil || wlc == nil || addc == nil {
			ad.Violation(addTo, addTo.Pos(), "structure", "AddTo does not pre-adjust Length, rewrite the header, compute the value and add the attribute")
		} else {
			d := le.Eval(adj.Val)
			ad.Instance("pre-adjust", true, map[string]string{"adjusted": d.String()})
			if d.C != 8 || len(d.Terms) != 1 {
				ad.Violation(addTo, instrPos(adj), "pre-adjust "+d.String(), "the CRC must be computed with the final header length: Length + 4 + 4")
			}
			if !(instrDominates(adj, wlc) && instrDominates(wlc, fvc)) {
				ad.Violation(addTo, instrPos(fvc), "order", "the CRC is computed before the header carries the final length")
			}
			if !isMessageSpan(le, fvc.Call.Args[0], rawF, lenF) {
				ad.Violation(addTo, instrPos(fvc), "CRC input "+exprDepth(fvc.Call.Args[0], 0), "the CRC must cover exactly the bytes preceding the attribute, Raw[:20+Length] with the Length the message had on entry: Raw as a whole may hold bytes that follow the message (Decode keeps them)")
			}
			ad.Instance("Add", true, nil)
			if t, ok := constInt(addc.Call.Args[1]); !ok || t != attrFingerprint {
				ad.Violation(addTo, instrPos(addc), "attribute type", "the value is not added as attribute 0x8028")
			}
			// value: 4-byte buffer written big-endian with the call's result
			okVal := false
			for _, s := range wireSites(le, addTo) {
				if s.Kind == "PutUint32" && s.Val == ssa.Value(fvc) {
					root, lo, _ := le.window(addc.Call.Args[2])
					if s.Root == root && lo.equal(s.Lo) {
						if l, ok := le.lenOf(addc.Call.Args[2]).isConst(); ok && l == 4 {
							okVal = true
						}
					}
				}
			}
			if !okVal {
				ad.Violation(addTo, instrPos(addc), "attribute value", "the attribute value is not the 4-byte big-endian fingerprint value")
			}
			viol, addDirty := sr.run(true)
			for _, v := range viol {
				ad.ViolationPath(addTo, instrPos(v.Ret), "Length/header not restored", "struct and header disagree after AddTo", v.Witness)
			}
			for _, in := range addDirty {
				ad.Violation(addTo, instrPos(in), "Add while Length is temporarily changed", "the attribute lands at the wrong offset")
			}
		}
		// no direct byte patching of the header
		eachInstr(addTo, func(b *ssa.BasicBlock, i int, in ssa.Instruction) {
			if dst := byteWriteDst(in); dst != nil && derivesFromRaw(dst, rawF, 0) {
				ad.Violation(addTo, instrPos(in), "direct write into Raw", "the header is patched byte-wise instead of through Length/WriteLength (carries into the high byte are lost)")
			}
		})
	}
	ad.Done()

	// ---- check
	ck := r.Rule("C05.check", "Check: first FINGERPRINT via Get(0x8028); CheckSize(len, 4) nil edge before the 32-bit read; expected value over Raw[:len(Raw)-8]; verdict = checkFingerprint(got, expected)", 4)
	{
		var gc, fvc *ssa.Call
		eachInstr(check, func(b *ssa.BasicBlock, i int, in ssa.Instruction) {
			if c, ok := in.(*ssa.Call); ok {
				if callsFn(c, getM) {
					gc = c
				}
				if callsFn(c, fv) {
					fvc = c
				}
			}
		})
		ck.Instance("Get", true, nil)
		if gc == nil {
			ck.Violation(check, check.Pos(), "lookup", "Check does not look the attribute up")
		} else if t, ok := constInt(gc.Call.Args[1]); !ok || t != attrFingerprint {
			ck.Violation(check, instrPos(gc), "lookup type", "Check must take the first attribute of type 0x8028")
		}
		ck.Instance("span", true, nil)
		if fvc == nil {
			ck.Violation(check, check.Pos(), "expected value", "Check does not compute the expected value")
		} else {
			root, lo, hi := le.window(fvc.Call.Args[0])
			_, f := loadedField(root)
			okSpan := false
			if f == rawF && hi != nil {
				if c, isC := lo.isConst(); isC && c == 0 {
					want := le.lenOf(root).add(linExpr{C: 8, Terms: map[string]int64{}}, -1)
					if hi.equal(want) {
						okSpan = true
					}
				}
			}
			if !okSpan {
				ck.Violation(check, instrPos(fvc), "CRC span "+exprDepth(fvc.Call.Args[0], 0), "the expected value must be computed over everything before the last 8 bytes of Raw (Raw[:len(Raw)-8]); any other span accepts messages whose trailing bytes are not covered")
			}
		}
		// got = Uint32(value) under CheckSize nil edge (bounds: C07.bounds) and verdict
		chk := p.Fn("checkFingerprint")
		okRet := false
		var got ssa.Value
		for _, s := range wireSites(le, check) {
			if s.Kind == "Uint32" {
				if e, ok := s.Root.(*ssa.Extract); ok && gc != nil && e.Tuple == ssa.Value(gc) {
					got = s.Val
				}
			}
		}
		// every return that may report success returns checkFingerprint(got, expected); the others are
		// the (non-nil) errors of the lookup and of the size check
		{
			nVerdict, bad := 0, false
			q := &PathQuery{P: p, Fn: check}
			q.AtReturn = func(ret *ssa.Return, st uint64, c *PathCtx) {
				v := c.Resolve(deref(c.Resolve(ret.Results[0])))
				if cc, ok := v.(*ssa.Call); ok && chk != nil && callsFn(cc, chk) && got != nil && fvc != nil {
					a0, a1 := canonPhi(c.Resolve(cc.Call.Args[0])), canonPhi(c.Resolve(cc.Call.Args[1]))
					if (a0 == got && a1 == ssa.Value(fvc)) || (a1 == got && a0 == ssa.Value(fvc)) {
						nVerdict++
						return
					}
				}
				if c.NilState(ret.Results[0]) != -1 {
					bad = true
				}
			}
			q.Run()
			okRet = nVerdict > 0 && !bad && !q.Exhausted
		}
		ck.Instance("verdict", true, nil)
		if !okRet {
			ck.Violation(check, check.Pos(), "verdict", "Check's verdict is not checkFingerprint(32-bit value of the attribute, computed value)")
		}
		// size check dominates the read
		cs := p.Fn("CheckSize")
		okSize := false
		eachInstr(check, func(b *ssa.BasicBlock, i int, in ssa.Instruction) {
			if c, ok := in.(*ssa.Call); ok && cs != nil && callsFn(c, cs) {
				if n, ok := constInt(c.Call.Args[2]); ok && n == 4 {
					okSize = true
				}
			}
		})
		ck.Instance("size", true, nil)
		if !okSize {
			ck.Violation(check, check.Pos(), "size check", "a FINGERPRINT whose value is not 4 bytes long must be rejected (CheckSize(..., 4))")
		}
		r.Res.Extra = map[string]interface{}{"nilconds": checkHelperConds(r, ck)}
	}
	ck.Done()
	// a fingerprinted message stays checkable after an integrity check (of any outcome) ran on it
	r.Borrow("C04", map[string]string{"C04.restore": "C05.integrityrestore"})
	// the integrity setter leaves Length and the header length as it found them on every path, refusals included:
	// a fingerprinted message it refused still passes the fingerprint check (shared with C03)
	r.Borrow("C03", map[string]string{"C03.restore": "C05.addrestore"})
	// the checkers rewrite nothing but the length bytes they restore: a bit flipped in transit stays flipped in Raw
	// for the fingerprint check that follows (shared with C07)
	r.Borrow("C07", map[string]string{"C07.readonly": "C05.readonly", "C07.lookup": "C05.lookup"})
	// Decode's type translation maps nothing but the one legacy alias: no other code point becomes FINGERPRINT
	// (a flipped bit in the uncovered type field would otherwise still verify) (shared with C02)
	r.Borrow("C02", map[string]string{"C02.compat": "C05.compat"})
	wr := r.Rule("C05.wire", "Decode and everything it calls never write a byte of the message (Raw and views of it): the CRC is computed over the bytes as received", 1)
	checkDecodeReadOnly(r, wr)
	wr.Done()
	// the checked FINGERPRINT is an attribute of this message: Decode empties the list on every path (shared with C08); Add leaves the attribute it adds as the last bytes of Raw (shared with C03)
	r.Borrow("C08", map[string]string{"C08.reset": "C05.decodereset"})
	r.Borrow("C03", map[string]string{"C03.add": "C05.rawend"})
}

// checkDecodeReadOnly: no byte write into message-derived storage in the closure of (*Message).Decode.
func checkDecodeReadOnly(r *Run, rc *RuleCtx) {
	p := r.P
	cl := p.buildClosures()
	if cl.DecodeM == nil {
		rc.Fail("(*Message).Decode", "anchor not found")
		return
	}
	fns := p.CG().Closure([]*ssa.Function{cl.DecodeM}, func(f *ssa.Function) bool { return p.isLibFn(f) })
	for _, fn := range fns {
		r.Analysed(fn)
		n := 0
		eachInstr(fn, func(b *ssa.BasicBlock, i int, in ssa.Instruction) {
			dst := byteWriteDst(in)
			if dst == nil {
				return
			}
			n++
			if messageDerived(dst, 0) {
				rc.Violation(fn, instrPos(in), "write into "+exprCanon(dst), "decoding rewrites bytes of the received message: MESSAGE-INTEGRITY and FINGERPRINT are then checked over bytes that differ from the wire (a valid message fails its check after decoding, e.g. with the legacy 0x8020 type)")
			}
		})
		rc.Instance(fnName(fn), fn == cl.DecodeM, map[string]interface{}{"fn": fnName(fn), "byte_writes": n})
	}
}

// accumulatesAfterFirstMAC: the index form of "everything after the first MESSAGE-INTEGRITY":
// a search loop advances `first` from 0 while first < len(S) && S[first].Type != 0x0008, and the
// accumulating loop is a counting loop over S from first+1 to len(S) that reads S[idx].
func accumulatesAfterFirstMAC(fn *ssa.Function, acc *ssa.Phi) (bool, string) {
	loops := loopsOf(fn)
	var accLoop *Loop
	for _, lp := range loops {
		if lp.Header == acc.Block() {
			accLoop = lp
		}
	}
	if accLoop == nil {
		return false, "the accumulator is not loop-carried"
	}
	idx, startV, off, bound, ok := indexLoopInfoV(accLoop)
	if !ok {
		return false, "the accumulating loop is not a counting loop"
	}
	ln, isLen := bound.(*ssa.Call)
	if !isLen || !isBuiltinCall(ln, "len") {
		return false, "the accumulating loop is not bounded by the length of the attribute list"
	}
	S := canonCell(ln.Call.Args[0])
	// the loop reads S[idx]
	reads := false
	eachInstr(fn, func(b *ssa.BasicBlock, i int, in ssa.Instruction) {
		if ia, ok := in.(*ssa.IndexAddr); ok && accLoop.Body[b] && canonCell(ia.X) == S && ia.Index == idx {
			reads = true
		}
	})
	if !reads {
		return false, "the accumulating loop does not read the attribute at its index"
	}
	// start = first + 1 (+off)
	sv := stripConvs(startV)
	total := off
	if b, isB := sv.(*ssa.BinOp); isB && b.Op == token.ADD {
		if c, isC := constInt(b.Y); isC {
			total += c
			sv = stripConvs(b.X)
		} else if c, isC := constInt(b.X); isC {
			total += c
			sv = stripConvs(b.Y)
		}
	}
	first, isPhi := sv.(*ssa.Phi)
	if !isPhi || total != 1 {
		return false, "the accumulating loop does not start right after the attribute found by the search"
	}
	// first: phi(0, first+1) in the header of the search loop
	var search *Loop
	for _, lp := range loops {
		if lp.Header == first.Block() {
			search = lp
		}
	}
	if search == nil {
		return false, "no search loop for the first MESSAGE-INTEGRITY"
	}
	zero, inc := false, false
	for i, e := range first.Edges {
		if search.Body[first.Block().Preds[i]] {
			if b, isB := e.(*ssa.BinOp); isB && b.Op == token.ADD && b.X == ssa.Value(first) {
				if c, isC := constInt(b.Y); isC && c == 1 {
					inc = true
					continue
				}
			}
			return false, "the search index is not advanced by one"
		}
		if c, isC := constInt(e); isC && c == 0 {
			zero = true
		} else {
			return false, "the search does not start at the first attribute"
		}
	}
	if !zero || !inc {
		return false, "the search index is not 0, 1, 2, ..."
	}
	// the search continues only while S[first].Type != 0x0008 and first < len(S)
	typeStop, boundStop := false, false
	for b := range search.Body {
		iff, isIf := b.Instrs[len(b.Instrs)-1].(*ssa.If)
		if !isIf {
			continue
		}
		bo, isB := iff.Cond.(*ssa.BinOp)
		if !isB {
			continue
		}
		exits := func(k int) bool { return !search.Body[b.Succs[k]] }
		switch bo.Op {
		case token.EQL, token.NEQ:
			c, isC := constInt(bo.Y)
			x := bo.X
			if !isC {
				c, isC = constInt(bo.X)
				x = bo.Y
			}
			if !isC || c != attrMessageIntegrity {
				continue
			}
			// x is S[first].Type
			if ld, isLd := stripConvs(x).(*ssa.UnOp); isLd {
				if fa, isFA := ld.X.(*ssa.FieldAddr); isFA {
					if ia, isIA := fa.X.(*ssa.IndexAddr); isIA && canonCell(ia.X) == S && ia.Index == ssa.Value(first) {
						eqArm := 0
						if bo.Op == token.NEQ {
							eqArm = 1
						}
						if exits(eqArm) && !exits(1-eqArm) {
							typeStop = true
						}
					}
				}
			}
		case token.LSS:
			if bo.X == ssa.Value(first) {
				if l2, isL := bo.Y.(*ssa.Call); isL && isBuiltinCall(l2, "len") && canonCell(l2.Call.Args[0]) == S && exits(1) && !exits(0) {
					boundStop = true
				}
			}
		}
	}
	if !typeStop || !boundStop {
		return false, "the search loop does not stop exactly at the first attribute of type 0x0008 (or at the end of the list)"
	}
	return true, ""
}

// isMessageSpan: v is Raw[:20+L] (or Raw[0:20+L]) where L is the value the Length field had when the
// function was entered - the declared message, whatever else the buffer holds behind it.
func isMessageSpan(le *linEval, v ssa.Value, rawF, lenF *types.Var) bool {
	root, lo, hi := le.window(v)
	if !valueIsLoadOfField(root, rawF) || hi == nil {
		return false
	}
	if c, ok := lo.isConst(); !ok || c != 0 {
		return false
	}
	if hi.C != 20 || len(hi.Terms) != 1 {
		return false
	}
	for k, coef := range hi.Terms {
		if coef != 1 || !strings.HasPrefix(k, "in:") || !strings.HasSuffix(k, "."+lenF.Name()) {
			return false
		}
	}
	return true
}
