package main

import (
	"go/token"
	"go/types"

	"golang.org/x/tools/go/ssa"
)

// SAVE/RESTORE rule: a function that temporarily changes a field of *Message must put the
// value it loaded before its first store back on every path to every return; when the field is
// Length, the header bytes must be re-synchronised (WriteLength, or a coherent mutator such as
// Add) after the restoring store.

type saveRestore struct {
	p      *Prog
	fn     *ssa.Function
	field  *types.Var
	stores []*ssa.Store
	saved  map[ssa.Value]bool
	sync   map[*ssa.Function]bool // functions that write the header length from the field (WriteLength, WriteHeader)
	coher  map[*ssa.Function]bool // coherent mutators that end with the header in sync (Add)
}

func newSaveRestore(p *Prog, fn *ssa.Function, field *types.Var) *saveRestore {
	sr := &saveRestore{p: p, fn: fn, field: field, saved: map[ssa.Value]bool{}, sync: map[*ssa.Function]bool{}, coher: map[*ssa.Function]bool{}}
	var loads []*ssa.UnOp
	for _, a := range fieldAccesses(fn, field) {
		switch a.Kind {
		case "store":
			sr.stores = append(sr.stores, a.Instr.(*ssa.Store))
		case "load":
			if u, ok := a.Instr.(*ssa.UnOp); ok {
				loads = append(loads, u)
			}
		}
	}
	for _, l := range loads {
		ok := true
		for _, st := range sr.stores {
			if reachableFrom(st, l) {
				ok = false
			}
		}
		if ok {
			sr.saved[l] = true
		}
	}
	for _, n := range []string{"WriteLength", "WriteHeader"} {
		if f := p.Meth("Message", n); f != nil {
			sr.sync[f] = true
		}
	}
	if f := p.Meth("Message", "Add"); f != nil {
		sr.coher[f] = true
	}
	return sr
}

// cellValue: the single value stored into a local cell (alloc) that is only read afterwards
// (possibly captured by closures that do not write it).
func cellValue(a *ssa.Alloc) ssa.Value {
	var val ssa.Value
	n := 0
	for _, r := range *a.Referrers() {
		switch x := r.(type) {
		case *ssa.Store:
			if x.Addr != ssa.Value(a) {
				return nil
			}
			val = x.Val
			n++
		case *ssa.UnOp:
			if x.Op != token.MUL {
				return nil
			}
		case *ssa.MakeClosure:
			fn := x.Fn.(*ssa.Function)
			for i, b := range x.Bindings {
				if b == ssa.Value(a) && closureWritesFreeVar(fn, i) {
					return nil
				}
			}
		case *ssa.DebugRef:
		default:
			return nil
		}
	}
	if n != 1 {
		return nil
	}
	return val
}

func (sr *saveRestore) isSaved(v ssa.Value) bool {
	for i := 0; i < 6; i++ {
		if sr.saved[v] {
			return true
		}
		switch x := v.(type) {
		case *ssa.UnOp:
			if x.Op == token.MUL {
				if a, ok := x.X.(*ssa.Alloc); ok {
					if cv := cellValue(a); cv != nil {
						v = cv
						continue
					}
				}
			}
			return false
		case *ssa.ChangeType:
			v = x.X
			continue
		}
		return false
	}
	return false
}

// deferRestores: the deferred call is a closure that stores the saved value back into the field.
func (sr *saveRestore) deferRestores(d *ssa.Defer) bool {
	var cf *ssa.Function
	mc, ok := d.Call.Value.(*ssa.MakeClosure)
	if ok {
		cf = mc.Fn.(*ssa.Function)
	} else if f, isFn := d.Call.Value.(*ssa.Function); isFn && f.Parent() != nil {
		cf = f // a literal without captured variables: everything arrives through its parameters
	} else {
		return false
	}
	restores := false
	for _, a := range fieldAccesses(cf, sr.field) {
		if a.Kind != "store" {
			continue
		}
		st := a.Instr.(*ssa.Store)
		// value: a parameter of the literal whose argument at the defer statement is the saved value
		if pa, isP := st.Val.(*ssa.Parameter); isP {
			if i := paramIndex(cf, pa); i >= 0 && i < len(d.Call.Args) && sr.isSaved(d.Call.Args[i]) {
				restores = true
				continue
			}
			return false
		}
		if mc == nil {
			return false
		}
		// value: load of a free variable bound to a cell holding the saved value
		ld, ok := st.Val.(*ssa.UnOp)
		if !ok || ld.Op != token.MUL {
			return false
		}
		fv, ok := ld.X.(*ssa.FreeVar)
		if !ok {
			return false
		}
		for i, f := range cf.FreeVars {
			if f == fv && i < len(mc.Bindings) {
				if a, ok := mc.Bindings[i].(*ssa.Alloc); ok {
					if cv := cellValue(a); cv != nil && sr.isSaved(cv) {
						restores = true
					}
				}
			}
		}
	}
	return restores
}

const (
	srDirty  = 1 // struct field differs from the saved value
	srHeader = 2 // header bytes differ from the saved value
)

type srViolation struct {
	Ret     *ssa.Return
	State   uint64
	Witness string
}

// run explores all paths; returns the returns reached with a dirty field or header.
// withHeader enables the header-synchronisation bit (field Length).
func (sr *saveRestore) run(withHeader bool) (viol []srViolation, addWhileDirty []ssa.Instruction) {
	q := &PathQuery{P: sr.p, Fn: sr.fn}
	isStore := map[ssa.Instruction]bool{}
	for _, s := range sr.stores {
		isStore[s] = true
	}
	seenAdd := map[ssa.Instruction]bool{}
	q.Step = func(in ssa.Instruction, deferred bool, st uint64, c *PathCtx) (uint64, bool) {
		if d, ok := in.(*ssa.Defer); ok {
			if deferred && sr.deferRestores(d) {
				st &^= srDirty
			}
			return st, false
		}
		if isStore[in] {
			if sr.isSaved(in.(*ssa.Store).Val) {
				st &^= srDirty
			} else {
				st |= srDirty
			}
			return st, false
		}
		if withHeader {
			if sc := staticCallee(in); sc != nil {
				if sr.sync[sc] {
					if st&srDirty != 0 {
						st |= srHeader
					} else {
						st &^= srHeader
					}
				} else if sr.coher[sc] {
					if st&srDirty != 0 && !seenAdd[in] {
						seenAdd[in] = true
						addWhileDirty = append(addWhileDirty, in)
					}
					st &^= srHeader
				}
			}
		}
		return st, false
	}
	seen := map[*ssa.Return]bool{}
	q.AtReturn = func(ret *ssa.Return, st uint64, c *PathCtx) {
		if st != 0 && !seen[ret] {
			seen[ret] = true
			viol = append(viol, srViolation{ret, st, c.Witness(sr.fn, ret)})
		}
	}
	q.Run()
	return
}
