package main

import (
	"fmt"
	"go/types"
	"sort"
	"strings"

	"golang.org/x/tools/go/ssa"
)

func init() { register("C14", "other", runC14) }

// allowedUnderLock: external callees that may be called while a mutex is held
// (pure, non-blocking, never call back).
func extPureNonBlocking(f *ssa.Function) bool {
	if f == nil || f.Pkg == nil {
		return false
	}
	pkg := f.Pkg.Pkg.Path()
	switch pkg {
	case "time":
		switch f.Name() {
		case "Before", "After", "Equal", "Compare", "IsZero", "Sub", "Add", "Since", "Until", "UnixNano", "Unix":
			return true
		}
	case "bytes", "math/bits", "unicode/utf8", "errors", "sync/atomic":
		return true
	}
	return false
}

// lockFreeLeaf: module function whose closure contains no lock operation, no dynamic
// or interface call, no channel operation and no go statement.
func lockFreeLeaf(p *Prog, f *ssa.Function, seen map[*ssa.Function]bool) bool {
	if seen[f] {
		return true
	}
	seen[f] = true
	if f.Blocks == nil {
		return false
	}
	ok := true
	eachInstr(f, func(b *ssa.BasicBlock, i int, in ssa.Instruction) {
		switch x := in.(type) {
		case *ssa.Go, *ssa.Send, *ssa.Select:
			ok = false
		case *ssa.UnOp:
			if x.Op.String() == "<-" {
				ok = false
			}
		case ssa.CallInstruction:
			if lockOpOf(in) != nil {
				ok = false
				return
			}
			cc := x.Common()
			if cc.IsInvoke() {
				ok = false
				return
			}
			if _, isB := cc.Value.(*ssa.Builtin); isB {
				return
			}
			sc := cc.StaticCallee()
			if sc == nil {
				ok = false
				return
			}
			if p.isModuleFn(sc) {
				if !lockFreeLeaf(p, sc, seen) {
					ok = false
				}
				return
			}
			if !extPureNonBlocking(sc) && !(sc.Pkg != nil && sc.Pkg.Pkg.Path() == "fmt") {
				ok = false
			}
		}
	})
	return ok
}

// lockAcquires computes, per function, the lock classes acquired directly.
func directAcquires(fn *ssa.Function) map[string]ssa.Instruction {
	out := map[string]ssa.Instruction{}
	eachInstr(fn, func(b *ssa.BasicBlock, i int, in ssa.Instruction) {
		if _, isGo := in.(*ssa.Go); isGo {
			return
		}
		if op := lockOpOf(in); op != nil && (op.Kind == "Lock" || op.Kind == "RLock") {
			if _, ok := out[op.Class]; !ok {
				out[op.Class] = in
			}
		}
	})
	return out
}

type lockEdge struct {
	From, To string
	Fn       *ssa.Function
	Site     ssa.Instruction
	Via      string
}

// lockOrderEdges builds the lock-order graph of the library.
// exempt(fn, call) removes documented exceptions.
func lockOrderEdges(p *Prog, exempt func(fn *ssa.Function, in ssa.Instruction) bool) (edges []lockEdge, sitesExamined int) {
	cg := p.CG()
	cg.WithVTA()
	acq := map[*ssa.Function]map[string]bool{}
	var closureAcq func(f *ssa.Function, seen map[*ssa.Function]bool) map[string]bool
	closureAcq = func(f *ssa.Function, seen map[*ssa.Function]bool) map[string]bool {
		if r, ok := acq[f]; ok {
			return r
		}
		if seen[f] {
			return map[string]bool{}
		}
		seen[f] = true
		res := map[string]bool{}
		for c := range directAcquires(f) {
			res[c] = true
		}
		for _, cs := range cg.Sites[f] {
			if _, isGo := cs.Instr.(*ssa.Go); isGo {
				continue
			}
			for _, g := range cs.Callees {
				if !p.isLibFn(g) {
					continue
				}
				for c := range closureAcq(g, seen) {
					res[c] = true
				}
			}
		}
		return res
	}
	for _, f := range p.LibFuncs() {
		acq[f] = closureAcq(f, map[*ssa.Function]bool{})
	}
	for _, f := range p.LibFuncs() {
		if len(directAcquires(f)) == 0 {
			continue
		}
		li := computeLocks(f)
		objClass := map[string]string{}
		for _, in := range li.Ops {
			if op := lockOpOf(in); op != nil {
				objClass[op.Obj] = op.Class
			}
		}
		for _, cs := range cg.Sites[f] {
			if _, isGo := cs.Instr.(*ssa.Go); isGo {
				continue
			}
			held := li.Held(cs.Instr)
			if len(held) == 0 {
				continue
			}
			if lockOpOf(cs.Instr) != nil {
				// nested acquisition of a second lock while one is held
				op := lockOpOf(cs.Instr)
				if op.Kind == "Lock" || op.Kind == "RLock" {
					sitesExamined++
					for obj := range held {
						edges = append(edges, lockEdge{objClass[obj], op.Class, f, cs.Instr, "direct"})
					}
				}
				continue
			}
			sitesExamined++
			if exempt != nil && exempt(f, cs.Instr) {
				continue
			}
			for _, g := range cs.Callees {
				if !p.isLibFn(g) {
					continue
				}
				for c := range closureAcq(g, map[*ssa.Function]bool{}) {
					for obj := range held {
						edges = append(edges, lockEdge{objClass[obj], c, f, cs.Instr, fnName(g)})
					}
				}
			}
		}
	}
	return
}

func findLockCycle(edges []lockEdge) []string {
	adj := map[string][]string{}
	for _, e := range edges {
		adj[e.From] = append(adj[e.From], e.To)
	}
	var nodes []string
	for n := range adj {
		nodes = append(nodes, n)
	}
	sort.Strings(nodes)
	color := map[string]int{}
	var stack []string
	var cyc []string
	var dfs func(n string) bool
	dfs = func(n string) bool {
		color[n] = 1
		stack = append(stack, n)
		for _, m := range adj[n] {
			if color[m] == 1 {
				// cycle
				for i, s := range stack {
					if s == m {
						cyc = append(append([]string{}, stack[i:]...), m)
						return true
					}
				}
			}
			if color[m] == 0 && dfs(m) {
				return true
			}
		}
		stack = stack[:len(stack)-1]
		color[n] = 2
		return false
	}
	for _, n := range nodes {
		if color[n] == 0 && dfs(n) {
			return cyc
		}
	}
	return nil
}

func runC14(r *Run) {
	p := r.P
	r.Res.Explanation = "must-lockset analysis (LOCK) of every access to Agent.{transactions,closed,handler} in the library, one critical section per method, release on every path (PATH), no foreign call while the agent mutex is held, acyclic lock-order graph over call edges resolved by VTA; holds for every schedule because it is a property of code shape"
	r.NotDecided("linearizability as a trace property (only its structural premises: one critical section per call containing the lookup and the removal)", "liveness under the Go scheduler")
	r.Assume("sync.Mutex provides mutual exclusion and happens-before between Unlock and the next Lock", "user-supplied handlers are leaves of the lock-order graph (the property allows them to call back into the agent outside Close)")
	m, missing := resolveAgent(p)
	an := r.Rule("C14.anchors", "Agent type, its mutex, table, closed flag, handler field and methods resolve", 5)
	for _, s := range missing {
		an.Fail(s, "anchor not found: the agent's lock discipline cannot be located")
	}
	if m != nil {
		for _, v := range []*types.Var{m.Mux, m.Tx, m.Closed, m.Handler} {
			if v != nil {
				an.Instance("field "+v.Name(), false, nil)
			}
		}
		if len(m.Methods) >= 6 {
			an.Instance("methods", false, fmt.Sprintf("%d methods of *Agent", len(m.Methods)))
		} else {
			an.Fail("methods", fmt.Sprintf("only %d methods of *Agent found", len(m.Methods)))
		}
	}
	an.Done()
	if m == nil || len(missing) > 0 {
		return
	}
	// every field of Agent other than the mutex itself is state shared between the methods
	fields := map[*types.Var]bool{}
	ast := m.T.Underlying().(*types.Struct)
	for i := 0; i < ast.NumFields(); i++ {
		if f := ast.Field(i); f != m.Mux {
			fields[f] = true
		}
	}

	lockset := r.Rule("C14.lockset", "every access to a field of Agent other than the mutex (field loads/stores, every use of the loaded map, and every access to the backing array of a slice loaded from a field, followed through reslices/phis/appends) outside the constructor holds that agent's mutex", 30)
	atomic := r.Rule("C14.atomic", "each Agent method that touches shared state has exactly one critical section (one Lock site, not in a loop) containing all its shared accesses", 6)
	release := r.Rule("C14.release", "every path from a Lock of the agent mutex to a return passes the matching Unlock (direct or deferred)", 6)
	nocall := r.Rule("C14.nocall", "while the agent mutex is held only builtins, map operations, pure stdlib predicates and lock-free module leaves are called (Close's handler call is the one site that does not comply: known finding D19)", 2)

	closeMethods := map[*ssa.Function]bool{}
	for _, fn := range m.Methods {
		for _, a := range sharedAccesses(fn, map[*types.Var]bool{m.Closed: true}) {
			if st, ok := a.In.(*ssa.Store); ok && a.Kind == "store" {
				if c, ok := st.Val.(*ssa.Const); ok && c.Value != nil && c.Value.String() == "true" {
					closeMethods[fn] = true
				}
			}
		}
	}

	for _, fn := range p.LibFuncs() {
		accs := sharedAccesses(fn, fields)
		if len(accs) == 0 {
			continue
		}
		r.Analysed(fn)
		li := computeLocks(fn)
		guarded := 0
		for _, a := range accs {
			key := fmt.Sprintf("%s|%s|%s", fnName(fn), a.Kind, a.Field.Name())
			if _, fresh := a.Base.(*ssa.Alloc); fresh {
				lockset.Instance(key+"|ctor", false, nil)
				continue
			}
			need := lockObjKey(a.Base) + "." + m.Mux.Name()
			held := li.Held(a.In)
			ok := held[need] == "W"
			lockset.Instance(key, true, map[string]string{"fn": fnName(fn), "access": describeAccess(a), "lockset": heldString(held)})
			if ok {
				guarded++
			} else {
				lockset.Violation(fn, instrPos(a.In), describeAccess(a), fmt.Sprintf("access without holding %s (must-lockset here: %s): data race with every other agent method", need, heldString(held)))
			}
		}
		// critical sections
		isMethod := false
		for _, mm := range m.Methods {
			if mm == fn {
				isMethod = true
			}
		}
		if !isMethod {
			continue
		}
		var locks []ssa.Instruction
		for _, in := range li.Ops {
			if op := lockOpOf(in); op != nil && op.Kind == "Lock" && op.Class == m.T.Obj().Name()+"."+m.Mux.Name() {
				locks = append(locks, in)
			}
		}
		loops := loopsOf(fn)
		atomic.Instance(fnName(fn), true, map[string]interface{}{"fn": fnName(fn), "lock_sites": len(locks), "shared_accesses": len(accs)})
		if len(locks) != 1 {
			atomic.Violation(fn, fn.Pos(), "critical sections", fmt.Sprintf("%d Lock sites of the agent mutex: the lookup that decides the outcome and the update must be in one critical section (one linearization point per call)", len(locks)))
		}
		for _, l := range locks {
			if inLoop(loops, l.Block()) != nil {
				atomic.Violation(fn, instrPos(l), "Lock in loop", "the agent mutex is re-acquired in a loop: several critical sections per call")
			}
			bad, rets := mustPass(p, fn, l, func(in ssa.Instruction, deferred bool, c *PathCtx) bool {
				if _, isDefer := in.(*ssa.Defer); isDefer && !deferred {
					return false
				}
				op := lockOpOf(in)
				return op != nil && op.Kind == "Unlock" && op.Obj == lockOpOf(l).Obj
			}, nil)
			release.Instance(fnName(fn)+"|"+fmt.Sprint(len(bad)), true, map[string]string{"fn": fnName(fn), "lock": p.pos(instrPos(l))})
			for i, w := range bad {
				pos := instrPos(l)
				if rets[i] != nil {
					pos = instrPos(rets[i])
				}
				release.ViolationPath(fn, pos, "return without Unlock", "a path from Lock reaches this return without releasing the agent mutex: every later call deadlocks", w)
			}
		}
		// calls under lock
		need := ""
		if len(locks) > 0 {
			need = lockOpOf(locks[0]).Obj
		}
		eachInstr(fn, func(b *ssa.BasicBlock, i int, in ssa.Instruction) {
			ci, ok := in.(ssa.CallInstruction)
			if !ok {
				return
			}
			if _, isDefer := in.(*ssa.Defer); isDefer {
				return // evaluated at rundefers; a deferred Unlock is a lock op
			}
			held := li.Held(in)
			if need == "" || held[need] == "" {
				return
			}
			if lockOpOf(in) != nil {
				return
			}
			cc := ci.Common()
			if _, isB := cc.Value.(*ssa.Builtin); isB {
				return
			}
			desc := "call " + exprDepth(cc.Value, 0)
			if cc.IsInvoke() {
				desc = "call " + exprDepth(cc.Value, 0) + "." + cc.Method.Name()
			}
			nocall.Instance(fnName(fn)+"|"+desc, true, map[string]string{"fn": fnName(fn), "call": desc})
			if sc := cc.StaticCallee(); sc != nil {
				if p.isModuleFn(sc) {
					if lockFreeLeaf(p, sc, map[*ssa.Function]bool{}) {
						return
					}
				} else if extPureNonBlocking(sc) {
					return
				}
				nocall.Violation(fn, instrPos(in), desc, "call made while the agent mutex is held: the callee may block or re-enter the agent (deadlock on the non-reentrant mutex)")
				return
			}
			// dynamic / interface call
			if _, f := loadedField(cc.Value); f == m.Handler && closeMethods[fn] {
				// Close emits the closed events under the lock. The property exempts a handler that calls
				// back into the agent from inside Close, but not what else follows from the lock being
				// held around user code: recorded as a finding (known_findings.txt), see DESIGN.md D19
				nocall.Violation(fn, instrPos(in), "handler invoked under the mutex", "Close calls the user's handler while holding the agent mutex: a handler that takes a lock of its own and, for events of Stop/Process/Collect, calls back into the agent deadlocks against a concurrent Close (Stop holds the user's lock and waits for the agent mutex, Close holds the agent mutex and waits for the user's lock); a handler that panics leaves the agent locked for good")
				return
			}
			nocall.Violation(fn, instrPos(in), desc, "function value or interface method invoked while the agent mutex is held: a handler that calls back into the agent deadlocks")
		})
	}
	lockset.Done()
	atomic.Done()
	release.Done()
	nocall.Done()

	// lock order
	order := r.Rule("C14.order", "lock-order graph over {Agent mutex, Client mutex, Do's condition lock} with call edges resolved by VTA is acyclic (self edges included); user callbacks are leaves; Close's handler call is the property's stated exception", 3)
	edges, sites := lockOrderEdges(p, func(fn *ssa.Function, in ssa.Instruction) bool {
		if !closeMethods[fn] {
			return false
		}
		ci := in.(ssa.CallInstruction)
		_, f := loadedField(ci.Common().Value)
		return f == m.Handler
	})
	for i := 0; i < sites; i++ {
		order.Instance(fmt.Sprintf("site%d", i), true, nil)
	}
	seen := map[string]bool{}
	for _, e := range edges {
		k := e.From + "->" + e.To
		if !seen[k] {
			seen[k] = true
			order.Instance("edge "+k, true, map[string]string{"edge": k, "in": fnName(e.Fn), "via": e.Via})
		}
	}
	if cyc := findLockCycle(edges); cyc != nil {
		var w []string
		for _, e := range edges {
			for i := 0; i+1 < len(cyc); i++ {
				if e.From == cyc[i] && e.To == cyc[i+1] {
					w = append(w, fmt.Sprintf("%s holds %s and reaches %s via %s at %s", fnName(e.Fn), e.From, e.To, e.Via, p.pos(instrPos(e.Site))))
				}
			}
		}
		sort.Strings(w)
		var efn *ssa.Function
		var site ssa.Instruction
		for _, e := range edges {
			if e.From == cyc[0] && e.To == cyc[1] {
				efn, site = e.Fn, e.Site
				break
			}
		}
		order.ViolationPath(efn, instrPos(site), "lock cycle "+strings.Join(cyc, " -> "), "two goroutines taking these locks in opposite order (or one re-acquiring a non-reentrant mutex) deadlock", strings.Join(w, "; "))
	}
	order.Done()
	// what each critical section decides is what a sequential table would decide: the timeout selection scans the
	// whole table with the strict predicate, and every removal is followed by exactly one event on every path - no
	// panic or early exit between the removal and the handler (shared with C13)
	r.Borrow("C13", map[string]string{"C13.collect": "C14.collect", "C13.terminal": "C14.terminal"})
}
