package main

// Scalar replacement of local struct variables (a step of the helper normalisation, inline.go).
//
// An edit that gathers a few local variables of a function into a local struct (loop state with a
// step method, results carried between extracted steps) does not change behaviour, but go/ssa keeps
// a struct in memory: its fields are not registers, no phi joins them, and the rules that follow a
// value through a loop lose sight of it.  After the helpers were inlined, the local variables of a
// struct type T (without embedded fields) of one function that are
//
//   - declared `var x T`, `var x T = E`, `x := E`, with E another such variable or a literal T{...},
//   - used only as x.f (f a field), as &x initialising a local pointer p that is itself used only as
//     p.f, `_ = p`, or to initialise another such pointer, in whole assignments `x = E` / as the E of
//     another such variable's declaration or assignment, and as `_ = x`,
//   - and used in no function literal,
//
// are replaced by one variable per field; a whole assignment becomes the parallel assignment of
// the fields (`x_f, x_g = y_f, y_g`: all right-hand sides are evaluated first, as for the struct
// copy), a literal contributes its elements in source order and zero values for the rest.  A
// variable that is read, copied or passed in any other way keeps its struct, and so does every
// variable it is copied from or to.  The struct value never leaves these variables, so the fields
// are independent variables: the replacement is semantics-preserving by construction.  The result is
// type-checked again; on failure it is dropped.

import (
	"fmt"
	"go/ast"
	"go/token"
	"go/types"
	"sort"
	"strings"
)

var sraCounter int

type sraVar struct {
	obj    *types.Var
	st     *types.Struct
	prefix string
	ftypes []string
	// declaration: node to replace, form
	declNode ast.Node // DeclStmt, ValueSpec (in a group) or AssignStmt
	group    bool
	init     ast.Expr        // nil: zero value
	tuple    *ast.AssignStmt // declared by a tuple definition `x, err := E, F` (then declNode is that statement)
	rejected bool
	links    []*types.Var // variables it is copied from / to
	sel      []textEdit   // field selector replacements (own and through pointer aliases)
	misc     []textEdit   // pointer alias initialisers
	stmts    []sraStmt    // whole assignments with this variable on the left, blank uses
}

type sraStmt struct {
	node ast.Node
	rhs  ast.Expr // nil: blank use `_ = x`
}

func sraRound(sp *srcPkg, res *inlineResult) bool {
	info := sp.info
	changed := false
	for _, f := range sp.files {
		parents := buildParents(f.ast)
		var edits []textEdit
		impName := map[string]string{}
		for _, is := range f.ast.Imports {
			path := strings.Trim(is.Path.Value, "\"")
			if is.Name != nil {
				if is.Name.Name == "_" || is.Name.Name == "." {
					continue
				}
				impName[path] = is.Name.Name
			} else if pn, ok := info.Implicits[is].(*types.PkgName); ok {
				impName[path] = pn.Name()
			}
		}
		typeText := func(t types.Type) (string, bool) {
			missing := false
			ts := types.TypeString(t, func(p *types.Package) string {
				if p == sp.pkg || p.Path() == sp.path {
					return ""
				}
				if n, ok := impName[p.Path()]; ok {
					return n
				}
				missing = true
				return p.Name()
			})
			return ts, !missing
		}
		for _, d := range f.ast.Decls {
			fd, ok := d.(*ast.FuncDecl)
			if !ok || fd.Body == nil {
				continue
			}
			vars := map[*types.Var]*sraVar{}
			var order []*sraVar
			tupleStmts := map[*ast.AssignStmt]bool{}
			unparenExpr := func(e ast.Expr) ast.Expr {
				for {
					p, ok := e.(*ast.ParenExpr)
					if !ok {
						return e
					}
					e = p.X
				}
			}
			structOf := func(v *types.Var) *types.Struct {
				st, ok := v.Type().Underlying().(*types.Struct)
				if !ok || st.NumFields() == 0 {
					return nil
				}
				for i := 0; i < st.NumFields(); i++ {
					if st.Field(i).Embedded() || st.Field(i).Name() == "_" {
						return nil
					}
				}
				return st
			}
			addVar := func(obj *types.Var, node ast.Node, group bool, init ast.Expr) {
				st := structOf(obj)
				if st == nil || vars[obj] != nil {
					return
				}
				sv := &sraVar{obj: obj, st: st, declNode: node, group: group, init: init}
				for i := 0; i < st.NumFields(); i++ {
					ts, ok := typeText(st.Field(i).Type())
					if !ok {
						return
					}
					sv.ftypes = append(sv.ftypes, ts)
				}
				sraCounter++
				sv.prefix = fmt.Sprintf("sra%d_%s_", sraCounter, obj.Name())
				vars[obj] = sv
				order = append(order, sv)
			}
			// ---- declarations
			ast.Inspect(fd.Body, func(n ast.Node) bool {
				switch x := n.(type) {
				case *ast.FuncLit:
					return false
				case *ast.DeclStmt:
					gd, ok := x.Decl.(*ast.GenDecl)
					if !ok || gd.Tok != token.VAR {
						return true
					}
					for _, s := range gd.Specs {
						vs := s.(*ast.ValueSpec)
						if len(vs.Names) != 1 || vs.Names[0].Name == "_" || len(vs.Values) > 1 {
							continue
						}
						obj, _ := info.Defs[vs.Names[0]].(*types.Var)
						if obj == nil {
							continue
						}
						var init ast.Expr
						if len(vs.Values) == 1 {
							init = vs.Values[0]
						} else if vs.Type == nil {
							continue
						}
						if gd.Lparen.IsValid() {
							addVar(obj, vs, true, init)
						} else if len(gd.Specs) == 1 {
							addVar(obj, x, false, init)
						}
					}
				case *ast.AssignStmt:
					if x.Tok == token.DEFINE && len(x.Lhs) > 1 && len(x.Lhs) == len(x.Rhs) {
						switch parents[x].(type) {
						case *ast.BlockStmt, *ast.CaseClause, *ast.CommClause:
							for i, l := range x.Lhs {
								id, ok := l.(*ast.Ident)
								if !ok || id.Name == "_" {
									continue
								}
								if obj, _ := info.Defs[id].(*types.Var); obj != nil {
									n := len(order)
									addVar(obj, x, false, x.Rhs[i])
									if len(order) > n {
										order[len(order)-1].tuple = x
									}
								}
							}
						}
						return true
					}
					if x.Tok != token.DEFINE || len(x.Lhs) != 1 || len(x.Rhs) != 1 {
						return true
					}
					id, ok := x.Lhs[0].(*ast.Ident)
					if !ok || id.Name == "_" {
						return true
					}
					obj, _ := info.Defs[id].(*types.Var)
					if obj == nil {
						return true
					}
					switch parents[x].(type) {
					case *ast.BlockStmt, *ast.CaseClause, *ast.CommClause:
					default:
						return true // an init statement of if/for/switch
					}
					addVar(obj, x, false, x.Rhs[0])
				}
				return true
			})
			if len(order) == 0 {
				continue
			}
			// a struct value expression of the family: another variable, or a literal of the type
			valueOK := func(sv *sraVar, e ast.Expr) bool {
				e = unparenExpr(e)
				switch y := e.(type) {
				case *ast.Ident:
					o, _ := info.Uses[y].(*types.Var)
					if o == nil || vars[o] == nil || !types.Identical(o.Type(), sv.obj.Type()) {
						return false
					}
					sv.links = append(sv.links, o)
					vars[o].links = append(vars[o].links, sv.obj)
					return true
				case *ast.CompositeLit:
					tv, ok := info.Types[y]
					if !ok || !types.Identical(tv.Type, sv.obj.Type()) {
						return false
					}
					keyed := false
					for _, el := range y.Elts {
						if _, isKV := el.(*ast.KeyValueExpr); isKV {
							keyed = true
						}
					}
					for i, el := range y.Elts {
						if kv, isKV := el.(*ast.KeyValueExpr); isKV {
							if _, isId := kv.Key.(*ast.Ident); !isId {
								return false
							}
						} else if keyed || i >= sv.st.NumFields() {
							return false
						}
					}
					return true
				}
				return false
			}
			for _, sv := range order {
				if sv.init != nil && !valueOK(sv, sv.init) {
					sv.rejected = true
				}
			}
			// ---- uses
			uses := map[types.Object][]*ast.Ident{}
			ast.Inspect(fd.Body, func(n ast.Node) bool {
				if id, ok := n.(*ast.Ident); ok {
					if o := info.Uses[id]; o != nil {
						uses[o] = append(uses[o], id)
					}
				}
				return true
			})
			inFuncLit := func(n ast.Node) bool {
				for x := parents[n]; x != nil && x != ast.Node(fd); x = parents[x] {
					if _, ok := x.(*ast.FuncLit); ok {
						return true
					}
				}
				return false
			}
			unparen := func(n ast.Node) (ast.Node, ast.Node) {
				for {
					pp, ok := parents[n].(*ast.ParenExpr)
					if !ok {
						return n, parents[n]
					}
					n = pp
				}
			}
			for _, sv := range order {
				if sv.rejected {
					continue
				}
				fieldUse := func(id *ast.Ident, ptr bool) bool {
					n, par := unparen(id)
					sel, ok := par.(*ast.SelectorExpr)
					if !ok || sel.X != n {
						return false
					}
					sl := info.Selections[sel]
					if sl == nil || sl.Kind() != types.FieldVal || len(sl.Index()) != 1 || sl.Indirect() != ptr {
						return false
					}
					sv.sel = append(sv.sel, textEdit{sp.off(sel.Pos()), sp.off(sel.End()), sv.prefix + sel.Sel.Name})
					return true
				}
				aliasInit := func(e ast.Node) (*types.Var, bool) {
					n, par := unparen(e)
					switch x := par.(type) {
					case *ast.ValueSpec:
						if len(x.Names) == 1 && len(x.Values) == 1 && ast.Node(x.Values[0]) == n {
							if gd, isGD := parents[x].(*ast.GenDecl); isGD {
								if _, inStmt := parents[gd].(*ast.DeclStmt); inStmt {
									v, _ := info.Defs[x.Names[0]].(*types.Var)
									return v, v != nil
								}
							}
						}
					case *ast.AssignStmt:
						if x.Tok == token.DEFINE && len(x.Lhs) == 1 && len(x.Rhs) == 1 && ast.Node(x.Rhs[0]) == n {
							if id, ok := x.Lhs[0].(*ast.Ident); ok {
								v, _ := info.Defs[id].(*types.Var)
								return v, v != nil
							}
						}
					}
					return nil, false
				}
				var aliases []*types.Var
				for _, id := range uses[sv.obj] {
					if inFuncLit(id) {
						sv.rejected = true
						break
					}
					if fieldUse(id, false) {
						continue
					}
					n, par := unparen(id)
					if ue, ok := par.(*ast.UnaryExpr); ok && ue.Op == token.AND && ast.Node(ue.X) == n {
						if v, ok := aliasInit(ue); ok {
							if ts, okT := typeText(v.Type()); okT {
								aliases = append(aliases, v)
								sv.misc = append(sv.misc, textEdit{sp.off(ue.Pos()), sp.off(ue.End()), "(" + ts + ")(nil)"})
								continue
							}
						}
						sv.rejected = true
						break
					}
					switch x := par.(type) {
					case *ast.AssignStmt:
						if len(x.Lhs) > 1 && len(x.Lhs) == len(x.Rhs) {
							handled := false
							for i := range x.Lhs {
								// x_i = E_i  (plain tuple assignment; the defining tuple is handled at the declaration)
								if ast.Node(x.Lhs[i]) == n && x.Tok == token.ASSIGN {
									if valueOK(sv, x.Rhs[i]) {
										tupleStmts[x] = true
										handled = true
									}
								}
								// y_i = x / y_i := x with y_i of the family
								if ast.Node(x.Rhs[i]) == n {
									if l, isId := x.Lhs[i].(*ast.Ident); isId {
										var lo types.Object = info.Uses[l]
										if x.Tok == token.DEFINE && info.Defs[l] != nil {
											lo = info.Defs[l]
										}
										if lv, _ := lo.(*types.Var); lv != nil && vars[lv] != nil {
											sv.links = append(sv.links, lv)
											tupleStmts[x] = true
											handled = true
										}
									}
								}
							}
							if handled {
								continue
							}
						}
						if len(x.Lhs) == 1 && len(x.Rhs) == 1 {
							// x = E
							if x.Tok == token.ASSIGN && ast.Node(x.Lhs[0]) == n {
								if valueOK(sv, x.Rhs[0]) {
									sv.stmts = append(sv.stmts, sraStmt{x, x.Rhs[0]})
									continue
								}
							}
							// _ = x
							if x.Tok == token.ASSIGN && ast.Node(x.Rhs[0]) == n {
								if b, isB := x.Lhs[0].(*ast.Ident); isB && b.Name == "_" {
									sv.stmts = append(sv.stmts, sraStmt{x, nil})
									continue
								}
							}
							// y = x, y := x with y of the family: recorded at y
							if ast.Node(x.Rhs[0]) == n {
								if l, isId := x.Lhs[0].(*ast.Ident); isId {
									var lo types.Object = info.Uses[l]
									if x.Tok == token.DEFINE {
										lo = info.Defs[l]
									}
									if lv, _ := lo.(*types.Var); lv != nil && vars[lv] != nil {
										sv.links = append(sv.links, lv)
										continue
									}
								}
							}
						}
					case *ast.ValueSpec:
						// var y T = x with y of the family: recorded at y
						if len(x.Names) == 1 && len(x.Values) == 1 && ast.Node(x.Values[0]) == n {
							if lv, _ := info.Defs[x.Names[0]].(*types.Var); lv != nil && vars[lv] != nil {
								sv.links = append(sv.links, lv)
								continue
							}
						}
					}
					sv.rejected = true
					break
				}
				seenAlias := map[*types.Var]bool{}
				for len(aliases) > 0 && !sv.rejected {
					a := aliases[0]
					aliases = aliases[1:]
					if seenAlias[a] {
						continue
					}
					seenAlias[a] = true
					pt, ok := a.Type().(*types.Pointer)
					if !ok || !types.Identical(pt.Elem(), sv.obj.Type()) {
						sv.rejected = true
						break
					}
					for _, id := range uses[a] {
						if inFuncLit(id) {
							sv.rejected = true
							break
						}
						if fieldUse(id, true) {
							continue
						}
						n, par := unparen(id)
						if as, ok := par.(*ast.AssignStmt); ok && as.Tok == token.ASSIGN && len(as.Lhs) == 1 && len(as.Rhs) == 1 && ast.Node(as.Rhs[0]) == n {
							if b, ok := as.Lhs[0].(*ast.Ident); ok && b.Name == "_" {
								continue
							}
						}
						if v, ok := aliasInit(id); ok {
							aliases = append(aliases, v)
							continue
						}
						sv.rejected = true
						break
					}
				}
			}
			// a variable keeps its struct when one it is copied from or to keeps it
			for again := true; again; {
				again = false
				for _, sv := range order {
					if sv.rejected {
						continue
					}
					for _, l := range sv.links {
						if vars[l] == nil || vars[l].rejected {
							sv.rejected = true
							again = true
							break
						}
					}
				}
			}
			// ---- edits
			var sel []textEdit
			for _, sv := range order {
				if !sv.rejected {
					sel = append(sel, sv.sel...)
				}
			}
			used := map[int]bool{}
			// source text of [from,to) with the field selectors inside replaced
			render := func(from, to token.Pos) string {
				a, b := sp.off(from), sp.off(to)
				var in []int
				for i, e := range sel {
					if e.start >= a && e.end <= b {
						in = append(in, i)
					}
				}
				sort.Slice(in, func(i, j int) bool { return sel[in[i]].start > sel[in[j]].start })
				txt := string(f.src[a:b])
				for _, i := range in {
					e := sel[i]
					txt = txt[:e.start-a] + e.text + txt[e.end-a:]
					used[i] = true
				}
				return txt
			}
			// the per-field right-hand sides of a struct value expression, in evaluation order: (field index, text)
			type part struct {
				field int
				text  string
			}
			valueParts := func(sv *sraVar, e ast.Expr) []part {
				e = unparenExpr(e)
				var out []part
				switch y := e.(type) {
				case *ast.Ident:
					o := info.Uses[y].(*types.Var)
					for i := 0; i < sv.st.NumFields(); i++ {
						out = append(out, part{i, vars[o].prefix + sv.st.Field(i).Name()})
					}
				case *ast.CompositeLit:
					have := map[int]bool{}
					for i, el := range y.Elts {
						idx := i
						val := el
						if kv, isKV := el.(*ast.KeyValueExpr); isKV {
							val = kv.Value
							for k := 0; k < sv.st.NumFields(); k++ {
								if sv.st.Field(k).Name() == kv.Key.(*ast.Ident).Name {
									idx = k
								}
							}
						}
						have[idx] = true
						out = append(out, part{idx, render(val.Pos(), val.End())})
					}
					for i := 0; i < sv.st.NumFields(); i++ {
						if !have[i] {
							out = append(out, part{i, "*new(" + sv.ftypes[i] + ")"})
						}
					}
				}
				return out
			}
			resync := func(n ast.Node, txt string) string {
				if strings.Contains(string(f.src[sp.off(n.Pos()):sp.off(n.End())]), "\n") {
					return txt + sp.lineDirective(n.End())
				}
				return txt
			}
			var local []textEdit
			nApplied := 0
			for _, sv := range order {
				if sv.rejected {
					continue
				}
				nApplied++
				var names []string
				for i := 0; i < sv.st.NumFields(); i++ {
					names = append(names, sv.prefix+sv.st.Field(i).Name())
				}
				blanks := strings.TrimSuffix(strings.Repeat("_, ", len(names)), ", ")
				kw := "var "
				if sv.group {
					kw = ""
				}
				var decl []string
				if sv.init == nil {
					for i, n := range names {
						decl = append(decl, kw+n+" "+sv.ftypes[i])
					}
				} else {
					// declared in evaluation order of the initialiser: each right-hand side is evaluated before the next
					// declaration, and none of them can mention the new variables
					for _, pt := range valueParts(sv, sv.init) {
						decl = append(decl, kw+names[pt.field]+" "+sv.ftypes[pt.field]+" = "+pt.text)
					}
				}
				decl = append(decl, blanks+" = "+strings.Join(names, ", "))
				if sv.tuple != nil {
					tupleStmts[sv.tuple] = true
				} else {
					local = append(local, textEdit{sp.off(sv.declNode.Pos()), sp.off(sv.declNode.End()), resync(sv.declNode, strings.Join(decl, "; "))})
				}
				for _, st := range sv.stmts {
					if st.rhs == nil {
						local = append(local, textEdit{sp.off(st.node.Pos()), sp.off(st.node.End()), blanks + " = " + strings.Join(names, ", ")})
						continue
					}
					var lhs, rhs []string
					for _, pt := range valueParts(sv, st.rhs) {
						lhs = append(lhs, names[pt.field])
						rhs = append(rhs, pt.text)
					}
					local = append(local, textEdit{sp.off(st.node.Pos()), sp.off(st.node.End()), resync(st.node, strings.Join(lhs, ", ")+" = "+strings.Join(rhs, ", "))})
				}
				local = append(local, sv.misc...)
				res.Notes = append(res.Notes, inlineNote{Helper: "scalar replacement of " + sv.obj.Name(), Into: fd.Name.Name, At: sp.posStr(sv.declNode.Pos())})
			}
			if nApplied == 0 {
				continue
			}
			// tuple assignments and definitions with family variables on the left: position by position
			var tstmts []*ast.AssignStmt
			for st := range tupleStmts {
				tstmts = append(tstmts, st)
			}
			sort.Slice(tstmts, func(i, j int) bool { return tstmts[i].Pos() < tstmts[j].Pos() })
			for _, st := range tstmts {
				var pre, lhs, rhs []string
				otherNew := false
				touched := false
				for i := range st.Lhs {
					var sv *sraVar
					if id, isId := st.Lhs[i].(*ast.Ident); isId {
						var o types.Object = info.Uses[id]
						if st.Tok == token.DEFINE && info.Defs[id] != nil {
							o = info.Defs[id]
							if v, _ := o.(*types.Var); v == nil || vars[v] == nil || vars[v].rejected {
								if id.Name != "_" {
									otherNew = true
								}
							}
						}
						if v, _ := o.(*types.Var); v != nil && vars[v] != nil && !vars[v].rejected {
							sv = vars[v]
						}
					}
					if sv == nil {
						lhs = append(lhs, render(st.Lhs[i].Pos(), st.Lhs[i].End()))
						rhs = append(rhs, render(st.Rhs[i].Pos(), st.Rhs[i].End()))
						continue
					}
					touched = true
					var names []string
					for k := 0; k < sv.st.NumFields(); k++ {
						names = append(names, sv.prefix+sv.st.Field(k).Name())
					}
					if sv.tuple == st {
						for k, nm := range names {
							pre = append(pre, "var "+nm+" "+sv.ftypes[k])
						}
						pre = append(pre, strings.TrimSuffix(strings.Repeat("_, ", len(names)), ", ")+" = "+strings.Join(names, ", "))
					}
					for _, pt := range valueParts(sv, st.Rhs[i]) {
						lhs = append(lhs, names[pt.field])
						rhs = append(rhs, pt.text)
					}
				}
				if !touched {
					continue
				}
				op := " = "
				if st.Tok == token.DEFINE && otherNew {
					op = " := "
				}
				txt := strings.Join(lhs, ", ") + op + strings.Join(rhs, ", ")
				if len(pre) > 0 {
					txt = strings.Join(pre, "; ") + "; " + txt
				}
				local = append(local, textEdit{sp.off(st.Pos()), sp.off(st.End()), resync(st, txt)})
			}
			for i, e := range sel {
				if !used[i] {
					local = append(local, e)
				}
			}
			edits = append(edits, local...)
		}
		if len(edits) == 0 {
			continue
		}
		sort.SliceStable(edits, func(i, j int) bool { return edits[i].start > edits[j].start })
		okEdits := true
		for i := 1; i < len(edits); i++ {
			if edits[i].end > edits[i-1].start {
				okEdits = false
			}
		}
		if !okEdits {
			res.Skipped = append(res.Skipped, "scalar replacement in "+f.name+": overlapping edits")
			continue
		}
		src := f.src
		for _, e := range edits {
			src = append(append(append([]byte{}, src[:e.start]...), e.text...), src[e.end:]...)
		}
		f.src = src
		changed = true
	}
	return changed
}
