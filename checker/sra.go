package main

// Scalar replacement of local struct variables (a step of the helper normalisation, inline.go).
//
// An edit that gathers a few local variables of a function into a local struct (loop state with a
// step method, say) does not change behaviour, but go/ssa keeps a struct in memory: its fields are
// not registers, no phi joins them, and the rules that follow a value through a loop lose sight of
// it.  After the helpers were inlined, a local variable x of struct type
//
//   - declared `var x T` (or `x := T{}` / `var x = T{}`), T without embedded fields,
//   - used only as x.f (f a field), or as &x initialising a local pointer p that is itself used only as
//     p.f, `_ = p`, or to initialise another such pointer,
//   - and used in no function literal,
//
// is replaced by one variable per field.  x is never read, copied or passed as a whole and its address
// reaches nothing but field selections, so the fields are independent variables: the replacement is
// semantics-preserving by construction.  The result is type-checked again; on failure it is dropped.

import (
	"fmt"
	"go/ast"
	"go/token"
	"go/types"
	"sort"
	"strings"
)

var sraCounter int

func sraRound(sp *srcPkg, res *inlineResult) bool {
	info := sp.info
	changed := false
	for _, f := range sp.files {
		parents := buildParents(f.ast)
		var edits []textEdit
		// package qualifier for type texts: packages must be imported by this file under a usable name
		impName := map[string]string{}
		for _, is := range f.ast.Imports {
			path := strings.Trim(is.Path.Value, "\"")
			if is.Name != nil {
				if is.Name.Name == "_" || is.Name.Name == "." {
					continue
				}
				impName[path] = is.Name.Name
			} else if pn, ok := info.Implicits[is].(*types.PkgName); ok {
				impName[path] = pn.Name()
			}
		}
		for _, d := range f.ast.Decls {
			fd, ok := d.(*ast.FuncDecl)
			if !ok || fd.Body == nil {
				continue
			}
			type cand struct {
				obj   *types.Var
				st    *types.Struct
				node  ast.Node // the DeclStmt / ValueSpec (inside a group) / AssignStmt to replace
				group bool
			}
			var cands []cand
			emptyLit := func(e ast.Expr) bool {
				cl, ok := e.(*ast.CompositeLit)
				return ok && len(cl.Elts) == 0
			}
			ast.Inspect(fd.Body, func(n ast.Node) bool {
				switch x := n.(type) {
				case *ast.FuncLit:
					return false
				case *ast.DeclStmt:
					gd, ok := x.Decl.(*ast.GenDecl)
					if !ok || gd.Tok != token.VAR {
						return true
					}
					for _, s := range gd.Specs {
						vs := s.(*ast.ValueSpec)
						if len(vs.Names) != 1 || vs.Names[0].Name == "_" {
							continue
						}
						if !(len(vs.Values) == 0 && vs.Type != nil || len(vs.Values) == 1 && emptyLit(vs.Values[0])) {
							continue
						}
						obj, _ := info.Defs[vs.Names[0]].(*types.Var)
						if obj == nil {
							continue
						}
						st, ok := obj.Type().Underlying().(*types.Struct)
						if !ok || st.NumFields() == 0 {
							continue
						}
						if gd.Lparen.IsValid() {
							cands = append(cands, cand{obj, st, vs, true})
						} else if len(gd.Specs) == 1 {
							cands = append(cands, cand{obj, st, x, false})
						}
					}
				case *ast.AssignStmt:
					if x.Tok != token.DEFINE || len(x.Lhs) != 1 || len(x.Rhs) != 1 || !emptyLit(x.Rhs[0]) {
						return true
					}
					id, ok := x.Lhs[0].(*ast.Ident)
					if !ok || id.Name == "_" {
						return true
					}
					obj, _ := info.Defs[id].(*types.Var)
					if obj == nil {
						return true
					}
					if _, isStmtList := parents[x].(*ast.BlockStmt); !isStmtList {
						if _, isCase := parents[x].(*ast.CaseClause); !isCase {
							return true // an init statement of if/for/switch
						}
					}
					if st, ok := obj.Type().Underlying().(*types.Struct); ok && st.NumFields() > 0 {
						cands = append(cands, cand{obj, st, x, false})
					}
				}
				return true
			})
			if len(cands) == 0 {
				continue
			}
			// uses of every object in this function
			uses := map[types.Object][]*ast.Ident{}
			ast.Inspect(fd.Body, func(n ast.Node) bool {
				if id, ok := n.(*ast.Ident); ok {
					if o := info.Uses[id]; o != nil {
						uses[o] = append(uses[o], id)
					}
				}
				return true
			})
			inFuncLit := func(n ast.Node) bool {
				for x := parents[n]; x != nil && x != ast.Node(fd); x = parents[x] {
					if _, ok := x.(*ast.FuncLit); ok {
						return true
					}
				}
				return false
			}
			unparen := func(n ast.Node) (ast.Node, ast.Node) { // the node (through parentheses) and its parent
				for {
					pp, ok := parents[n].(*ast.ParenExpr)
					if !ok {
						return n, parents[n]
					}
					n = pp
				}
			}
		nextCand:
			for _, c := range cands {
				st := c.st
				okFields := true
				var ftypes []string
				for i := 0; i < st.NumFields(); i++ {
					fl := st.Field(i)
					if fl.Embedded() || fl.Name() == "_" {
						okFields = false
						break
					}
					missing := false
					ts := types.TypeString(fl.Type(), func(p *types.Package) string {
						if p == sp.pkg || p.Path() == sp.path {
							return ""
						}
						if n, ok := impName[p.Path()]; ok {
							return n
						}
						missing = true
						return p.Name()
					})
					if missing {
						okFields = false
						break
					}
					ftypes = append(ftypes, ts)
				}
				if !okFields {
					continue
				}
				sraCounter++
				prefix := fmt.Sprintf("sra%d_%s_", sraCounter, c.obj.Name())
				var local []textEdit
				fieldUse := func(id *ast.Ident, ptr bool) bool {
					n, par := unparen(id)
					sel, ok := par.(*ast.SelectorExpr)
					if !ok || sel.X != n {
						return false
					}
					sl := info.Selections[sel]
					if sl == nil || sl.Kind() != types.FieldVal || len(sl.Index()) != 1 || sl.Indirect() != ptr {
						return false
					}
					local = append(local, textEdit{sp.off(sel.Pos()), sp.off(sel.End()), prefix + sel.Sel.Name})
					return true
				}
				// aliasInit: expr (through parentheses) is the sole initialiser of a new local pointer variable
				aliasInit := func(e ast.Node) (*types.Var, bool) {
					n, par := unparen(e)
					switch x := par.(type) {
					case *ast.ValueSpec:
						if len(x.Names) == 1 && len(x.Values) == 1 && ast.Node(x.Values[0]) == n {
							if _, inStmt := parents[parents[x]].(*ast.DeclStmt); inStmt {
								v, _ := info.Defs[x.Names[0]].(*types.Var)
								return v, v != nil
							}
						}
					case *ast.AssignStmt:
						if x.Tok == token.DEFINE && len(x.Lhs) == 1 && len(x.Rhs) == 1 && ast.Node(x.Rhs[0]) == n {
							if id, ok := x.Lhs[0].(*ast.Ident); ok {
								v, _ := info.Defs[id].(*types.Var)
								return v, v != nil
							}
						}
					}
					return nil, false
				}
				var aliases []*types.Var
				for _, id := range uses[c.obj] {
					if inFuncLit(id) {
						continue nextCand
					}
					if fieldUse(id, false) {
						continue
					}
					n, par := unparen(id)
					if ue, ok := par.(*ast.UnaryExpr); ok && ue.Op == token.AND && ast.Node(ue.X) == n {
						if v, ok := aliasInit(ue); ok {
							aliases = append(aliases, v)
							// the pointer itself is no longer needed: a typed nil keeps the declaration valid
							local = append(local, textEdit{sp.off(ue.Pos()), sp.off(ue.End()), "(" + types.TypeString(v.Type(), func(p *types.Package) string {
								if p == sp.pkg || p.Path() == sp.path {
									return ""
								}
								if nm, ok := impName[p.Path()]; ok {
									return nm
								}
								return p.Name()
							}) + ")(nil)"})
							continue
						}
					}
					continue nextCand
				}
				seenAlias := map[*types.Var]bool{}
				for len(aliases) > 0 {
					a := aliases[0]
					aliases = aliases[1:]
					if seenAlias[a] {
						continue
					}
					seenAlias[a] = true
					pt, ok := a.Type().(*types.Pointer)
					if !ok || !types.Identical(pt.Elem(), c.obj.Type()) {
						continue nextCand
					}
					for _, id := range uses[a] {
						if inFuncLit(id) {
							continue nextCand
						}
						if fieldUse(id, true) {
							continue
						}
						n, par := unparen(id)
						if as, ok := par.(*ast.AssignStmt); ok && as.Tok == token.ASSIGN && len(as.Lhs) == 1 && len(as.Rhs) == 1 && ast.Node(as.Rhs[0]) == n {
							if b, ok := as.Lhs[0].(*ast.Ident); ok && b.Name == "_" {
								continue
							}
						}
						if v, ok := aliasInit(id); ok {
							aliases = append(aliases, v)
							continue
						}
						continue nextCand
					}
				}
				// the declaration
				var names []string
				for i := 0; i < st.NumFields(); i++ {
					names = append(names, prefix+st.Field(i).Name())
				}
				blanks := strings.TrimSuffix(strings.Repeat("_, ", len(names)), ", ")
				var decl string
				if c.group {
					var parts []string
					for i, n := range names {
						parts = append(parts, n+" "+ftypes[i])
					}
					decl = strings.Join(parts, "; ") + "; " + blanks + " = " + strings.Join(names, ", ")
				} else {
					var parts []string
					for i, n := range names {
						parts = append(parts, "var "+n+" "+ftypes[i])
					}
					decl = strings.Join(parts, "; ") + "; " + blanks + " = " + strings.Join(names, ", ")
				}
				local = append(local, textEdit{sp.off(c.node.Pos()), sp.off(c.node.End()), decl})
				edits = append(edits, local...)
				res.Notes = append(res.Notes, inlineNote{Helper: "scalar replacement of " + c.obj.Name(), Into: fd.Name.Name, At: sp.posStr(c.node.Pos())})
			}
		}
		if len(edits) == 0 {
			continue
		}
		sort.SliceStable(edits, func(i, j int) bool { return edits[i].start > edits[j].start })
		okEdits := true
		for i := 1; i < len(edits); i++ {
			if edits[i].end > edits[i-1].start {
				okEdits = false
			}
		}
		if !okEdits {
			continue
		}
		src := f.src
		for _, e := range edits {
			src = append(append(append([]byte{}, src[:e.start]...), e.text...), src[e.end:]...)
		}
		f.src = src
		changed = true
	}
	return changed
}
