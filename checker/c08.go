package main

import (
	"go/types"

	"golang.org/x/tools/go/ssa"
)

func init() { register("C08", "other", runC08) }

// truncating: v is x[:0] of a load of field fv, or the constant zero.
func truncatingValue(v ssa.Value, fv *types.Var) bool {
	if c, ok := v.(*ssa.Const); ok {
		if c.Value == nil {
			return true
		}
		if i, ok := constInt(c); ok && i == 0 {
			return true
		}
		return false
	}
	if sl, ok := v.(*ssa.Slice); ok && sl.Low == nil && sl.High != nil {
		if c, ok := constInt(sl.High); ok && c == 0 && valueIsLoadOfField(sl.X, fv) {
			return true
		}
	}
	return false
}

func runC08(r *Run) {
	p := r.P
	r.Res.Explanation = "ownership and overwrite rules for message reuse: every data parameter of the decode entries and of Add is copied, never retained (alias-vs-copy data flow); results of MarshalBinary/GobEncode do not share storage with Raw; CloneTo appends into the destination's own buffer; Reset truncates every content field of Message (field-exhaustive), Build resets first, Encode truncates Raw first, Decode truncates the attribute list before its first append and before any successful return; every byte range newly exposed by Add and WriteHeader is overwritten (header coverage [0,20), full value copy, padding fully zeroed on every path)"
	r.NotDecided("equality with a fresh twin over arbitrary histories as such (only the copy/reset/overwrite premises)")
	r.Assume("append(x[:0], y...) copies y into x's storage or a fresh array; copy copies")
	cl := p.buildClosures()
	msg := cl.Message
	rawF, lenF, attrsF := FieldVar(msg, "Raw"), FieldVar(msg, "Length"), FieldVar(msg, "Attributes")
	typF, tidF := FieldVar(msg, "Type"), FieldVar(msg, "TransactionID")
	add, grow, wh := p.Meth("Message", "Add"), p.Meth("Message", "grow"), p.Meth("Message", "WriteHeader")
	wl := p.Meth("Message", "WriteLength")
	reset, build, encode := p.Meth("Message", "Reset"), p.Meth("Message", "Build"), p.Meth("Message", "Encode")
	an := r.Rule("C08.anchors", "Message fields and reuse-related functions resolve", 8)
	for n, ok := range map[string]bool{"Raw": rawF != nil, "Length": lenF != nil, "Attributes": attrsF != nil, "Add": add != nil, "grow": grow != nil, "WriteHeader": wh != nil, "Reset": reset != nil, "Build": build != nil, "Encode": encode != nil, "Decode": cl.DecodeM != nil} {
		if ok {
			an.Instance(n, false, nil)
		} else {
			an.Fail(n, "anchor not found")
		}
	}
	an.Done()
	if rawF == nil || add == nil || reset == nil || cl.DecodeM == nil || wh == nil || grow == nil {
		return
	}
	le := newLinEval(p)

	// ---- copy
	cp := r.Rule("C08.copy", "data handed to Decode/Write/UnmarshalBinary/GobDecode/CloneTo/Add is copied, never retained; MarshalBinary/GobEncode return fresh storage", 7)
	checkEntries(r, cp, cl)
	checkAddCopies(r, cp, le, add)
	for _, n := range []string{"MarshalBinary", "GobEncode"} {
		fn := p.Meth("Message", n)
		if fn == nil {
			cp.Fail(n, "not found")
			continue
		}
		r.Analysed(fn)
		cp.Instance(fnName(fn), true, map[string]string{"fn": fnName(fn)})
		for _, ret := range returnsOf(fn) {
			v := deref(ret.Results[0])
			if rawLoadAlias(v, rawF, nil) || aliasesField(v, rawF, 0) {
				cp.Violation(fn, instrPos(ret), "result shares storage with Raw", "later changes to the message change the marshalled bytes the caller holds")
			}
			// must come from make (or from another marshal function)
			switch x := v.(type) {
			case *ssa.MakeSlice:
				// as long as the message: what is marshalled is the message, not its buffer's spare capacity
				okLen := false
				if lc, isC := x.Len.(*ssa.Call); isC && isBuiltinCall(lc, "len") {
					a := deref(lc.Call.Args[0])
					okLen = rawLoadAlias(a, rawF, nil) || aliasesField(a, rawF, 0)
				}
				if !okLen {
					cp.Violation(fn, instrPos(x), "marshalled length is not len(Raw)", "the bytes returned are not exactly the message (shorter: truncated; longer: followed by bytes that are not part of it)")
				}
			case *ssa.Extract:
				_ = x
			case *ssa.Call:
			default:
				cp.Violation(fn, instrPos(ret), "result is not freshly allocated", "undecided origin of the returned bytes")
			}
		}
	}
	cp.Done()

	// ---- reset
	rs := r.Rule("C08.reset", "Reset truncates every content field of Message (all fields except Type and TransactionID, which a reused message keeps by design); Build calls Reset before anything else; Encode truncates Raw first; Decode truncates the attribute list before its first append and before every successful return", 6)
	{
		st := msg.Underlying().(*types.Struct)
		r.Analysed(reset)
		for i := 0; i < st.NumFields(); i++ {
			fv := st.Field(i)
			if fv == typF || fv == tidF {
				continue
			}
			ok := false
			trunc := map[ssa.Instruction]bool{}
			for _, a := range fieldAccesses(reset, fv) {
				if a.Kind == "store" && truncatingValue(a.Instr.(*ssa.Store).Val, fv) {
					ok = true
					trunc[a.Instr] = true
				}
			}
			rs.Instance("Reset|"+fv.Name(), true, map[string]string{"field": fv.Name()})
			if !ok {
				rs.Violation(reset, reset.Pos(), "field "+fv.Name()+" not reset", "a reused message keeps the previous message's "+fv.Name())
				continue
			}
			// on every path to every return
			var badRet *ssa.Return
			witness := ""
			q := &PathQuery{P: p, Fn: reset}
			q.Step = func(in ssa.Instruction, deferred bool, st uint64, c *PathCtx) (uint64, bool) {
				if trunc[in] {
					return st | 1, false
				}
				return st, false
			}
			q.AtReturn = func(ret *ssa.Return, st uint64, c *PathCtx) {
				if st&1 == 0 && badRet == nil {
					badRet = ret
					witness = c.Witness(reset, ret)
				}
			}
			q.Run()
			if badRet != nil {
				rs.ViolationPath(reset, instrPos(badRet), "field "+fv.Name()+" not reset on a path", "Reset returns on this path without truncating "+fv.Name()+": a reused message keeps the previous message's "+fv.Name(), witness)
			}
		}
		if build != nil {
			r.Analysed(build)
			var rc0 ssa.Instruction
			eachInstr(build, func(b *ssa.BasicBlock, i int, in ssa.Instruction) {
				if callsFn(in, reset) && rc0 == nil {
					rc0 = in
				}
			})
			rs.Instance("Build|Reset first", true, nil)
			if rc0 == nil {
				rs.Violation(build, build.Pos(), "Build does not Reset", "a rebuilt message keeps old attributes and bytes")
			} else {
				eachInstr(build, func(b *ssa.BasicBlock, i int, in ssa.Instruction) {
					if ci, ok := in.(ssa.CallInstruction); ok && in != rc0 {
						if _, isB := ci.Common().Value.(*ssa.Builtin); !isB && !instrDominates(rc0, in) {
							rs.Violation(build, instrPos(in), "call before Reset", "Build acts on the previous content")
						}
					}
				})
			}
		}
		if encode != nil {
			r.Analysed(encode)
			ok := false
			for _, a := range fieldAccesses(encode, rawF) {
				if a.Kind == "store" && truncatingValue(a.Instr.(*ssa.Store).Val, rawF) {
					ok = true
					eachInstr(encode, func(b *ssa.BasicBlock, i int, in ssa.Instruction) {
						if ci, isC := in.(ssa.CallInstruction); isC {
							if _, isB := ci.Common().Value.(*ssa.Builtin); !isB && !instrDominates(a.Instr, in) {
								ok = false
							}
						}
					})
				}
			}
			rs.Instance("Encode|truncates Raw first", true, nil)
			if !ok {
				rs.Violation(encode, encode.Pos(), "Encode does not truncate Raw first", "re-encoding appends to or overlays the previous bytes")
			}
			// the header is written with Length already reset: only Add rewrites the length field, so with
			// no attributes a Length left over from the previous use (a failed Decode stores it) would stay
			var zeroLen ssa.Instruction
			for _, a := range fieldAccesses(encode, lenF) {
				if st, isS := a.Instr.(*ssa.Store); isS && a.Kind == "store" {
					if c, isC := constInt(st.Val); isC && c == 0 {
						zeroLen = st
					}
				}
			}
			rs.Instance("Encode|Length reset before the header is written", true, nil)
			eachInstr(encode, func(b *ssa.BasicBlock, i int, in ssa.Instruction) {
				if callsFn(in, wh) || (wl != nil && callsFn(in, wl)) {
					if zeroLen == nil || !instrDominates(zeroLen, in) {
						rs.Violation(encode, instrPos(in), "header written before Length is reset", "Encode writes the header while Length still holds the value of the previous use; with no attributes to add nothing corrects the length field: a message re-encoded after a failed Decode announces attributes it does not have and cannot be decoded")
					}
				}
			})
		}
		checkDecodeReset(r, rs, cl.DecodeM, attrsF)
	}
	rs.Done()

	// ---- padzero / cover
	pz := r.Rule("C08.padzero", "the padding bytes newly exposed by Add are all set to zero on every path before the buffer is extended over them", 1)
	checkPadZero(r, pz, le, add, grow, rawF)
	pz.Done()
	cv := r.Rule("C08.cover", "every byte of the 20-byte header exposed by WriteHeader's grow is overwritten (type, length, cookie, transaction ID) and Add overwrites its whole TLV (header sites, full-length copy of the value)", 5)
	checkHeader(r, cv, le, cl, wh, rawF, typF, lenF, tidF)
	if wl != nil {
		sub := r.Rule("C08.cover.add", "Add overwrites the whole TLV it exposes", 5)
		checkAdd(r, sub, le, add, wl, rawF, lenF, attrsF)
		sub.Done()
	}
	cv.Done()
	// after Encode the attribute list views the rewritten buffer, not the storage it had before (shared with C03)
	r.Borrow("C03", map[string]string{"C03.encode": "C08.encode"})
}

// checkAddCopies: the value parameter of Add is only read.
func checkAddCopies(r *Run, rc *RuleCtx, le *linEval, add *ssa.Function) {
	val := add.Params[2]
	rc.Instance("Add|val only read", true, nil)
	eachInstr(add, func(b *ssa.BasicBlock, i int, in ssa.Instruction) {
		if st, ok := in.(*ssa.Store); ok && aliasOf(st.Val, val, 0) {
			rc.Violation(add, instrPos(st), "value slice retained", "Add keeps the caller's slice instead of copying it: the caller may not reuse its buffer")
		}
		if c, ok := in.(*ssa.Call); ok && isBuiltinCall(c, "append") && len(c.Call.Args) > 0 && aliasOf(c.Call.Args[0], val, 0) {
			rc.Violation(add, instrPos(c), "append onto the caller's slice", "Add writes into the caller's buffer")
		}
	})
}

// freshRooted: the value is an append chain (through phis and reslices) whose every root is an empty or
// fresh list: nil, f[:0] of the field itself, or a make.
func freshRooted(v ssa.Value, fv *types.Var, depth int, seen map[ssa.Value]bool) bool {
	if depth > 12 || v == nil {
		return false
	}
	if truncatingValue(v, fv) {
		return true
	}
	if seen[v] {
		return true
	}
	seen[v] = true
	switch x := v.(type) {
	case *ssa.MakeSlice:
		return true
	case *ssa.ChangeType:
		return freshRooted(x.X, fv, depth+1, seen)
	case *ssa.Slice:
		if x.Low == nil {
			return freshRooted(x.X, fv, depth+1, seen)
		}
	case *ssa.Phi:
		for _, e := range x.Edges {
			if !freshRooted(e, fv, depth+1, seen) {
				return false
			}
		}
		return true
	case *ssa.Call:
		if isBuiltinCall(x, "append") {
			return freshRooted(x.Call.Args[0], fv, depth+1, seen)
		}
	}
	return false
}

// checkDecodeReset: on every path of (*Message).Decode the attribute list is emptied (a store of nil,
// of Attributes[:0], or of a list built from one of those) before anything is appended to the field's
// previous content and before every successful return.
func checkDecodeReset(r *Run, rs *RuleCtx, dm *ssa.Function, attrsF *types.Var) {
	p := r.P
	r.Analysed(dm)
	idx := errorResultIndex(dm)
	const done = 1
	rep := map[ssa.Instruction]bool{}
	nTrunc := 0
	seenT := map[ssa.Instruction]bool{}
	q := &PathQuery{P: p, Fn: dm}
	q.Step = func(in ssa.Instruction, deferred bool, st uint64, c *PathCtx) (uint64, bool) {
		s, ok := in.(*ssa.Store)
		if !ok {
			return st, false
		}
		fa, ok := s.Addr.(*ssa.FieldAddr)
		if !ok || fieldOfAddr(fa) != attrsF {
			return st, false
		}
		if freshRooted(s.Val, attrsF, 0, map[ssa.Value]bool{}) {
			if !seenT[in] {
				seenT[in] = true
				nTrunc++
			}
			return st | done, false
		}
		if st&done == 0 && !rep[in] {
			rep[in] = true
			rs.ViolationPath(dm, instrPos(in), "append before truncation", "new attributes are appended to the previous message's list", c.Witness(dm, in))
		}
		return st, false
	}
	q.AtReturn = func(ret *ssa.Return, st uint64, c *PathCtx) {
		if idx < 0 || st&done != 0 || rep[ret] {
			return
		}
		if c.NilState(ret.Results[idx]) == +1 {
			rep[ret] = true
			rs.ViolationPath(dm, instrPos(ret), "successful return before the attribute list is truncated", "decoding (e.g. a header-only message) succeeds but the previous message's attributes stay visible through Get/Contains/Parse", c.Witness(dm, ret))
		}
	}
	q.Run()
	if q.Exhausted {
		rs.Violation(dm, dm.Pos(), "path exploration exhausted", "undecided")
	}
	rs.Instance("Decode|truncates Attributes", true, map[string]interface{}{"fn": fnName(dm), "truncating_stores": nTrunc})
	if nTrunc == 0 {
		rs.Violation(dm, dm.Pos(), "Decode does not truncate the attribute list", "attributes of the previously decoded message stay visible")
	}
}
