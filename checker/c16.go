package main

import (
	"go/types"
	"strings"

	"golang.org/x/tools/go/ssa"
)

func init() { register("C16", "other", runC16) }

func runC16(r *Run) {
	p := r.P
	r.Res.Explanation = "call-graph, loop, bounds and panic-construct rules over the closure of ParseURI: no call-graph cycle (constant module stack depth), every loop has a monotone variant, every index/slice is proved within len, no explicit panic or unchecked assertion; with the four stdlib parsers linear and total (EXT) time and stack are bounded by the input length for every string"
	r.NotDecided("termination and totality of net.SplitHostPort, url.Parse, url.ParseQuery, strconv.Atoi themselves (EXT contract)")
	r.Assume("EXT: net.SplitHostPort, url.Parse, url.ParseQuery, strconv.Atoi/ParseInt terminate in time linear in their input and do not panic", "EXT: errors.As sets its target only when it returns true")
	fn := p.Fn("ParseURI")
	an := r.Rule("C16.anchors", "ParseURI resolves", 1)
	if fn == nil {
		an.Fail("ParseURI", "function not found")
		an.Done()
		return
	}
	an.Instance("ParseURI", false, nil)
	an.Done()
	cl := p.CG().Closure([]*ssa.Function{fn}, func(f *ssa.Function) bool { return p.isLibFn(f) })
	sums := map[*ssa.Function]*IntSummary{}

	ac := r.Rule("C16.acyclic", "no call-graph cycle in the closure of ParseURI (module stack depth is constant)", 1)
	for _, f := range cl {
		r.Analysed(f)
		ac.Instance(fnName(f), true, map[string]string{"fn": fnName(f)})
	}
	for _, cyc := range p.CG().Cycles(cl) {
		var names []string
		for _, f := range cyc {
			names = append(names, fnName(f))
		}
		// report at the recursive call site
		var site ssa.Instruction
		for _, cs := range p.CG().Sites[cyc[0]] {
			for _, g := range cs.Callees {
				for _, c := range cyc {
					if g == c && site == nil {
						site = cs.Instr
					}
				}
			}
		}
		pos := cyc[0].Pos()
		if site != nil {
			pos = instrPos(site)
		}
		ac.Violation(cyc[0], pos, "recursion "+strings.Join(names, " -> "), "call-graph cycle: recursion depth depends on the input (unbounded recursion ends in a fatal, unrecoverable stack overflow)")
	}
	// dynamic calls would hide callees
	for _, f := range cl {
		for _, cs := range p.CG().Sites[f] {
			if cs.Dynamic {
				ac.Violation(f, instrPos(cs.Instr), "dynamic call", "call of a function value in the ParseURI closure: callee unknown, recursion undecided")
			}
		}
	}
	ac.Done()

	rs := r.Rule("C16.result", "every return of ParseURI yields either a URI or an error: never (nil, nil)", 1)
	{
		idx := errorResultIndex(fn)
		rep := map[*ssa.Return]bool{}
		n := 0
		q := &PathQuery{P: p, Fn: fn}
		q.AtReturn = func(ret *ssa.Return, st uint64, c *PathCtx) {
			n++
			if idx < 0 || len(ret.Results) != 2 || rep[ret] {
				return
			}
			if c.NilState(ret.Results[1-idx]) == +1 && c.NilState(ret.Results[idx]) == +1 {
				rep[ret] = true
				rs.ViolationPath(fn, instrPos(ret), "return nil, nil", "on this path ParseURI returns neither a URI nor an error: callers that test only the error dereference a nil URI", c.Witness(fn, ret))
			}
		}
		q.Run()
		rs.Instance("ParseURI returns", true, map[string]int{"return_paths": n})
		if q.Exhausted {
			rs.Violation(fn, fn.Pos(), "path exploration exhausted", "undecided")
		}
	}
	rs.Done()

	lp := r.Rule("C16.loops", "every loop in the closure is a range loop or has a strictly monotone variant tied to an exit guard", 0)
	for _, f := range cl {
		checkLoops(r, lp, f, sums)
	}
	lp.Instance("closure scanned", false, nil)
	lp.Done()

	bd := r.Rule("C16.bounds", "every index and slice expression in the closure is proved within len of its operand", 0)
	runBounds(r, bd, cl, &justTable{}, sums)
	bd.Instance("closure scanned", false, nil)
	bd.Done()

	sh := r.Rule("C16.shared", "the closure of ParseURI reads package-level variables only if nothing outside the package initialiser changes them: every call is independent of every other, whatever runs concurrently", 1)
	checkSharedState(r, sh, cl)
	sh.Done()

	np := r.Rule("C16.nopanic", "no explicit panic, unchecked type assertion, channel operation or unknown external call in the closure", 1)
	checkNoPanic(r, np, cl, nil)
	np.Done()
}

// globalWriters: for every package-level variable of the module, the instructions outside the package
// initialisers that may change it (stores, map updates/deletes of the loaded map, and any use of its
// address other than a plain load).
func (p *Prog) globalWriters() map[*ssa.Global][]ssa.Instruction {
	if p.globWriters != nil {
		return p.globWriters
	}
	out := map[*ssa.Global][]ssa.Instruction{}
	p.globWriters = out
	for _, fn := range p.LibFuncs() {
		if fn.Name() == "init" && fn.Parent() == nil {
			continue
		}
		eachInstr(fn, func(b *ssa.BasicBlock, i int, in ssa.Instruction) {
			for _, op := range in.Operands(nil) {
				g, ok := (*op).(*ssa.Global)
				if !ok || g.Pkg == nil || !p.isLibPkg(g.Pkg.Pkg) {
					continue
				}
				switch x := in.(type) {
				case *ssa.UnOp:
					// a load; a loaded map or slice can still be written through
					if refs := x.Referrers(); refs != nil {
						for _, u := range *refs {
							switch y := u.(type) {
							case *ssa.MapUpdate:
								if y.Map == ssa.Value(x) {
									out[g] = append(out[g], u)
								}
							case *ssa.Call:
								if isBuiltinCall(y, "delete") && y.Call.Args[0] == ssa.Value(x) {
									out[g] = append(out[g], u)
								}
							case *ssa.IndexAddr:
								if y.X == ssa.Value(x) {
									for _, u2 := range *y.Referrers() {
										if st, isS := u2.(*ssa.Store); isS && st.Addr == ssa.Value(y) {
											out[g] = append(out[g], u2)
										}
									}
								}
							}
						}
					}
				case *ssa.IndexAddr:
					// &g[i] of an array: a write only if something stores through it (or it escapes)
					if refs := x.Referrers(); refs != nil {
						for _, u := range *refs {
							switch y := u.(type) {
							case *ssa.UnOp, *ssa.DebugRef:
							case *ssa.Store:
								if y.Addr == ssa.Value(x) {
									out[g] = append(out[g], u)
								} else {
									out[g] = append(out[g], u)
								}
							default:
								out[g] = append(out[g], u)
							}
						}
					}
				case *ssa.DebugRef:
				default:
					out[g] = append(out[g], in)
				}
			}
		})
	}
	return out
}

func checkSharedState(r *Run, rc *RuleCtx, cl []*ssa.Function) {
	p := r.P
	wr := p.globalWriters()
	isMutex := func(g *ssa.Global) bool {
		t := g.Type().(*types.Pointer).Elem()
		if n, ok := t.(*types.Named); ok && n.Obj().Pkg() != nil && n.Obj().Pkg().Path() == "sync" {
			return n.Obj().Name() == "Mutex" || n.Obj().Name() == "RWMutex"
		}
		return false
	}
	// every access of a variable in the module (outside the initialiser), with the global mutexes held there
	type access struct {
		in    ssa.Instruction
		write bool
	}
	accesses := map[*ssa.Global][]access{}
	locks := map[*ssa.Function]*LockInfo{}
	for _, fn := range p.LibFuncs() {
		if fn.Name() == "init" && fn.Parent() == nil {
			continue
		}
		eachInstr(fn, func(b *ssa.BasicBlock, i int, in ssa.Instruction) {
			for _, op := range in.Operands(nil) {
				if g, ok := (*op).(*ssa.Global); ok && g.Pkg != nil && p.isLibPkg(g.Pkg.Pkg) && len(wr[g]) > 0 && !isMutex(g) {
					_, isLoad := in.(*ssa.UnOp)
					accesses[g] = append(accesses[g], access{in, !isLoad})
				}
			}
		})
	}
	for g, ws := range wr {
		for _, w := range ws {
			accesses[g] = append(accesses[g], access{w, true})
		}
	}
	heldAt := func(in ssa.Instruction) map[string]string {
		fn := in.Parent()
		li := locks[fn]
		if li == nil {
			li = computeLocks(fn)
			locks[fn] = li
		}
		return li.Held(in)
	}
	// guardedBy: a package-level mutex held (exclusively for writes) at every access of g; "" if none
	guardedBy := func(g *ssa.Global) (string, ssa.Instruction) {
		var common map[string]bool
		var firstBare ssa.Instruction
		for _, a := range accesses[g] {
			h := heldAt(a.in)
			cur := map[string]bool{}
			for obj, mode := range h {
				if a.write && mode != "W" {
					continue
				}
				if m, ok := p.Stun.Members[obj].(*ssa.Global); ok && isMutex(m) {
					cur[obj] = true
				} else if a.in.Parent().Pkg != nil {
					if m, ok := a.in.Parent().Pkg.Members[obj].(*ssa.Global); ok && isMutex(m) {
						cur[obj] = true
					}
				}
			}
			if len(cur) == 0 && firstBare == nil {
				firstBare = a.in
			}
			if common == nil {
				common = cur
			} else {
				for k := range common {
					if !cur[k] {
						delete(common, k)
					}
				}
			}
		}
		for k := range common {
			return k, nil
		}
		return "", firstBare
	}
	for _, f := range cl {
		eachInstr(f, func(b *ssa.BasicBlock, i int, in ssa.Instruction) {
			for _, op := range in.Operands(nil) {
				g, ok := (*op).(*ssa.Global)
				if !ok || g.Pkg == nil || !p.isLibPkg(g.Pkg.Pkg) || isMutex(g) {
					continue
				}
				rc.Instance(fnName(f)+"|"+g.Name(), true, map[string]string{"fn": fnName(f), "variable": g.Name()})
				ws := wr[g]
				if len(ws) == 0 {
					continue
				}
				if mu, bare := guardedBy(g); mu == "" {
					w := ws[0]
					where := ""
					if bare != nil {
						where = "; accessed without a package-level mutex at " + p.pos(instrPos(bare))
					}
					rc.Violation(f, instrPos(in), "shared variable "+g.Name(), "this code uses a package-level variable that is changed at run time ("+shortInstr(w)+" in "+fnName(w.Parent())+", "+p.pos(instrPos(w))+") and no single mutex is held at all of its accesses"+where+": concurrent callers can corrupt it or crash the process (a map written while read is a fatal error)")
				}
			}
		})
	}
}

// fmtReachable: the String/Error/Format/GoString methods of module types whose values are handed to a
// function of package fmt inside fns (fmt calls them through reflection, so no call edge shows them),
// with the module functions they reach.
func fmtReachable(p *Prog, fns []*ssa.Function) []*ssa.Function {
	seen := map[*ssa.Function]bool{}
	for _, f := range fns {
		seen[f] = true
	}
	var out []*ssa.Function
	var work []*ssa.Function
	addMethods := func(t types.Type) {
		for _, tt := range []types.Type{t, types.NewPointer(t)} {
			ms := p.SSA.MethodSets.MethodSet(tt)
			for _, name := range []string{"String", "Error", "Format", "GoString"} {
				sel := ms.Lookup(nil, name)
				if sel == nil {
					if n, ok := t.(*types.Named); ok && n.Obj().Pkg() != nil {
						sel = ms.Lookup(n.Obj().Pkg(), name)
					}
				}
				if sel == nil {
					continue
				}
				fn := p.SSA.MethodValue(sel)
				if fn != nil && p.isLibFn(fn) && !seen[fn] {
					seen[fn] = true
					work = append(work, fn)
				}
			}
		}
	}
	scan := func(f *ssa.Function) {
		eachInstr(f, func(b *ssa.BasicBlock, i int, in ssa.Instruction) {
			c, ok := in.(*ssa.Call)
			if !ok {
				return
			}
			sc := c.Call.StaticCallee()
			if sc == nil || sc.Pkg == nil || sc.Pkg.Pkg.Path() != "fmt" {
				return
			}
			var visit func(v ssa.Value, depth int)
			visit = func(v ssa.Value, depth int) {
				if depth > 4 {
					return
				}
				switch x := v.(type) {
				case *ssa.MakeInterface:
					t := x.X.Type()
					if pt, isP := t.(*types.Pointer); isP {
						t = pt.Elem()
					}
					addMethods(t)
				case *ssa.Slice:
					if al, isA := x.X.(*ssa.Alloc); isA {
						for _, u := range *al.Referrers() {
							if ia, isIA := u.(*ssa.IndexAddr); isIA {
								for _, w := range *ia.Referrers() {
									if st, isS := w.(*ssa.Store); isS {
										visit(st.Val, depth+1)
									}
								}
							}
						}
					}
				}
			}
			for _, a := range c.Call.Args {
				visit(a, 0)
			}
		})
	}
	for _, f := range fns {
		scan(f)
	}
	for len(work) > 0 {
		f := work[len(work)-1]
		work = work[:len(work)-1]
		out = append(out, f)
		scan(f)
		for _, g := range p.CG().Closure([]*ssa.Function{f}, func(x *ssa.Function) bool { return p.isLibFn(x) }) {
			if !seen[g] {
				seen[g] = true
				out = append(out, g)
				scan(g)
			}
		}
	}
	return out
}
