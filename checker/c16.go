package main

import (
	"strings"

	"golang.org/x/tools/go/ssa"
)

func init() { register("C16", "other", runC16) }

func runC16(r *Run) {
	p := r.P
	r.Res.Explanation = "call-graph, loop, bounds and panic-construct rules over the closure of ParseURI: no call-graph cycle (constant module stack depth), every loop has a monotone variant, every index/slice is proved within len, no explicit panic or unchecked assertion; with the four stdlib parsers linear and total (EXT) time and stack are bounded by the input length for every string"
	r.NotDecided("termination and totality of net.SplitHostPort, url.Parse, url.ParseQuery, strconv.Atoi themselves (EXT contract)")
	r.Assume("EXT: net.SplitHostPort, url.Parse, url.ParseQuery, strconv.Atoi/ParseInt terminate in time linear in their input and do not panic", "EXT: errors.As sets its target only when it returns true")
	fn := p.Fn("ParseURI")
	an := r.Rule("C16.anchors", "ParseURI resolves", 1)
	if fn == nil {
		an.Fail("ParseURI", "function not found")
		an.Done()
		return
	}
	an.Instance("ParseURI", false, nil)
	an.Done()
	cl := p.CG().Closure([]*ssa.Function{fn}, func(f *ssa.Function) bool { return p.isLibFn(f) })
	sums := map[*ssa.Function]*IntSummary{}

	ac := r.Rule("C16.acyclic", "no call-graph cycle in the closure of ParseURI (module stack depth is constant)", 1)
	for _, f := range cl {
		r.Analysed(f)
		ac.Instance(fnName(f), true, map[string]string{"fn": fnName(f)})
	}
	for _, cyc := range p.CG().Cycles(cl) {
		var names []string
		for _, f := range cyc {
			names = append(names, fnName(f))
		}
		// report at the recursive call site
		var site ssa.Instruction
		for _, cs := range p.CG().Sites[cyc[0]] {
			for _, g := range cs.Callees {
				for _, c := range cyc {
					if g == c && site == nil {
						site = cs.Instr
					}
				}
			}
		}
		pos := cyc[0].Pos()
		if site != nil {
			pos = instrPos(site)
		}
		ac.Violation(cyc[0], pos, "recursion "+strings.Join(names, " -> "), "call-graph cycle: recursion depth depends on the input (unbounded recursion ends in a fatal, unrecoverable stack overflow)")
	}
	// dynamic calls would hide callees
	for _, f := range cl {
		for _, cs := range p.CG().Sites[f] {
			if cs.Dynamic {
				ac.Violation(f, instrPos(cs.Instr), "dynamic call", "call of a function value in the ParseURI closure: callee unknown, recursion undecided")
			}
		}
	}
	ac.Done()

	rs := r.Rule("C16.result", "every return of ParseURI yields either a URI or an error: never (nil, nil)", 1)
	{
		idx := errorResultIndex(fn)
		rep := map[*ssa.Return]bool{}
		n := 0
		q := &PathQuery{P: p, Fn: fn}
		q.AtReturn = func(ret *ssa.Return, st uint64, c *PathCtx) {
			n++
			if idx < 0 || len(ret.Results) != 2 || rep[ret] {
				return
			}
			if c.NilState(ret.Results[1-idx]) == +1 && c.NilState(ret.Results[idx]) == +1 {
				rep[ret] = true
				rs.ViolationPath(fn, instrPos(ret), "return nil, nil", "on this path ParseURI returns neither a URI nor an error: callers that test only the error dereference a nil URI", c.Witness(fn, ret))
			}
		}
		q.Run()
		rs.Instance("ParseURI returns", true, map[string]int{"return_paths": n})
		if q.Exhausted {
			rs.Violation(fn, fn.Pos(), "path exploration exhausted", "undecided")
		}
	}
	rs.Done()

	lp := r.Rule("C16.loops", "every loop in the closure is a range loop or has a strictly monotone variant tied to an exit guard", 0)
	for _, f := range cl {
		checkLoops(r, lp, f, sums)
	}
	lp.Instance("closure scanned", false, nil)
	lp.Done()

	bd := r.Rule("C16.bounds", "every index and slice expression in the closure is proved within len of its operand", 0)
	runBounds(r, bd, cl, &justTable{}, sums)
	bd.Instance("closure scanned", false, nil)
	bd.Done()

	np := r.Rule("C16.nopanic", "no explicit panic, unchecked type assertion, channel operation or unknown external call in the closure", 1)
	checkNoPanic(r, np, cl, nil)
	np.Done()
}
