package main

import (
	"fmt"
	"go/constant"
	"go/token"
	"go/types"
	"sort"
	"strings"

	"golang.org/x/tools/go/ssa"
)

func init() { register("C06", "other", runC06) }

// RFC / IANA code points (STUN attributes registry, RFC 5389/5766/5780/6062/6156/8489/8445, draft origin).
var ianaAttrs = map[string]int64{
	"AttrMappedAddress": 0x0001, "AttrUsername": 0x0006, "AttrMessageIntegrity": 0x0008, "AttrErrorCode": 0x0009,
	"AttrUnknownAttributes": 0x000A, "AttrRealm": 0x0014, "AttrNonce": 0x0015, "AttrXORMappedAddress": 0x0020,
	"AttrSoftware": 0x8022, "AttrAlternateServer": 0x8023, "AttrFingerprint": 0x8028,
	"AttrPriority": 0x0024, "AttrUseCandidate": 0x0025, "AttrICEControlled": 0x8029, "AttrICEControlling": 0x802A,
	"AttrChannelNumber": 0x000C, "AttrLifetime": 0x000D, "AttrXORPeerAddress": 0x0012, "AttrData": 0x0013,
	"AttrXORRelayedAddress": 0x0016, "AttrEvenPort": 0x0018, "AttrRequestedTransport": 0x0019, "AttrDontFragment": 0x001A,
	"AttrReservationToken": 0x0022, "AttrChangeRequest": 0x0003, "AttrPadding": 0x0026, "AttrResponsePort": 0x0027,
	"AttrCacheTimeout": 0x8027, "AttrResponseOrigin": 0x802b, "AttrOtherAddress": 0x802C,
	"AttrSourceAddress": 0x0004, "AttrChangedAddress": 0x0005, "AttrConnectionID": 0x002a,
	"AttrRequestedAddressFamily": 0x0017, "AttrOrigin": 0x802F,
	"AttrMessageIntegritySHA256": 0x001C, "AttrPasswordAlgorithm": 0x001D, "AttrUserhash": 0x001E,
	"AttrPasswordAlgorithms": 0x8002, "AttrAlternateDomain": 0x8003,
}

var ianaMethods = map[string]int64{
	"MethodBinding": 0x001, "MethodAllocate": 0x003, "MethodRefresh": 0x004, "MethodSend": 0x006, "MethodData": 0x007,
	"MethodCreatePermission": 0x008, "MethodChannelBind": 0x009, "MethodConnect": 0x00a, "MethodConnectionBind": 0x00b, "MethodConnectionAttempt": 0x00c,
}

var ianaErrorCodes = map[string]int64{
	"CodeTryAlternate": 300, "CodeBadRequest": 400, "CodeUnauthorized": 401, "CodeUnauthorised": 401, "CodeUnknownAttribute": 420,
	"CodeStaleNonce": 438, "CodeRoleConflict": 487, "CodeServerError": 500, "CodeForbidden": 403, "CodeAllocMismatch": 437,
	"CodeWrongCredentials": 441, "CodeUnsupportedTransProto": 442, "CodeAllocQuotaReached": 486, "CodeInsufficientCapacity": 508,
	"CodeConnAlreadyExists": 446, "CodeConnTimeoutOrFailure": 447, "CodeAddrFamilyNotSupported": 440, "CodePeerAddrFamilyMismatch": 443,
}

var ianaClasses = map[string]int64{"ClassRequest": 0, "ClassIndication": 1, "ClassSuccessResponse": 2, "ClassErrorResponse": 3}

// attribute type by Go type name: the code point its AddTo adds and its GetFrom/Check reads.
var typeCodePoints = map[string]int64{
	"XORMappedAddress": 0x0020, "MappedAddress": 0x0001, "AlternateServer": 0x8023, "ResponseOrigin": 0x802b, "OtherAddress": 0x802c,
	"Username": 0x0006, "Realm": 0x0014, "Nonce": 0x0015, "Software": 0x8022, "ErrorCodeAttribute": 0x0009, "ErrorCode": 0x0009,
	"UnknownAttributes": 0x000a, "MessageIntegrity": 0x0008, "FingerprintAttr": 0x8028,
}

// reachingConsts: the constants that reach argument argIdx of calls to target from fn, through at most
// two levels of module wrappers that forward one of their parameters.
func reachingConsts(p *Prog, fn, target *ssa.Function, argIdx int, depth int) (consts map[int64]bool, params map[int]bool) {
	consts, params = map[int64]bool{}, map[int]bool{}
	if depth > 3 || fn == nil || fn.Blocks == nil {
		return
	}
	eachInstr(fn, func(b *ssa.BasicBlock, i int, in ssa.Instruction) {
		c, ok := in.(*ssa.Call)
		if !ok {
			return
		}
		sc := c.Call.StaticCallee()
		if sc == nil {
			return
		}
		use := func(v ssa.Value) {
			v = stripConvs(v)
			if cv, ok := constInt(v); ok {
				consts[cv] = true
				return
			}
			for k, pa := range fn.Params {
				if v == ssa.Value(pa) {
					params[k] = true
				}
			}
		}
		if callsFn(c, target) && argIdx < len(c.Call.Args) {
			use(c.Call.Args[argIdx])
			return
		}
		if p.isLibFn(sc) && sc != fn {
			_, ps := reachingConsts(p, sc, target, argIdx, depth+1)
			cs, _ := reachingConsts(p, sc, target, argIdx, depth+1)
			for cv := range cs {
				consts[cv] = true
			}
			for k := range ps {
				if k < len(c.Call.Args) {
					use(c.Call.Args[k])
				}
			}
		}
	})
	return
}

func runC06(r *Run) {
	p := r.P
	r.Res.Explanation = "wire tables of the typed attributes extracted from writer and reader (offsets, widths, constants, masks) and compared with each other and with RFC 5389 section 15: accessor widths, family codes, port XOR with cookie>>16, address XOR with cookie||transaction ID, MAPPED-ADDRESS family, ERROR-CODE class/number split, 16-bit UNKNOWN-ATTRIBUTES entries, untransformed text; the attribute code point each type adds and reads; exported code points against the IANA tables; getters accept every RFC-valid length; the IPv4-mapped test inspects bytes 0..11"
	r.NotDecided("round-trip equality for all values as such (it follows from writer = reader tables only for the table-shaped part)")
	r.Assume("EXT: binary.BigEndian accessors, xor.XorBytes(dst,a,b) writes dst[i] = a[i]^b[i] for i < min(len)", "net.IPv4len = 4, net.IPv6len = 16")
	cl := p.buildClosures()
	add, getM := p.Meth("Message", "Add"), p.Meth("Message", "Get")
	an := r.Rule("C06.anchors", "typed attribute setters/getters, Message.Add and Message.Get resolve", 20)
	for _, f := range append(append([]*ssa.Function{}, cl.Setters...), cl.Getters...) {
		an.Instance(fnName(f), false, nil)
	}
	if add == nil || getM == nil {
		an.Fail("Message.Add/Get", "not found")
	}
	an.Done()
	if add == nil || getM == nil {
		return
	}
	le := newLinEval(p)

	// ---- width
	wd := r.Rule("C06.width", "every fixed-width accessor whose operand is a slice expression of constant width uses a slice of exactly its own width", 15)
	for _, fn := range p.LibFuncs() {
		for _, s := range wireSites(le, fn) {
			if s.Width == 0 || s.Kind == "store" || s.Kind == "load" || s.Hi == nil {
				continue
			}
			if _, _, _, isAcc := accessorCall(s.In); !isAcc {
				if strings.HasPrefix(s.Kind, "Put") || strings.HasPrefix(s.Kind, "Uint") {
					// a hand-written big-endian group: all of its bytes are present by construction (LAYOUT)
					r.Analysed(fn)
					wd.Instance(fmt.Sprintf("%s|%s%s", fnName(fn), s.Kind, s.Range()), true, map[string]string{"fn": fnName(fn), "site": describeSite(s) + " (byte-wise)", "slice_width": fmt.Sprint(s.Width)})
				}
				continue
			}
			// only when the operand itself is a slice expression
			buf := callArgs(s.In)[1]
			if _, isSl := buf.(*ssa.Slice); !isSl {
				continue
			}
			w, ok := s.Hi.add(s.Lo, -1).isConst()
			if !ok {
				continue
			}
			r.Analysed(fn)
			wd.Instance(fmt.Sprintf("%s|%s%s", fnName(fn), s.Kind, s.Range()), true, map[string]string{"fn": fnName(fn), "site": describeSite(s), "slice_width": fmt.Sprint(w)})
			if w != s.Width {
				wd.Violation(fn, instrPos(s.In), fmt.Sprintf("%s on a %d-byte slice", s.Kind, w), fmt.Sprintf("the accessor reads/writes %d bytes but the wire field is %d bytes wide: the encoding is not the RFC's", s.Width, w))
			}
		}
	}
	wd.Done()

	// ---- pair
	pr := r.Rule("C06.pair", "for every attribute type the code point reaching Message.Add from AddTo equals the one reaching Message.Get from GetFrom/Check and is the RFC code point of that type; a setter/getter with an attribute-type parameter passes that parameter to Add/Get", 18)
	{
		var names []string
		for n := range typeCodePoints {
			names = append(names, n)
		}
		sort.Strings(names)
		for _, tn := range names {
			want := typeCodePoints[tn]
			n := p.Named(tn)
			if n == nil {
				pr.Fail("type "+tn, "attribute type not found")
				continue
			}
			for _, mn := range []string{"AddTo", "GetFrom", "Check"} {
				fn := p.MethodOf(n, mn)
				if fn == nil || fn.Blocks == nil {
					continue
				}
				target, idx := add, 1
				if mn != "AddTo" {
					target, idx = getM, 1
				}
				cs, _ := reachingConsts(p, fn, target, idx, 0)
				var got []string
				for c := range cs {
					got = append(got, fmt.Sprintf("%#04x", c))
				}
				sort.Strings(got)
				r.Analysed(fn)
				pr.Instance(tn+"."+mn, true, map[string]interface{}{"type": tn, "method": mn, "code_points": got, "rfc": fmt.Sprintf("%#04x", want)})
				if len(cs) != 1 || !cs[want] {
					pr.Violation(fn, fn.Pos(), fmt.Sprintf("%s.%s uses %v", tn, mn, got), fmt.Sprintf("the RFC code point of this attribute is %#04x: an attribute written under another type is not found by its getter / by other implementations", want))
				}
			}
		}
	}
	// the As variants: a setter/getter that is told the attribute type by its caller adds/reads under that type
	{
		attrT := p.Named("AttrType")
		for _, fn := range append(append([]*ssa.Function{}, cl.Setters...), cl.Getters...) {
			var tp *ssa.Parameter
			n := 0
			for _, pa := range fn.Params {
				if attrT != nil && types.Identical(pa.Type(), attrT) {
					tp = pa
					n++
				}
			}
			if n != 1 || fn.Blocks == nil {
				continue
			}
			eachInstr(fn, func(b *ssa.BasicBlock, i int, in ssa.Instruction) {
				c, ok := in.(*ssa.Call)
				if !ok || !(callsFn(c, add) || callsFn(c, getM)) || len(c.Call.Args) < 2 {
					return
				}
				r.Analysed(fn)
				arg := stripConvs(c.Call.Args[1])
				okArg := arg == ssa.Value(tp)
				pr.Instance(fnName(fn)+":as", true, map[string]interface{}{"function": fnName(fn), "type_argument": p.expr(c.Call.Args[1]), "parameter": tp.Name(), "ok": okArg})
				if !okArg {
					pr.Violation(fn, c.Pos(), fmt.Sprintf("%s is given the attribute type by its caller (%s) but uses %s", fnName(fn), tp.Name(), p.expr(c.Call.Args[1])), "the AddToAs/GetFromAs variants write and read under the type the caller names: under a fixed type the XOR-PEER-ADDRESS / XOR-RELAYED-ADDRESS / ALTERNATE-SERVER ... forms are not found or read another attribute's value")
				}
			})
		}
	}
	pr.Done()

	// ---- code points
	cp := r.Rule("C06.codepoints", "exported attribute, method, class and error-code constants have their IANA/RFC values", 70)
	for _, tab := range []map[string]int64{ianaAttrs, ianaMethods, ianaErrorCodes, ianaClasses} {
		var ks []string
		for k := range tab {
			ks = append(ks, k)
		}
		sort.Strings(ks)
		for _, name := range ks {
			obj := p.Stun.Pkg.Scope().Lookup(name)
			c, ok := obj.(*types.Const)
			cp.Instance(name, false, nil)
			if !ok {
				cp.Fail(name, "exported constant not found")
				continue
			}
			v, _ := constant.Int64Val(c.Val())
			if v != tab[name] {
				cp.Violation(nil, c.Pos(), fmt.Sprintf("%s = %#x", name, v), fmt.Sprintf("IANA/RFC value is %#x", tab[name]))
			}
		}
	}
	// no exported Attr*/Method*/Code* constant is missing from the tables with a value colliding with a listed one
	cp.Done()

	// ---- tables
	tb := r.Rule("C06.tables", "writer table = reader table = RFC 5389 section 15 layout for XOR-MAPPED-ADDRESS, MAPPED-ADDRESS (and aliases), ERROR-CODE, UNKNOWN-ATTRIBUTES and text attributes", 20)
	checkAddrTables(r, tb, le, "XORMappedAddress", true, add)
	checkAddrTables(r, tb, le, "MappedAddress", false, add)
	checkErrorCodeTable(r, tb, le, add)
	checkUnknownAttrs(r, tb, le, add)
	checkTextAttrs(r, tb, add, getM)
	tb.Done()

	// ---- every byte of a value is the setter's: written by it, or zero because the buffer is fresh
	fr := r.Rule("C06.fresh", "the value a typed setter hands to Add is the caller's own data, or a freshly made buffer (zeroed: reserved bytes are 0), or else every byte of it is written by the setter before the call: no byte of a value is left over from another use of a shared scratch buffer", 4)
	checkValueFresh(r, fr, le, cl, add)
	fr.Done()

	// ---- accept
	ac := r.Rule("C06.accept", "no getter rejects a value length that RFC 5389 allows for its attribute (ERROR-CODE: >= 4; addresses: 8 and 20; UNKNOWN-ATTRIBUTES: every even length; text: any)", 4)
	checkAccept(r, ac, getM)
	ac.Done()

	sa := r.Rule("C06.setaccept", "a typed setter refuses a value only on its reviewed conditions (IP length not 4/16, the reviewed length limits, an error of the setter it delegates to): every other value of the type is encoded", 10)
	checkSetterAccept(r, sa, cl)
	sa.Done()

	ga := r.Rule("C06.getaccept", "a typed getter refuses a value only on its reviewed conditions (value length, family code, size helpers, the attribute lookup, an error of the getter it delegates to): no condition on the bytes that carry the value proper", 10)
	checkGetterAccept(r, ga, cl, getM)
	ga.Done()

	// ---- v4 mapped
	v4 := r.Rule("C06.v4mapped", "the IPv4-mapped test inspects all of bytes 0..11 (ten zero bytes, then 0xff 0xff)", 1)
	checkV4Mapped(r, v4, le)
	v4.Done()
	// the reviewed length limits of the setters: a valid value must not be refused (shared with C09)
	r.Borrow("C09", map[string]string{"C09.limits": "C06.limits"})
	// reading back yields the value that was added, whatever the destination held before: every success path of a
	// getter assigns its whole destination (shared with C07)
	r.Borrow("C07", map[string]string{"C07.fresh": "C06.destfresh"})
	// the XOR-ed address is keyed by m.TransactionID on the writing side and by the header bytes on the reading
	// side: a setter that leaves the field and the header different makes every XOR address unreadable (shared with C03)
	r.Borrow("C03", map[string]string{"C03.cohere": "C06.cohere"})
}

func checkAddrTables(r *Run, rc *RuleCtx, le *linEval, tn string, xored bool, add *ssa.Function) {
	p := r.P
	n := p.Named(tn)
	w, g := p.MethodOf(n, "AddToAs"), p.MethodOf(n, "GetFromAs")
	if w == nil || g == nil {
		rc.Fail(tn+".AddToAs/GetFromAs", "not found")
		return
	}
	r.Analysed(w, g)
	portF, ipF := FieldVar(n, "Port"), FieldVar(n, "IP")
	tidF := FieldVar(p.Named("Message"), "TransactionID")
	const portMask = stunCookie >> 16
	bad := func(fn *ssa.Function, what, why string) { rc.Violation(fn, fn.Pos(), tn+": "+what, why) }

	// writer
	var addc *ssa.Call
	eachInstr(w, func(b *ssa.BasicBlock, i int, in ssa.Instruction) {
		if c, ok := in.(*ssa.Call); ok && callsFn(c, add) {
			addc = c
		}
	})
	if addc == nil {
		bad(w, "writer", "the setter never adds its attribute")
		return
	}
	vroot, vlo, vhi := le.window(addc.Call.Args[2])
	okFam, okPort, okAddr, okLen := false, false, false, false
	var mask ssa.Value
	for _, s := range wireSites(le, w) {
		if s.Root != vroot {
			continue
		}
		lo, hi, isC := s.constRange()
		switch {
		case s.Kind == "PutUint16" && isC && lo == 0 && hi == 2:
			cs := constSetOf(s.Val, 0)
			rc.Instance(tn+"|writer family", true, map[string]string{"site": describeSite(s), "values": fmt.Sprint(cs)})
			if len(cs) == 2 && cs[1] && cs[2] {
				okFam = true
			}
		case s.Kind == "PutUint16" && isC && lo == 2 && hi == 4:
			v := stripConvs(s.Val)
			rc.Instance(tn+"|writer port", true, map[string]string{"site": describeSite(s), "value": exprDepth(s.Val, 0)})
			if xored {
				if b, ok := v.(*ssa.BinOp); ok && b.Op == token.XOR {
					c, isK := constInt(b.Y)
					x := b.X
					if !isK {
						c, isK = constInt(b.X)
						x = b.Y
					}
					if isK && c == portMask && valueIsLoadOfField(stripConvs(x), portF) {
						okPort = true
					}
				}
			} else if valueIsLoadOfField(v, portF) {
				okPort = true
			}
		case xored && s.Kind == "xor" && s.Role == "dst":
			if l, ok := s.Lo.isConst(); ok && l == 4 {
				okAddr = true
				mask = callArgs(s.In)[2]
				// source is the (possibly narrowed) IP
				if !ipDerived(callArgs(s.In)[1], ipF, 0) {
					okAddr = false
				}
			}
			rc.Instance(tn+"|writer address", true, map[string]string{"site": describeSite(s)})
		case !xored && s.Kind == "copy" && s.Role == "dst":
			if l, ok := s.Lo.isConst(); ok && l == 4 && ipDerived(s.Val, ipF, 0) {
				okAddr = true
			}
			rc.Instance(tn+"|writer address", true, map[string]string{"site": describeSite(s)})
		}
	}
	// value length 4 + len(ip)
	if c, ok := vlo.isConst(); ok && c == 0 && vhi != nil && vhi.C == 4 && len(vhi.Terms) == 1 {
		okLen = true
	}
	if !okFam {
		bad(w, "writer family", "the family field at bytes [0:2) must be 0x0001 (IPv4) or 0x0002 (IPv6)")
	}
	if !okPort {
		if xored {
			bad(w, "writer port", "the port at bytes [2:4) must be port XOR (magic cookie >> 16) = port ^ 0x2112")
		} else {
			bad(w, "writer port", "the port at bytes [2:4) must be the port itself")
		}
	}
	if !okAddr {
		bad(w, "writer address", "the address must start at byte 4 of the value (XORed with cookie||transaction ID for XOR types)")
	}
	if !okLen {
		bad(w, "writer value length", "the attribute value must be 4 + len(address) bytes")
	}
	if xored {
		checkXorMask(r, rc, le, w, tn+" writer", mask, tidF)
	}

	// reader
	var gc *ssa.Call
	getM := p.Meth("Message", "Get")
	eachInstr(g, func(b *ssa.BasicBlock, i int, in ssa.Instruction) {
		if c, ok := in.(*ssa.Call); ok && callsFn(c, getM) {
			gc = c
		}
	})
	if gc == nil {
		bad(g, "reader", "the getter does not look its attribute up")
		return
	}
	okFam, okPort, okAddr = false, false, false
	mask = nil
	var famCall ssa.Value
	for _, s := range wireSites(le, g) {
		e, isE := s.Root.(*ssa.Extract)
		if !isE || e.Tuple != ssa.Value(gc) {
			continue
		}
		lo, hi, isC := s.constRange()
		switch {
		case s.Kind == "Uint16" && isC && lo == 0 && hi == 2:
			famCall = s.Val
		case s.Kind == "Uint16" && isC && lo == 2 && hi == 4:
			// stored into Port
			for _, a := range fieldAccesses(g, portF) {
				if a.Kind != "store" {
					continue
				}
				v := stripConvs(a.Instr.(*ssa.Store).Val)
				rc.Instance(tn+"|reader port", true, map[string]string{"value": exprDepth(v, 0)})
				if xored {
					if b, ok := v.(*ssa.BinOp); ok && b.Op == token.XOR {
						c, isK := constInt(b.Y)
						x := b.X
						if !isK {
							c, isK = constInt(b.X)
							x = b.Y
						}
						if isK && c == portMask && stripConvs(x) == s.Val {
							okPort = true
						}
					}
				} else if v == s.Val {
					okPort = true
				}
			}
		case xored && s.Kind == "xor" && s.Role == "src":
			if l, ok := s.Lo.isConst(); ok && l == 4 && s.Hi == nil {
				args := callArgs(s.In)
				if valueIsLoadOfField(stripConvs(args[0]), ipF) || viaField(stripConvs(args[0]), ipF) {
					okAddr = true
					mask = args[2]
				}
			}
			rc.Instance(tn+"|reader address", true, map[string]string{"site": describeSite(s)})
		case !xored && s.Kind == "copy" && s.Role == "src":
			if l, ok := s.Lo.isConst(); ok && l == 4 && s.Hi == nil && (valueIsLoadOfField(stripConvs(s.Val), ipF) || viaField(stripConvs(s.Val), ipF)) {
				okAddr = true
			}
			rc.Instance(tn+"|reader address", true, map[string]string{"site": describeSite(s)})
		}
	}
	// family compared with {1,2}
	if famCall != nil {
		cs := map[int64]bool{}
		for _, u := range *famCall.Referrers() {
			if b, ok := u.(*ssa.BinOp); ok && (b.Op == token.EQL || b.Op == token.NEQ) {
				if c, ok := constInt(b.Y); ok {
					cs[c] = true
				}
				if c, ok := constInt(b.X); ok {
					cs[c] = true
				}
			}
		}
		rc.Instance(tn+"|reader family", true, map[string]string{"compared_with": fmt.Sprint(cs)})
		if len(cs) == 2 && cs[1] && cs[2] {
			okFam = true
		}
		// the family is dispatched some other way (a lookup table with a bounds guard, ordered comparisons): decided
		// by splitting on the family value - which values reach a success return, and with which address length
		var fc *familyCases
		if !okFam {
			fc = familyCaseSplit(p, g, famCall, ipF)
			if fc != nil && fc.acceptsExactly(1, 2) {
				okFam = true
				rc.Instance(tn+"|reader family by case split", true, map[string]interface{}{"accepted_families": fc.accepted(), "ip_length_by_family": fc.lens})
			}
		}
		// address length selected by family == 2
		okSel := false
		eachInstr(g, func(b *ssa.BasicBlock, i int, in ssa.Instruction) {
			if ph, ok := in.(*ssa.Phi); ok && isIntType(ph.Type()) {
				cs := constSetOf(ph, 0)
				if len(cs) == 2 && cs[4] && cs[16] {
					// the 16 edge comes from the block dominated by family == 2
					for j, e := range ph.Edges {
						if c, ok := constInt(e); ok && c == 16 {
							pred := ph.Block().Preds[j]
							for _, ci := range ifsOn(g, func(v ssa.Value) bool {
								bo, ok := v.(*ssa.BinOp)
								if !ok || bo.Op != token.EQL {
									return false
								}
								c2, isC := constInt(bo.Y)
								return isC && c2 == 2 && bo.X == famCall
							}) {
								if ci.OnTrue == pred || blockDominates(ci.OnTrue, pred) {
									okSel = true
								}
							}
						}
					}
				}
			}
		})
		bySplit := false
		if !okSel && fc != nil && fc.lenIs(1, 4) && fc.lenIs(2, 16) {
			okSel, bySplit = true, true
		}
		if !okSel {
			bad(g, "reader address length", "the address length must be 16 for family 0x02 and 4 for family 0x01")
		}
		// the destination IP has exactly that length on every success path: its last assignment is a
		// reslice to (or a make of) the selected length
		isSel := func(v ssa.Value) bool {
			cs := constSetOf(v, 0)
			return len(cs) == 2 && cs[4] && cs[16]
		}
		idx := errorResultIndex(g)
		rep := map[*ssa.Return]bool{}
		nSucc := 0
		q := &PathQuery{P: p, Fn: g}
		q.Step = func(in ssa.Instruction, deferred bool, st uint64, c *PathCtx) (uint64, bool) {
			s, ok := in.(*ssa.Store)
			if !ok {
				return st, false
			}
			if fa, isFA := s.Addr.(*ssa.FieldAddr); !isFA || fieldOfAddr(fa) != ipF {
				return st, false
			}
			switch x := s.Val.(type) {
			case *ssa.Slice:
				if x.Low == nil && x.High != nil && isSel(x.High) {
					return 1, false
				}
			case *ssa.MakeSlice:
				if isSel(x.Len) {
					return 1, false
				}
			}
			return 2, false
		}
		q.AtReturn = func(ret *ssa.Return, st uint64, c *PathCtx) {
			if idx < 0 || c.NilState(ret.Results[idx]) == -1 {
				return
			}
			nSucc++
			if bySplit {
				return // the case split has established the length of the last IP store per family on every success path
			}
			if st != 1 && !rep[ret] {
				rep[ret] = true
				rc.ViolationPath(g, instrPos(ret), tn+": destination IP length", "on this success path the destination IP is not resliced to (or made with) the length selected by the family: decoding an IPv4 address into a value that held an IPv6 address yields a 16-byte result (a different address)", c.Witness(g, ret))
			}
		}
		q.Run()
		rc.Instance(tn+"|reader destination length", true, map[string]int{"success_paths": nSucc})
	}
	if !okFam {
		bad(g, "reader family", "the family at bytes [0:2) must be compared with 0x0001 and 0x0002")
	}
	if !okPort {
		if xored {
			bad(g, "reader port", "the port must be the 16 bits at [2:4) XOR 0x2112")
		} else {
			bad(g, "reader port", "the port must be the 16 bits at [2:4)")
		}
	}
	if !okAddr {
		bad(g, "reader address", "the address must be read from byte 4 of the value to its end")
	}
	if xored {
		checkXorMask(r, rc, le, g, tn+" reader", mask, tidF)
	}
}

// checkXorMask: the mask buffer is cookie (big endian) at [0:4) followed by the transaction ID from byte 4.
func checkXorMask(r *Run, rc *RuleCtx, le *linEval, fn *ssa.Function, who string, mask ssa.Value, tidF *types.Var) {
	if mask == nil {
		rc.Violation(fn, fn.Pos(), who+" xor mask", "no XOR with a mask found")
		return
	}
	mroot, _, _ := le.window(mask)
	okCookie, okTID := false, false
	for _, s := range wireSites(le, fn) {
		if s.Root != mroot || s.Role != "dst" {
			continue
		}
		lo, hi, isC := s.constRange()
		if s.Kind == "PutUint32" && isC && lo == 0 && hi == 4 {
			if c, ok := constInt(s.Val); ok && c == stunCookie {
				okCookie = true
			}
		}
		if s.Kind == "copy" {
			if l, ok := s.Lo.isConst(); ok && l == 4 {
				src, slo, _ := le.window(s.Val)
				if fieldArrayOf(src) == tidF {
					if c, ok := slo.isConst(); ok && c == 0 {
						okTID = true
					}
				}
			}
		}
	}
	rc.Instance(who+"|mask", true, map[string]bool{"cookie_at_0": okCookie, "tid_at_4": okTID})
	if !okCookie {
		rc.Violation(fn, fn.Pos(), who+" xor mask cookie", "the first four mask bytes must be the magic cookie 0x2112A442 in network order")
	}
	if !okTID {
		rc.Violation(fn, fn.Pos(), who+" xor mask transaction ID", "mask bytes 4..15 must be the transaction ID (from its first byte)")
	}
}

func checkErrorCodeTable(r *Run, rc *RuleCtx, le *linEval, add *ssa.Function) {
	p := r.P
	n := p.Named("ErrorCodeAttribute")
	w, g := p.MethodOf(n, "AddTo"), p.MethodOf(n, "GetFrom")
	if w == nil || g == nil {
		rc.Fail("ErrorCodeAttribute.AddTo/GetFrom", "not found")
		return
	}
	r.Analysed(w, g)
	codeF, reasonF := FieldVar(n, "Code"), FieldVar(n, "Reason")
	okClass, okNum, okReason := false, false, false
	for _, s := range wireSites(le, w) {
		lo, hi, isC := s.constRange()
		if s.Kind == "store" && isC && hi-lo == 1 {
			v := stripConvs(s.Val)
			if b, ok := v.(*ssa.BinOp); ok {
				c, isK := constInt(b.Y)
				if isK && c == 100 && fieldLoadIs(b.X, codeF) {
					if lo == 2 && b.Op == token.QUO {
						okClass = true
					}
					if lo == 3 && b.Op == token.REM {
						okNum = true
					}
				}
			}
			rc.Instance(fmt.Sprintf("ERROR-CODE|writer byte %d", lo), true, map[string]string{"value": exprDepth(s.Val, 0)})
		}
		if s.Kind == "copy" && s.Role == "dst" {
			if l, ok := s.Lo.isConst(); ok && l == 4 && valueIsLoadOfField(s.Val, reasonF) {
				okReason = true
			}
		}
	}
	if !okClass {
		rc.Violation(w, w.Pos(), "ERROR-CODE writer class byte", "byte 2 must be the hundreds digit (code / 100)")
	}
	if !okNum {
		rc.Violation(w, w.Pos(), "ERROR-CODE writer number byte", "byte 3 must be code % 100")
	}
	// what is encoded is the attribute as given: the writer does not rewrite the fields of its (by-value) receiver
	eachInstr(w, func(b *ssa.BasicBlock, i int, in ssa.Instruction) {
		if st, ok := in.(*ssa.Store); ok {
			if fa, isFA := st.Addr.(*ssa.FieldAddr); isFA {
				if fv := fieldOfAddr(fa); fv != nil && (fv == codeF || fv == reasonF) {
					rc.Violation(w, instrPos(st), "ERROR-CODE writer rewrites "+fv.Name(), "the setter changes the "+fv.Name()+" it was given before encoding it: the attribute read back is not the one that was added (an empty reason must stay empty)")
				}
			}
		}
	})
	if !okReason {
		rc.Violation(w, w.Pos(), "ERROR-CODE writer reason", "the reason phrase must start at byte 4")
	}
	// reader: Code = load[2]*100 + load[3]; Reason = value[4:]
	var l2, l3 ssa.Value
	for _, s := range wireSites(le, g) {
		lo, hi, isC := s.constRange()
		if s.Kind == "load" && isC && hi-lo == 1 {
			if lo == 2 {
				l2 = s.Val
			}
			if lo == 3 {
				l3 = s.Val
			}
		}
	}
	okCode, okR := false, false
	for _, a := range fieldAccesses(g, codeF) {
		if a.Kind == "store" && l2 != nil && l3 != nil {
			e := le.Eval(a.Instr.(*ssa.Store).Val)
			want := linExpr{Terms: map[string]int64{}}
			a2, a3 := le.Eval(l2), le.Eval(l3)
			for k := range a2.Terms {
				want.Terms[k] += 100
			}
			for k := range a3.Terms {
				want.Terms[k] += 1
			}
			rc.Instance("ERROR-CODE|reader code", true, map[string]string{"code": e.String()})
			if e.equal(want) {
				okCode = true
			}
		}
	}
	for _, a := range fieldAccesses(g, reasonF) {
		if a.Kind == "store" {
			_, lo, hi := le.window(a.Instr.(*ssa.Store).Val)
			if c, ok := lo.isConst(); ok && c == 4 && hi == nil {
				okR = true
			}
		}
	}
	if !okCode {
		rc.Violation(g, g.Pos(), "ERROR-CODE reader code", "the code must be byte2 * 100 + byte3")
	}
	if !okR {
		rc.Violation(g, g.Pos(), "ERROR-CODE reader reason", "the reason must be the value from byte 4 to its end")
	}
}

func checkUnknownAttrs(r *Run, rc *RuleCtx, le *linEval, add *ssa.Function) {
	p := r.P
	n := p.Named("UnknownAttributes")
	w, g := p.MethodOf(n, "AddTo"), p.MethodOf(n, "GetFrom")
	if w == nil || g == nil {
		rc.Fail("UnknownAttributes.AddTo/GetFrom", "not found")
		return
	}
	r.Analysed(w, g)
	// writer: PutUint16 at [2*i, 2*i+2)
	okW := false
	for _, s := range wireSites(le, w) {
		if s.Kind != "PutUint16" || s.Hi == nil {
			continue
		}
		wdt, _ := s.Hi.add(s.Lo, -1).isConst()
		stride := int64(0)
		if len(s.Lo.Terms) == 1 && s.Lo.C%2 == 0 {
			for _, c := range s.Lo.Terms {
				stride = c
			}
		}
		rc.Instance("UNKNOWN-ATTRIBUTES|writer", true, map[string]int64{"entry_width": wdt, "stride": stride})
		if wdt == 2 && stride == 2 {
			okW = true
		}
	}
	// byte-wise form: v = append(v, byte(t>>8), byte(t)) in the loop over the list - with the buffer
	// starting empty (below) entry i lands at bytes [2i, 2i+2)
	eachInstr(w, func(b *ssa.BasicBlock, i int, in ssa.Instruction) {
		ap, ok := in.(*ssa.Call)
		if !ok || !isBuiltinCall(ap, "append") || len(ap.Call.Args) != 2 {
			return
		}
		lp := inLoop(loopsOf(w), b)
		ph, isPhi := ap.Call.Args[0].(*ssa.Phi)
		if lp == nil || !isPhi || ph.Block() != lp.Header {
			return
		}
		elems := appendedElems(ap)
		if len(elems) != 2 {
			return
		}
		hi, okH := elems[0].(*ssa.Convert)
		lo, okL := elems[1].(*ssa.Convert)
		if !okH || !okL {
			return
		}
		sh, isShift := hi.X.(*ssa.BinOp)
		if !isShift || sh.Op != token.SHR || sh.X != lo.X {
			return
		}
		if k, isC := constInt(sh.Y); !isC || k != 8 {
			return
		}
		if wd, signed, okT := intWidth(lo.X.Type()); !okT || signed || wd != 16 {
			return
		}
		rc.Instance("UNKNOWN-ATTRIBUTES|writer", true, map[string]int64{"entry_width": 2, "stride": 2})
		okW = true
	})
	if !okW {
		rc.Violation(w, w.Pos(), "UNKNOWN-ATTRIBUTES writer", "the value must be a packed list of 16-bit attribute types (entry i at bytes [2i, 2i+2))")
	}
	// the buffer the entries are appended to starts empty (entry i lands at byte 2i, nothing precedes or follows)
	eachInstr(w, func(b *ssa.BasicBlock, i int, in ssa.Instruction) {
		ap, ok := in.(*ssa.Call)
		if !ok || !isBuiltinCall(ap, "append") {
			return
		}
		lp := inLoop(loopsOf(w), b)
		ph, isPhi := ap.Call.Args[0].(*ssa.Phi)
		if lp == nil || !isPhi || ph.Block() != lp.Header {
			return
		}
		var initial func(v ssa.Value, depth int) bool
		initial = func(v ssa.Value, depth int) bool {
			if depth > 4 {
				return false
			}
			if p2, ok := v.(*ssa.Phi); ok {
				for _, e := range p2.Edges {
					if !initial(e, depth+1) {
						return false
					}
				}
				return len(p2.Edges) > 0
			}
			if zeroLenValue(v, 0) {
				return true
			}
			// local array scratch: arr[:0]
			return false
		}
		for k, e := range ph.Edges {
			if lp.Body[ph.Block().Preds[k]] {
				continue // loop-carried
			}
			rc.Instance("UNKNOWN-ATTRIBUTES|writer buffer starts empty", true, map[string]string{"initial": exprDepth(e, 0)})
			if !initial(e, 0) {
				rc.Violation(w, instrPos(ap), "UNKNOWN-ATTRIBUTES writer buffer "+exprDepth(e, 0), "the buffer the 16-bit entries are appended to does not start empty: the value carries bytes that are not entries (a list of n types must encode to exactly 2n bytes)")
			}
		}
	})
	// exactly one entry per list element: nothing is appended to the value outside the loop over the list
	{
		loops := loopsOf(w)
		eachInstr(w, func(b *ssa.BasicBlock, i int, in ssa.Instruction) {
			ap, ok := in.(*ssa.Call)
			if !ok || !isBuiltinCall(ap, "append") {
				return
			}
			if sl, isSl := ap.Type().Underlying().(*types.Slice); !isSl || !types.Identical(sl.Elem(), types.Typ[types.Byte]) {
				return
			}
			rc.Instance("UNKNOWN-ATTRIBUTES|writer append", true, nil)
			if inLoop(loops, b) == nil && !zeroLenValue(ap.Call.Args[0], 0) {
				rc.Violation(w, instrPos(ap), "UNKNOWN-ATTRIBUTES value extended outside the loop", "bytes are appended to the value that are not the entry of a list element: a list of n types must encode to exactly 2n bytes (RFC 5389 15.9), an independent decoder reads every extra pair as one more type")
			}
		})
		// the decoded list is what the loop appended: after the loop it is not cut or extended
		gl := loopsOf(g)
		if len(g.Params) > 0 {
			recv := g.Params[0]
			eachInstr(g, func(b *ssa.BasicBlock, i int, in ssa.Instruction) {
				st, ok := in.(*ssa.Store)
				if !ok || st.Addr != ssa.Value(recv) {
					return
				}
				rc.Instance("UNKNOWN-ATTRIBUTES|reader store", true, nil)
				if inLoop(gl, b) != nil {
					return
				}
				// outside the loop: only the reset to length 0 that precedes it
				if zeroLenValue(st.Val, 0) {
					return
				}
				// or the list as the loop built it in a local: the loop's own accumulator (empty on entry, extended
				// only by the loop's appends)
				if ph, isPhi := st.Val.(*ssa.Phi); isPhi {
					for _, lp := range gl {
						if ph.Block() != lp.Header {
							continue
						}
						okAcc := len(ph.Edges) > 0
						for k, e := range ph.Edges {
							if lp.Body[ph.Block().Preds[k]] {
								ap, isAp := e.(*ssa.Call)
								if !isAp || !isBuiltinCall(ap, "append") || ap.Call.Args[0] != ssa.Value(ph) {
									okAcc = false
								}
							} else if !zeroLenValue(e, 0) {
								okAcc = false
							}
						}
						if okAcc {
							return
						}
					}
				}
				rc.Violation(g, instrPos(st), "UNKNOWN-ATTRIBUTES list changed outside the loop", "the decoded list is cut or extended after the entries were read: a list produced by an independent encoder does not read back entry for entry")
			})
		}
	}
	// reader: Uint16 at v[first:first+2], first advancing by 2, and the length guard modulo 2
	okR, okStep, okMod := false, false, false
	readerSites := wireSites(le, g)
	for _, s := range readerSites {
		if s.Kind != "Uint16" || s.Hi == nil {
			continue
		}
		wdt, _ := s.Hi.add(s.Lo, -1).isConst()
		rc.Instance("UNKNOWN-ATTRIBUTES|reader", true, map[string]int64{"entry_width": wdt})
		if wdt == 2 {
			okR = true
		}
	}
	eachInstr(g, func(b *ssa.BasicBlock, i int, in ssa.Instruction) {
		if ph, ok := in.(*ssa.Phi); ok && isIntType(ph.Type()) {
			for _, e := range ph.Edges {
				d := le.Eval(e).add(le.Eval(ph), -1)
				if c, ok := d.isConst(); ok && c == 2 {
					okStep = true
				}
			}
		}
		// the consuming form: the window itself advances, rest = rest[2:]
		if ph, ok := in.(*ssa.Phi); ok {
			if _, isSl := ph.Type().Underlying().(*types.Slice); isSl {
				for _, e := range ph.Edges {
					if sl, isS := e.(*ssa.Slice); isS && sl.X == ssa.Value(ph) && sl.High == nil && sl.Low != nil {
						if c, isC := constInt(sl.Low); isC && c == 2 {
							okStep = true
						}
					}
				}
			}
		}
		if bo, ok := in.(*ssa.BinOp); ok && bo.Op == token.REM {
			if c, ok := constInt(bo.Y); ok && c == 2 {
				okMod = true
			}
		}
	})
	if !okR || !okStep {
		rc.Violation(g, g.Pos(), "UNKNOWN-ATTRIBUTES reader", "entries must be read as consecutive 16-bit values (stride 2)")
	}
	// each entry is stored as read: a conversion of the 16-bit value, nothing else (no alias translation:
	// that belongs to attribute headers, not to list entries)
	eachInstr(g, func(b *ssa.BasicBlock, i int, in ssa.Instruction) {
		ap, ok := in.(*ssa.Call)
		if !ok || !isBuiltinCall(ap, "append") || len(ap.Call.Args) != 2 {
			return
		}
		// append(list, elem): the variadic argument is a one-element slice literal
		var elems []ssa.Value
		if sl, isSl := ap.Call.Args[1].(*ssa.Slice); isSl {
			if al, isAl := sl.X.(*ssa.Alloc); isAl {
				for _, u := range *al.Referrers() {
					if ia, isIA := u.(*ssa.IndexAddr); isIA {
						for _, u2 := range *ia.Referrers() {
							if st, isSt := u2.(*ssa.Store); isSt && st.Addr == ssa.Value(ia) {
								elems = append(elems, st.Val)
							}
						}
					}
				}
			}
		}
		for _, e := range elems {
			raw := false
			if c, isC := stripConvs(e).(*ssa.Call); isC {
				if name, w, _, okA := accessorCall(c); okA && w == 2 && strings.HasPrefix(name, "Uint") {
					raw = true
				}
			}
			// the hand-written big-endian read uint16(b[i])<<8 | uint16(b[i+1]) (LAYOUT reports it as a Uint16 site)
			for _, ws := range readerSites {
				if ws.Kind == "Uint16" && ws.Val != nil && ws.Val == stripConvs(e) {
					raw = true
				}
			}
			rc.Instance("UNKNOWN-ATTRIBUTES|reader entry", true, map[string]string{"entry": exprDepth(e, 0)})
			if !raw {
				rc.Violation(g, instrPos(ap), "UNKNOWN-ATTRIBUTES entry "+exprDepth(e, 0), "a list entry is not the 16-bit value as read: some attribute type does not read back as it was written")
			}
		}
	})
	if !okMod {
		rc.Violation(g, g.Pos(), "UNKNOWN-ATTRIBUTES reader length test", "a value whose length is not a multiple of 2 must be rejected, every even length accepted")
	}
}

func checkTextAttrs(r *Run, rc *RuleCtx, add, getM *ssa.Function) {
	p := r.P
	n := p.Named("TextAttribute")
	w, g := p.MethodOf(n, "AddToAs"), p.MethodOf(n, "GetFromAs")
	if w == nil || g == nil {
		rc.Fail("TextAttribute.AddToAs/GetFromAs", "not found")
		return
	}
	r.Analysed(w, g)
	okW, okG := false, false
	eachInstr(w, func(b *ssa.BasicBlock, i int, in ssa.Instruction) {
		if c, ok := in.(*ssa.Call); ok && callsFn(c, add) && stripConvs(c.Call.Args[2]) == ssa.Value(w.Params[0]) {
			okW = true
		}
	})
	eachInstr(g, func(b *ssa.BasicBlock, i int, in ssa.Instruction) {
		if st, ok := in.(*ssa.Store); ok && st.Addr == ssa.Value(g.Params[0]) {
			if e, ok := stripConvs(st.Val).(*ssa.Extract); ok && e.Index == 0 {
				if c, ok := e.Tuple.(*ssa.Call); ok && callsFn(c, getM) {
					okG = true
				}
			}
		}
	})
	rc.Instance("text|writer", true, nil)
	rc.Instance("text|reader", true, nil)
	if !okW {
		rc.Violation(w, w.Pos(), "text writer", "text attributes must be written as their bytes, untransformed")
	}
	if !okG {
		rc.Violation(g, g.Pos(), "text reader", "text attributes must be returned as the attribute's bytes, untransformed")
	}
}

// checkAccept: the length guards of the getters do not exclude RFC-valid lengths.
func checkAccept(r *Run, rc *RuleCtx, getM *ssa.Function) {
	p := r.P
	valid := map[string][]int64{
		"ErrorCodeAttribute": {4, 5, 20, 767},
		"MappedAddress":      {8, 20},
		"XORMappedAddress":   {8, 20},
		"UnknownAttributes":  {0, 2, 4, 6, 128},
	}
	var names []string
	for k := range valid {
		names = append(names, k)
	}
	sort.Strings(names)
	for _, tn := range names {
		n := p.Named(tn)
		fn := p.MethodOf(n, "GetFromAs")
		if fn == nil {
			fn = p.MethodOf(n, "GetFrom")
		}
		if fn == nil {
			rc.Fail(tn+" getter", "not found")
			continue
		}
		r.Analysed(fn)
		var gc *ssa.Call
		eachInstr(fn, func(b *ssa.BasicBlock, i int, in ssa.Instruction) {
			if c, ok := in.(*ssa.Call); ok && callsFn(c, getM) {
				gc = c
			}
		})
		if gc == nil {
			continue
		}
		idx := errorResultIndex(fn)
		// reject guards on len(value): If whose one edge is dominated only by error returns
		n2 := 0
		for _, b := range fn.Blocks {
			iff, ok := b.Instrs[len(b.Instrs)-1].(*ssa.If)
			if !ok {
				continue
			}
			bo, ok := iff.Cond.(*ssa.BinOp)
			if !ok {
				continue
			}
			// operand is len(value) or len(value)%k
			lenSide := func(v ssa.Value) (mod int64, ok bool) {
				if rem, isRem := v.(*ssa.BinOp); isRem && rem.Op == token.REM {
					if k, isK := constInt(rem.Y); isK {
						if c, isC := rem.X.(*ssa.Call); isC && isBuiltinCall(c, "len") {
							if e, isE := c.Call.Args[0].(*ssa.Extract); isE && e.Tuple == ssa.Value(gc) {
								return k, true
							}
						}
					}
				}
				if c, isC := v.(*ssa.Call); isC && isBuiltinCall(c, "len") {
					if e, isE := c.Call.Args[0].(*ssa.Extract); isE && e.Tuple == ssa.Value(gc) {
						return 0, true
					}
				}
				return 0, false
			}
			mod, okL := lenSide(bo.X)
			k, okK := constInt(bo.Y)
			if !okL || !okK {
				continue
			}
			rejectsOn := func(succ *ssa.BasicBlock) bool {
				if len(succ.Preds) != 1 {
					return false
				}
				nr := 0
				for _, x := range fn.Blocks {
					if !blockDominates(succ, x) {
						continue
					}
					for _, s := range x.Succs {
						if !blockDominates(succ, s) {
							return false
						}
					}
					if ret, ok := x.Instrs[len(x.Instrs)-1].(*ssa.Return); ok {
						c := &PathCtx{K: newKeyer(), assign: map[string]bool{}, phiSel: map[*ssa.Phi]ssa.Value{}, P: p}
						if c.NilState(ret.Results[idx]) != -1 {
							return false
						}
						nr++
					}
				}
				return nr > 0
			}
			var rejectWhenTrue bool
			switch {
			case rejectsOn(b.Succs[0]):
				rejectWhenTrue = true
			case rejectsOn(b.Succs[1]):
				rejectWhenTrue = false
			default:
				continue
			}
			n2++
			eval := func(l int64) bool {
				x := l
				if mod > 0 {
					x = l % mod
				}
				var res bool
				switch bo.Op {
				case token.LSS:
					res = x < k
				case token.LEQ:
					res = x <= k
				case token.GTR:
					res = x > k
				case token.GEQ:
					res = x >= k
				case token.EQL:
					res = x == k
				case token.NEQ:
					res = x != k
				}
				return res == rejectWhenTrue
			}
			for _, l := range valid[tn] {
				if eval(l) {
					rc.Violation(fn, instrPos(iff), fmt.Sprintf("%s rejects a %d-byte value", tn, l), fmt.Sprintf("RFC 5389 allows a %d-byte value for this attribute (guard: %s)", l, exprDepth(iff.Cond, 0)))
				}
			}
		}
		rc.Instance(tn, true, map[string]interface{}{"getter": fnName(fn), "length_guards": n2, "rfc_valid_lengths": valid[tn]})
	}
}

// checkV4Mapped: union of the bytes of the address the IPv4-mapped predicate inspects covers [0,12).
func checkV4Mapped(r *Run, rc *RuleCtx, le *linEval) {
	p := r.P
	// the predicate: the module function taking a net.IP called by both address setters
	var pred *ssa.Function
	for _, tn := range []string{"XORMappedAddress", "MappedAddress"} {
		fn := p.MethodOf(p.Named(tn), "AddToAs")
		if fn == nil {
			continue
		}
		eachInstr(fn, func(b *ssa.BasicBlock, i int, in ssa.Instruction) {
			if c, ok := in.(*ssa.Call); ok {
				if sc := c.Call.StaticCallee(); sc != nil && p.isLibFn(sc) && len(sc.Params) == 1 && sc.Signature.Results().Len() == 1 && isBoolType(sc.Signature.Results().At(0).Type()) {
					pred = sc
				}
			}
		})
	}
	if pred == nil {
		rc.Fail("IPv4-mapped predicate", "not found")
		return
	}
	r.Analysed(pred)
	covered := map[int64]string{}
	ip := pred.Params[0]
	var scan func(fn *ssa.Function, root ssa.Value, base int64, limit int64, depth int)
	scan = func(fn *ssa.Function, root ssa.Value, base int64, limit int64, depth int) {
		if depth > 2 {
			return
		}
		for _, s := range wireSites(le, fn) {
			if s.Root != root || s.Role != "src" {
				continue
			}
			lo, hi, isC := s.constRange()
			if isC {
				for i := lo; i < hi; i++ {
					covered[base+i] = s.Kind
				}
			}
		}
		// range loops over the whole slice with element loads
		eachInstr(fn, func(b *ssa.BasicBlock, i int, in ssa.Instruction) {
			if ia, ok := in.(*ssa.IndexAddr); ok && ia.X == root {
				if lp := inLoop(loopsOf(fn), b); lp != nil {
					if fullRangeLoopAllowingReturnExit(lp, root, ia, fn) || countingLoopOver(lp, root, ia) {
						for i := int64(0); i < limit; i++ {
							covered[base+i] = "loop"
						}
					}
				}
			}
			// a full loop over a constant-range sub-slice held in a local (prefix := ip[0:10])
			if ia, ok := in.(*ssa.IndexAddr); ok && ia.X != root {
				if sub, isSl := ia.X.(*ssa.Slice); isSl {
					if rt, lo, hi := le.window(sub); rt == root && hi != nil {
						l, ok1 := lo.isConst()
						h, ok2 := hi.isConst()
						if lp := inLoop(loopsOf(fn), b); ok1 && ok2 && lp != nil {
							if fullRangeLoopAllowingReturnExit(lp, sub, ia, fn) || countingLoopOver(lp, sub, ia) {
								for i := l; i < h; i++ {
									covered[base+i] = "loop"
								}
							}
						}
					}
				}
			}
			// callee receiving a constant-range sub-slice
			if c, ok := in.(*ssa.Call); ok {
				if sc := c.Call.StaticCallee(); sc != nil && p.isLibFn(sc) {
					for ai, a := range c.Call.Args {
						rt, lo, hi := le.window(a)
						if rt != root || hi == nil {
							continue
						}
						l, ok1 := lo.isConst()
						h, ok2 := hi.isConst()
						if ok1 && ok2 && ai < len(sc.Params) {
							scan(sc, sc.Params[ai], base+l, h-l, depth+1)
						}
					}
				}
			}
		})
	}
	scan(pred, ip, 0, 16, 0)
	var missing []int64
	for i := int64(0); i < 12; i++ {
		if _, ok := covered[i]; !ok {
			missing = append(missing, i)
		}
	}
	rc.Instance(fnName(pred), true, map[string]interface{}{"predicate": fnName(pred), "bytes_inspected": len(covered)})
	if len(missing) > 0 {
		rc.Violation(pred, pred.Pos(), fmt.Sprintf("bytes %v not inspected", missing), "an IPv6 address that differs from the ::ffff:a.b.c.d pattern only in these bytes is encoded as IPv4 (family 0x01, 4 address bytes): the wire bytes are not the RFC encoding and the address read back is a different one")
	}
	checkV4MappedValues(r, rc, pred)
}

// checkV4MappedValues: where the predicate has the shape "zero test of a prefix && ip[10] == 0xff && ip[11] == 0xff"
// (single-byte comparisons with constants, a callee with a loop over its slice), the comparisons are the
// right ones: on a path that answers true bytes 10 and 11 were found equal to 0xff and the zero test said yes;
// the zero test compares with 0, answers false on the byte that differs and true after the loop. Other shapes
// (a table compared with bytes.Equal, ...) are left to the coverage clause above.
func checkV4MappedValues(r *Run, rc *RuleCtx, pred *ssa.Function) {
	p := r.P
	type byteTest struct {
		bo  *ssa.BinOp
		idx int64 // -1: not a constant index
		c   int64
	}
	testsOf := func(fn *ssa.Function, root ssa.Value) []byteTest {
		var out []byteTest
		eachInstr(fn, func(_ *ssa.BasicBlock, _ int, in ssa.Instruction) {
			bo, ok := in.(*ssa.BinOp)
			if !ok || (bo.Op != token.EQL && bo.Op != token.NEQ) {
				return
			}
			cv, isC := constInt(bo.Y)
			ld, isLd := stripConvs(bo.X).(*ssa.UnOp)
			if !isC || !isLd || ld.Op != token.MUL {
				return
			}
			ia, isIA := ld.X.(*ssa.IndexAddr)
			if !isIA || ia.X != root {
				return
			}
			k := int64(-1)
			if kc, isK := constInt(ia.Index); isK {
				k = kc
			}
			out = append(out, byteTest{bo, k, cv})
		})
		return out
	}
	// outcome of a byte test on the path: +1 the byte equals the constant, -1 it differs, 0 unknown
	outcome := func(c *PathCtx, bt byteTest) int {
		for _, pc := range c.PathConds() {
			cond, val := pc.Cond, pc.Val
			for {
				u, isU := cond.(*ssa.UnOp)
				if !isU || u.Op != token.NOT {
					break
				}
				cond, val = u.X, !val
			}
			if cond == ssa.Value(bt.bo) {
				if (bt.bo.Op == token.EQL) == val {
					return +1
				}
				return -1
			}
		}
		return 0
	}
	boolConst := func(v ssa.Value) (bool, bool) {
		cv, ok := v.(*ssa.Const)
		if !ok || cv.Value == nil || !isBoolType(cv.Type()) {
			return false, false
		}
		return cv.Value.String() == "true", true
	}
	ip := pred.Params[0]
	tests := testsOf(pred, ip)
	have := map[int64]bool{}
	for _, t := range tests {
		have[t.idx] = true
	}
	if have[10] && have[11] {
		// the zero-test callees of the predicate
		var zeroCalls []*ssa.Call
		eachInstr(pred, func(_ *ssa.BasicBlock, _ int, in ssa.Instruction) {
			if c, ok := in.(*ssa.Call); ok {
				if sc := c.Call.StaticCallee(); sc != nil && p.isLibFn(sc) && len(sc.Params) == 1 && sc.Signature.Results().Len() == 1 && isBoolType(sc.Signature.Results().At(0).Type()) {
					zeroCalls = append(zeroCalls, c)
				}
			}
		})
		rep := false
		q := &PathQuery{P: p, Fn: pred}
		q.AtReturn = func(ret *ssa.Return, _ uint64, c *PathCtx) {
			rv := c.Resolve(ret.Results[0])
			b, isB := boolConst(rv)
			// the last conjunct is returned as it is: the answer is true exactly when that comparison holds
			var last *ssa.BinOp
			if !isB {
				neg := false
				for {
					u, isU := rv.(*ssa.UnOp)
					if !isU || u.Op != token.NOT {
						break
					}
					rv, neg = u.X, !neg
				}
				for _, t := range tests {
					if rv == ssa.Value(t.bo) {
						last = t.bo
						if (t.idx == 10 || t.idx == 11) && (t.c != 0xff || (t.bo.Op == token.EQL) == neg) && !rep {
							rep = true
							rc.ViolationPath(pred, instrPos(t.bo), fmt.Sprintf("IPv4-mapped test of byte %d", t.idx), fmt.Sprintf("the predicate's answer is the outcome of a comparison that does not say \"byte %d equals 0xff\": an IPv6 address outside ::ffff:0:0/96 is encoded as the IPv4 address in its last four bytes, and reads back as another address", t.idx), c.Witness(pred, ret))
							return
						}
						b, isB = true, true
					}
				}
			}
			if !isB || !b || rep {
				return
			}
			for _, t := range tests {
				if t.bo == last {
					continue
				}
				if (t.idx == 10 || t.idx == 11) && (t.c != 0xff || outcome(c, t) != +1) {
					rep = true
					rc.ViolationPath(pred, instrPos(t.bo), fmt.Sprintf("IPv4-mapped test of byte %d", t.idx), fmt.Sprintf("the predicate answers true on a path on which byte %d was not found equal to 0xff: an IPv6 address outside ::ffff:0:0/96 is encoded as the IPv4 address in its last four bytes, and reads back as another address", t.idx), c.Witness(pred, ret))
					return
				}
			}
			for _, zc := range zeroCalls {
				known := 0
				for _, pc := range c.PathConds() {
					cond, val := pc.Cond, pc.Val
					for {
						u, isU := cond.(*ssa.UnOp)
						if !isU || u.Op != token.NOT {
							break
						}
						cond, val = u.X, !val
					}
					if cond == ssa.Value(zc) {
						known = map[bool]int{true: +1, false: -1}[val]
					}
				}
				if known == -1 {
					rep = true
					rc.ViolationPath(pred, instrPos(zc), "IPv4-mapped test of the zero prefix", "the predicate answers true on a path on which the zero test of the prefix said no", c.Witness(pred, ret))
					return
				}
			}
		}
		q.Run()
		rc.Instance(fnName(pred)+"|byte values", true, map[string]interface{}{"byte_tests": len(tests), "zero_test_calls": len(zeroCalls)})
		for _, zc := range zeroCalls {
			zf := zc.Call.StaticCallee()
			if zf.Blocks == nil || len(loopsOf(zf)) == 0 {
				continue
			}
			r.Analysed(zf)
			zt := testsOf(zf, zf.Params[0])
			if len(zt) == 0 {
				continue
			}
			repZ, sawNo := false, false
			zq := &PathQuery{P: p, Fn: zf}
			zq.AtReturn = func(ret *ssa.Return, _ uint64, c *PathCtx) {
				b, isB := boolConst(c.Resolve(ret.Results[0]))
				if !isB || repZ {
					return
				}
				differs := false
				for _, t := range zt {
					if t.c != 0 {
						repZ = true
						rc.Violation(zf, instrPos(t.bo), "zero test compares with another constant", "the prefix of an IPv4-mapped address is ten zero bytes")
						return
					}
					if outcome(c, t) == -1 {
						differs = true
					}
				}
				if differs && !b {
					sawNo = true
				}
				if differs == b {
					repZ = true
					rc.ViolationPath(zf, instrPos(ret), "zero test answers the wrong way round", map[bool]string{true: "the function answers true on the path on which a byte was found different from 0", false: "the function answers false although no byte was found different from 0"}[b]+": the IPv4-mapped predicate takes other addresses for IPv4-mapped ones (or none)", c.Witness(zf, ret))
				}
			}
			zq.Run()
			if !sawNo && !repZ {
				rc.Violation(zf, zf.Pos(), "zero test never answers false", "no path of the function returns false for a byte found different from 0: every prefix passes, and any address with 0xff 0xff in bytes 10 and 11 is encoded as IPv4")
			}
			rc.Instance(fnName(zf)+"|zero test", true, nil)
		}
	}
}

// countingLoopOver: `for i := 0; i < len(s); i++ { ... s[i] ... }`
func countingLoopOver(lp *Loop, root ssa.Value, ia *ssa.IndexAddr) bool {
	ph, ok := ia.Index.(*ssa.Phi)
	if !ok || ph.Block() != lp.Header {
		return false
	}
	init0, step1 := false, false
	for _, e := range ph.Edges {
		if c, ok := constInt(e); ok && c == 0 {
			init0 = true
		} else if b, ok := e.(*ssa.BinOp); ok && b.Op == token.ADD && b.X == ssa.Value(ph) {
			if c, ok := constInt(b.Y); ok && c == 1 {
				step1 = true
			}
		}
	}
	if !init0 || !step1 {
		return false
	}
	iff, ok := lp.Header.Instrs[len(lp.Header.Instrs)-1].(*ssa.If)
	if !ok {
		return false
	}
	cmp, ok := iff.Cond.(*ssa.BinOp)
	if !ok || cmp.Op != token.LSS || cmp.X != ssa.Value(ph) {
		return false
	}
	ln, ok := cmp.Y.(*ssa.Call)
	return ok && isBuiltinCall(ln, "len") && ln.Call.Args[0] == root
}

// appendedElems: the element values of append(s, e0, e1, ...) in element order (nil when the variadic
// argument is not a literal element list).
func appendedElems(ap *ssa.Call) []ssa.Value {
	sl, isSl := ap.Call.Args[1].(*ssa.Slice)
	if !isSl || sl.Low != nil || sl.High != nil {
		return nil
	}
	al, isAl := sl.X.(*ssa.Alloc)
	if !isAl {
		return nil
	}
	at, isArr := al.Type().(*types.Pointer).Elem().Underlying().(*types.Array)
	if !isArr {
		return nil
	}
	out := make([]ssa.Value, at.Len())
	for _, u := range *al.Referrers() {
		switch x := u.(type) {
		case *ssa.IndexAddr:
			k, isC := constInt(x.Index)
			if !isC || k < 0 || k >= at.Len() {
				return nil
			}
			for _, u2 := range *x.Referrers() {
				st, isSt := u2.(*ssa.Store)
				if !isSt || st.Addr != ssa.Value(x) || out[k] != nil {
					return nil
				}
				out[k] = st.Val
			}
		case *ssa.Slice, *ssa.DebugRef:
		default:
			return nil
		}
	}
	for _, v := range out {
		if v == nil {
			return nil
		}
	}
	return out
}

// rejectGuards: the branch conditions of fn one of whose outcomes leads only to error returns while the
// other can still succeed, each with the polarity under which the function rejects.
type rejectGuard struct {
	If   *ssa.If
	Cond ssa.Value
	When bool // rejects when Cond == When
}

func rejectGuardsOf(p *Prog, fn *ssa.Function) []rejectGuard {
	var out []rejectGuard
	for _, b := range fn.Blocks {
		iff, ok := b.Instrs[len(b.Instrs)-1].(*ssa.If)
		if !ok || fullyThreaded(b) {
			continue
		}
		r0, r1 := edgeRejects(p, fn, iff, true), edgeRejects(p, fn, iff, false)
		if r0 == r1 {
			continue
		}
		out = append(out, rejectGuard{iff, iff.Cond, r0})
	}
	return out
}

// setterRejectClass classifies a reject guard of a typed setter:
//
//	"len(IP) <op> <k>"     a comparison of the length of (a slice derived from) the IP field with a constant
//	"overflow"             the error result of CheckOverflow / CheckSize (a length limit)
//	"error of <callee>"    an error propagated from another library function
//	"other: <text>"        anything else
func setterRejectClass(p *Prog, g rejectGuard) string {
	cond, when := g.Cond, g.When
	for {
		if u, ok := cond.(*ssa.UnOp); ok && u.Op == token.NOT {
			when = !when
			cond = u.X
			continue
		}
		break
	}
	// a flag: a boolean merged from false and one or more conditions (a scan loop that records a hit and is
	// tested behind the loop) rejects when one of those conditions held
	if ph, isPhi := cond.(*ssa.Phi); isPhi && when {
		cls := ""
		okAll := len(ph.Edges) > 0
		for _, e := range ph.Edges {
			if c, isC := e.(*ssa.Const); isC && c.Value != nil && c.Value.String() == "false" {
				continue
			}
			if e == ssa.Value(ph) {
				continue
			}
			c2 := setterRejectClass(p, rejectGuard{g.If, e, true})
			if cls != "" && c2 != cls {
				okAll = false
			}
			cls = c2
		}
		if okAll && cls != "" {
			return cls
		}
	}
	// membership in a package-level table (reason, ok := errorReasons[code]; !ok)
	if e, isE := cond.(*ssa.Extract); isE && e.Index == 1 {
		if lk, isL := e.Tuple.(*ssa.Lookup); isL && lk.CommaOk {
			if ld, isLd := lk.X.(*ssa.UnOp); isLd && ld.Op == token.MUL {
				if gl, isG := ld.X.(*ssa.Global); isG {
					if when {
						return "in " + gl.Name()
					}
					return "not in " + gl.Name()
				}
			}
		}
	}
	b, ok := cond.(*ssa.BinOp)
	if !ok {
		return "other: " + exprCanon(cond)
	}
	b = mirrored(b)
	op := b.Op
	// an attribute of a given type is present in the message (a.Type == AttrFingerprint while scanning)
	if k, isK := constInt(b.Y); isK && (b.Op == token.EQL || b.Op == token.NEQ) {
		if _, f := loadedField(stripConvs(b.X)); f != nil && f.Name() == "Type" {
			if n := p.Named("RawAttribute"); n != nil && FieldVar(n, "Type") == f {
				if (b.Op == token.EQL) == when {
					return fmt.Sprintf("message has attribute %#04x", k)
				}
				return fmt.Sprintf("message has an attribute other than %#04x", k)
			}
		}
		if fl, isF := stripConvs(b.X).(*ssa.Field); isF {
			if n := p.Named("RawAttribute"); n != nil {
				if st, isS := fl.X.Type().Underlying().(*types.Struct); isS && st.Field(fl.Field) == FieldVar(n, "Type") {
					if (b.Op == token.EQL) == when {
						return fmt.Sprintf("message has attribute %#04x", k)
					}
					return fmt.Sprintf("message has an attribute other than %#04x", k)
				}
			}
		}
	}
	if !when {
		inv := map[token.Token]token.Token{token.LSS: token.GEQ, token.LEQ: token.GTR, token.GTR: token.LEQ, token.GEQ: token.LSS, token.EQL: token.NEQ, token.NEQ: token.EQL}
		if o, have := inv[op]; have {
			op = o
		} else {
			return "other: !(" + exprCanon(cond) + ")"
		}
	}
	// nil test of an error
	if isNilConst(b.Y) || isNilConst(b.X) {
		x := b.X
		if isNilConst(b.X) {
			x = b.Y
		}
		x = canonPhi(deref(x))
		if lk, isL := x.(*ssa.Lookup); isL && !lk.CommaOk {
			if ld, isLd := lk.X.(*ssa.UnOp); isLd && ld.Op == token.MUL {
				if gl, isG := ld.X.(*ssa.Global); isG {
					if op == token.EQL {
						return "not in " + gl.Name()
					}
					return "in " + gl.Name()
				}
			}
		}
		var call *ssa.Call
		switch y := x.(type) {
		case *ssa.Call:
			call = y
		case *ssa.Extract:
			call, _ = y.Tuple.(*ssa.Call)
		}
		if call != nil && op == token.NEQ {
			if sc := call.Call.StaticCallee(); sc != nil && p.isLibFn(sc) {
				if sc.Name() == "CheckOverflow" || sc.Name() == "CheckSize" {
					return "overflow"
				}
				return "error of " + fnName(sc)
			}
		}
		return "other: " + exprCanon(cond)
	}
	// len(IP-derived) against a constant
	if k, isK := constInt(b.Y); isK {
		if lc, isL := b.X.(*ssa.Call); isL && isBuiltinCall(lc, "len") {
			var ipF *types.Var
			for _, tn := range []string{"MappedAddress", "XORMappedAddress"} {
				if n := p.Named(tn); n != nil {
					if f := FieldVar(n, "IP"); f != nil && ipDerived(lc.Call.Args[0], f, 0) {
						ipF = f
					}
				}
			}
			if ipF != nil {
				return fmt.Sprintf("len(IP) %s %d", op, k)
			}
		}
	}
	return "other: " + exprCanon(cond)
}

// setterRejectReference: the reject conditions of the typed setters on the reviewed tree.  A setter
// not listed must not reject at all.
var setterRejectReference = map[string][]string{
	"(*MappedAddress).AddToAs":   {"len(IP) != 4"},
	"(XORMappedAddress).AddToAs": {"len(IP) != 4"},
	"(ErrorCode).AddTo":          {"not in errorReasons", "overflow"}, // the overflow of the ERROR-CODE setter it delegates to (or carries itself)
	"(ErrorCodeAttribute).AddTo": {"overflow"},
	"(TextAttribute).AddToAs":    {"overflow"},
	"(MessageIntegrity).AddTo":   {"message has attribute 0x8028"},
}

func checkSetterAccept(r *Run, rc *RuleCtx, cl *closures) {
	p := r.P
	for _, fn := range cl.Setters {
		if fn.Blocks == nil || errorResultIndex(fn) < 0 {
			continue
		}
		r.Analysed(fn)
		var got []string
		gs := rejectGuardsOf(p, fn)
		for _, g := range gs {
			got = append(got, setterRejectClass(p, g))
		}
		sort.Strings(got)
		ref, listed := setterRejectReference[fnName(fn)]
		rc.Instance(fnName(fn)+"|rejects", true, map[string]interface{}{"setter": fnName(fn), "rejects_when": got, "reference": ref})
		allowed := map[string]bool{}
		for _, x := range ref {
			allowed[x] = true
		}
		if !listed {
			// a typed setter that carries the length check itself instead of delegating it: which limit it enforces
			// for which attribute type is decided by C06.limits / C09.limits
			allowed["overflow"] = true
		}
		for i, g := range gs {
			cls := setterRejectClass(p, g)
			_ = i
			if !allowed[cls] {
				rc.Violation(fn, instrPos(g.If), "setter rejects when "+cls, fmt.Sprintf("the reviewed setter rejects only on %v: a value that is valid for the attribute (and that the reference encodes) is refused, or refused differently", ref))
			}
		}
	}
}

// edgeRejects: every path that leaves the branch iff with the given outcome ends in a return whose
// error result is known non-nil (explored from the branch itself, so the successor may be shared).
func edgeRejects(p *Prog, fn *ssa.Function, iff *ssa.If, outcome bool) bool {
	idx := errorResultIndex(fn)
	if idx < 0 {
		return false
	}
	n, bad := 0, false
	kk := newKeyer()
	key, pol := kk.condKey(iff.Cond)
	// the outcome is seeded as a known condition (not folded), so that what it says about the values it
	// tests - an error known non-nil, a flag known set - is available at the returns
	q := &PathQuery{P: p, Fn: fn, K: kk, From: iff, MaxStates: 6000, InitAssign: map[string]bool{key: outcome == pol}}
	q.AtReturn = func(ret *ssa.Return, st uint64, c *PathCtx) {
		n++
		if c.NilState(ret.Results[idx]) != -1 {
			bad = true
		}
	}
	q.Step = func(in ssa.Instruction, deferred bool, st uint64, c *PathCtx) (uint64, bool) {
		return st, bad
	}
	q.Run()
	return n > 0 && !bad && !q.Exhausted
}

// getterRejectClass classifies a reject guard of a typed getter: what it looks at is the shape of the
// value (its length, the family code, the size helpers, the lookup itself), never the bytes that carry
// the value proper.
// mirrored: a comparison with its constant on the left, rewritten with the constant on the right.
func mirrored(b *ssa.BinOp) *ssa.BinOp {
	if _, isK := constInt(b.X); !isK {
		return b
	}
	if _, isK2 := constInt(b.Y); isK2 {
		return b
	}
	op := b.Op
	switch op {
	case token.LSS:
		op = token.GTR
	case token.LEQ:
		op = token.GEQ
	case token.GTR:
		op = token.LSS
	case token.GEQ:
		op = token.LEQ
	case token.EQL, token.NEQ:
	default:
		return b
	}
	return &ssa.BinOp{Op: op, X: b.Y, Y: b.X}
}

// strictForm: x <= k as x < k+1 and x >= k as x > k-1 (integers), so that equivalent spellings agree.
func strictForm(op token.Token, k int64) (token.Token, int64) {
	switch op {
	case token.LEQ:
		return token.LSS, k + 1
	case token.GEQ:
		return token.GTR, k - 1
	}
	return op, k
}

func getterRejectClass(p *Prog, g rejectGuard, getM *ssa.Function) string {
	cond, when := g.Cond, g.When
	for {
		if u, ok := cond.(*ssa.UnOp); ok && u.Op == token.NOT {
			when = !when
			cond = u.X
			continue
		}
		break
	}
	b, ok := cond.(*ssa.BinOp)
	if !ok {
		return "other: " + exprCanon(cond)
	}
	b = mirrored(b)
	op := b.Op
	if !when {
		inv := map[token.Token]token.Token{token.LSS: token.GEQ, token.LEQ: token.GTR, token.GTR: token.LEQ, token.GEQ: token.LSS, token.EQL: token.NEQ, token.NEQ: token.EQL}
		if o, have := inv[op]; have {
			op = o
		} else {
			return "other: !(" + exprCanon(cond) + ")"
		}
	}
	isGetValue := func(v ssa.Value) bool {
		v = canonPhi(deref(v))
		e, isE := v.(*ssa.Extract)
		if !isE || e.Index != 0 {
			return false
		}
		c, isC := e.Tuple.(*ssa.Call)
		return isC && getM != nil && callsFn(c, getM)
	}
	// nil test of an error
	if isNilConst(b.Y) || isNilConst(b.X) {
		x := b.X
		if isNilConst(b.X) {
			x = b.Y
		}
		x = canonPhi(deref(x))
		var call *ssa.Call
		switch y := x.(type) {
		case *ssa.Call:
			call = y
		case *ssa.Extract:
			call, _ = y.Tuple.(*ssa.Call)
		}
		if call != nil && op == token.NEQ {
			if sc := call.Call.StaticCallee(); sc != nil && p.isLibFn(sc) {
				if sc.Name() == "CheckOverflow" || sc.Name() == "CheckSize" {
					return "size helper"
				}
				return "error of " + fnName(sc)
			}
		}
		return "other: " + exprCanon(cond)
	}
	k, isK := constInt(b.Y)
	if !isK {
		return "other: " + exprCanon(cond)
	}
	// len(value) <op> k, len(value) % m <op> k
	lenOfValue := func(v ssa.Value) (string, bool) {
		if rem, isRem := v.(*ssa.BinOp); isRem && rem.Op == token.REM {
			if m, isM := constInt(rem.Y); isM {
				if lc, isL := rem.X.(*ssa.Call); isL && isBuiltinCall(lc, "len") && isGetValue(sliceRoot(lc.Call.Args[0])) {
					return fmt.Sprintf("len(value) %% %d", m), true
				}
			}
		}
		if lc, isL := v.(*ssa.Call); isL && isBuiltinCall(lc, "len") && isGetValue(sliceRoot(lc.Call.Args[0])) {
			if sl, isSl := lc.Call.Args[0].(*ssa.Slice); isSl && sl.Low != nil {
				if lo, isC := constInt(sl.Low); isC && sl.High == nil {
					return fmt.Sprintf("len(value[%d:])", lo), true
				}
			}
			return "len(value)", true
		}
		return "", false
	}
	if s, ok := lenOfValue(b.X); ok {
		sop, sk := strictForm(op, k)
		return fmt.Sprintf("%s %s %d", s, sop, sk)
	}
	// the 16-bit family code at value[0:2)
	if c, isC := stripConvs(b.X).(*ssa.Call); isC {
		if name, _, buf, okA := accessorCall(c); okA && name == "Uint16" {
			if sl, isSl := buf.(*ssa.Slice); isSl && isGetValue(sliceRoot(sl)) {
				lo, _ := constInt(sl.Low)
				hi, okH := constInt(sl.High)
				if sl.Low == nil {
					lo = 0
				}
				if okH && lo == 0 && hi == 2 {
					return fmt.Sprintf("family %s %d", op, k)
				}
			}
		}
	}
	return "other: " + exprCanon(cond)
}

// getterRejectReference: the reject conditions of the typed getters on the reviewed tree.
var getterRejectReference = map[string][]string{
	"(*MappedAddress).GetFromAs":    {"error of (*Message).Get", "len(value) < 5", "family not in {1,2}"},
	"(*XORMappedAddress).GetFromAs": {"error of (*Message).Get", "len(value) < 5", "family not in {1,2}", "size helper"},
	"(*ErrorCodeAttribute).GetFrom": {"error of (*Message).Get", "len(value) < 4"},
	"(*TextAttribute).GetFromAs":    {"error of (*Message).Get"},
	"(*UnknownAttributes).GetFrom":  {"error of (*Message).Get", "len(value) % 2 != 0"},
}

func checkGetterAccept(r *Run, rc *RuleCtx, cl *closures, getM *ssa.Function) {
	p := r.P
	for _, fn := range cl.Getters {
		if fn.Blocks == nil || errorResultIndex(fn) < 0 {
			continue
		}
		r.Analysed(fn)
		gs := rejectGuardsOf(p, fn)
		// a family test rejects together with the family tests that lead to it (an if-chain or a switch in
		// any order): the class is the set of family codes that were ruled out
		var famSplit *familyCases
		famTried := false
		classOf := func(g rejectGuard) string {
			cls := getterRejectClass(p, g, getM)
			if strings.HasPrefix(cls, "other:") || strings.HasPrefix(cls, "family ") && !strings.HasPrefix(cls, "family != ") {
				// a test of the family in another form (table lookup, ordered comparison): the class is the set of
				// families that can still reach a success return
				if fam := familyValueOf(fn, getM); fam != nil && dependsOnlyOnFamily(p, g.Cond, fam) {
					if !famTried {
						famTried = true
						if n := p.Named("MappedAddress"); n != nil {
							famSplit = familyCaseSplit(p, fn, fam, FieldVar(n, "IP"))
						}
						if famSplit == nil {
							if n := p.Named("XORMappedAddress"); n != nil {
								famSplit = familyCaseSplit(p, fn, fam, FieldVar(n, "IP"))
							}
						}
					}
					if famSplit != nil {
						var ks []string
						for _, k := range famSplit.accepted() {
							ks = append(ks, fmt.Sprint(k))
						}
						return "family not in {" + strings.Join(ks, ",") + "}"
					}
				}
				return cls
			}
			if !strings.HasPrefix(cls, "family != ") {
				return cls
			}
			codes := map[string]bool{strings.TrimPrefix(cls, "family != "): true}
			for _, ec := range allEntryConds(g.If.Block()) {
				if c2 := getterRejectClass(p, rejectGuard{g.If, ec.Cond, ec.Val}, getM); strings.HasPrefix(c2, "family != ") {
					codes[strings.TrimPrefix(c2, "family != ")] = true
				}
			}
			var ks []string
			for k := range codes {
				ks = append(ks, k)
			}
			sort.Strings(ks)
			return "family not in {" + strings.Join(ks, ",") + "}"
		}
		var got []string
		for _, g := range gs {
			got = append(got, classOf(g))
		}
		sort.Strings(got)
		ref := getterRejectReference[fnName(fn)]
		rc.Instance(fnName(fn)+"|rejects", true, map[string]interface{}{"getter": fnName(fn), "rejects_when": got, "reference": ref})
		allowed := map[string]bool{}
		for _, x := range ref {
			allowed[x] = true
		}
		for _, g := range gs {
			cls := classOf(g)
			if !allowed[cls] {
				rc.Violation(fn, instrPos(g.If), "getter rejects when "+cls, fmt.Sprintf("the reviewed getter rejects only on %v: a value that RFC 5389 allows for the attribute (and that an independent encoder produces) is refused", ref))
			}
		}
	}
}

// checkValueFresh: see rule C06.fresh.
func checkValueFresh(r *Run, rc *RuleCtx, le *linEval, cl *closures, add *ssa.Function) {
	p := r.P
	onStack := map[*ssa.Phi]bool{}
	var classify func(v ssa.Value, depth int) string
	classify = func(v ssa.Value, depth int) string {
		if depth > 8 {
			return "scratch"
		}
		switch x := v.(type) {
		case *ssa.MakeSlice, *ssa.Alloc, *ssa.Const:
			return "fresh"
		case *ssa.Parameter, *ssa.FreeVar:
			return "data"
		case *ssa.Convert:
			return classify(x.X, depth+1)
		case *ssa.ChangeType:
			return classify(x.X, depth+1)
		case *ssa.Slice:
			return classify(x.X, depth+1)
		case *ssa.Field:
			return classify(x.X, depth+1)
		case *ssa.FieldAddr:
			return classify(x.X, depth+1)
		case *ssa.IndexAddr:
			return classify(x.X, depth+1)
		case *ssa.Phi:
			if onStack[x] {
				return "" // loop-carried: decided by the other sources
			}
			onStack[x] = true
			defer delete(onStack, x)
			out := ""
			for _, e := range x.Edges {
				c := classify(e, depth+1)
				if c == "scratch" {
					return c
				}
				if c != "" && (out == "" || c == "data") {
					out = c
				}
			}
			if out == "" && depth == 0 {
				return "scratch"
			}
			return out
		case *ssa.Call:
			if isBuiltinCall(x, "append") {
				// append onto a fresh or empty base: the bytes are the appended ones
				if zeroLenValue(x.Call.Args[0], 0) {
					return "fresh"
				}
				return classify(x.Call.Args[0], depth+1)
			}
			// EXT hash.Hash.Sum(b) / a module function returning what it built: judged by its argument buffer
			if x.Call.IsInvoke() && x.Call.Method.Name() == "Sum" {
				return "fresh"
			}
			if sc := x.Call.StaticCallee(); sc != nil && p.isLibFn(sc) {
				return "fresh" // a value computed by a library function (newHMAC, FingerprintValue): its own rules apply
			}
			return "scratch"
		case *ssa.UnOp:
			if x.Op == token.MUL {
				if d := deref(x); d != ssa.Value(x) {
					return classify(d, depth+1)
				}
				return classify(x.X, depth+1)
			}
		}
		return "scratch"
	}
	for _, fn := range cl.Setters {
		if fn.Blocks == nil || !p.isLibFn(fn) {
			continue
		}
		var sites []wireSite
		eachInstr(fn, func(b *ssa.BasicBlock, i int, in ssa.Instruction) {
			c, ok := in.(*ssa.Call)
			if !ok || !callsFn(c, add) || len(c.Call.Args) < 3 {
				return
			}
			r.Analysed(fn)
			val := c.Call.Args[2]
			root, lo, hi := le.window(val)
			cls := classify(root, 0)
			if cls == "" {
				cls = "scratch"
			}
			if cls != "scratch" {
				rc.Instance(fnName(fn)+"|value", true, map[string]string{"setter": fnName(fn), "value": exprCanon(val), "class": cls})
				return
			}
			if sites == nil {
				sites = wireSites(le, fn)
			}
			cur, okC := lo.isConst()
			covered := false
			if okC {
				for progress := true; progress && !covered; {
					progress = false
					for _, ws := range sites {
						if ws.Role != "dst" || ws.Root != root || !instrDominates(ws.In, c) {
							continue
						}
						l, isC := ws.Lo.isConst()
						if !isC || l > cur {
							continue
						}
						if ws.Hi == nil || hi != nil && ws.Hi.equal(*hi) {
							covered = true
							break
						}
						if h, isH := ws.Hi.isConst(); isH && h > cur {
							cur = h
							progress = true
						}
					}
				}
			}
			rc.Instance(fnName(fn)+"|value", true, map[string]interface{}{"setter": fnName(fn), "value": exprCanon(val), "class": "shared scratch", "covered": covered})
			if !covered {
				rc.Violation(fn, instrPos(c), "value in a reused buffer, byte "+fmt.Sprint(cur)+" not written", "the value is built in a buffer that is neither fresh nor the caller's data, and not every byte of it is written before Add: what another use of the buffer left there goes out on the wire (reserved bytes that RFC 5389 wants zero, for one)")
			}
		})
	}
}

// ---------------------------------------------------------------------------
// family case split: a getter's dependence on the 16-bit family code decided by folding the code to each
// value of a small domain (the two valid codes, their neighbours, an arbitrary other value and the maximum).

type familyCases struct {
	domain  []int64
	success map[int64]bool
	lens    map[int64][]int64 // family -> lengths of the last IP store on success paths (-1: not evaluable)
	undec   bool
}

func (fc *familyCases) accepted() []int64 {
	var out []int64
	for _, k := range fc.domain {
		if fc.success[k] {
			out = append(out, k)
		}
	}
	return out
}

func (fc *familyCases) acceptsExactly(ks ...int64) bool {
	if fc.undec {
		return false
	}
	want := map[int64]bool{}
	for _, k := range ks {
		want[k] = true
	}
	for _, k := range fc.domain {
		if fc.success[k] != want[k] {
			return false
		}
	}
	return true
}

func (fc *familyCases) lenIs(k, n int64) bool {
	ls := fc.lens[k]
	if len(ls) == 0 {
		return false
	}
	for _, l := range ls {
		if l != n {
			return false
		}
	}
	return true
}

// familyEval evaluates an integer expression over the family code (fam = k), constants and read-only
// package-level arrays.
func familyEval(p *Prog, c *PathCtx, fam ssa.Value, k int64, v ssa.Value, depth int) (int64, bool) {
	if depth > 10 || v == nil {
		return 0, false
	}
	if c != nil {
		v = c.Resolve(v)
	}
	if v == fam {
		return k, true
	}
	if cv, ok := constInt(v); ok {
		return cv, true
	}
	switch x := v.(type) {
	case *ssa.Convert:
		iv, ok := familyEval(p, c, fam, k, x.X, depth+1)
		if !ok {
			return 0, false
		}
		if w, signed, okW := intWidth(x.Type()); okW && w < 64 {
			if !signed {
				iv &= (1 << uint(w)) - 1
			} else {
				sh := uint(64 - w)
				iv = iv << sh >> sh
			}
		}
		return iv, true
	case *ssa.ChangeType:
		return familyEval(p, c, fam, k, x.X, depth+1)
	case *ssa.BinOp:
		a, ok1 := familyEval(p, c, fam, k, x.X, depth+1)
		b, ok2 := familyEval(p, c, fam, k, x.Y, depth+1)
		if !ok1 || !ok2 {
			return 0, false
		}
		switch x.Op {
		case token.ADD:
			return a + b, true
		case token.SUB:
			return a - b, true
		case token.MUL:
			return a * b, true
		}
	case *ssa.UnOp:
		if x.Op == token.MUL {
			if ia, ok := x.X.(*ssa.IndexAddr); ok {
				if gl, isG := ia.X.(*ssa.Global); isG {
					t := p.readOnlyGlobalTables()[gl]
					if t == nil || t.length < 0 {
						return 0, false
					}
					idx, okI := familyEval(p, c, fam, k, ia.Index, depth+1)
					if !okI || idx < 0 || idx >= t.length {
						return 0, false
					}
					e, have := t.entries[fmt.Sprint(idx)]
					if !have {
						e = t.zero
					}
					if e == nil {
						return 0, false
					}
					iv, exact := constant.Int64Val(e)
					return iv, exact
				}
			}
		}
	case *ssa.Phi:
		var out int64
		for i, e := range x.Edges {
			ev, ok := familyEval(p, c, fam, k, e, depth+1)
			if !ok || i > 0 && ev != out {
				return 0, false
			}
			out = ev
		}
		return out, len(x.Edges) > 0
	}
	return 0, false
}

// dependsOnlyOnFamily: cond is a comparison both sides of which familyEval can evaluate and one of which
// mentions the family.
func dependsOnlyOnFamily(p *Prog, cond ssa.Value, fam ssa.Value) bool {
	for {
		u, ok := cond.(*ssa.UnOp)
		if !ok || u.Op != token.NOT {
			break
		}
		cond = u.X
	}
	bo, ok := cond.(*ssa.BinOp)
	if !ok {
		return false
	}
	_, ok1 := familyEval(p, nil, fam, 1, bo.X, 0)
	_, ok2 := familyEval(p, nil, fam, 1, bo.Y, 0)
	if !ok1 || !ok2 {
		// a value merged from family-dependent sources (ipLen := 0; if guard { ipLen = table[family] }) is only
		// evaluable on a path: accept when the operands mention nothing but the family, constants and tables
		return mentionsFamily(bo.X, fam, 0) || mentionsFamily(bo.Y, fam, 0)
	}
	return mentionsFamily(bo.X, fam, 0) || mentionsFamily(bo.Y, fam, 0)
}

func mentionsFamily(v ssa.Value, fam ssa.Value, depth int) bool {
	if depth > 10 || v == nil {
		return false
	}
	if v == fam {
		return true
	}
	switch x := v.(type) {
	case *ssa.Convert:
		return mentionsFamily(x.X, fam, depth+1)
	case *ssa.ChangeType:
		return mentionsFamily(x.X, fam, depth+1)
	case *ssa.BinOp:
		return mentionsFamily(x.X, fam, depth+1) || mentionsFamily(x.Y, fam, depth+1)
	case *ssa.UnOp:
		if ia, ok := x.X.(*ssa.IndexAddr); ok {
			return mentionsFamily(ia.Index, fam, depth+1)
		}
		return mentionsFamily(x.X, fam, depth+1)
	case *ssa.Phi:
		for _, e := range x.Edges {
			if mentionsFamily(e, fam, depth+1) {
				return true
			}
		}
	}
	return false
}

// familyValueOf: the 16-bit value read at bytes [0:2) of the attribute value (Get's first result).
func familyValueOf(fn *ssa.Function, getM *ssa.Function) ssa.Value {
	var out ssa.Value
	eachInstr(fn, func(b *ssa.BasicBlock, i int, in ssa.Instruction) {
		c, ok := in.(*ssa.Call)
		if !ok {
			return
		}
		name, _, buf, okA := accessorCall(c)
		if !okA || name != "Uint16" {
			return
		}
		sl, isSl := buf.(*ssa.Slice)
		if !isSl {
			return
		}
		lo, hi := int64(0), int64(-1)
		if sl.Low != nil {
			lo, _ = constInt(sl.Low)
		}
		if sl.High != nil {
			hi, _ = constInt(sl.High)
		}
		if lo == 0 && hi == 2 && out == nil {
			out = c
		}
	})
	return out
}

func familyCaseSplit(p *Prog, g *ssa.Function, fam ssa.Value, ipF *types.Var) *familyCases {
	if fam == nil || g == nil {
		return nil
	}
	idx := errorResultIndex(g)
	if idx < 0 {
		return nil
	}
	fc := &familyCases{domain: []int64{0, 1, 2, 3, 4, 0x21, 0xFFFF}, success: map[int64]bool{}, lens: map[int64][]int64{}}
	for _, k := range fc.domain {
		kk := k
		q := &PathQuery{P: p, Fn: g, MaxStates: 20000}
		q.Fold = func(cond ssa.Value, c *PathCtx) (bool, bool) {
			pol := true
			for {
				u, ok := cond.(*ssa.UnOp)
				if !ok || u.Op != token.NOT {
					break
				}
				pol = !pol
				cond = u.X
			}
			bo, ok := cond.(*ssa.BinOp)
			if !ok || !(mentionsFamily(bo.X, fam, 0) || mentionsFamily(bo.Y, fam, 0)) {
				return false, false
			}
			a, ok1 := familyEval(p, c, fam, kk, bo.X, 0)
			b, ok2 := familyEval(p, c, fam, kk, bo.Y, 0)
			if !ok1 || !ok2 {
				return false, false
			}
			var r bool
			switch bo.Op {
			case token.EQL:
				r = a == b
			case token.NEQ:
				r = a != b
			case token.LSS:
				r = a < b
			case token.LEQ:
				r = a <= b
			case token.GTR:
				r = a > b
			case token.GEQ:
				r = a >= b
			default:
				return false, false
			}
			return r == pol, true
		}
		q.Step = func(in ssa.Instruction, deferred bool, st uint64, c *PathCtx) (uint64, bool) {
			s, ok := in.(*ssa.Store)
			if !ok || ipF == nil {
				return st, false
			}
			if fa, isFA := s.Addr.(*ssa.FieldAddr); !isFA || fieldOfAddr(fa) != ipF {
				return st, false
			}
			var lv ssa.Value
			switch x := s.Val.(type) {
			case *ssa.Slice:
				if x.Low == nil && x.High != nil {
					lv = x.High
				}
			case *ssa.MakeSlice:
				lv = x.Len
			}
			if lv != nil {
				if n, okN := familyEval(p, c, fam, kk, lv, 0); okN && n >= 0 && n < 1<<20 {
					return uint64(n) + 2, false
				}
			}
			return 1, false
		}
		q.AtReturn = func(ret *ssa.Return, st uint64, c *PathCtx) {
			if c.NilState(ret.Results[idx]) == -1 {
				return
			}
			fc.success[kk] = true
			l := int64(-1)
			if st >= 2 {
				l = int64(st - 2)
			}
			fc.lens[kk] = append(fc.lens[kk], l)
		}
		q.Run()
		if q.Exhausted {
			fc.undec = true
		}
	}
	return fc
}
