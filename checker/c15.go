package main

import (
	"fmt"
	"go/token"
	"go/types"
	"sort"
	"strings"

	"golang.org/x/tools/go/ssa"
)

func init() { register("C15", "other", runC15) }

// constructionPhase: NewClient and ClientOption-shaped functions (func(*Client)) run before the client is shared.
func constructionPhase(m *clientModel, fn *ssa.Function) bool {
	if fn == m.NewClient {
		return true
	}
	if fn.Signature.Recv() == nil && fn.Signature.Results().Len() == 0 && fn.Signature.Params().Len() == 1 {
		if pt, ok := fn.Signature.Params().At(0).Type().(*types.Pointer); ok && pt.Elem() == types.Type(m.T) {
			return true
		}
	}
	return false
}

func runC15(r *Run) {
	p := r.P
	r.Res.Explanation = "lock, ownership and pairing rules over client.go for every schedule and every branch history: closed is tested and set in one write-locked section, Client.{closed,t} only under the mutex, construction-phase fields are never written afterwards, atomically accessed fields are only accessed atomically, the connection is closed only in Close under the closeConn guard, every goroutine is registered in a WaitGroup that the owner's Close waits for on every path after the stop signal, Start and the retransmission branch are gated by the closed test, nothing blocking or foreign is called under the client mutex, the library's lock-order graph is acyclic"
	r.NotDecided("goroutine exit as a runtime fact", "behaviour of injected collectors and connections beyond the stated preconditions", "the race between a Start that passed the closed gate and a concurrent Close (Start may then return a write error after the closed event was delivered)")
	r.Assume("sync.RWMutex / sync.WaitGroup / sync/atomic semantics", "the collector's Close returns only after its goroutine exited (checked for the built-in tickerCollector)")
	m := resolveClient(p)
	if !clientAnchors(r, "C15", m) {
		return
	}
	errClosed, _ := p.Stun.Members["ErrClientClosed"].(*ssa.Global)
	muxClass := func(base ssa.Value) string { return lockObjKey(base) + "." + m.Mux.Name() }

	// ---- once
	on := r.Rule("C15.once", "Close tests and sets the closed flag in one write-locked section and returns ErrClientClosed on the already-closed edge", 1)
	{
		fn := m.Close
		// the function that sets closed = true (Close itself or a helper it calls first)
		for _, f := range p.LibFuncs() {
			if f == m.Close || constructionPhase(m, f) || f.Parent() != nil {
				continue
			}
			for _, a := range fieldAccesses(f, m.Closed) {
				if a.Kind == "store" {
					// helper: Close must call it before any other side effect and return its error
					var hc *ssa.Call
					eachInstr(m.Close, func(b *ssa.BasicBlock, i int, in ssa.Instruction) {
						if c, ok := in.(*ssa.Call); ok && callsFn(c, f) {
							hc = c
						}
					})
					if hc == nil {
						on.Violation(f, instrPos(a.Instr), "closed set outside Close", "a function other than Close marks the client closed")
						continue
					}
					eachInstr(m.Close, func(b *ssa.BasicBlock, i int, in ssa.Instruction) {
						if ifaceCallOnField(in, m.Collector, "Close") || ifaceCallOnField(in, m.Agent, "Close") || ifaceCallOnField(in, m.Conn, "Close") || isBuiltinCall(in, "close") {
							if !instrDominates(hc, in) {
								on.Violation(m.Close, instrPos(in), "side effect before the closed test", "Close acts before it knows it is the first Close")
							}
						}
					})
					q := &PathQuery{P: p, Fn: m.Close, From: hc}
					rep := false
					q.Step = func(in ssa.Instruction, deferred bool, st uint64, c *PathCtx) (uint64, bool) {
						if c.NilState(hc) == -1 && !rep && (ifaceCallOnField(in, m.Collector, "Close") || ifaceCallOnField(in, m.Agent, "Close") || ifaceCallOnField(in, m.Conn, "Close")) {
							rep = true
							on.ViolationPath(m.Close, instrPos(in), "Close continues after the already-closed result", "a second Close closes everything again", c.Witness(m.Close, in))
						}
						return st, false
					}
					q.AtReturn = func(ret *ssa.Return, st uint64, c *PathCtx) {
						if c.NilState(hc) == 0 && !rep {
							rep = true
							on.ViolationPath(m.Close, instrPos(ret), "result of the closed test ignored", "Close does not branch on whether it was already closed", c.Witness(m.Close, ret))
						}
					}
					q.Run()
					fn = f
				}
			}
		}
		r.Analysed(fn)
		li := computeLocks(fn)
		var ld, st ssa.Instruction
		var base ssa.Value
		for _, a := range fieldAccesses(fn, m.Closed) {
			if a.Kind == "load" && ld == nil {
				ld = a.Instr
				base = a.Addr.X
			}
			if a.Kind == "store" {
				st = a.Instr
			}
		}
		on.Instance(fnName(fn), true, map[string]interface{}{"closed_load": ld != nil, "closed_store": st != nil})
		if ld == nil || st == nil {
			on.Violation(fn, fn.Pos(), "closed test/set", "Close does not test and set the closed flag")
		} else {
			need := muxClass(base)
			if li.Held(ld)[need] != "W" || li.Held(st)[need] != "W" {
				on.Violation(fn, instrPos(ld), "closed test/set not under the write lock", fmt.Sprintf("lockset at test %s, at set %s: two concurrent Close calls can both pass the test (collector, agent and connection closed twice)", heldString(li.Held(ld)), heldString(li.Held(st))))
			}
			eachInstr(fn, func(b *ssa.BasicBlock, i int, in ssa.Instruction) {
				if op := lockOpOf(in); op != nil && (op.Kind == "Unlock" || op.Kind == "RUnlock") && op.Obj == need {
					if reachableFrom(ld, in) && reachableFrom(in, st) {
						on.Violation(fn, instrPos(in), "unlock between test and set of closed", "the mutex is released between testing and setting the closed flag: a second Close arriving in between also proceeds (double close of collector/agent/connection)")
					}
				}
			})
			// closed edge returns ErrClientClosed
			cis := ifsOn(fn, func(v ssa.Value) bool { return v == ld.(ssa.Value) })
			if len(cis) == 0 {
				on.Violation(fn, instrPos(ld), "closed not branched on", "Close does not branch on the closed flag")
			} else {
				ci := cis[0]
				// every path that continues from the test with closed == true returns ErrClientClosed and does nothing else
				kk := newKeyer()
				key, pol := kk.condKey(ci.If.Cond)
				n := 0
				rep := map[ssa.Instruction]bool{}
				q := &PathQuery{P: p, Fn: fn, From: ld, K: kk, InitAssign: map[string]bool{key: pol}}
				q.Step = func(in ssa.Instruction, deferred bool, stt uint64, c *PathCtx) (uint64, bool) {
					if rep[in] {
						return stt, false
					}
					if in == st {
						rep[in] = true
						on.ViolationPath(fn, instrPos(in), "closed set on the wrong edge", "closed is set on the already-closed edge", c.Witness(fn, in))
					}
					if ifaceCallOnField(in, m.Collector, "Close") || ifaceCallOnField(in, m.Agent, "Close") || ifaceCallOnField(in, m.Conn, "Close") || isBuiltinCall(in, "close") {
						rep[in] = true
						on.ViolationPath(fn, instrPos(in), "already-closed edge does not return", "a second Close goes on to close everything again", c.Witness(fn, in))
					}
					return stt, false
				}
				q.AtReturn = func(ret *ssa.Return, stt uint64, c *PathCtx) {
					n++
					if rep[ret] {
						return
					}
					v := c.Resolve(deref(ret.Results[0]))
					if errClosed == nil || !loadsGlobal(v, errClosed) {
						rep[ret] = true
						on.ViolationPath(fn, instrPos(ret), "already-closed edge", "a second Close must return ErrClientClosed", c.Witness(fn, ret))
					}
				}
				q.Run()
				if n == 0 {
					on.Violation(fn, instrPos(ci.If), "already-closed edge does not return", "a second Close goes on to close everything again")
				}
			}
		}
	}
	on.Done()

	// ---- lockset & field discipline
	ls := r.Rule("C15.lockset", "Client.closed and Client.t (field and map contents) are accessed only under the client mutex (read mode suffices for loads); construction-phase fields are not stored afterwards; rto/maxAttempts/calls are accessed only through sync/atomic after construction", 15)
	{
		guarded := map[*types.Var]bool{m.Closed: true, m.Table: true}
		st := m.T.Underlying().(*types.Struct)
		for _, fn := range p.LibFuncs() {
			ctor := constructionPhase(m, fn) || (fn.Parent() != nil && constructionPhase(m, fn.Parent()) && fn != m.Reader)
			// closures returned by With* options
			if fn.Parent() != nil && strings.HasPrefix(fn.Parent().Name(), "With") {
				ctor = ctor || constructionPhase(m, fn)
			}
			accs := sharedAccesses(fn, guarded)
			var li *LockInfo
			if len(accs) > 0 {
				li = computeLocks(fn)
				r.Analysed(fn)
			}
			for _, a := range accs {
				if _, fresh := a.Base.(*ssa.Alloc); fresh || ctor {
					ls.Instance(fnName(fn)+"|ctor|"+a.Field.Name(), false, nil)
					continue
				}
				if a.Field == m.Table && a.Kind == "store" {
					// the table as a whole is replaced after construction: every registered transaction is dropped
					// without being completed, and a Start in progress mistakes the loss for a completion
					ls.Instance(fnName(fn)+"|table replaced", true, nil)
					ls.Violation(fn, instrPos(a.In), "Client."+a.Field.Name()+" replaced after construction", "the transaction table is assigned as a whole outside construction: entries vanish without their handler being called, and a Start whose rollback no longer finds its entry reports success although nothing was sent (on a closed client: nil instead of a closed error)")
					continue
				}
				held := li.Held(a.In)
				mode := held[muxClass(a.Base)]
				ok := mode == "W" || (mode == "R" && !a.isWrite())
				ls.Instance(fmt.Sprintf("%s|%s|%s", fnName(fn), a.Kind, a.Field.Name()), true, map[string]string{"fn": fnName(fn), "access": describeAccess(a), "lockset": heldString(held)})
				if !ok {
					ls.Violation(fn, instrPos(a.In), describeAccess(a), fmt.Sprintf("access without the client mutex in the required mode (lockset %s): data race between Start/Close/reader/collector", heldString(held)))
				}
			}
			if ctor {
				continue
			}
			// field discipline outside construction
			for i := 0; i < st.NumFields(); i++ {
				fv := st.Field(i)
				if fv == m.Closed || fv == m.Table || fv == m.Mux || fv == m.WG {
					continue
				}
				for _, a := range fieldAccesses(fn, fv) {
					if _, fresh := a.Addr.X.(*ssa.Alloc); fresh {
						continue
					}
					isAtomicField := fv == m.RTO || fv == m.MaxAttempts
					switch a.Kind {
					case "store":
						ls.Instance(fnName(fn)+"|store|"+fv.Name(), true, nil)
						ls.Violation(fn, instrPos(a.Instr), "store to Client."+fv.Name()+" after construction", "a field that other goroutines read without synchronisation is written after the client has been shared")
					case "load":
						if isAtomicField {
							ls.Instance(fnName(fn)+"|load|"+fv.Name(), true, nil)
							ls.Violation(fn, instrPos(a.Instr), "plain load of Client."+fv.Name(), "the field is written atomically by SetRTO/options and must be read atomically")
						}
					case "addr":
						if isAtomicField {
							if _, isAt := atomicOpOnField(a.Instr, fv); isAt {
								ls.Instance(fnName(fn)+"|atomic|"+fv.Name(), true, map[string]string{"fn": fnName(fn), "atomic_access": "Client." + fv.Name()})
								continue
							}
						}
						ls.Instance(fnName(fn)+"|addr|"+fv.Name(), true, nil)
						ls.Violation(fn, instrPos(a.Instr), "address of Client."+fv.Name()+" escapes", "the field's address is handed to code the discipline cannot see")
					}
				}
			}
		}
	}
	// construction-phase code (options: func(*Client) values) runs only during construction: invoking an
	// option on a client that is already shared performs its plain field stores concurrently with readers
	for _, fn := range p.LibFuncs() {
		if constructionPhase(m, fn) || (fn.Parent() != nil && constructionPhase(m, fn.Parent())) {
			continue
		}
		eachInstr(fn, func(b *ssa.BasicBlock, i int, in ssa.Instruction) {
			ci, ok := in.(ssa.CallInstruction)
			if !ok {
				return
			}
			cc := ci.Common()
			if cc.IsInvoke() {
				return
			}
			isOpt := false
			if sig, isSig := cc.Value.Type().Underlying().(*types.Signature); isSig && sig.Recv() == nil && sig.Results().Len() == 0 && sig.Params().Len() == 1 {
				if pt, isP := sig.Params().At(0).Type().(*types.Pointer); isP && pt.Elem() == types.Type(m.T) {
					if sc := cc.StaticCallee(); sc == nil || sc.Parent() != nil || constructionPhase(m, sc) {
						// a function value of option shape, or a construction-phase function itself
						if sc == nil || constructionPhase(m, sc) {
							isOpt = true
						}
					}
				}
			}
			if isOpt {
				ls.Instance(fnName(fn)+"|option call", true, nil)
				ls.Violation(fn, instrPos(in), "client option applied after construction", "an option (a func(*Client) that stores fields without synchronisation) is applied to a client that other goroutines may already be using: data race with Start/Do on the fields it writes")
			}
		})
	}
	ls.Done()

	// ---- connection ownership
	cn := r.Rule("C15.conn", "the connection is closed only in Client.Close, only under the closeConn guard, outside any loop; WithNoConnClose is the only writer of closeConn after the default", 2)
	{
		n := 0
		for _, fn := range p.LibFuncs() {
			eachInstr(fn, func(b *ssa.BasicBlock, i int, in ssa.Instruction) {
				if !ifaceCallOnField(in, m.Conn, "Close") {
					return
				}
				n++
				cn.Instance(fnName(fn)+"|conn.Close", true, map[string]string{"fn": fnName(fn)})
				if fn != m.Close {
					cn.Violation(fn, instrPos(in), "connection closed outside Client.Close", "the connection can be closed twice or although WithNoConnClose was given")
					return
				}
				ok := false
				for _, ci := range ifsOn(fn, func(v ssa.Value) bool { return valueIsLoadOfField(v, m.CloseConn) }) {
					if blockDominates(ci.OnTrue, b) && len(ci.OnTrue.Preds) == 1 {
						ok = true
					}
				}
				if !ok {
					cn.Violation(fn, instrPos(in), "unconditional connection close", "the connection is closed although WithNoConnClose was given")
				}
				if inLoop(loopsOf(fn), b) != nil {
					cn.Violation(fn, instrPos(in), "connection close in a loop", "the connection can be closed more than once")
				}
			})
			for _, a := range fieldAccesses(fn, m.CloseConn) {
				if a.Kind == "store" {
					cn.Instance(fnName(fn)+"|closeConn store", true, nil)
					if !constructionPhase(m, fn) && !(fn.Parent() != nil) {
						cn.Violation(fn, instrPos(a.Instr), "closeConn written after construction", "connection ownership changes while the client is in use")
					}
				}
			}
		}
		if n == 0 {
			cn.Violation(m.Close, m.Close.Pos(), "connection never closed", "Close does not close the connection it owns")
		}
	}
	cn.Done()

	// ---- join
	// ---- nothing Close waits for can be stuck in a write that only closing the connection ends
	co := r.Rule("C15.closeorder", "Close closes the connection before it waits for a goroutine that writes to the connection (the collector's goroutine runs the retransmission path): a write that blocks until the connection is closed cannot keep Close from returning", 1)
	if m.Close != nil {
		var collClose, connClose ssa.Instruction
		eachInstr(m.Close, func(b *ssa.BasicBlock, i int, in ssa.Instruction) {
			if ifaceCallOnField(in, m.Collector, "Close") {
				collClose = in
			}
			if ifaceCallOnField(in, m.Conn, "Close") {
				connClose = in
			}
		})
		if collClose == nil || connClose == nil {
			co.Fail("Close", "collector or connection close not found in Client.Close")
		} else {
			co.Instance(fnName(m.Close), true, map[string]string{"collector_close": p.pos(instrPos(collClose)), "connection_close": p.pos(instrPos(connClose))})
			if !instrDominates(connClose, collClose) {
				co.Violation(m.Close, instrPos(collClose), "collector closed before the connection", "Close waits for the collector's goroutine while the connection is still open: if that goroutine sits in a retransmission Write that blocks (a peer that stopped reading), nothing releases it and Close never returns")
			}
		}
	}
	co.Done()

	// ---- the result of Close carries both errors
	ce := r.Rule("C15.closeerr", "every CloseErr that Close returns holds the agent's Close result in AgentErr and the connection's Close result (nil when the connection is not owned) in ConnectionErr, and nil is returned only when both are nil", 1)
	if m.Close != nil {
		checkCloseErr(r, ce, m)
	}
	ce.Done()

	jn := r.Rule("C15.join", "every go statement of the library is preceded by Add on a WaitGroup, its function defers Done on it, and the owner's Close waits for it on every path after the stop signal; Client.Close also closes the collector and the agent on every path after setting closed", 4)
	checkJoin(r, jn, m)
	jn.Done()

	// ---- gate
	gt := r.Rule("C15.gate", "in Start every path to the registration, the agent Start and the connection write passes the not-closed edge of the closed test; the retransmission branch runs only when the callback saw closed == false; Do and Indicate reach the connection only through Start", 3)
	checkGate(r, gt, m)
	gt.Done()

	// ---- noblock
	nb := r.Rule("C15.noblock", "while the client mutex is held nothing but builtins, map operations and lock-free leaves is called (no wait, no collector/agent/handler/connection call)", 3)
	{
		for _, fn := range p.LibFuncs() {
			if len(directAcquires(fn)) == 0 {
				continue
			}
			li := computeLocks(fn)
			liMay := computeLocksMay(fn)
			eachInstr(fn, func(b *ssa.BasicBlock, i int, in ssa.Instruction) {
				ci, ok := in.(ssa.CallInstruction)
				if !ok {
					return
				}
				if _, isD := in.(*ssa.Defer); isD {
					return
				}
				if lockOpOf(in) != nil {
					return
				}
				held := liMay.Held(in) // held on SOME path is enough for a blocking call to be wrong
				inClient := false
				for obj := range held {
					if strings.HasSuffix(obj, "."+m.Mux.Name()) && strings.HasPrefix(lockClassOfHeld(li, obj), m.T.Obj().Name()+".") {
						inClient = true
					}
				}
				if !inClient {
					return
				}
				cc := ci.Common()
				if _, isB := cc.Value.(*ssa.Builtin); isB {
					return
				}
				desc := "call " + exprDepth(cc.Value, 0)
				if cc.IsInvoke() {
					desc += "." + cc.Method.Name()
				}
				nb.Instance(fnName(fn)+"|"+desc, true, map[string]string{"fn": fnName(fn), "call_under_client_mutex": desc})
				if sc := cc.StaticCallee(); sc != nil {
					if p.isModuleFn(sc) && lockFreeLeaf(p, sc, map[*ssa.Function]bool{}) {
						return
					}
					if !p.isModuleFn(sc) && extPureNonBlocking(sc) {
						return
					}
				}
				nb.Violation(fn, instrPos(in), desc, "call made while the client mutex is held: a handler, agent, collector or connection call here blocks every Start/Close and can deadlock with the agent mutex")
			})
			// critical sections exist
			for _, in := range li.Ops {
				if op := lockOpOf(in); op != nil && strings.HasPrefix(op.Class, m.T.Obj().Name()+".") && (op.Kind == "Lock" || op.Kind == "RLock") {
					nb.Instance(fnName(fn)+"|section", true, nil)
					bad, rets := mustPass(p, fn, in, func(x ssa.Instruction, deferred bool, c *PathCtx) bool {
						if _, isD := x.(*ssa.Defer); isD && !deferred {
							return false
						}
						o := lockOpOf(x)
						return o != nil && (o.Kind == "Unlock" || o.Kind == "RUnlock") && o.Obj == op.Obj
					}, nil)
					for i, w := range bad {
						pos := instrPos(in)
						if rets[i] != nil {
							pos = instrPos(rets[i])
						}
						nb.ViolationPath(fn, pos, "return without releasing the client mutex", "every later Start/Close blocks forever", w)
					}
				}
			}
		}
	}
	nb.Done()

	// ---- lock order
	or := r.Rule("C15.order", "the lock-order graph of the library (call edges resolved by VTA, user callbacks as leaves, the agent's Close->handler edge as documented exception of C14) is acyclic", 3)
	am, _ := resolveAgent(p)
	closeMethods := map[*ssa.Function]bool{}
	if am != nil {
		for _, fn := range am.Methods {
			for _, a := range sharedAccesses(fn, map[*types.Var]bool{am.Closed: true}) {
				if st, ok := a.In.(*ssa.Store); ok && a.Kind == "store" {
					if c, ok := st.Val.(*ssa.Const); ok && c.Value != nil && c.Value.String() == "true" {
						closeMethods[fn] = true
					}
				}
			}
		}
	}
	edges, sites := lockOrderEdges(p, func(fn *ssa.Function, in ssa.Instruction) bool {
		if am == nil || !closeMethods[fn] {
			return false
		}
		_, f := loadedField(in.(ssa.CallInstruction).Common().Value)
		return f == am.Handler
	})
	for i := 0; i < sites; i++ {
		or.Instance(fmt.Sprintf("site%d", i), true, nil)
	}
	if cyc := findLockCycle(edges); cyc != nil {
		var w []string
		var efn *ssa.Function
		var site ssa.Instruction
		for _, e := range edges {
			for i := 0; i+1 < len(cyc); i++ {
				if e.From == cyc[i] && e.To == cyc[i+1] {
					w = append(w, fmt.Sprintf("%s holds %s and reaches %s via %s", fnName(e.Fn), e.From, e.To, e.Via))
					if efn == nil {
						efn, site = e.Fn, e.Site
					}
				}
			}
		}
		sort.Strings(w)
		or.ViolationPath(efn, instrPos(site), "lock cycle "+strings.Join(cyc, " -> "), "two goroutines taking these locks in opposite order deadlock", strings.Join(w, "; "))
	}
	or.Done()
	// Start does not report success for a transaction it has itself rolled back: a Do on it would wait forever (shared with C10)
	r.Borrow("C10", map[string]string{"C10.rollback": "C15.rollback"})
}

func lockClassOfHeld(li *LockInfo, obj string) string {
	for _, in := range li.Ops {
		if op := lockOpOf(in); op != nil && op.Obj == obj {
			return op.Class
		}
	}
	return ""
}

func checkJoin(r *Run, rc *RuleCtx, m *clientModel) {
	p := r.P
	for _, fn := range p.LibFuncs() {
		eachInstr(fn, func(b *ssa.BasicBlock, i int, in ssa.Instruction) {
			g, ok := in.(*ssa.Go)
			if !ok {
				return
			}
			r.Analysed(fn)
			key := fnName(fn) + "|go"
			// WaitGroup Add dominating the go statement
			var wgField *types.Var
			eachInstr(fn, func(bb *ssa.BasicBlock, j int, x ssa.Instruction) {
				if isMethodCall(x, "sync", "WaitGroup", "Add") && instrDominates(x, g) {
					if _, f := addrField(callArgs(x)[0]); f != nil {
						if d, okc := constInt(callArgs(x)[1]); okc && d == 1 {
							wgField = f
						}
					}
				}
			})
			rc.Instance(key, true, map[string]interface{}{"fn": fnName(fn), "go": shortInstr(g), "waitgroup_field": wgField != nil})
			if wgField == nil {
				rc.Violation(fn, instrPos(g), "go without WaitGroup.Add(1)", "the goroutine is not registered: Close cannot wait for it")
				return
			}
			// target defers Done
			var target *ssa.Function
			if sc := g.Call.StaticCallee(); sc != nil {
				target = sc
			} else if mc, ok := g.Call.Value.(*ssa.MakeClosure); ok {
				target = mc.Fn.(*ssa.Function)
			}
			if target == nil {
				rc.Violation(fn, instrPos(g), "go target unknown", "undecided")
				return
			}
			r.Analysed(target)
			doneDeferred := false
			eachInstr(target, func(bb *ssa.BasicBlock, j int, x ssa.Instruction) {
				if d, ok := x.(*ssa.Defer); ok && isMethodCall(d, "sync", "WaitGroup", "Done") {
					if _, f := addrField(d.Call.Args[0]); f == wgField && bb == target.Blocks[0] {
						doneDeferred = true
					}
				}
			})
			if !doneDeferred {
				rc.Violation(target, target.Pos(), "goroutine does not defer WaitGroup.Done", "on some exit the goroutine does not announce its end: Close waits forever or not at all")
			}
			// owner's Close waits after the stop signal
			var owner *types.Named
			if pt, ok := fieldOwner(p, wgField); ok {
				owner = pt
			}
			if owner == nil {
				rc.Violation(fn, instrPos(g), "WaitGroup owner", "undecided: owner type of the WaitGroup not found")
				return
			}
			cf := p.MethodOf(owner, "Close")
			if cf == nil {
				rc.Violation(fn, instrPos(g), "owner has no Close", "nothing waits for the goroutine")
				return
			}
			r.Analysed(cf)
			var stops []ssa.Instruction
			eachInstr(cf, func(bb *ssa.BasicBlock, j int, x ssa.Instruction) {
				if isBuiltinCall(x, "close") {
					stops = append(stops, x)
				}
			})
			if len(stops) == 0 {
				rc.Violation(cf, cf.Pos(), "no stop signal", "Close does not signal the goroutine to stop (close of its channel)")
			}
			for _, s := range stops {
				bad, rets := mustPass(p, cf, s, func(x ssa.Instruction, deferred bool, c *PathCtx) bool {
					if _, isD := x.(*ssa.Defer); isD && !deferred {
						return false
					}
					if !isMethodCall(x, "sync", "WaitGroup", "Wait") {
						return false
					}
					_, f := addrField(callArgs(x)[0])
					return f == wgField
				}, nil)
				rc.Instance(fnName(cf)+"|wait after stop", true, map[string]string{"close_fn": fnName(cf)})
				for i, w := range bad {
					pos := instrPos(s)
					if rets[i] != nil {
						pos = instrPos(rets[i])
					}
					rc.ViolationPath(cf, pos, "return without WaitGroup.Wait", "Close returns while the goroutine may still be running (handlers invoked after Close, goroutine leak)", w)
				}
			}
		})
	}
	// Client.Close: after closed=true every path reaches collector.Close, and every path that passes its success edge reaches agent.Close
	fn := m.Close
	var setClosed ssa.Instruction
	for _, a := range fieldAccesses(fn, m.Closed) {
		if a.Kind == "store" {
			setClosed = a.Instr
		}
	}
	if setClosed != nil {
		bad, rets := mustPass(p, fn, setClosed, func(x ssa.Instruction, deferred bool, c *PathCtx) bool {
			return ifaceCallOnField(x, m.Collector, "Close")
		}, nil)
		rc.Instance(fnName(fn)+"|collector.Close", true, nil)
		for i, w := range bad {
			pos := fn.Pos()
			if rets[i] != nil {
				pos = instrPos(rets[i])
			}
			rc.ViolationPath(fn, pos, "return without closing the collector", "the ticker goroutine keeps running after Close", w)
		}
		var cc ssa.Instruction
		eachInstr(fn, func(b *ssa.BasicBlock, i int, in ssa.Instruction) {
			if ifaceCallOnField(in, m.Collector, "Close") {
				cc = in
			}
		})
		if cc != nil {
			ccv := cc.(ssa.Value)
			bad, rets := mustPass(p, fn, cc, func(x ssa.Instruction, deferred bool, c *PathCtx) bool {
				return ifaceCallOnField(x, m.Agent, "Close")
			}, func(ret *ssa.Return, c *PathCtx) bool { return c.NilState(ccv) != -1 })
			rc.Instance(fnName(fn)+"|agent.Close", true, nil)
			for i, w := range bad {
				pos := fn.Pos()
				if rets[i] != nil {
					pos = instrPos(rets[i])
				}
				rc.ViolationPath(fn, pos, "return without closing the agent", "in-flight transactions never receive their closed event", w)
			}
			// ... and the stop signal of the reader, and the wait for it (whatever the agent/connection Close returned)
			for _, tgt := range []struct {
				what string
				pred func(x ssa.Instruction) bool
			}{
				{"stop signal (close of the client's channel)", func(x ssa.Instruction) bool {
					if !isBuiltinCall(x, "close") {
						return false
					}
					_, f := loadedField(callArgs(x)[0])
					return f == m.CloseCh
				}},
				{"WaitGroup.Wait", func(x ssa.Instruction) bool {
					if !isMethodCall(x, "sync", "WaitGroup", "Wait") {
						return false
					}
					_, f := addrField(callArgs(x)[0])
					return f == m.WG
				}},
			} {
				pred := tgt.pred
				bad, rets := mustPass(p, fn, cc, func(x ssa.Instruction, deferred bool, c *PathCtx) bool {
					if _, isD := x.(*ssa.Defer); isD && !deferred {
						return false
					}
					return pred(x)
				}, func(ret *ssa.Return, c *PathCtx) bool { return c.NilState(ccv) != -1 })
				rc.Instance(fnName(fn)+"|"+tgt.what, true, nil)
				for i, w := range bad {
					pos := fn.Pos()
					if rets[i] != nil {
						pos = instrPos(rets[i])
					}
					rc.ViolationPath(fn, pos, "return without "+tgt.what, "Close returns (e.g. on an agent or connection Close error) while the reader goroutine has not been told to stop or has not been awaited: goroutine leak, handlers invoked after Close", w)
				}
			}
		}
	}
}

// fieldOwner: the named struct type of the module that declares field fv.
func fieldOwner(p *Prog, fv *types.Var) (*types.Named, bool) {
	for _, pk := range p.Pkgs {
		sc := pk.Types.Scope()
		for _, n := range sc.Names() {
			tn, ok := sc.Lookup(n).(*types.TypeName)
			if !ok {
				continue
			}
			nt, ok := tn.Type().(*types.Named)
			if !ok {
				continue
			}
			st, ok := nt.Underlying().(*types.Struct)
			if !ok {
				continue
			}
			for i := 0; i < st.NumFields(); i++ {
				if st.Field(i) == fv {
					return nt, true
				}
			}
		}
	}
	return nil, false
}

func checkGate(r *Run, rc *RuleCtx, m *clientModel) {
	p := r.P
	fn := m.Start
	k := newKeyer()
	k.fwdLocal = true
	// the closed test in Start
	var closedLoad ssa.Value
	for _, a := range fieldAccesses(fn, m.Closed) {
		if a.Kind == "load" {
			closedLoad = a.Instr.(ssa.Value)
		}
	}
	if closedLoad == nil {
		rc.Violation(fn, fn.Pos(), "no closed test in Start", "Start on a closed client writes to the connection")
		return
	}
	cis := ifsOn(fn, func(v ssa.Value) bool { return v == closedLoad || deref(v) == closedLoad })
	if len(cis) == 0 {
		rc.Violation(fn, fn.Pos(), "closed flag not branched on in Start", "Start on a closed client writes to the connection")
		return
	}
	ci := cis[0]
	errClosed, _ := p.Stun.Members["ErrClientClosed"].(*ssa.Global)
	nret := 0
	for _, ret := range returnsOf(fn) {
		if blockDominates(ci.OnTrue, ret.Block()) && len(ci.OnTrue.Preds) == 1 {
			nret++
			if errClosed == nil || !loadsGlobal(ret.Results[0], errClosed) {
				rc.Violation(fn, instrPos(ret), "closed edge of Start", "Start on a closed client must return ErrClientClosed")
			}
		}
	}
	if nret == 0 {
		rc.Violation(fn, instrPos(ci.If), "closed edge of Start does not return", "Start on a closed client goes on")
	}
	n := 0
	eachInstr(fn, func(b *ssa.BasicBlock, i int, in ssa.Instruction) {
		side := ""
		switch {
		case callsFn(in, m.Reg):
			side = "registration"
		case ifaceCallOnField(in, m.Agent, "Start"):
			side = "agent Start"
		case staticCallee(in) != nil && staticCallee(in).Name() == "WriteTo":
			side = "connection write"
		case ifaceCallOnField(in, m.Conn, "Write"):
			side = "connection write"
		}
		if side == "" {
			return
		}
		n++
		rc.Instance("Start|"+side, true, map[string]string{"side_effect": side})
		if !(blockDominates(ci.OnFalse, b) && len(ci.OnFalse.Preds) == 1) {
			rc.Violation(fn, instrPos(in), side+" before the closed test", "a side effect of Start is reachable on a closed client")
		}
	})
	if n == 0 {
		rc.Violation(fn, fn.Pos(), "Start has no side effects", "structure not recognised")
	}
	// the retransmission branch
	cb := m.Callback
	var cbClosed ssa.Value
	for _, a := range fieldAccesses(cb, m.Closed) {
		if a.Kind == "load" {
			cbClosed = a.Instr.(ssa.Value)
		}
	}
	kk := newKeyer()
	kk.fwdLocal = true
	kk.pureFieldLoads = true
	q := &PathQuery{P: p, Fn: cb, K: kk}
	rep := false
	nw := 0
	q.Step = func(in ssa.Instruction, deferred bool, st uint64, c *PathCtx) (uint64, bool) {
		if ifaceCallOnField(in, m.Conn, "Write") || ifaceCallOnField(in, m.Agent, "Start") {
			nw++
			ok := false
			if cbClosed != nil {
				key, pol := kk.condKey(cbClosed)
				if v, known := c.Known(key); known && v != pol {
					ok = true
				}
			}
			if !ok && !rep {
				rep = true
				rc.ViolationPath(cb, instrPos(in), "retransmission without the closed test", "the callback re-registers and writes to the connection although the client may be closed", c.Witness(cb, in))
			}
		}
		return st, false
	}
	q.Run()
	rc.Instance("callback|gated side effects", true, map[string]int{"paths": nw})
	// Do and Indicate delegate
	for _, f := range []*ssa.Function{m.Do, m.Indicate} {
		eachInstr(f, func(b *ssa.BasicBlock, i int, in ssa.Instruction) {
			if ifaceCallOnField(in, m.Conn, "Write") || ifaceCallOnField(in, m.Agent, "Start") || callsFn(in, m.Reg) {
				rc.Violation(f, instrPos(in), "side effect outside Start", fnName(f)+" bypasses Start's closed gate")
			}
		})
		rc.Instance(fnName(f)+"|delegates", true, nil)
	}
}

// checkCloseErr: Client.Close (normalised) builds its CloseErr from the two close results.
func checkCloseErr(r *Run, rc *RuleCtx, m *clientModel) {
	p := r.P
	fn := m.Close
	ceT := p.Named("CloseErr")
	if ceT == nil {
		rc.Fail("CloseErr", "type not found")
		return
	}
	fAgent, fConn := FieldVar(ceT, "AgentErr"), FieldVar(ceT, "ConnectionErr")
	if fAgent == nil || fConn == nil {
		rc.Fail("CloseErr fields", "AgentErr / ConnectionErr not found")
		return
	}
	var agentClose, connClose ssa.Value
	eachInstr(fn, func(b *ssa.BasicBlock, i int, in ssa.Instruction) {
		if v, ok := in.(ssa.Value); ok {
			if ifaceCallOnField(in, m.Agent, "Close") {
				agentClose = v
			}
			if ifaceCallOnField(in, m.Conn, "Close") {
				connClose = v
			}
		}
	})
	if agentClose == nil || connClose == nil {
		rc.Fail("Close", "agent or connection close call not found in Client.Close")
		return
	}
	// v is the close result r, possibly merged with nil (the close is conditional)
	var isResult func(v ssa.Value, r ssa.Value, depth int) bool
	isResult = func(v ssa.Value, r ssa.Value, depth int) bool {
		if depth > 6 {
			return false
		}
		v = deref(v)
		if v == r {
			return true
		}
		// a field of a local struct (the CloseErr under construction) read back: the value stored there
		if ld, ok := v.(*ssa.UnOp); ok && ld.Op == token.MUL {
			if fa, isFA := ld.X.(*ssa.FieldAddr); isFA {
				if al, isAl := fa.X.(*ssa.Alloc); isAl {
					if fv, _ := localFieldValue(al, fa.Field, ld, 0); fv != nil && fv != v {
						return isResult(fv, r, depth+1)
					}
					// stored on some paths only (the conditional connection close): the field is the zero value or
					// one of the stored values - every one of which must be the result
					n := 0
					for _, ref := range *al.Referrers() {
						fa2, isFA2 := ref.(*ssa.FieldAddr)
						if !isFA2 || fa2.Field != fa.Field {
							continue
						}
						for _, u := range *fa2.Referrers() {
							if st, isSt := u.(*ssa.Store); isSt && st.Addr == ssa.Value(fa2) {
								if !isResult(st.Val, r, depth+1) {
									return false
								}
								n++
							}
						}
					}
					return n > 0
				}
			}
		}
		if ph, ok := v.(*ssa.Phi); ok {
			found := false
			for _, e := range ph.Edges {
				if isNilConst(e) {
					continue
				}
				if !isResult(e, r, depth+1) {
					return false
				}
				found = true
			}
			return found
		}
		return false
	}
	n := 0
	eachInstr(fn, func(b *ssa.BasicBlock, i int, in ssa.Instruction) {
		al, ok := in.(*ssa.Alloc)
		if !ok {
			return
		}
		pt, ok := al.Type().(*types.Pointer)
		if !ok || !types.Identical(pt.Elem(), ceT) {
			return
		}
		n++
		got := map[*types.Var]ssa.Value{}
		for _, ref := range *al.Referrers() {
			if fa, ok := ref.(*ssa.FieldAddr); ok {
				for _, u := range *fa.Referrers() {
					if st, ok := u.(*ssa.Store); ok && st.Addr == ssa.Value(fa) {
						got[fieldOfAddr(fa)] = st.Val
					}
				}
			}
		}
		rc.Instance(fmt.Sprintf("%s|CloseErr@b%d", fnName(fn), b.Index), true, map[string]string{"fn": fnName(fn), "AgentErr": exprCanon(got[fAgent]), "ConnectionErr": exprCanon(got[fConn])})
		if v := got[fAgent]; v == nil || !isResult(v, agentClose, 0) {
			rc.Violation(fn, instrPos(al), "CloseErr without the agent's error", "the CloseErr built here does not carry the result of closing the agent")
		}
		if v := got[fConn]; v == nil || !isResult(v, connClose, 0) {
			rc.Violation(fn, instrPos(al), "CloseErr without the connection's error", "the CloseErr built here does not carry the result of closing the connection: when both closes fail the caller never learns that the connection is still open")
		}
	})
	if n == 0 {
		rc.Fail("Close", "no CloseErr is built in Client.Close")
		return
	}
	// nil only when both results are nil
	q := &PathQuery{P: p, Fn: fn}
	rep := map[*ssa.Return]bool{}
	q.AtReturn = func(ret *ssa.Return, st uint64, c *PathCtx) {
		if !instrDominates(agentClose.(ssa.Instruction), ret) || len(ret.Results) == 0 || c.NilState(ret.Results[0]) == -1 {
			return
		}
		agentNil, connNil := false, false
		for _, pc := range c.PathConds() {
			// a condition merged by || / && is the operand the path came through
			bo, ok := c.Resolve(pc.Cond).(*ssa.BinOp)
			if !ok || (bo.Op != token.EQL && bo.Op != token.NEQ) {
				continue
			}
			x := bo.X
			if isNilConst(x) {
				x = bo.Y
			} else if !isNilConst(bo.Y) {
				continue
			}
			isNil := (bo.Op == token.EQL) == pc.Val
			if !isNil {
				continue
			}
			if isResult(x, agentClose, 0) {
				agentNil = true
			}
			if isResult(x, connClose, 0) {
				connNil = true
			}
		}
		// the connection result may be absent on this path (connection not owned): then its merged value is nil
		if !connNil {
			visited := false
			for _, bi := range c.blocks {
				if bi == connClose.(ssa.Instruction).Block().Index {
					visited = true
				}
			}
			connNil = !visited
		}
		if (!agentNil || !connNil) && !rep[ret] {
			rep[ret] = true
			rc.ViolationPath(fn, instrPos(ret), "nil returned without both results being nil", "Close reports success on a path where the agent's or the connection's Close may have failed", c.Witness(fn, ret))
		}
	}
	q.Run()
}
