package main

import (
	"fmt"
	"go/token"
	"go/types"

	"golang.org/x/tools/go/ssa"
)

func init() { register("C19", "proof", runC19) }

// RFC 5389 figure 3: wire bit i of the 16-bit message type, as (source, bit).
// M = method, C = class.
var rfcTypeLayout = [16][2]interface{}{
	{"M", 0}, {"M", 1}, {"M", 2}, {"M", 3}, {"C", 0}, {"M", 4}, {"M", 5}, {"M", 6},
	{"C", 1}, {"M", 7}, {"M", 8}, {"M", 9}, {"M", 10}, {"M", 11}, {"0", 0}, {"0", 0},
}

// fieldLoadInput classifies loads of fields of a struct type as named inputs.
func fieldOfAddr(v ssa.Value) *types.Var {
	fa, ok := v.(*ssa.FieldAddr)
	if !ok {
		return nil
	}
	pt, ok := fa.X.Type().Underlying().(*types.Pointer)
	if !ok {
		return nil
	}
	st, ok := pt.Elem().Underlying().(*types.Struct)
	if !ok {
		return nil
	}
	return st.Field(fa.Field)
}

func runC19(r *Run) {
	p := r.P
	r.Res.Explanation = "bit-provenance abstract interpretation (BITS) of MessageType.Value and MessageType.ReadValue on the SSA form: every result bit is proved to be the RFC 5389 figure-3 source bit for all 2^16 inputs symbolically; plus the composition check that the two maps are inverse on the 14 live bits"
	r.NotDecided()
	mt := p.Named("MessageType")
	valueFn := p.Meth("MessageType", "Value")
	readFn := p.Meth("MessageType", "ReadValue")
	anchors := r.Rule("C19.anchors", "MessageType{Method,Class}, Value() and ReadValue() resolve", 4)
	var fMethod, fClass *types.Var
	if mt != nil {
		fMethod = FieldVar(mt, "Method")
		fClass = FieldVar(mt, "Class")
	}
	for name, ok := range map[string]bool{"MessageType.Method": fMethod != nil, "MessageType.Class": fClass != nil, "MessageType.Value": valueFn != nil, "MessageType.ReadValue": readFn != nil} {
		if ok {
			anchors.Instance(name, false, nil)
		} else {
			anchors.Fail(name, "anchor not found: the message type codec cannot be located, so the layout cannot be shown to hold")
		}
	}
	anchors.Done()
	if fMethod == nil || fClass == nil || valueFn == nil || readFn == nil {
		return
	}
	r.Analysed(valueFn, readFn)
	srcName := func(fv *types.Var) string {
		if fv == fMethod {
			return "M"
		}
		if fv == fClass {
			return "C"
		}
		return ""
	}

	// ---- Value(): result bits
	rv := r.Rule("C19.value", "each of the 16 result bits of MessageType.Value() is the RFC 5389 fig.3 source bit (M0-3,C0,M4-6,C1,M7-11,0,0); method bits >11 and class bits >1 reach nothing", 16)
	{
		ev := &BitEval{fn: valueFn, memo: map[ssa.Value]bitvec{}}
		recvStored := false
		ev.Input = func(v ssa.Value) (string, bool) {
			switch x := v.(type) {
			case *ssa.UnOp:
				if x.Op == token.MUL {
					if fv := fieldOfAddr(x.X); fv != nil {
						if n := srcName(fv); n != "" {
							return n, true
						}
					}
				}
			case *ssa.Field:
				if st, ok := x.X.Type().Underlying().(*types.Struct); ok {
					if n := srcName(st.Field(x.Field)); n != "" {
						return n, true
					}
				}
			}
			return "", false
		}
		// no store to the fields inside Value (other than the receiver spill)
		for _, b := range valueFn.Blocks {
			for _, in := range b.Instrs {
				if st, ok := in.(*ssa.Store); ok {
					if fv := fieldOfAddr(st.Addr); fv != nil && srcName(fv) != "" {
						rv.Violation(valueFn, st.Pos(), "store to MessageType field inside Value()", "Value() must be a pure function of the receiver; BITS cannot treat the field loads as inputs")
						recvStored = true
					}
				}
			}
		}
		var rets []*ssa.Return
		for _, b := range valueFn.Blocks {
			if ret, ok := b.Instrs[len(b.Instrs)-1].(*ssa.Return); ok {
				rets = append(rets, ret)
			}
		}
		if len(rets) == 0 || recvStored {
			rv.Fail("return", "no return found in Value()")
		}
		for _, ret := range rets {
			if len(ret.Results) != 1 {
				rv.Fail("return", "Value() does not return one value")
				continue
			}
			bv := ev.Eval(ret.Results[0])
			if len(bv) != 16 {
				rv.Violation(valueFn, ret.Pos(), "return value", "result is not a 16-bit integer")
				continue
			}
			for i := 0; i < 16; i++ {
				want := rfcTypeLayout[i]
				got := bv[i]
				ok := false
				if want[0] == "0" {
					ok = got.K == bZero
				} else {
					ok = got.K == bIn && got.Src == want[0].(string) && got.N == want[1].(int)
				}
				key := fmt.Sprintf("Value.bit%d", i)
				rv.Instance(key, true, map[string]string{"bit": key, "expected": fmt.Sprintf("%v%v", want[0], want[1]), "derived": got.String()})
				rv.Obligation(ok, false)
				if !ok {
					rv.Violation(valueFn, ret.Pos(), fmt.Sprintf("wire bit %d", i), fmt.Sprintf("Value() bit %d is %s, RFC 5389 fig.3 requires %v%v", i, got, want[0], want[1]))
				}
			}
		}
	}
	rv.Done()

	// ---- NewType(method, class): the constructor keeps every live bit
	if nt := p.Fn("NewType"); nt != nil && len(nt.Params) == 2 {
		nr := r.Rule("C19.newtype", "NewType(method, class) stores the 12 method bits and the 2 class bits unchanged (higher bits may be dropped): a constructed type encodes as fig.3 says for every method and class", 14)
		r.Analysed(nt)
		ev := &BitEval{fn: nt, memo: map[ssa.Value]bitvec{}}
		ev.Input = func(v ssa.Value) (string, bool) {
			switch v {
			case ssa.Value(nt.Params[0]):
				return "M", true
			case ssa.Value(nt.Params[1]):
				return "C", true
			}
			return "", false
		}
		stored := map[string]ssa.Value{}
		nStores := map[string]int{}
		eachInstr(nt, func(b *ssa.BasicBlock, i int, in ssa.Instruction) {
			if st, ok := in.(*ssa.Store); ok {
				if fv := fieldOfAddr(st.Addr); fv != nil && srcName(fv) != "" {
					stored[srcName(fv)] = st.Val
					nStores[srcName(fv)]++
				}
			}
		})
		for _, f := range []struct {
			src  string
			live int
		}{{"M", 12}, {"C", 2}} {
			v := stored[f.src]
			if v == nil || nStores[f.src] != 1 {
				nr.Fail("NewType field "+f.src, "the constructor does not store the field exactly once: undecided")
				continue
			}
			bv := ev.Eval(v)
			for i := 0; i < len(bv); i++ {
				got := bv[i]
				ok := got.K == bIn && got.Src == f.src && got.N == i
				if i >= f.live && got.K == bZero {
					ok = true
				}
				if i < f.live {
					key := fmt.Sprintf("NewType.%s%d", f.src, i)
					nr.Instance(key, true, map[string]string{"bit": key, "derived": got.String()})
				}
				if !ok {
					pos := nt.Pos()
					if vi, isI := v.(ssa.Instruction); isI {
						pos = instrPos(vi)
					}
					nr.Violation(nt, pos, fmt.Sprintf("NewType %s bit %d", f.src, i), fmt.Sprintf("the stored bit is %s, not %s%d of the argument: the constructed type differs from the requested one and encodes as another method/class", got, f.src, i))
				}
			}
		}
		nr.Done()
	}

	// ---- ReadValue(v): stored bits
	rr := r.Rule("C19.read", "ReadValue(v) stores Class = [v4,v8] and Method = [v0-3,v5-7,v9-13]; bits 14-15 of v and all other positions are zero", 24)
	inv := r.Rule("C19.inverse", "Value and ReadValue are mutually inverse on the 14 live bits (composition of the two derived bit maps is the identity)", 14)
	{
		ev := &BitEval{fn: readFn, memo: map[ssa.Value]bitvec{}}
		var param ssa.Value
		for _, pa := range readFn.Params {
			if _, _, ok := intWidth(pa.Type()); ok {
				param = pa
			}
		}
		ev.Input = func(v ssa.Value) (string, bool) {
			if v == param && param != nil {
				return "v", true
			}
			return "", false
		}
		stored := map[string][]bitvec{}
		var storePos = map[string]token.Pos{}
		for _, b := range readFn.Blocks {
			for _, in := range b.Instrs {
				st, ok := in.(*ssa.Store)
				if !ok {
					continue
				}
				fv := fieldOfAddr(st.Addr)
				if fv == nil || srcName(fv) == "" {
					continue
				}
				bv := ev.Eval(st.Val)
				stored[srcName(fv)] = append(stored[srcName(fv)], bv)
				storePos[srcName(fv)] = st.Pos()
			}
		}
		// expected: for input wire bit i -> (field, bit)
		expect := map[string]map[int]int{"M": {}, "C": {}} // field -> field bit -> wire bit
		for i := 0; i < 14; i++ {
			expect[rfcTypeLayout[i][0].(string)][rfcTypeLayout[i][1].(int)] = i
		}
		for _, fld := range []string{"C", "M"} {
			if len(stored[fld]) == 0 {
				rr.Fail("store to "+fld, "ReadValue does not store the "+map[string]string{"C": "Class", "M": "Method"}[fld]+" field (or stores it in a form BITS cannot follow)")
				continue
			}
			for _, bv := range stored[fld] {
				if bv == nil {
					rr.Violation(readFn, storePos[fld], "store to "+fld, "stored value is not an integer BITS can follow")
					continue
				}
				for k := range bv {
					want := abit{K: bZero}
					if wi, ok := expect[fld][k]; ok {
						want = abit{K: bIn, Src: "v", N: wi}
					}
					ok := bv[k] == want
					key := fmt.Sprintf("ReadValue.%s%d", fld, k)
					rr.Instance(key, true, map[string]string{"bit": key, "expected": want.String(), "derived": bv[k].String()})
					rr.Obligation(ok, false)
					if !ok {
						rr.Violation(readFn, storePos[fld], fmt.Sprintf("%s bit %d", fld, k), fmt.Sprintf("ReadValue stores %s into %s bit %d, RFC 5389 fig.3 requires %s", bv[k], fld, k, want))
					}
					// inverse obligation: wire bit wi -> (fld,k) -> Value places (fld,k) at wire bit wi: by the two tables above both
					if wi, isLive := expect[fld][k]; isLive {
						okInv := ok && rfcTypeLayout[wi][0].(string) == fld && rfcTypeLayout[wi][1].(int) == k
						inv.Instance(fmt.Sprintf("wire%d", wi), true, nil)
						inv.Obligation(okInv, false)
					}
				}
			}
		}
	}
	// every path of ReadValue assigns both fields: the decoded type is a function of v alone, whatever
	// the receiver held before (counted under C19.read: two more obligations)
	{
		need := map[string]uint64{"M": 1, "C": 2}
		rep := map[*ssa.Return]bool{}
		q := &PathQuery{P: p, Fn: readFn}
		q.Step = func(in ssa.Instruction, deferred bool, st uint64, c *PathCtx) (uint64, bool) {
			if s, ok := in.(*ssa.Store); ok {
				if fv := fieldOfAddr(s.Addr); fv != nil {
					st |= need[srcName(fv)]
				}
			}
			return st, false
		}
		okAll := true
		q.AtReturn = func(ret *ssa.Return, st uint64, c *PathCtx) {
			if st&3 != 3 && !rep[ret] {
				rep[ret] = true
				okAll = false
				rr.ViolationPath(readFn, instrPos(ret), "return without assigning Method and Class", "on this path ReadValue leaves (part of) the receiver as it was: the decoded type depends on what the MessageType held before, not only on the wire value", c.Witness(readFn, ret))
			}
		}
		q.Run()
		rr.Instance("ReadValue.total", true, nil)
		rr.Obligation(okAll && !q.Exhausted, false)
	}
	rr.Done()
	inv.Done()
	// ---- the codec is total: nothing in Value / ReadValue / NewType (and what they call) can panic
	{
		tr := r.Rule("C19.total", "MessageType.Value, ReadValue and NewType, with every module function they call, contain no explicit panic, unchecked type assertion or unproved index/slice/division in any build configuration: encoding and decoding are defined on the whole 4096 x 4 domain", 3)
		var roots []*ssa.Function
		roots = append(roots, valueFn, readFn)
		if nt := p.Fn("NewType"); nt != nil {
			roots = append(roots, nt)
		}
		seen := map[*ssa.Function]bool{}
		var order []*ssa.Function
		var visit func(f *ssa.Function)
		visit = func(f *ssa.Function) {
			if f == nil || seen[f] || f.Blocks == nil || !p.isLibFn(f) {
				return
			}
			seen[f] = true
			order = append(order, f)
			for _, cs := range p.CG().Sites[f] {
				for _, g := range cs.Callees {
					visit(g)
				}
			}
			for _, a := range f.AnonFuncs {
				visit(a)
			}
		}
		for _, f := range roots {
			visit(f)
		}
		for _, f := range order {
			r.Analysed(f)
			bad := 0
			for _, ps := range panicConstructs(f) {
				bad++
				tr.Violation(f, instrPos(ps.In), ps.Desc, "the message type codec can panic here: for the methods/classes that reach this statement encoding (or decoding) is not defined, so the two are not inverse on the whole domain")
			}
			pr := newProver(p, f)
			for _, ob := range boundsObligations(pr, f) {
				if ok, _, failed, _ := dischargeObligation(pr, ob); !ok {
					bad++
					tr.Violation(f, instrPos(ob.In), ob.Desc, "cannot prove "+failed+": the message type codec may panic for some method/class")
				}
			}
			tr.Instance(fnName(f), true, map[string]interface{}{"fn": fnName(f), "panic_sites": bad})
		}
		tr.Done()
	}
	// ---- the setters hand the type on as given
	{
		st := r.Rule("C19.settype", "MessageType.AddTo passes its receiver to SetType unchanged and SetType stores its argument into Message.Type unchanged (whole value, no field rewritten on the way): the type a setter or Build encodes is the one that was asked for, for every method and class", 2)
		msg := p.Named("Message")
		setType := p.Meth("Message", "SetType")
		addTo := p.MethodOf(mt, "AddTo")
		// v is the parameter pa of fn as given: pa itself, or a load of its spill slot that nothing else writes
		asGiven := func(fn *ssa.Function, v ssa.Value, pa *ssa.Parameter) bool {
			if v == ssa.Value(pa) {
				return true
			}
			ld, ok := v.(*ssa.UnOp)
			if !ok || ld.Op != token.MUL {
				return false
			}
			al, ok := ld.X.(*ssa.Alloc)
			if !ok {
				return false
			}
			okAll := false
			for _, u := range *al.Referrers() {
				switch y := u.(type) {
				case *ssa.Store:
					if y.Addr == ssa.Value(al) && y.Val == ssa.Value(pa) {
						okAll = true
					} else {
						return false
					}
				case *ssa.FieldAddr:
					for _, u2 := range *y.Referrers() {
						if s2, isS := u2.(*ssa.Store); isS && s2.Addr == ssa.Value(y) {
							return false // a field of the copy is rewritten
						}
					}
				}
			}
			return okAll
		}
		if addTo != nil && setType != nil && len(addTo.Params) >= 1 {
			r.Analysed(addTo)
			n := 0
			eachInstr(addTo, func(b *ssa.BasicBlock, i int, in ssa.Instruction) {
				c, ok := in.(*ssa.Call)
				if !ok || !callsFn(c, setType) || len(c.Call.Args) != 2 {
					return
				}
				n++
				st.Instance(fnName(addTo)+"|SetType", true, nil)
				if !asGiven(addTo, c.Call.Args[1], addTo.Params[0]) {
					st.Violation(addTo, instrPos(c), "SetType("+exprDepth(c.Call.Args[1], 0)+")", "the type handed to SetType is not the receiver as given: for some method/class the message is typed differently from what the setter was asked for, so what is encoded does not decode to the requested type")
				}
			})
			if n == 0 && msg != nil {
				// SetType written out in place: the store of Message.Type takes the receiver as given
				for _, a := range fieldAccesses(addTo, FieldVar(msg, "Type")) {
					if a.Kind != "store" {
						continue
					}
					n++
					st.Instance(fnName(addTo)+"|store Type", true, nil)
					if !asGiven(addTo, a.Instr.(*ssa.Store).Val, addTo.Params[0]) {
						st.Violation(addTo, instrPos(a.Instr), "Message.Type = "+exprDepth(a.Instr.(*ssa.Store).Val, 0), "the type stored into the message is not the receiver as given")
					}
				}
			}
			if n == 0 {
				st.Fail(fnName(addTo), "MessageType.AddTo neither calls SetType nor stores Message.Type")
			}
		} else {
			st.Fail("MessageType.AddTo / Message.SetType", "not found")
		}
		if setType != nil && msg != nil && len(setType.Params) == 2 {
			r.Analysed(setType)
			typeF := FieldVar(msg, "Type")
			n := 0
			for _, a := range fieldAccesses(setType, typeF) {
				if a.Kind != "store" {
					continue
				}
				n++
				st.Instance(fnName(setType)+"|store Type", true, nil)
				if !asGiven(setType, a.Instr.(*ssa.Store).Val, setType.Params[1]) {
					st.Violation(setType, instrPos(a.Instr), "Message.Type = "+exprDepth(a.Instr.(*ssa.Store).Val, 0), "SetType does not store the type it was given")
				}
			}
			if n == 0 {
				st.Fail(fnName(setType), "SetType does not store Message.Type")
			}
		}
		st.Done()
	}
	// ---- every successful decode passes the type word through ReadValue
	if dm := p.Meth("Message", "Decode"); dm != nil {
		dc := r.Rule("C19.decode", "on every path of Decode that reports success, ReadValue has been called on the message's Type with the 16-bit word at bytes [0:2) of Raw: the decoded type is a function of the received header alone, never a value kept from an earlier use of the message", 1)
		r.Analysed(dm)
		isTypeWord := func(v ssa.Value) bool {
			v = stripConvs(canonPhi(stripConvs(v)))
			c, ok := v.(*ssa.Call)
			if !ok {
				return false
			}
			name, _, buf, okA := accessorCall(c)
			if !okA || name != "Uint16" {
				return false
			}
			sl, isSl := buf.(*ssa.Slice)
			if !isSl {
				return false
			}
			lo, hi := int64(0), int64(-1)
			if sl.Low != nil {
				lo, _ = constInt(sl.Low)
			}
			if sl.High != nil {
				hi, _ = constInt(sl.High)
			}
			return lo == 0 && hi == 2
		}
		idx := errorResultIndex(dm)
		rep := map[*ssa.Return]bool{}
		nSucc := 0
		q := &PathQuery{P: p, Fn: dm}
		q.Step = func(in ssa.Instruction, deferred bool, st uint64, c *PathCtx) (uint64, bool) {
			if cl, ok := in.(*ssa.Call); ok && callsFn(cl, readFn) && len(cl.Call.Args) == 2 {
				if isTypeWord(c.Resolve(cl.Call.Args[1])) || isTypeWord(cl.Call.Args[1]) {
					return st | 1, false
				}
			}
			return st, false
		}
		q.AtReturn = func(ret *ssa.Return, st uint64, c *PathCtx) {
			if idx < 0 || c.NilState(ret.Results[idx]) == -1 {
				return
			}
			nSucc++
			if st&1 == 0 && !rep[ret] {
				rep[ret] = true
				dc.ViolationPath(dm, instrPos(ret), "success without ReadValue of the type word", "Decode reports success on a path that did not decode the type word: the message keeps the type of its previous use (a reused message that was retyped in between decodes the same header to a different type)", c.Witness(dm, ret))
			}
		}
		q.Run()
		dc.Instance(fnName(dm), true, map[string]int{"success_paths": nSucc})
		if nSucc == 0 || q.Exhausted {
			dc.Fail(fnName(dm), "no success path of Decode explored (or exploration exhausted): undecided")
		}
		dc.Done()
	}
	// the type value reaches bytes [0:2) of the header unchanged (shared with C03)
	r.Borrow("C03", map[string]string{"C03.header": "C19.header", "C03.hdrbounds": "C19.hdrbounds", "C03.cohere": "C19.cohere"})
}
