package main

// Helper normalisation.
//
// The rules of this checker are written against the functions of the reference tree: the entry
// points, and the unexported helpers listed in knownHelpers, which the rules resolve by role.  An
// edit that moves a few statements of such a function into a NEW unexported helper does not change
// behaviour, but it hides those statements from a rule that looks at one function at a time.  Before
// the program is analysed, every call of an unexported library function that is not a known helper
// is therefore replaced by the helper's body (source-level inlining into an overlay; /repo is never
// written), and a helper whose every use could be replaced is dropped.  The rules then see the
// helper-free normal form; positions still refer to the original files (line directives).
//
// The transformation is semantics-preserving by construction or it is not applied:
//   - arguments and receiver are evaluated once, in order, into fresh variables, before the body;
//   - the call must be the first call/receive evaluated in its statement and must not be evaluated
//     conditionally (right operand of && or ||), so hoisting it in front of the statement keeps the
//     order of all calls (the Go specification orders only calls, receives and logical operators);
//   - helpers with defer, recover, labels, variadic or type parameters, and recursive helpers, are
//     left alone; so are call sites in for-headers, select cases, go/defer statements, and sites
//     where an identifier of the helper's body would resolve differently;
//   - the result is type-checked again; if anything fails to type-check the whole normalisation is
//     abandoned and the tree is analysed as written.

import (
	"bytes"
	"fmt"
	"go/ast"
	"go/parser"
	"go/token"
	"go/types"
	"os"
	"sort"
	"strings"

	"golang.org/x/tools/go/packages"
)

// knownHelpers: the unexported functions of the reference tree.  Rules resolve these by role (or
// handle them through summaries), so they stay functions.  Keyed by package-relative name.
var knownHelpers = map[string]bool{
	"attrNames": true, "nearestPaddedValueLength": true, "compatAttrType": true,
	"checkHMAC": true, "checkFingerprint": true,
	"clientFinalizer": true, "clientTransaction.handle": true, "acquireClientTransaction": true,
	"putClientTransaction": true, "clientTransaction.nextTimeout": true, "Client.start": true,
	"systemClock": true, "sprintErr": true, "Client.readUntilClosed": true, "closedOrPanic": true,
	"callbackWaitHandler.wait": true, "callbackWaitHandler.setCallback": true, "Client.checkInit": true,
	"Client.delete": true, "Client.handleAgentCallback": true,
	"newDecodeErr": true, "newAttrDecodeErr": true, "newHMAC": true, "Message.grow": true,
	"attrSliceEqual": true, "attrEqual": true, "methodName": true, "readFullOrPanic": true,
	"writeOrPanic": true, "parseProto": true, "isIPv4": true, "isZeros": true,
	"hmac:hmac.resetTo": true, "hmac:assertHMACSize": true,
	"init": true, "main": true,
}

// tagSiblings: per package, the plain functions declared both in the compiled files and in a file that the
// current build configuration excludes.
var tagSiblings = map[string]map[string]bool{}

type inlineNote struct {
	Helper string `json:"helper"`
	Into   string `json:"into"`
	At     string `json:"at"`
}

type inlineResult struct {
	Overlay map[string][]byte
	Notes   []inlineNote
	Skipped []string
	Removed []string
}

type textEdit struct {
	start, end int
	text       string
}

type srcFile struct {
	name string
	src  []byte
	ast  *ast.File
}

type srcPkg struct {
	path  string
	name  string
	fset  *token.FileSet
	files []*srcFile
	info  *types.Info
	pkg   *types.Package
}

func helperKey(pkgPath string, fn *types.Func) string {
	k := ""
	if pkgPath != modulePath {
		k = pkgPath[strings.LastIndex(pkgPath, "/")+1:] + ":"
	}
	sig := fn.Type().(*types.Signature)
	if r := sig.Recv(); r != nil {
		t := r.Type()
		if pt, ok := t.(*types.Pointer); ok {
			t = pt.Elem()
		}
		if n, ok := t.(*types.Named); ok {
			k += n.Obj().Name() + "."
		}
	}
	return k + fn.Name()
}

// inlineNewHelpers computes the overlay; nil result means nothing to do.
func inlineNewHelpers(initial []*packages.Package, all []*packages.Package, goarch string) (*inlineResult, error) {
	byPath := map[string]*types.Package{}
	for _, pk := range all {
		if pk.Types != nil {
			byPath[pk.PkgPath] = pk.Types
		}
	}
	res := &inlineResult{Overlay: map[string][]byte{}}
	for _, pk := range initial {
		if !(pk.PkgPath == modulePath || strings.HasPrefix(pk.PkgPath, modulePath+"/internal/")) {
			continue
		}
		sp := &srcPkg{path: pk.PkgPath, name: pk.Name, fset: pk.Fset, info: pk.TypesInfo, pkg: pk.Types}
		// plain functions that a file excluded by its build constraint declares too (release/debug siblings)
		{
			other := map[string]bool{}
			for _, fnm := range pk.IgnoredFiles {
				if !strings.HasSuffix(fnm, ".go") || strings.HasSuffix(fnm, "_test.go") {
					continue
				}
				af, err := parser.ParseFile(token.NewFileSet(), fnm, nil, parser.SkipObjectResolution)
				if err != nil {
					continue
				}
				for _, d := range af.Decls {
					if fd, ok := d.(*ast.FuncDecl); ok && fd.Recv == nil {
						other[fd.Name.Name] = true
					}
				}
			}
			sib := map[string]bool{}
			for _, f := range pk.Syntax {
				for _, d := range f.Decls {
					if fd, ok := d.(*ast.FuncDecl); ok && fd.Recv == nil && other[fd.Name.Name] {
						sib[fd.Name.Name] = true
					}
				}
			}
			tagSiblings[pk.PkgPath] = sib
		}
		for i, f := range pk.Syntax {
			name := pk.CompiledGoFiles[i]
			src, err := os.ReadFile(name)
			if err != nil {
				return nil, err
			}
			sp.files = append(sp.files, &srcFile{name: name, src: src, ast: f})
		}
		goVersion := ""
		if pk.Module != nil && pk.Module.GoVersion != "" {
			goVersion = "go" + pk.Module.GoVersion
		}
		recheck := func() error {
			nfset := token.NewFileSet()
			var asts []*ast.File
			for _, f := range sp.files {
				af, err := parser.ParseFile(nfset, f.name, f.src, parser.ParseComments|parser.SkipObjectResolution)
				if err != nil {
					return fmt.Errorf("normalised source does not parse: %v", err)
				}
				f.ast = af
				asts = append(asts, af)
			}
			info := &types.Info{
				Types: map[ast.Expr]types.TypeAndValue{}, Defs: map[*ast.Ident]types.Object{}, Uses: map[*ast.Ident]types.Object{},
				Selections: map[*ast.SelectorExpr]*types.Selection{}, Scopes: map[ast.Node]*types.Scope{}, Implicits: map[ast.Node]types.Object{},
			}
			var terr error
			conf := types.Config{
				Importer: importerFunc(func(path string) (*types.Package, error) {
					if p, ok := byPath[path]; ok {
						return p, nil
					}
					return nil, fmt.Errorf("import %q not loaded", path)
				}),
				Sizes:     types.SizesFor("gc", goarch),
				GoVersion: goVersion,
				Error: func(err error) {
					if terr == nil {
						terr = err
					}
				},
			}
			npkg, _ := conf.Check(sp.path, nfset, asts, info)
			if terr != nil {
				return fmt.Errorf("normalised source does not type-check: %v", terr)
			}
			sp.fset, sp.info, sp.pkg = nfset, info, npkg
			return nil
		}
		changedAny := false
		for round := 0; round < 4; round++ {
			changed, err := inlineRound(sp, res, round)
			if err != nil {
				return nil, err
			}
			if !changed {
				break
			}
			changedAny = true
			if err := recheck(); err != nil {
				return nil, err
			}
		}
		// scalar replacement of local struct variables whose fields are only ever used one by one
		{
			saved := make([][]byte, len(sp.files))
			for i, f := range sp.files {
				saved[i] = f.src
			}
			sfset, sinfo, spkg := sp.fset, sp.info, sp.pkg
			sasts := make([]*ast.File, len(sp.files))
			for i, f := range sp.files {
				sasts[i] = f.ast
			}
			notes := len(res.Notes)
			if sraRound(sp, res) {
				if err := recheck(); err != nil {
					// not applied: the tree is analysed without this step
					for i, f := range sp.files {
						f.src, f.ast = saved[i], sasts[i]
					}
					sp.fset, sp.info, sp.pkg = sfset, sinfo, spkg
					res.Notes = res.Notes[:notes]
					res.Skipped = append(res.Skipped, "scalar replacement abandoned: "+err.Error())
				} else {
					changedAny = true
				}
			}
		}
		if changedAny {
			for _, f := range sp.files {
				orig, _ := os.ReadFile(f.name)
				if !bytes.Equal(orig, f.src) {
					res.Overlay[f.name] = f.src
				}
			}
		}
	}
	if len(res.Overlay) == 0 {
		return nil, nil
	}
	return res, nil
}

type importerFunc func(path string) (*types.Package, error)

func (f importerFunc) Import(path string) (*types.Package, error) { return f(path) }

type helperCand struct {
	decl    *ast.FuncDecl // nil for a function literal bound to a local variable
	node    ast.Node      // the FuncDecl or FuncLit
	ftype   *ast.FuncType
	body    *ast.BlockStmt
	recv    *ast.FieldList
	sig     *types.Signature
	file    *srcFile
	obj     *types.Func
	key     string
	keep    bool // some use could not be inlined: keep the declaration
	inlined int
	// hasDefer: the body defers; such a helper is inlined only where its return coincides with the
	// caller's (a call statement in tail position), or as a function literal under defer/go
	hasDefer bool
}

// eligibleHelper: structural conditions on the helper itself.
func eligibleHelper(d *ast.FuncDecl, info *types.Info, obj *types.Func) (bool, string) {
	return eligibleFunc(d.Type, d.Recv, d.Body, info, obj)
}

// eligibleFunc: the same conditions for a declaration or a function literal (self: the object through
// which the function would call itself).
func eligibleFunc(ftype *ast.FuncType, recv *ast.FieldList, body *ast.BlockStmt, info *types.Info, self types.Object) (bool, string) {
	d := &ast.FuncDecl{Type: ftype, Recv: recv, Body: body}
	obj := self
	if d.Type.TypeParams != nil && len(d.Type.TypeParams.List) > 0 {
		return false, "type parameters"
	}
	if d.Recv != nil {
		for _, f := range d.Recv.List {
			if _, isIdx := f.Type.(*ast.IndexExpr); isIdx {
				return false, "generic receiver"
			}
			if st, isStar := f.Type.(*ast.StarExpr); isStar {
				if _, isIdx := st.X.(*ast.IndexExpr); isIdx {
					return false, "generic receiver"
				}
			}
		}
	}
	if d.Type.Params != nil {
		for _, f := range d.Type.Params.List {
			if _, isV := f.Type.(*ast.Ellipsis); isV {
				return false, "variadic"
			}
		}
	}
	bad := ""
	hasDefer := false
	namedBlank := false
	if d.Type.Results != nil {
		for _, f := range d.Type.Results.List {
			for _, n := range f.Names {
				if n.Name == "_" {
					namedBlank = true
				}
			}
		}
	}
	ast.Inspect(d.Body, func(n ast.Node) bool {
		switch x := n.(type) {
		case *ast.FuncLit:
			return false
		case *ast.DeferStmt:
			hasDefer = true
		case *ast.LabeledStmt:
			bad = "label"
		case *ast.BranchStmt:
			if x.Tok == token.GOTO {
				bad = "goto"
			}
		case *ast.ReturnStmt:
			if len(x.Results) == 0 && namedBlank {
				bad = "bare return with blank named result"
			}
		case *ast.CallExpr:
			if id, ok := x.Fun.(*ast.Ident); ok {
				if b, ok := info.Uses[id].(*types.Builtin); ok && b.Name() == "recover" {
					bad = "recover"
				}
			}
		case *ast.Ident:
			if obj != nil && info.Uses[x] == obj {
				bad = "recursive"
			}
		}
		return true
	})
	if bad != "" {
		return false, bad
	}
	if hasDefer {
		return true, "defer"
	}
	return true, ""
}

// constTableFunc: a plain function of one scalar parameter and one integer result whose body only branches
// (switch / if) and returns constants, at least three of them (a lookup table written as code).
func constTableFunc(fd *ast.FuncDecl, info *types.Info) bool {
	if fd.Recv != nil || fd.Type.Params == nil || fd.Type.Results == nil || fd.Body == nil {
		return false
	}
	np := 0
	for _, f := range fd.Type.Params.List {
		n := len(f.Names)
		if n == 0 {
			n = 1
		}
		np += n
		if tv, ok := info.Types[f.Type]; !ok || tv.Type == nil {
			return false
		} else if _, isB := tv.Type.Underlying().(*types.Basic); !isB {
			return false
		}
	}
	if np != 1 || len(fd.Type.Results.List) != 1 || len(fd.Type.Results.List[0].Names) > 0 {
		return false
	}
	if tv, ok := info.Types[fd.Type.Results.List[0].Type]; !ok || tv.Type == nil {
		return false
	} else if b, isB := tv.Type.Underlying().(*types.Basic); !isB || b.Info()&types.IsInteger == 0 {
		return false // (a two-way choice or a function to strings is inlined like any other helper)
	}
	okAll, nRet := true, 0
	ast.Inspect(fd.Body, func(n ast.Node) bool {
		switch x := n.(type) {
		case *ast.ReturnStmt:
			nRet++
			if len(x.Results) != 1 {
				okAll = false
			} else if tv, ok := info.Types[x.Results[0]]; !ok || tv.Value == nil {
				okAll = false
			}
		case *ast.AssignStmt, *ast.IncDecStmt, *ast.GoStmt, *ast.DeferStmt, *ast.ForStmt, *ast.RangeStmt, *ast.SendStmt, *ast.FuncLit:
			okAll = false
		case *ast.CallExpr:
			if tv, ok := info.Types[x.Fun]; !ok || !tv.IsType() {
				okAll = false
			}
		}
		return okAll
	})
	return okAll && nRet >= 3
}

// forCondOf: the for statement without init and post statements whose condition contains n.
func forCondOf(parents map[ast.Node]ast.Node, n ast.Node) *ast.ForStmt {
	child := n
	for x := parents[n]; x != nil; x = parents[x] {
		switch y := x.(type) {
		case *ast.ForStmt:
			if y.Cond != nil && ast.Node(y.Cond) == child && y.Init == nil && y.Post == nil {
				return y
			}
			return nil
		case ast.Stmt, *ast.FuncLit:
			return nil
		}
		child = x
	}
	return nil
}

func buildParents(f *ast.File) map[ast.Node]ast.Node {
	parents := map[ast.Node]ast.Node{}
	var stack []ast.Node
	ast.Inspect(f, func(n ast.Node) bool {
		if n == nil {
			stack = stack[:len(stack)-1]
			return true
		}
		if len(stack) > 0 {
			parents[n] = stack[len(stack)-1]
		}
		stack = append(stack, n)
		return true
	})
	return parents
}

func isListContainer(n ast.Node) bool {
	switch n.(type) {
	case *ast.BlockStmt, *ast.CaseClause, *ast.CommClause:
		return true
	}
	return false
}

func (sp *srcPkg) posStr(p token.Pos) string {
	ps := sp.fset.Position(p) // adjusted by line directives of earlier rounds
	return fmt.Sprintf("%s:%d:%d", ps.Filename, ps.Line, ps.Column)
}

func (sp *srcPkg) off(p token.Pos) int { return sp.fset.PositionFor(p, false).Offset }

func (sp *srcPkg) lineDirective(p token.Pos) string {
	return "/*line " + sp.posStr(p) + "*/"
}

func (sp *srcPkg) text(f *srcFile, from, to token.Pos) string {
	return string(f.src[sp.off(from):sp.off(to)])
}

var inlineCounter int

// inlineRound performs one round over the package; returns whether any file changed.
func inlineRound(sp *srcPkg, res *inlineResult, round int) (bool, error) {
	info := sp.info
	var roleFiles []*ast.File
	for _, f := range sp.files {
		roleFiles = append(roleFiles, f.ast)
	}
	roleAlias := roleAliasesOfSource(roleFiles, info, sp.pkg, sp.path)
	cands := map[*types.Func]*helperCand{}
	declFile := map[*ast.FuncDecl]*srcFile{}
	candDecl := map[*ast.FuncDecl]bool{}
	for _, f := range sp.files {
		for _, d := range f.ast.Decls {
			fd, ok := d.(*ast.FuncDecl)
			if !ok || fd.Body == nil {
				continue
			}
			declFile[fd] = f
			if ast.IsExported(fd.Name.Name) || fd.Name.Name == "_" {
				continue
			}
			obj, _ := info.Defs[fd.Name].(*types.Func)
			if obj == nil {
				continue
			}
			key := helperKey(sp.path, obj)
			if knownHelpers[key] {
				continue
			}
			if _, renamed := roleAlias[key]; renamed {
				continue // a reference helper under a new name: stays a function
			}
			if fd.Recv == nil && tagSiblings[sp.path][fd.Name.Name] {
				// a function that the other build-tag variant of the package declares too stays a function: the two
				// variants are compared with each other (rule *.tags)
				continue
			}
			if constTableFunc(fd, info) {
				// a function from one scalar to constants (a lookup written as a switch): kept a function, the rules
				// evaluate it for the constant arguments it is called with (CONSTTABLE)
				continue
			}
			ok, why := eligibleHelper(fd, info, obj)
			if !ok {
				if round == 0 {
					res.Skipped = append(res.Skipped, key+": "+why)
				}
				continue
			}
			cands[obj] = &helperCand{decl: fd, node: fd, ftype: fd.Type, body: fd.Body, recv: fd.Recv, sig: obj.Type().(*types.Signature), file: f, obj: obj, key: key, hasDefer: why == "defer"}
			candDecl[fd] = true
		}
	}
	edits := map[*srcFile][]textEdit{}
	addImports := map[*srcFile]map[string]string{}
	usedStmt := map[ast.Node]bool{}
	for _, f := range sp.files {
		parents := buildParents(f.ast)
		// enclosing function declaration of a node
		enclosing := func(n ast.Node) *ast.FuncDecl {
			for x := n; x != nil; x = parents[x] {
				if fd, ok := x.(*ast.FuncDecl); ok {
					return fd
				}
			}
			return nil
		}
		var idents []*ast.Ident
		ast.Inspect(f.ast, func(n ast.Node) bool {
			if id, ok := n.(*ast.Ident); ok {
				if fo, ok := info.Uses[id].(*types.Func); ok && cands[fo] != nil {
					idents = append(idents, id)
				}
			}
			return true
		})
		sort.Slice(idents, func(i, j int) bool { return idents[i].Pos() < idents[j].Pos() })
		for _, id := range idents {
			c := cands[info.Uses[id].(*types.Func)]
			// the call expression
			var call *ast.CallExpr
			var sel *ast.SelectorExpr
			switch pn := parents[id].(type) {
			case *ast.CallExpr:
				if pn.Fun == ast.Expr(id) {
					call = pn
				}
			case *ast.SelectorExpr:
				if pn.Sel == id {
					if cc, ok := parents[pn].(*ast.CallExpr); ok && cc.Fun == ast.Expr(pn) {
						call, sel = cc, pn
					}
				}
			}
			encl := enclosing(id)
			if call == nil || encl == nil {
				c.keep = true
				continue
			}
			if encl.Name.Name == "_" {
				continue // the blanked remains of an inlined helper: dead code
			}
			if candDecl[encl] {
				// a use inside another candidate: handled once that candidate has been inlined
				c.keep = true
				continue
			}
			// a call in the condition of a plain `for cond { ... }`: the loop is first rewritten to the equivalent
			// `for { if !(cond) { break }; ... }` (continue still re-evaluates the condition at the top); the
			// next round inlines the call in the if statement
			if fs := forCondOf(parents, call); fs != nil {
				c.keep = true
				if !usedStmt[fs] {
					usedStmt[fs] = true
					edits[f] = append(edits[f], textEdit{sp.off(fs.For), sp.off(fs.Body.Lbrace) + 1,
						"for { if !(" + sp.text(f, fs.Cond.Pos(), fs.Cond.End()) + ") { break };"})
				}
				continue
			}
			ok, why := sp.inlineSite(f, c, call, sel, parents, edits, addImports, usedStmt)
			if !ok {
				c.keep = true
				res.Skipped = append(res.Skipped, fmt.Sprintf("%s at %s: %s", c.key, sp.posStr(call.Pos()), why))
				continue
			}
			c.inlined++
			res.Notes = append(res.Notes, inlineNote{Helper: c.key, Into: encl.Name.Name, At: sp.posStr(call.Pos())})
		}
	}
	// calls of function literals bound to local variables (`f := func(...) {...}; ...; f(x)`)
	if len(edits) == 0 {
		for _, f := range sp.files {
			sp.inlineLiteralCalls(f, res, edits, addImports, usedStmt)
		}
	}
	changed := false
	// remove fully inlined helpers
	for _, c := range cands {
		if c.keep || c.inlined == 0 {
			continue
		}
		// blank the name: the declaration stays (its imports stay used) but is no function of the program any more
		edits[c.file] = append(edits[c.file], textEdit{sp.off(c.decl.Name.Pos()), sp.off(c.decl.Name.End()), "_" + sp.lineDirective(c.decl.Name.End())})
		res.Removed = append(res.Removed, c.key)
	}
	for _, f := range sp.files {
		es := edits[f]
		if len(es) == 0 && len(addImports[f]) == 0 {
			continue
		}
		sort.SliceStable(es, func(i, j int) bool { return es[i].start > es[j].start })
		// overlapping edits: drop the later (inner) one conservatively by failing
		for i := 1; i < len(es); i++ {
			if es[i].end > es[i-1].start || es[i].start == es[i-1].start {
				return false, fmt.Errorf("overlapping edits in %s", f.name)
			}
		}
		src := f.src
		for _, e := range es {
			src = append(append(append([]byte{}, src[:e.start]...), e.text...), src[e.end:]...)
		}
		if imps := addImports[f]; len(imps) > 0 {
			// insert after the package clause
			at := sp.off(f.ast.Name.End())
			var names []string
			for n := range imps {
				names = append(names, n)
			}
			sort.Strings(names)
			ins := ""
			for _, n := range names {
				ins += fmt.Sprintf("; import %s %q", n, imps[n])
			}
			ins += sp.lineDirective(f.ast.Name.End())
			src = append(append(append([]byte{}, src[:at]...), ins...), src[at:]...)
		}
		f.src = src
		changed = true
	}
	return changed, nil
}

// transparentCall: conversions and len/cap do not count as calls for the evaluation-order argument.
func transparentCall(info *types.Info, c *ast.CallExpr) bool {
	if tv, ok := info.Types[c.Fun]; ok && tv.IsType() {
		return true
	}
	if id, ok := c.Fun.(*ast.Ident); ok {
		if b, ok := info.Uses[id].(*types.Builtin); ok && (b.Name() == "len" || b.Name() == "cap") {
			return true
		}
	}
	return false
}

func containsNode(outer, inner ast.Node) bool {
	return outer.Pos() <= inner.Pos() && inner.End() <= outer.End()
}

// inlineSite plans the edits for one call site.
func (sp *srcPkg) inlineSite(f *srcFile, c *helperCand, call *ast.CallExpr, sel *ast.SelectorExpr, parents map[ast.Node]ast.Node,
	edits map[*srcFile][]textEdit, addImports map[*srcFile]map[string]string, usedStmt map[ast.Node]bool) (bool, string) {
	info := sp.info
	sig := c.sig
	if call.Ellipsis.IsValid() {
		return false, "spread call"
	}
	if len(call.Args) != sig.Params().Len() {
		return false, "argument count (multi-value spread)"
	}
	// ---- statement context
	var stmt ast.Stmt
	for x := ast.Node(call); x != nil; x = parents[x] {
		if _, isLit := x.(*ast.FuncLit); isLit && x != ast.Node(call) {
			// the nearest statement lies inside the literal; found below before reaching it
		}
		if s, ok := x.(ast.Stmt); ok {
			stmt = s
			break
		}
	}
	if stmt == nil {
		return false, "not in a statement"
	}
	// defer helper(args) / go helper(args): the helper becomes a function literal with the same
	// parameters, called with the same operands (evaluated at the defer/go statement as before)
	switch ds := stmt.(type) {
	case *ast.DeferStmt:
		if ds.Call == call {
			return sp.inlineAsLiteral(f, c, call, sel, edits, addImports, usedStmt, stmt)
		}
	case *ast.GoStmt:
		if ds.Call == call {
			return sp.inlineAsLiteral(f, c, call, sel, edits, addImports, usedStmt, stmt)
		}
	}
	if c.hasDefer {
		// only where the helper's return is the caller's return: a call statement that is the last
		// statement of the function body (or is followed by a bare return only)
		es, isES := stmt.(*ast.ExprStmt)
		fd := enclosingFuncDecl(parents, stmt)
		if !isES || es.X != ast.Expr(call) || fd == nil || parents[stmt] != ast.Node(fd.Body) {
			return false, "helper with defer: not a tail call statement"
		}
		list := fd.Body.List
		pos := -1
		for i, s := range list {
			if s == stmt {
				pos = i
			}
		}
		tail := pos == len(list)-1
		if pos == len(list)-2 {
			if r, isRet := list[pos+1].(*ast.ReturnStmt); isRet && len(r.Results) == 0 {
				tail = true
			}
		}
		if !tail {
			return false, "helper with defer: not a tail call statement"
		}
	}
	// conditional evaluation / other calls first
	for x := ast.Node(call); x != ast.Node(stmt); x = parents[x] {
		if be, ok := parents[x].(*ast.BinaryExpr); ok && (be.Op == token.LAND || be.Op == token.LOR) && be.Y == x {
			return false, "evaluated conditionally"
		}
		if _, ok := parents[x].(*ast.FuncLit); ok {
			return false, "inside a function literal expression"
		}
	}
	var region ast.Node = stmt
	insertAt := stmt // statement in front of which the body goes
	wholeStmt := false
	switch s := stmt.(type) {
	case *ast.ExprStmt:
		if s.X == ast.Expr(call) {
			wholeStmt = true
		}
	case *ast.AssignStmt, *ast.ReturnStmt, *ast.DeclStmt, *ast.IncDecStmt, *ast.SendStmt:
	case *ast.IfStmt:
		if s.Init != nil || !containsNode(s.Cond, call) {
			return false, "if with init"
		}
		region = s.Cond
	case *ast.SwitchStmt:
		if s.Init != nil || s.Tag == nil || !containsNode(s.Tag, call) {
			return false, "switch header"
		}
		region = s.Tag
	case *ast.RangeStmt:
		if !containsNode(s.X, call) {
			return false, "range header"
		}
		region = s.X
	default:
		return false, fmt.Sprintf("statement kind %T", stmt)
	}
	if as, ok := stmt.(*ast.AssignStmt); ok {
		for _, l := range as.Lhs {
			if !simpleOperand(l) {
				return false, "assignment target with side effects"
			}
		}
	}
	// parent of the statement
	par := parents[stmt]
	switch p := par.(type) {
	case *ast.IfStmt:
		if p.Init == stmt {
			insertAt = p
		} else if p.Else == stmt {
			// else-if handled below (stmt is itself the IfStmt)
		} else {
			return false, "unexpected if child"
		}
	case *ast.SwitchStmt:
		if p.Init == stmt {
			insertAt = p
		} else {
			return false, "unexpected switch child"
		}
	case *ast.TypeSwitchStmt:
		if p.Init == stmt {
			insertAt = p
		} else {
			return false, "type switch header"
		}
	case *ast.BlockStmt, *ast.CaseClause, *ast.CommClause:
		if cc, ok := par.(*ast.CommClause); ok && cc.Comm == stmt {
			return false, "select communication"
		}
	default:
		return false, fmt.Sprintf("statement parent %T", par)
	}
	elseWrap := false
	ipar := parents[insertAt]
	if !isListContainer(ipar) {
		if pi, ok := ipar.(*ast.IfStmt); ok && pi.Else == ast.Stmt(insertAt) {
			if _, isIf := insertAt.(*ast.IfStmt); isIf {
				elseWrap = true
			} else {
				return false, "else block"
			}
		} else {
			return false, fmt.Sprintf("cannot insert before a statement whose parent is %T", ipar)
		}
	}
	if cc, ok := ipar.(*ast.CommClause); ok && cc.Comm == ast.Stmt(insertAt) {
		return false, "select communication"
	}
	if usedStmt[stmt] || usedStmt[insertAt] {
		return false, "another call of this statement is inlined in this round (next round)"
	}
	// calls/receives evaluated before the call in the region are hoisted into temporaries in front of the
	// inlined body (evaluation order of calls is preserved); they must be unconditional and single-valued
	firstOK := true
	var hoist []ast.Expr
	hoistable := func(x ast.Expr) bool {
		for y := ast.Node(x); y != region && y != nil; y = parents[y] {
			if be, ok := parents[y].(*ast.BinaryExpr); ok && (be.Op == token.LAND || be.Op == token.LOR) && be.Y == y {
				return false
			}
		}
		t := info.TypeOf(x)
		if t == nil {
			return false
		}
		if _, isTuple := t.(*types.Tuple); isTuple {
			return false
		}
		if b, ok := t.(*types.Basic); ok && b.Info()&types.IsUntyped != 0 {
			return false
		}
		if as, ok := stmt.(*ast.AssignStmt); ok {
			for _, l := range as.Lhs {
				if containsNode(l, x) {
					return false
				}
			}
		}
		return true
	}
	ast.Inspect(region, func(n ast.Node) bool {
		if n == nil || !firstOK {
			return false
		}
		if _, isLit := n.(*ast.FuncLit); isLit {
			return false
		}
		switch x := n.(type) {
		case *ast.CallExpr:
			if x != call && x.Pos() < call.Pos() && !containsNode(x, call) && !transparentCall(info, x) {
				if hoistable(x) {
					hoist = append(hoist, x)
					return false // outermost only
				}
				firstOK = false
			}
			if x != call && containsNode(x, call) && x.Pos() < call.Pos() {
				// an enclosing call g(...helper()...): its function value/receiver is evaluated first; accept plain selectors only
				if !simpleOperand(x.Fun) {
					firstOK = false
				}
			}
		case *ast.UnaryExpr:
			if x.Op == token.ARROW && x.Pos() < call.Pos() && !containsNode(x, call) {
				if hoistable(x) {
					hoist = append(hoist, x)
					return false
				}
				firstOK = false
			}
		}
		return true
	})
	if !firstOK {
		return false, "another call or receive is evaluated before it in the statement and cannot be hoisted"
	}
	// multi-value use
	nres := sig.Results().Len()
	if nres > 1 && !wholeStmt {
		okCtx := false
		switch s := stmt.(type) {
		case *ast.AssignStmt:
			okCtx = len(s.Rhs) == 1 && s.Rhs[0] == ast.Expr(call)
		case *ast.ReturnStmt:
			okCtx = len(s.Results) == 1 && s.Results[0] == ast.Expr(call)
		}
		if !okCtx {
			return false, "multi-value call in an unsupported context"
		}
	}
	if nres == 0 && !wholeStmt {
		return false, "void call used as a value"
	}
	// ---- identifier resolution at the call site
	hfile := c.file
	needImport, bad := sp.identifiersResolveAt(c, call)
	if bad != "" {
		return false, bad
	}
	// ---- receiver
	inlineCounter++
	pfx := fmt.Sprintf("inl%d", inlineCounter)
	var pre, inner strings.Builder
	htext := func(from, to token.Pos) string { return sp.text(hfile, from, to) }
	ctext := func(from, to token.Pos) string { return sp.text(f, from, to) }
	var hoistEdits []textEdit
	for i, h := range hoist {
		hv := fmt.Sprintf("%s_h%d", pfx, i)
		fmt.Fprintf(&pre, "%s%s := %s; _ = %s; ", sp.lineDirective(h.Pos()), hv, ctext(h.Pos(), h.End()), hv)
		hoistEdits = append(hoistEdits, textEdit{sp.off(h.Pos()), sp.off(h.End()), hv + sp.lineDirective(h.End())})
	}
	if c.recv != nil {
		if sel == nil {
			return false, "method called without selector"
		}
		s := info.Selections[sel]
		if s == nil || s.Kind() != types.MethodVal || len(s.Index()) != 1 {
			return false, "promoted or indirect method selection"
		}
		rf := c.recv.List[0]
		_, recvPtr := sig.Recv().Type().(*types.Pointer)
		_, xPtr := info.TypeOf(sel.X).Underlying().(*types.Pointer)
		rx := ctext(sel.X.Pos(), sel.X.End())
		switch {
		case recvPtr && !xPtr:
			rx = "&(" + rx + ")"
		case !recvPtr && xPtr:
			rx = "*(" + rx + ")"
		}
		if len(rf.Names) == 1 && sp.canElide(c, rf.Names[0], sel.X) {
			// same name, same type, never assigned or captured in the body: the body can use the caller's variable
		} else {
			fmt.Fprintf(&pre, "var %s_recv %s = %s; _ = %s_recv; ", pfx, htext(rf.Type.Pos(), rf.Type.End()), rx, pfx)
			if len(rf.Names) == 1 && rf.Names[0].Name != "_" {
				fmt.Fprintf(&inner, "%s := %s_recv; _ = %s; ", rf.Names[0].Name, pfx, rf.Names[0].Name)
			}
		}
	}
	// ---- parameters
	ai := 0
	if c.ftype.Params != nil {
		for _, fld := range c.ftype.Params.List {
			tt := htext(fld.Type.Pos(), fld.Type.End())
			names := fld.Names
			if len(names) == 0 {
				names = []*ast.Ident{nil}
			}
			for _, n := range names {
				a := call.Args[ai]
				if n != nil && sp.canElide(c, n, a) {
					ai++
					continue
				}
				fmt.Fprintf(&pre, "var %s_p%d %s = %s; _ = %s_p%d; ", pfx, ai, tt, ctext(a.Pos(), a.End()), pfx, ai)
				if n != nil && n.Name != "_" {
					fmt.Fprintf(&inner, "%s := %s_p%d; _ = %s; ", n.Name, pfx, ai, n.Name)
				}
				ai++
			}
		}
	}
	// ---- results
	var resNames []string // helper's named results
	var resVars []string
	ri := 0
	if c.ftype.Results != nil {
		for _, fld := range c.ftype.Results.List {
			tt := htext(fld.Type.Pos(), fld.Type.End())
			names := fld.Names
			if len(names) == 0 {
				names = []*ast.Ident{nil}
			}
			for _, n := range names {
				rv := fmt.Sprintf("%s_r%d", pfx, ri)
				fmt.Fprintf(&pre, "var %s %s; _ = %s; ", rv, tt, rv)
				resVars = append(resVars, rv)
				if n != nil {
					resNames = append(resNames, n.Name)
					if n.Name != "_" {
						fmt.Fprintf(&inner, "var %s %s; _ = %s; ", n.Name, tt, n.Name)
					}
				}
				ri++
			}
		}
	}
	// ---- body with returns rewritten
	var rets []*ast.ReturnStmt
	ast.Inspect(c.body, func(n ast.Node) bool {
		switch x := n.(type) {
		case *ast.FuncLit:
			return false
		case *ast.ReturnStmt:
			rets = append(rets, x)
		}
		return true
	})
	var tail *ast.ReturnStmt
	if n := len(c.body.List); n > 0 {
		tail, _ = c.body.List[n-1].(*ast.ReturnStmt)
	}
	needLabel := false
	for _, r := range rets {
		if r != tail {
			needLabel = true
		}
	}
	label := pfx + "_end"
	bodyStart, bodyEnd := c.body.Lbrace+1, c.body.Rbrace
	var body strings.Builder
	cur := bodyStart
	sort.Slice(rets, func(i, j int) bool { return rets[i].Pos() < rets[j].Pos() })
	for _, r := range rets {
		body.WriteString(htext(cur, r.Pos()))
		var rep string
		switch {
		case len(resVars) == 0:
			rep = ""
		case len(r.Results) == 0:
			if len(resNames) != len(resVars) {
				return false, "bare return without named results"
			}
			rep = strings.Join(resVars, ", ") + " = " + strings.Join(resNames, ", ")
		default:
			var es []string
			for _, e := range r.Results {
				es = append(es, htext(e.Pos(), e.End()))
			}
			rep = strings.Join(resVars, ", ") + " = " + strings.Join(es, ", ")
		}
		if r != tail {
			if rep != "" {
				rep += "; "
			}
			rep += "break " + label
		}
		body.WriteString(rep)
		body.WriteString(sp.lineDirective(r.End()))
		cur = r.End()
	}
	body.WriteString(htext(cur, bodyEnd))
	// ---- assemble
	var chunk strings.Builder
	chunk.WriteString(pre.String())
	chunk.WriteString("{ ")
	chunk.WriteString(inner.String())
	if needLabel {
		chunk.WriteString(label + ": switch { default: ")
	}
	chunk.WriteString(sp.lineDirective(bodyStart))
	chunk.WriteString(body.String())
	if needLabel {
		chunk.WriteString("}")
	}
	chunk.WriteString(" }; ")
	file := f
	if wholeStmt && insertAt == ast.Stmt(stmt) && !elseWrap {
		edits[file] = append(edits[file], textEdit{sp.off(stmt.Pos()), sp.off(stmt.End()), chunk.String() + sp.lineDirective(stmt.End())})
	} else {
		open, closeTxt := "", ""
		if elseWrap {
			open, closeTxt = "{ ", " }"
		}
		edits[file] = append(edits[file], textEdit{sp.off(insertAt.Pos()), sp.off(insertAt.Pos()), open + chunk.String() + sp.lineDirective(insertAt.Pos())})
		if wholeStmt {
			edits[file] = append(edits[file], textEdit{sp.off(call.Pos()), sp.off(call.End()), "_ = 0" + sp.lineDirective(call.End())})
		} else {
			edits[file] = append(edits[file], textEdit{sp.off(call.Pos()), sp.off(call.End()), strings.Join(resVars, ", ") + sp.lineDirective(call.End())})
		}
		if elseWrap {
			edits[file] = append(edits[file], textEdit{sp.off(insertAt.End()), sp.off(insertAt.End()), closeTxt + sp.lineDirective(insertAt.End())})
		}
	}
	edits[file] = append(edits[file], hoistEdits...)
	usedStmt[stmt] = true
	usedStmt[insertAt] = true
	if len(needImport) > 0 {
		if addImports[file] == nil {
			addImports[file] = map[string]string{}
		}
		for n, p := range needImport {
			addImports[file][n] = p
		}
	}
	return true, ""
}

// simpleOperand: identifiers and selector chains rooted at identifiers (no calls, no indexing).
func simpleOperand(e ast.Expr) bool {
	switch x := e.(type) {
	case *ast.Ident:
		return true
	case *ast.SelectorExpr:
		return simpleOperand(x.X)
	case *ast.ParenExpr:
		return simpleOperand(x.X)
	case *ast.StarExpr:
		return simpleOperand(x.X)
	case *ast.BasicLit:
		return true
	case *ast.IndexExpr:
		// operands of an index expression on the left are plain reads; the bounds check happens in
		// the assignment phase, after the right-hand side has been evaluated
		return simpleOperand(x.X) && simpleOperand(x.Index)
	}
	return false
}

func enclosingFuncDecl(parents map[ast.Node]ast.Node, n ast.Node) *ast.FuncDecl {
	for x := n; x != nil; x = parents[x] {
		if fd, ok := x.(*ast.FuncDecl); ok {
			return fd
		}
		if _, isLit := x.(*ast.FuncLit); isLit && x != n {
			return nil
		}
	}
	return nil
}

// identifiersResolveAt: every free identifier of the helper resolves to the same object at the call site.
func (sp *srcPkg) identifiersResolveAt(c *helperCand, call *ast.CallExpr) (map[string]string, string) {
	info := sp.info
	callerScope := sp.pkg.Scope().Innermost(call.Pos())
	if callerScope == nil {
		return nil, "no scope at call site"
	}
	needImport := map[string]string{}
	bad := ""
	checkIdent := func(id *ast.Ident) {
		obj := info.Uses[id]
		if obj == nil || bad != "" {
			return
		}
		if o, isPkg := obj.(*types.PkgName); isPkg {
			_, found := callerScope.LookupParent(id.Name, call.Pos())
			if found == nil {
				needImport[id.Name] = o.Imported().Path()
				return
			}
			if pn, ok := found.(*types.PkgName); !ok || pn.Imported().Path() != o.Imported().Path() {
				bad = "identifier " + id.Name + " resolves differently at the call site"
			}
			return
		}
		if obj.Parent() == nil {
			return // field or method
		}
		if obj.Pos() >= c.node.Pos() && obj.Pos() < c.node.End() {
			return // declared inside the helper
		}
		if _, found := callerScope.LookupParent(id.Name, call.Pos()); found != obj {
			bad = "identifier " + id.Name + " is shadowed at the call site"
		}
	}
	ast.Inspect(c.node, func(n ast.Node) bool {
		switch x := n.(type) {
		case *ast.Ident:
			checkIdent(x)
		case *ast.SelectorExpr:
			ast.Inspect(x.X, func(m ast.Node) bool {
				if id, ok := m.(*ast.Ident); ok {
					checkIdent(id)
				}
				return true
			})
			return false
		}
		return true
	})
	return needImport, bad
}

// inlineAsLiteral rewrites `defer recv.helper(args)` into `defer func(recv R, params) results { body }(recv, args)`.
func (sp *srcPkg) inlineAsLiteral(f *srcFile, c *helperCand, call *ast.CallExpr, sel *ast.SelectorExpr,
	edits map[*srcFile][]textEdit, addImports map[*srcFile]map[string]string, usedStmt map[ast.Node]bool, stmt ast.Stmt) (bool, string) {
	info := sp.info
	sig := c.sig
	if call.Ellipsis.IsValid() || len(call.Args) != sig.Params().Len() {
		return false, "spread call"
	}
	if usedStmt[stmt] {
		return false, "statement already rewritten in this round"
	}
	needImport, bad := sp.identifiersResolveAt(c, call)
	if bad != "" {
		return false, bad
	}
	hfile := c.file
	htext := func(from, to token.Pos) string { return sp.text(hfile, from, to) }
	ctext := func(from, to token.Pos) string { return sp.text(f, from, to) }
	var params, args []string
	if c.recv != nil {
		if sel == nil {
			return false, "method called without selector"
		}
		s := info.Selections[sel]
		if s == nil || s.Kind() != types.MethodVal || len(s.Index()) != 1 {
			return false, "promoted or indirect method selection"
		}
		rf := c.recv.List[0]
		_, recvPtr := sig.Recv().Type().(*types.Pointer)
		_, xPtr := info.TypeOf(sel.X).Underlying().(*types.Pointer)
		rx := ctext(sel.X.Pos(), sel.X.End())
		switch {
		case recvPtr && !xPtr:
			rx = "&(" + rx + ")"
		case !recvPtr && xPtr:
			rx = "*(" + rx + ")"
		}
		name := "_"
		if len(rf.Names) == 1 {
			name = rf.Names[0].Name
		}
		params = append(params, name+" "+htext(rf.Type.Pos(), rf.Type.End()))
		args = append(args, rx)
	}
	ai := 0
	if c.ftype.Params != nil {
		for _, fld := range c.ftype.Params.List {
			tt := htext(fld.Type.Pos(), fld.Type.End())
			names := fld.Names
			if len(names) == 0 {
				names = []*ast.Ident{nil}
			}
			for _, n := range names {
				name := "_"
				if n != nil {
					name = n.Name
				}
				params = append(params, name+" "+tt)
				a := call.Args[ai]
				args = append(args, ctext(a.Pos(), a.End()))
				ai++
			}
		}
	}
	results := ""
	if c.ftype.Results != nil {
		results = " " + htext(c.ftype.Results.Pos(), c.ftype.Results.End())
	}
	lit := "func(" + strings.Join(params, ", ") + ")" + results + " {" + sp.lineDirective(c.body.Lbrace+1) +
		htext(c.body.Lbrace+1, c.body.Rbrace) + "}(" + strings.Join(args, ", ") + ")" + sp.lineDirective(call.End())
	edits[f] = append(edits[f], textEdit{sp.off(call.Pos()), sp.off(call.End()), lit})
	usedStmt[stmt] = true
	if len(needImport) > 0 {
		if addImports[f] == nil {
			addImports[f] = map[string]string{}
		}
		for n, p := range needImport {
			addImports[f][n] = p
		}
	}
	return true, ""
}

// canElide: the parameter (or receiver) named by pn can be left unbound, the body using the caller's
// variable of the same name directly: the argument is that plain variable, of identical type, and the
// body neither assigns the parameter, nor takes its address, nor captures it in a function literal
// (a copy and the original would then be distinguishable).
func (sp *srcPkg) canElide(c *helperCand, pn *ast.Ident, arg ast.Expr) bool {
	if pn == nil || pn.Name == "_" {
		return false
	}
	id, ok := arg.(*ast.Ident)
	if !ok || id.Name != pn.Name {
		return false
	}
	info := sp.info
	av, isVar := info.Uses[id].(*types.Var)
	pobj, _ := info.Defs[pn].(*types.Var)
	if !isVar || pobj == nil || av.IsField() || av.Parent() == sp.pkg.Scope() {
		return false
	}
	if !types.Identical(av.Type(), pobj.Type()) {
		return false
	}
	ok = true
	refersTo := func(e ast.Expr) bool {
		for {
			switch x := e.(type) {
			case *ast.ParenExpr:
				e = x.X
				continue
			case *ast.Ident:
				return info.Uses[x] == types.Object(pobj)
			}
			return false
		}
	}
	var inLit int
	var walk func(n ast.Node) bool
	walk = func(n ast.Node) bool {
		switch x := n.(type) {
		case *ast.FuncLit:
			inLit++
			ast.Inspect(x.Body, walk)
			inLit--
			return false
		case *ast.Ident:
			if inLit > 0 && info.Uses[x] == types.Object(pobj) {
				ok = false
			}
		case *ast.AssignStmt:
			for _, l := range x.Lhs {
				if refersTo(l) {
					ok = false
				}
			}
		case *ast.IncDecStmt:
			if refersTo(x.X) {
				ok = false
			}
		case *ast.UnaryExpr:
			if x.Op == token.AND && refersTo(x.X) {
				ok = false
			}
		case *ast.RangeStmt:
			if (x.Key != nil && refersTo(x.Key)) || (x.Value != nil && refersTo(x.Value)) {
				ok = false
			}
		}
		return true
	}
	ast.Inspect(c.body, walk)
	return ok
}

// inlineLiteralCalls: a local variable that is defined once, never reassigned or address-taken, and
// whose value is a function literal (possibly through copies of such variables) is a name for that
// literal: its calls are inlined like calls of a new helper.  The variable keeps its definition (a
// blank use is added so that it does not become unused).
func (sp *srcPkg) inlineLiteralCalls(f *srcFile, res *inlineResult, edits map[*srcFile][]textEdit, addImports map[*srcFile]map[string]string, usedStmt map[ast.Node]bool) {
	info := sp.info
	parents := buildParents(f.ast)
	type def struct {
		stmt ast.Node
		rhs  ast.Expr
	}
	defs := map[*types.Var]def{}
	tainted := map[*types.Var]bool{}
	varOf := func(e ast.Expr) *types.Var {
		for {
			if pe, ok := e.(*ast.ParenExpr); ok {
				e = pe.X
				continue
			}
			break
		}
		id, ok := e.(*ast.Ident)
		if !ok {
			return nil
		}
		if v, ok := info.Defs[id].(*types.Var); ok {
			return v
		}
		v, _ := info.Uses[id].(*types.Var)
		return v
	}
	ast.Inspect(f.ast, func(n ast.Node) bool {
		switch x := n.(type) {
		case *ast.AssignStmt:
			if x.Tok == token.DEFINE && len(x.Lhs) == 1 && len(x.Rhs) == 1 {
				if id, ok := x.Lhs[0].(*ast.Ident); ok {
					if v, ok := info.Defs[id].(*types.Var); ok && v != nil {
						defs[v] = def{x, x.Rhs[0]}
						return true
					}
				}
			}
			for _, l := range x.Lhs {
				if v := varOf(l); v != nil {
					tainted[v] = true
				}
			}
		case *ast.ValueSpec:
			if len(x.Names) == 1 && len(x.Values) == 1 {
				if v, ok := info.Defs[x.Names[0]].(*types.Var); ok && v != nil {
					if ds, isDS := parents[parents[x]].(*ast.DeclStmt); isDS {
						defs[v] = def{ds, x.Values[0]}
					}
				}
			}
		case *ast.IncDecStmt:
			if v := varOf(x.X); v != nil {
				tainted[v] = true
			}
		case *ast.UnaryExpr:
			if x.Op == token.AND {
				if v := varOf(x.X); v != nil {
					tainted[v] = true
				}
			}
		case *ast.RangeStmt:
			for _, e := range []ast.Expr{x.Key, x.Value} {
				if e != nil {
					if v := varOf(e); v != nil {
						tainted[v] = true
					}
				}
			}
		}
		return true
	})
	resolve := func(v *types.Var) (*ast.FuncLit, bool) {
		for i := 0; i < 4; i++ {
			d, ok := defs[v]
			if !ok || tainted[v] || v.Parent() == sp.pkg.Scope() {
				return nil, false
			}
			switch r := d.rhs.(type) {
			case *ast.FuncLit:
				return r, true
			case *ast.Ident:
				nv, _ := info.Uses[r].(*types.Var)
				if nv == nil {
					return nil, false
				}
				v = nv
			default:
				return nil, false
			}
		}
		return nil, false
	}
	// literals that are no longer called (all their calls were inlined in an earlier round): a variable
	// whose only uses are blank assignments, or definitions of variables that are dead in the same way,
	// holds a dead literal; it is replaced by a typed nil so that it stops capturing variables
	uses := map[*types.Var][]*ast.Ident{}
	for id, obj := range info.Uses {
		if v, ok := obj.(*types.Var); ok {
			if _, isDef := defs[v]; isDef && id.Pos() >= f.ast.Pos() && id.End() <= f.ast.End() {
				uses[v] = append(uses[v], id)
			}
		}
	}
	var isDead func(v *types.Var, depth int) bool
	isDead = func(v *types.Var, depth int) bool {
		if depth > 4 || tainted[v] || v.Parent() == sp.pkg.Scope() {
			return false
		}
		for _, id := range uses[v] {
			switch pn := parents[id].(type) {
			case *ast.AssignStmt:
				if pn.Tok == token.ASSIGN && len(pn.Lhs) == 1 && len(pn.Rhs) == 1 && pn.Rhs[0] == ast.Expr(id) {
					if l, ok := pn.Lhs[0].(*ast.Ident); ok && l.Name == "_" {
						continue
					}
				}
				if pn.Tok == token.DEFINE && len(pn.Lhs) == 1 && len(pn.Rhs) == 1 && pn.Rhs[0] == ast.Expr(id) {
					if l, ok := pn.Lhs[0].(*ast.Ident); ok {
						if w, ok := info.Defs[l].(*types.Var); ok && w != nil && isDead(w, depth+1) {
							continue
						}
					}
				}
				return false
			case *ast.ValueSpec:
				if len(pn.Names) == 1 && len(pn.Values) == 1 && pn.Values[0] == ast.Expr(id) {
					if w, ok := info.Defs[pn.Names[0]].(*types.Var); ok && w != nil && isDead(w, depth+1) {
						continue
					}
				}
				return false
			default:
				return false
			}
		}
		return true
	}
	var deadVars []*types.Var
	for v, d := range defs {
		if _, isLit := d.rhs.(*ast.FuncLit); isLit && len(uses[v]) > 0 && isDead(v, 0) {
			deadVars = append(deadVars, v)
		}
	}
	sort.Slice(deadVars, func(i, j int) bool { return deadVars[i].Pos() < deadVars[j].Pos() })
	for _, v := range deadVars {
		lit := defs[v].rhs.(*ast.FuncLit)
		if fd := enclosingFuncDecl(parents, lit); fd == nil || fd.Name.Name == "_" {
			continue
		}
		edits[f] = append(edits[f], textEdit{sp.off(lit.Pos()), sp.off(lit.End()), "(" + sp.text(f, lit.Type.Pos(), lit.Type.End()) + ")(nil)" + sp.lineDirective(lit.End())})
		res.Notes = append(res.Notes, inlineNote{Helper: "dead literal " + v.Name(), Into: "-", At: sp.posStr(lit.Pos())})
	}
	if len(deadVars) > 0 {
		return
	}
	var calls []*ast.CallExpr
	ast.Inspect(f.ast, func(n ast.Node) bool {
		if c, ok := n.(*ast.CallExpr); ok {
			if _, isId := c.Fun.(*ast.Ident); isId {
				calls = append(calls, c)
			}
		}
		return true
	})
	sort.Slice(calls, func(i, j int) bool { return calls[i].Pos() < calls[j].Pos() })
	keepAlive := map[*types.Var]bool{}
	for _, call := range calls {
		id := call.Fun.(*ast.Ident)
		v, _ := info.Uses[id].(*types.Var)
		if v == nil {
			continue
		}
		lit, ok := resolve(v)
		if !ok {
			continue
		}
		fd := enclosingFuncDecl(parents, call)
		if fd == nil || fd.Name.Name == "_" {
			continue // inside another literal, or dead code
		}
		// the literal must be defined in the same function and before the call
		if enclosingFuncDecl(parents, lit) != fd || lit.End() > call.Pos() {
			continue
		}
		sig, _ := info.TypeOf(lit).(*types.Signature)
		if sig == nil {
			continue
		}
		okE, why := eligibleFunc(lit.Type, nil, lit.Body, info, v)
		key := "func literal " + v.Name() + " in " + fd.Name.Name
		if !okE {
			res.Skipped = append(res.Skipped, key+": "+why)
			continue
		}
		c := &helperCand{node: lit, ftype: lit.Type, body: lit.Body, sig: sig, file: f, key: key, hasDefer: why == "defer"}
		ok2, why2 := sp.inlineSite(f, c, call, nil, parents, edits, addImports, usedStmt)
		if !ok2 {
			res.Skipped = append(res.Skipped, fmt.Sprintf("%s at %s: %s", key, sp.posStr(call.Pos()), why2))
			continue
		}
		res.Notes = append(res.Notes, inlineNote{Helper: key, Into: fd.Name.Name, At: sp.posStr(call.Pos())})
		// every variable of the chain stays used
		for x := v; x != nil; {
			keepAlive[x] = true
			d := defs[x]
			nid, isId := d.rhs.(*ast.Ident)
			if !isId {
				break
			}
			x, _ = info.Uses[nid].(*types.Var)
		}
	}
	var vars []*types.Var
	for v := range keepAlive {
		vars = append(vars, v)
	}
	sort.Slice(vars, func(i, j int) bool { return vars[i].Pos() < vars[j].Pos() })
	for _, v := range vars {
		d := defs[v]
		edits[f] = append(edits[f], textEdit{sp.off(d.stmt.End()), sp.off(d.stmt.End()), "; _ = " + v.Name() + sp.lineDirective(d.stmt.End())})
	}
}
