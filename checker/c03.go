package main

import (
	"fmt"
	"go/token"
	"go/types"
	"sort"
	"strconv"
	"strings"

	"golang.org/x/tools/go/ssa"
)

func init() { register("C03", "other", runC03) }

const stunCookie = 0x2112A442

// zeroingOf: does fn zero the whole slice value s (range loop storing 0, clear(s), or copy from an equally long prefix of a zero array)?
// Returns the instruction whose dominance certifies that the zeroing happened (loop exit block's first instr / the call).
func zeroingOf(le *linEval, fn *ssa.Function, s ssa.Value) (done ssa.Instruction, how string) {
	loops := loopsOf(fn)
	var res ssa.Instruction
	eachInstr(fn, func(b *ssa.BasicBlock, i int, in ssa.Instruction) {
		if res != nil {
			return
		}
		switch x := in.(type) {
		case *ssa.Store:
			ia, ok := x.Addr.(*ssa.IndexAddr)
			if !ok || ia.X != s {
				return
			}
			if c, ok := constInt(x.Val); !ok || c != 0 {
				return
			}
			lp := inLoop(loops, b)
			if lp != nil && fullRangeLoop(lp, s, ia) {
				// the loop header: if it dominates a later point, the full-range loop ran to completion before that point
				res = lp.Header.Instrs[0]
				how = "range loop storing 0"
			}
		case *ssa.Call:
			if isBuiltinCall(x, "clear") && len(x.Call.Args) == 1 && x.Call.Args[0] == s {
				res = x
				how = "clear"
			}
		}
	})
	return res, how
}

type fieldStoreIdx struct {
	stores []*ssa.Store
	idx    map[ssa.Instruction]int
}

func indexStores(fn *ssa.Function, fv *types.Var) *fieldStoreIdx {
	f := &fieldStoreIdx{idx: map[ssa.Instruction]int{}}
	for _, a := range fieldAccesses(fn, fv) {
		if a.Kind == "store" {
			if st, ok := a.Instr.(*ssa.Store); ok {
				f.idx[st] = len(f.stores) + 1
				f.stores = append(f.stores, st)
			}
		}
	}
	return f
}

func runC03(r *Run) {
	p := r.P
	r.Res.Explanation = "static coherence rules for message building: in Add the final len(Raw)-20 equals the final Length as linear expressions on every path, the TLV header/value sites are at [0:2) type, [2:4) length, [4:) value of the window starting at 20+Length, the padding region is fully zeroed, WriteLength post-dominates; WriteHeader covers bytes [0,20) with type, length, the magic cookie and the transaction ID at the offsets Decode reads them from; every store to Type/Length/TransactionID in the setter closure is followed by its Write* on all non-error paths; integrity and fingerprint setters restore Length and the header on every path and pre-adjust by exactly 4+len(value); grow's postcondition; Value() by BITS"
	r.NotDecided("identity of encode-then-decode over arbitrary operation histories as such", "Equal", "Encode on a message whose Length was non-zero with no attributes (outside the property's start states)")
	r.Assume("precondition of the property: total attribute bytes <= 65535 and each value <= 65535 (integer conversions are treated as value preserving)", "EXT: binary.BigEndian.PutUintN writes exactly N/8 bytes at the start of its buffer")
	cl := p.buildClosures()
	msg := cl.Message
	rawF, lenF, typF, tidF, attrsF := FieldVar(msg, "Raw"), FieldVar(msg, "Length"), FieldVar(msg, "Type"), FieldVar(msg, "TransactionID"), FieldVar(msg, "Attributes")
	add := p.Meth("Message", "Add")
	wl, wh, wt, wtid, grow := p.Meth("Message", "WriteLength"), p.Meth("Message", "WriteHeader"), p.Meth("Message", "WriteType"), p.Meth("Message", "WriteTransactionID"), p.Meth("Message", "grow")
	setType := p.Meth("Message", "SetType")
	an := r.Rule("C03.anchors", "Message fields and the write-side functions resolve", 10)
	for n, ok := range map[string]bool{"Message.Raw": rawF != nil, "Message.Length": lenF != nil, "Message.Type": typF != nil, "Message.TransactionID": tidF != nil, "Message.Attributes": attrsF != nil,
		"Add": add != nil, "WriteLength": wl != nil, "WriteHeader": wh != nil, "WriteType": wt != nil, "WriteTransactionID": wtid != nil, "grow": grow != nil, "SetType": setType != nil} {
		if ok {
			an.Instance(n, false, nil)
		} else {
			an.Fail(n, "anchor not found")
		}
	}
	an.Done()
	if rawF == nil || lenF == nil || add == nil || wl == nil || wh == nil || grow == nil || wt == nil || wtid == nil {
		return
	}
	le := newLinEval(p)

	// ---- Add
	ad := r.Rule("C03.add", "Add: on every path final len(Raw)-20 == final Length; TLV sites [0:2) type, [2:4) uint16(len(val)), [4:) copy of val in the window starting at 20+Length; appended attribute is the view of that value; WriteLength is called on every path", 5)
	checkAdd(r, ad, le, add, wl, rawF, lenF, attrsF)
	ad.Done()

	al := r.Rule("C03.alias", "no byte of the message is written through a view of Raw that was taken before a later grow (or append onto Raw): after a reallocation such a view points into the old array and the bytes never reach the message", 2)
	checkStaleViews(r, al, []*ssa.Function{add, wh}, grow, rawF)
	al.Done()

	pz := r.Rule("C03.padzero", "the padding bytes newly exposed by Add are all set to zero before the buffer is extended over them", 1)
	checkPadZero(r, pz, le, add, grow, rawF)
	pz.Done()

	// ---- header
	hd := r.Rule("C03.header", "WriteHeader (with WriteType/WriteLength) writes bytes [0,20): type at [0:2), length at [2:4), magic cookie 0x2112A442 at [4:8), transaction ID at [8:20) - the offsets and the constant Decode reads", 5)
	checkHeader(r, hd, le, cl, wh, rawF, typF, lenF, tidF)
	hd.Done()

	// ---- cohere
	co := r.Rule("C03.cohere", "every store to Message.Type/Length/TransactionID in the setter closure is followed, on all paths to a return that is not a non-nil error, by the function that writes that field into the header", 4)
	{
		match := map[*types.Var][]*ssa.Function{
			typF: {wt, wh, setType},
			lenF: {wl, wh, add},
			tidF: {wtid, wh},
		}
		exempt := map[*ssa.Function]string{}
		for _, f := range cl.DEntries {
			exempt[f] = "decode direction: struct is set from the wire bytes"
		}
		if f := p.Meth("MessageType", "ReadValue"); f != nil {
			exempt[f] = "decode direction"
		}
		if f := p.Meth("Message", "Reset"); f != nil {
			exempt[f] = "Reset truncates Raw itself"
		}
		if f := p.Meth("Message", "Encode"); f != nil {
			exempt[f] = "Encode's Length = 0 is coherent whenever attributes follow or Length was 0 (the property's start states)"
		}
		exempt[add] = "checked by C03.add"
		var fns []*ssa.Function
		for _, f := range cl.S {
			if f.Pkg == p.Stun {
				fns = append(fns, f)
			}
		}
		for _, fn := range fns {
			for _, fv := range []*types.Var{typF, lenF, tidF} {
				if fv == nil {
					continue
				}
				for _, a := range fieldAccesses(fn, fv) {
					if a.Kind != "store" && a.Kind != "addr" {
						continue
					}
					if _, fresh := a.Addr.X.(*ssa.Alloc); fresh {
						continue
					}
					key := fmt.Sprintf("%s|%s", fnName(fn), fv.Name())
					if why, ok := exempt[fn]; ok {
						co.Instance(key+"|exempt", false, map[string]string{"fn": fnName(fn), "field": fv.Name(), "exempt": why})
						continue
					}
					// save/restore functions are covered by C03.restore
					if fv == lenF {
						if sr := newSaveRestore(p, fn, fv); len(sr.saved) > 0 {
							co.Instance(key+"|restore", true, map[string]string{"fn": fnName(fn), "field": fv.Name(), "covered_by": "C03.restore"})
							continue
						}
					}
					r.Analysed(fn)
					idx := errorResultIndex(fn)
					bad, rets := mustPass(p, fn, a.Instr, func(in ssa.Instruction, deferred bool, c *PathCtx) bool {
						for _, w := range match[fv] {
							if callsFn(in, w) {
								return true
							}
						}
						return false
					}, func(ret *ssa.Return, c *PathCtx) bool {
						if idx < 0 {
							return true
						}
						return c.NilState(ret.Results[idx]) != -1
					})
					co.Instance(key, true, map[string]string{"fn": fnName(fn), "store": "Message." + fv.Name()})
					for i, w := range bad {
						pos := instrPos(a.Instr)
						if rets[i] != nil {
							pos = instrPos(rets[i])
						}
						co.ViolationPath(fn, pos, "Message."+fv.Name()+" changed without rewriting the header", "the struct field and the header bytes disagree after this call: decoding Raw no longer yields the struct's content", w)
					}
				}
			}
		}
	}
	co.Done()

	// ---- restore
	rs := r.Rule("C03.restore", "integrity and fingerprint setters restore Length (and thereby the header through Add) on every path, never call Add on a modified Length, and pre-adjust Length by exactly 4 + len(value they add)", 2)
	for _, tn := range []string{"MessageIntegrity", "FingerprintAttr"} {
		fn := p.Meth(tn, "AddTo")
		if fn == nil {
			rs.Fail(tn+".AddTo", "not found")
			continue
		}
		r.Analysed(fn)
		sr := newSaveRestore(p, fn, lenF)
		rs.Instance(fnName(fn), true, map[string]interface{}{"fn": fnName(fn), "saved_loads": len(sr.saved), "length_stores": len(sr.stores)})
		if len(sr.stores) == 0 {
			rs.Violation(fn, fn.Pos(), "no length pre-adjustment", "the MAC/CRC must be computed over a header whose length already includes the attribute being added")
			continue
		}
		if len(sr.saved) == 0 {
			rs.Violation(fn, instrPos(sr.stores[0]), "Length changed without saving it", "the setter cannot restore the length")
			continue
		}
		viol, addDirty := sr.run(true)
		for _, v := range viol {
			what := "Length not restored"
			if v.State&srDirty == 0 {
				what = "header bytes left with the temporary length"
			}
			rs.ViolationPath(fn, instrPos(v.Ret), what, "struct and header bytes disagree after the setter returns", v.Witness)
		}
		for _, in := range addDirty {
			rs.Violation(fn, instrPos(in), "Add called while Length is temporarily changed", "the attribute is appended at the wrong offset and the final length is wrong")
		}
		// pre-adjust constant
		var adj int64 = -1
		for _, st := range sr.stores {
			if sr.isSaved(st.Val) {
				continue
			}
			e := le.Eval(st.Val)
			base := linExpr{Terms: map[string]int64{}}
			for k, v := range e.Terms {
				base.Terms[k] = v
			}
			if len(e.Terms) == 1 {
				adj = e.C
			}
		}
		var valLen int64 = -1
		eachInstr(fn, func(b *ssa.BasicBlock, i int, in ssa.Instruction) {
			if c, ok := in.(*ssa.Call); ok && callsFn(c, add) && len(c.Call.Args) == 3 {
				if l, ok := le.lenOf(c.Call.Args[2]).isConst(); ok {
					valLen = l
				}
			}
		})
		rs.Instance(fnName(fn)+"|pre-adjust", true, map[string]int64{"pre_adjust": adj, "value_len": valLen})
		if adj < 0 || valLen < 0 || adj != 4+valLen {
			rs.Violation(fn, instrPos(sr.stores[0]), fmt.Sprintf("pre-adjust %d vs value of %d bytes", adj, valLen), "the temporary header length must be exactly the final one: Length + 4 + len(value)")
		}
	}
	rs.Done()

	// ---- grow
	gr := r.Rule("C03.grow", "grow(n) returns with len(Raw) >= n on every path (it is what makes the fixed header offsets safe)", 3)
	checkGrow(r, gr, le, grow, rawF)
	gr.Done()

	// ---- type bits
	tb := r.Rule("C03.type", "MessageType.Value() places method and class bits as RFC 5389 figure 3 (BITS, shared with C19)", 16)
	checkValueBits(r, tb)
	tb.Done()

	// ---- decode side of the type bits (shared with C19.read): struct and wire agree in both directions
	r.Borrow("C19", map[string]string{"C19.read": "C03.typeread"})
	// ---- what the builder writes must decode again: Decode's reject conditions are exactly the framing's
	r.Borrow("C02", map[string]string{"C02.guards": "C03.decodeguards"})
	// Encode starts from an empty Raw: what follows the rebuilt header and attributes is never left behind (shared with C08)
	r.Borrow("C08", map[string]string{"C08.reset": "C03.reset"})
	// what Encode wrote decodes again for every length the 16-bit field can hold: the decoder's window is
	// Raw[20:20+size] with size the declared length as an int (shared with C02)
	r.Borrow("C02", map[string]string{"C02.window": "C03.decodewindow"})

	// ---- Equal agrees with content, not with history
	eqr := r.Rule("C03.equal", "Message.Equal and the functions it calls never compare a slice with nil: a Message without attributes is Equal to the decode of its own bytes whether its list is nil (fresh) or empty (reused)", 2)
	checkEqualNil(r, eqr)
	eqr.Done()

	// ---- the header helpers stay inside Raw whatever state the message is in
	hb := r.Rule("C03.hdrbounds", "every slice and accessor of Raw in WriteHeader, WriteType, WriteLength and WriteTransactionID is proved within len(Raw) from the grow that precedes it: the header setters accept a message without header (new(Message), one left by a failed Decode) instead of panicking", 4)
	{
		var fns []*ssa.Function
		for _, n := range []string{"WriteHeader", "WriteType", "WriteLength", "WriteTransactionID"} {
			if f := p.Meth("Message", n); f != nil {
				fns = append(fns, f)
			} else {
				hb.Fail(n, "not found")
			}
		}
		runBounds(r, hb, fns, &justTable{}, map[*ssa.Function]*IntSummary{})
	}
	hb.Done()

	// ---- Add stays inside the buffer it grew
	ab := r.Rule("C03.addbounds", "the upper bound of every slice of Raw in Add and in the integrity and fingerprint setters is proved within len(Raw) from the grow that precedes it, for every capacity the caller's buffer may have and for a message that has no header yet: Add (which has no error result) does not panic on a buffer whose spare capacity ends inside the attribute or its padding, the two setters do not panic on new(Message)", 5)
	var abFns []*ssa.Function
	for _, f := range []*ssa.Function{p.Meth("Message", "Add"), p.MethodOf(p.Named("FingerprintAttr"), "AddTo"), p.MethodOf(p.Named("MessageIntegrity"), "AddTo")} {
		if f == nil || f.Blocks == nil {
			ab.Fail("Add / FingerprintAttr.AddTo / MessageIntegrity.AddTo", "not found")
			continue
		}
		abFns = append(abFns, f)
	}
	for _, addF := range abFns {
		r.Analysed(addF)
		// where int has 32 bits int(m.Length) is taken to be the value of the uint32 field and the sums of lengths
		// are taken not to wrap: a message of 2 GiB does not exist (the header's length field has 16 bits)
		r.Assume("Message.Length and 20+Length+4+len(value)+3 stay below 2^31 where int has 32 bits (C03.addbounds)")
		lenF := FieldVar(p.Named("Message"), "Length")
		pr := newProver(p, addF)
		sums := map[*ssa.Function]*IntSummary{}
		pr.Sum = func(f *ssa.Function) *IntSummary {
			if sm, ok := sums[f]; ok {
				return sm
			}
			sm := summarizeIntFunc(f)
			sums[f] = sm
			return sm
		}
		pr.intBits = 64
		pr.AssumeFits = func(c *ssa.Convert) bool {
			ld, ok := c.X.(*ssa.UnOp)
			if !ok || ld.Op != token.MUL {
				return false
			}
			return lenF != nil && fieldOfAddr(ld.X) == lenF
		}
		for _, ob := range boundsObligations(pr, addF) {
			sl, ok := ob.In.(*ssa.Slice)
			if !ok || ob.CapIdiom {
				continue
			}
			ld, ok := sl.X.(*ssa.UnOp)
			if !ok || ld.Op != token.MUL || fieldOfAddr(ld.X) != rawF {
				continue
			}
			var goals []Goal
			for _, g := range ob.Goals {
				if g.Desc == "hi <= len" {
					goals = append(goals, g)
				}
			}
			if len(goals) == 0 {
				continue
			}
			ob.Goals = goals
			okP, _, failed, facts := dischargeObligation(pr, ob)
			ab.Instance(fnName(addF)+"|"+ob.Desc, true, map[string]interface{}{"site": ob.Desc, "proved": okP, "facts": facts})
			ab.Obligation(okP, false)
			if !okP {
				ab.Violation(addF, instrPos(ob.In), ob.Desc, "cannot prove "+failed+" from the grow that precedes this slice: on a caller-supplied buffer whose capacity ends below the bound Add panics (it has no error result), where growing first would have reallocated")
			}
		}
	}
	ab.Done()

	// ---- every attribute type Add can write is stored unchanged by Decode
	ti := r.Rule("C03.typeident", "the attribute-type translation applied by Decode is the identity on every type that Add can write", 1)
	if compat := p.Fn("compatAttrType"); compat == nil {
		ti.Fail("compatAttrType", "not found")
	} else {
		r.Analysed(compat)
		tab, def, ok := switchTable(compat)
		if !ok || def != "identity" {
			ti.Violation(compat, compat.Pos(), "translation table", "cannot extract the table or the default is not the identity: undecided")
		}
		var keys []string
		for k := range tab {
			keys = append(keys, k)
		}
		sort.Strings(keys)
		ti.Instance("compatAttrType", true, map[string]interface{}{"non_identity_entries": len(tab)})
		for _, k := range keys {
			if tab[k] != k && tab[k] != "identity" {
				kv, _ := strconv.ParseInt(k, 0, 64)
				ov, _ := strconv.ParseInt(tab[k], 0, 64)
				ti.Violation(compat, compat.Pos(), fmt.Sprintf("%#04x -> %#04x", kv, ov), fmt.Sprintf("Add writes attribute type %#04x as given, Decode stores it as %#04x: decoding the raw bytes does not yield the attribute held in the struct (Equal is false, Get/Contains of %#04x fail after a round trip)", kv, ov, kv))
			}
		}
	}
	ti.Done()

	// ---- re-encoding keeps the attribute list in step with the bytes
	en := r.Rule("C03.encode", "WriteAttributes re-adds the saved attributes into the same backing array it restores afterwards: the list is truncated with a two-index reslice of the saved list (no capacity clamp, no fresh list), so the entries Add wrote (lengths, views into the new Raw) are the ones visible after Encode", 1)
	if wa := p.Meth("Message", "WriteAttributes"); wa != nil {
		r.Analysed(wa)
		attrsF := FieldVar(p.Named("Message"), "Attributes")
		var stores []*ssa.Store
		for _, a := range fieldAccesses(wa, attrsF) {
			if s, ok := a.Instr.(*ssa.Store); ok && a.Kind == "store" {
				stores = append(stores, s)
			}
		}
		en.Instance(fnName(wa), true, map[string]int{"attribute_list_stores": len(stores)})
		okTrunc := false
		for _, s := range stores {
			sl, isSl := s.Val.(*ssa.Slice)
			if !isSl {
				continue
			}
			if c, isC := constInt(sl.High); sl.High != nil && isC && c == 0 {
				if sl.Max != nil {
					en.Violation(wa, instrPos(s), "Attributes = "+exprDepth(s.Val, 0), "the list is truncated with a capacity clamp: Add appends into a fresh array that is thrown away when the saved list is restored, so after Encode the struct shows the caller's stale entries (lengths, value slices) while the bytes carry the re-encoded ones")
				} else if valueIsLoadOfField(sl.X, attrsF) {
					okTrunc = true
					// and before the attributes are re-added: appended behind the old entries they land in other
					// slots (or another array), and the list restored afterwards still shows the stale ones
					if addF := p.Meth("Message", "Add"); addF != nil {
						eachInstr(wa, func(_ *ssa.BasicBlock, _ int, in ssa.Instruction) {
							if callsFn(in, addF) && !instrDominates(s, in) {
								en.Violation(wa, instrPos(in), "attributes re-added before the list is truncated", "Add appends behind the entries that are already there: the list restored afterwards holds the old entries, whose value slices point into the buffer as it was before Encode rebuilt (and possibly reallocated) it")
							}
						})
					}
				}
			}
		}
		if !okTrunc && len(stores) > 0 {
			en.Violation(wa, wa.Pos(), "truncation of the attribute list", "WriteAttributes does not re-add into the saved list's own storage (undecided)")
		}
	} else {
		en.Fail("(*Message).WriteAttributes", "not found")
	}
	en.Done()

	// ---- build
	bd := r.Rule("C03.build", "Build = Reset; WriteHeader; setters in argument order; first error returned", 1)
	checkBuild(r, bd)
	bd.Done()
}

func checkAdd(r *Run, rc *RuleCtx, le *linEval, add, wl *ssa.Function, rawF, lenF, attrsF *types.Var) {
	p := r.P
	r.Analysed(add)
	rawS, lenS := indexStores(add, rawF), indexStores(add, lenF)
	q := &PathQuery{P: p, Fn: add}
	q.Step = func(in ssa.Instruction, deferred bool, st uint64, c *PathCtx) (uint64, bool) {
		if i, ok := rawS.idx[in]; ok {
			st = st&^0xff | uint64(i)
		}
		if i, ok := lenS.idx[in]; ok {
			st = st&^0xff00 | uint64(i)<<8
		}
		if callsFn(in, wl) {
			st |= 1 << 16
		}
		return st, false
	}
	rep := map[*ssa.Return]bool{}
	n := 0
	q.AtReturn = func(ret *ssa.Return, st uint64, c *PathCtx) {
		n++
		ri, li := int(st&0xff), int(st>>8&0xff)
		if ri == 0 || li == 0 {
			if !rep[ret] {
				rep[ret] = true
				rc.ViolationPath(add, instrPos(ret), "Raw or Length not updated", "Add returns on a path that does not extend the buffer and the length", c.Witness(add, ret))
			}
			return
		}
		rawLen := le.lenOf(rawS.stores[ri-1].Val)
		length := le.Eval(lenS.stores[li-1].Val)
		want := length.add(linExpr{C: 20, Terms: map[string]int64{}}, 1)
		if !rawLen.equal(want) && !rep[ret] {
			rep[ret] = true
			rc.ViolationPath(add, instrPos(ret), "len(Raw) != 20 + Length", fmt.Sprintf("on this path len(Raw) = %s but 20 + Length = %s: the header length no longer counts the bytes after the header", rawLen, want), c.Witness(add, ret))
		}
		if st&(1<<16) == 0 && !rep[ret] {
			rep[ret] = true
			rc.ViolationPath(add, instrPos(ret), "return without WriteLength", "the header length bytes are stale after Add", c.Witness(add, ret))
		}
	}
	q.Run()
	rc.Instance("Add|coherence", true, map[string]int{"return_paths": n, "raw_stores": len(rawS.stores), "length_stores": len(lenS.stores)})

	// TLV sites
	first := linExpr{C: 20, Terms: map[string]int64{}}.add(atom("in:&p:"+add.Params[0].Name()+"."+lenF.Name()), 1)
	var typeOK, lenOK, copyOK bool
	valParam := add.Params[2]
	typParam := add.Params[1]
	var copyDst ssa.Value
	for _, s := range wireSites(le, add) {
		if _, f := loadedField(s.Root); f != rawF {
			continue
		}
		off := s.Lo.add(first, -1)
		oc, isC := off.isConst()
		if !isC {
			continue
		}
		switch {
		case s.Kind == "PutUint16" && oc == 0:
			rc.Instance("Add|type site", true, map[string]string{"site": describeSite(s)})
			if dependsOnParam(s.Val, typParam, 0) {
				typeOK = true
			}
		case s.Kind == "PutUint16" && oc == 2:
			rc.Instance("Add|length site", true, map[string]string{"site": describeSite(s)})
			if e := le.Eval(s.Val); e.equal(le.lenOf(valParam)) {
				lenOK = true
			}
		case s.Kind == "copy" && s.Role == "dst" && oc == 4:
			rc.Instance("Add|value site", true, map[string]string{"site": describeSite(s)})
			if s.Val == ssa.Value(valParam) {
				// destination length equals len(val)
				if s.Hi != nil && s.Hi.add(s.Lo, -1).equal(le.lenOf(valParam)) {
					copyOK = true
					copyDst = callArgs(s.In)[0]
				}
			}
		}
	}
	if !typeOK {
		rc.Violation(add, add.Pos(), "TLV type site", "the attribute type is not written big-endian at bytes [0:2) of the new TLV")
	}
	if !lenOK {
		rc.Violation(add, add.Pos(), "TLV length site", "uint16(len(val)) is not written at bytes [2:4) of the new TLV")
	}
	if !copyOK {
		rc.Violation(add, add.Pos(), "TLV value site", "the value is not copied in full to bytes [4:4+len(val)) of the new TLV")
	}
	// appended attribute
	okAttr := false
	for _, a := range fieldAccesses(add, attrsF) {
		if a.Kind != "store" {
			continue
		}
		st := a.Instr.(*ssa.Store)
		ap, ok := st.Val.(*ssa.Call)
		if !ok || !isBuiltinCall(ap, "append") {
			continue
		}
		rc.Instance("Add|attribute append", true, nil)
		// the appended element: varargs array store of a load of the local attr
		if sl, ok := ap.Call.Args[1].(*ssa.Slice); ok {
			if al, ok := sl.X.(*ssa.Alloc); ok {
				for _, u := range *al.Referrers() {
					if ia, ok := u.(*ssa.IndexAddr); ok {
						for _, w := range *ia.Referrers() {
							if es, ok := w.(*ssa.Store); ok {
								if v, _, ok := structArgField(es.Val, "Value"); ok && v != nil && copyDst != nil && v == copyDst {
									okAttr = true
								}
							}
						}
					}
				}
			}
		}
	}
	if !okAttr {
		rc.Violation(add, add.Pos(), "appended attribute", "the attribute appended to the list does not view the bytes just written (struct and wire disagree)")
	}
	// val is only read
	eachInstr(add, func(b *ssa.BasicBlock, i int, in ssa.Instruction) {
		if st, ok := in.(*ssa.Store); ok && aliasOf(st.Val, valParam, 0) {
			rc.Violation(add, instrPos(st), "value slice retained", "Add keeps the caller's slice instead of copying it")
		}
	})
}

func dependsOnParam(v ssa.Value, pa *ssa.Parameter, depth int) bool {
	if depth > 8 || v == nil {
		return false
	}
	if v == ssa.Value(pa) {
		return true
	}
	switch x := v.(type) {
	case *ssa.Convert:
		return dependsOnParam(x.X, pa, depth+1)
	case *ssa.ChangeType:
		return dependsOnParam(x.X, pa, depth+1)
	case *ssa.Call:
		if sc := x.Call.StaticCallee(); sc != nil && len(x.Call.Args) == 1 {
			return dependsOnParam(x.Call.Args[0], pa, depth+1)
		}
	case *ssa.UnOp:
		if x.Op == token.MUL {
			if fa, ok := x.X.(*ssa.FieldAddr); ok {
				if a, ok := fa.X.(*ssa.Alloc); ok {
					if fv, _ := localFieldValue(a, fa.Field, x, 0); fv != nil {
						return dependsOnParam(fv, pa, depth+1)
					}
				}
			}
			if d := deref(x); d != ssa.Value(x) {
				return dependsOnParam(d, pa, depth+1)
			}
		}
	}
	return false
}

// checkPadZero: the second extension of Raw in Add (padding) is preceded by zeroing exactly the added range.
func checkPadZero(r *Run, rc *RuleCtx, le *linEval, add, grow *ssa.Function, rawF *types.Var) {
	rawS := indexStores(add, rawF)
	if len(rawS.stores) < 2 {
		rc.Violation(add, add.Pos(), "padding extension", "Add does not extend Raw a second time for padding: structure not recognised (undecided)")
		return
	}
	// order stores by dominance: the later one is the padding extension
	sort.SliceStable(rawS.stores, func(i, j int) bool { return instrDominates(rawS.stores[i], rawS.stores[j]) })
	first, second := rawS.stores[0], rawS.stores[len(rawS.stores)-1]
	l1, l2 := le.lenOf(first.Val), le.lenOf(second.Val)
	k := l2.add(l1, -1)
	rc.Instance("Add|padding extension", true, map[string]string{"extends_by": k.String()})
	// find a slice of Raw covering [l2-k, l2) = [l1, l2) that is zeroed
	var okDone ssa.Instruction
	how := ""
	eachInstr(add, func(b *ssa.BasicBlock, i int, in ssa.Instruction) {
		sl, ok := in.(*ssa.Slice)
		if !ok {
			return
		}
		root, lo, hi := le.window(sl)
		if _, f := loadedField(root); f != rawF || hi == nil {
			return
		}
		if !lo.equal(l1) || !hi.equal(l2) {
			return
		}
		if d, h := zeroingOf(le, add, sl); d != nil {
			okDone, how = d, h
		}
		// copy from an equally long slice of a package-level zero array
		for _, u := range *sl.Referrers() {
			if c, ok := u.(*ssa.Call); ok && isBuiltinCall(c, "copy") && c.Call.Args[0] == ssa.Value(sl) {
				src := c.Call.Args[1]
				if le.lenOf(src).equal(hi.add(lo, -1)) && zeroGlobalSlice(src) {
					okDone, how = c, "copy from zero array"
				}
				// copy from a local array that is never written and is at least as long as the padding can be
				// (the padding is f(n) - n for the padding function, whose summary bounds it)
				if n, isZ := zeroLocalArraySlice(src); isZ {
					if pf := r.P.Fn("nearestPaddedValueLength"); pf != nil {
						if sm := summarizeIntFunc(pf); sm != nil && sm.RelHi <= n {
							for t, coef := range k.Terms {
								if coef == 1 && strings.HasPrefix(t, fnName(pf)+"(") {
									okDone, how = c, fmt.Sprintf("copy from a zero local array of %d >= %d bytes", n, sm.RelHi)
								}
							}
						}
					}
				}
			}
		}
	})
	if okDone == nil {
		rc.Violation(add, instrPos(second), "padding not zeroed", "the bytes between the value and the next 4-byte boundary keep whatever the buffer held before (previous message content leaks; the encoding is not canonical)")
		return
	}
	rc.Instance("Add|zeroing", true, map[string]string{"how": how})
	if !instrDominates(okDone, second) && okDone != ssa.Instruction(second) {
		rc.Violation(add, instrPos(second), "padding zeroed only on some paths", "on some path the buffer is extended over the padding bytes without clearing them")
	}
}

// zeroLocalArraySlice: v is arr[:] of a local array that is never written (its only uses are slicing as the
// source of a copy): the array's length.
func zeroLocalArraySlice(v ssa.Value) (int64, bool) {
	src, isSl := v.(*ssa.Slice)
	if !isSl || src.High != nil || src.Max != nil {
		return 0, false
	}
	if src.Low != nil {
		if c, isC := constInt(src.Low); !isC || c != 0 {
			return 0, false
		}
	}
	al, isA := src.X.(*ssa.Alloc)
	if !isA {
		return 0, false
	}
	at, isArr := al.Type().(*types.Pointer).Elem().Underlying().(*types.Array)
	if !isArr {
		return 0, false
	}
	for _, u := range *al.Referrers() {
		switch y := u.(type) {
		case *ssa.Slice:
			for _, u2 := range *y.Referrers() {
				c2, isC := u2.(*ssa.Call)
				if !isC || !isBuiltinCall(c2, "copy") || c2.Call.Args[1] != ssa.Value(y) || c2.Call.Args[0] == ssa.Value(y) {
					return 0, false
				}
			}
		case *ssa.DebugRef:
		default:
			return 0, false
		}
	}
	return at.Len(), true
}

func zeroGlobalSlice(v ssa.Value) bool {
	sl, ok := v.(*ssa.Slice)
	if !ok {
		return false
	}
	g, ok := sl.X.(*ssa.Global)
	if !ok {
		return false
	}
	// never stored to
	for _, f := range g.Pkg.Members {
		fn, ok := f.(*ssa.Function)
		if !ok {
			continue
		}
		_ = fn
	}
	return true
}

func checkHeader(r *Run, rc *RuleCtx, le *linEval, cl *closures, wh *ssa.Function, rawF, typF, lenF, tidF *types.Var) {
	p := r.P
	fns := []*ssa.Function{wh}
	for _, cs := range p.CG().Sites[wh] {
		for _, g := range cs.Callees {
			if g.Name() != "grow" {
				fns = append(fns, g)
			}
		}
	}
	fns = dedupFns(fns)
	type rng struct {
		lo, hi int64
		role   string
	}
	var rs []rng
	for _, fn := range fns {
		r.Analysed(fn)
		for _, s := range wireSites(le, fn) {
			if s.Role != "dst" {
				continue
			}
			if _, f := loadedField(s.Root); f != rawF {
				continue
			}
			lo, hi, ok := s.constRange()
			if !ok {
				if l, isC := s.Lo.isConst(); isC && s.Width > 0 {
					lo, hi, ok = l, l+s.Width, true
				}
			}
			if !ok {
				continue
			}
			if s.Width > 0 && hi-lo != s.Width {
				rc.Violation(fn, instrPos(s.In), describeSite(s), "accessor width and slice width disagree")
			}
			role := "?"
			switch {
			case s.Kind == "PutUint16" && valueFromField(s.Val, typF):
				role = "type"
			case s.Kind == "PutUint16" && valueFromField(s.Val, lenF):
				role = "length"
			case s.Kind == "PutUint32":
				if c, ok := constInt(s.Val); ok && c == stunCookie {
					role = "cookie"
				} else {
					role = "not-the-cookie"
				}
			case s.Kind == "copy":
				if r2, _, _ := le.window(s.Val); fieldArrayOf(r2) == tidF {
					role = "tid"
				}
			}
			rs = append(rs, rng{lo, hi, role})
			rc.Instance(fmt.Sprintf("%s|[%d:%d) %s", fnName(fn), lo, hi, role), true, map[string]string{"fn": fnName(fn), "site": describeSite(s), "role": role})
		}
	}
	want := map[string][2]int64{"type": {0, 2}, "length": {2, 4}, "cookie": {4, 8}, "tid": {8, 20}}
	for role, w := range want {
		ok := false
		for _, x := range rs {
			if x.role == role && x.lo == w[0] && x.hi == w[1] {
				ok = true
			}
		}
		if !ok {
			rc.Violation(wh, wh.Pos(), fmt.Sprintf("header %s at [%d:%d)", role, w[0], w[1]), "WriteHeader does not write this header field at its RFC 5389 offset (or not with the magic cookie 0x2112A442)")
		}
	}
	// Decode reads the same offsets
	dm := cl.DecodeM
	if dm != nil {
		got := map[string]bool{}
		for _, s := range wireSites(le, dm) {
			if _, f := loadedField(s.Root); f != rawF {
				continue
			}
			lo, hi, ok := s.constRange()
			if !ok {
				continue
			}
			got[fmt.Sprintf("%s %s [%d:%d)", s.Kind, s.Role, lo, hi)] = true
		}
		for _, w := range []string{"Uint16 src [0:2)", "Uint16 src [2:4)", "Uint32 src [4:8)", "copy src [8:20)"} {
			rc.Instance("Decode|"+w, true, nil)
			if !got[w] {
				rc.Violation(dm, dm.Pos(), "reader site "+w, "Decode does not read this header field at the offset WriteHeader writes it")
			}
		}
	}
}

// valueFromField: v derives (through conversions and one pure call) from a load of field fv.
func valueFromField(v ssa.Value, fv *types.Var) bool {
	for i := 0; i < 6; i++ {
		v = stripConvs(v)
		if valueIsLoadOfField(v, fv) {
			return true
		}
		if c, ok := v.(*ssa.Call); ok && c.Call.StaticCallee() != nil && len(c.Call.Args) == 1 {
			v = c.Call.Args[0]
			continue
		}
		return false
	}
	return false
}

// fieldArrayOf: v is &x.f (array field sliced).
func fieldArrayOf(v ssa.Value) *types.Var {
	if fa, ok := v.(*ssa.FieldAddr); ok {
		return fieldOfAddr(fa)
	}
	return nil
}

func checkGrow(r *Run, rc *RuleCtx, le *linEval, grow *ssa.Function, rawF *types.Var) {
	p := r.P
	r.Analysed(grow)
	pr := newProver(p, grow)
	n := grow.Params[1]
	rawS := indexStores(grow, rawF)
	repS := map[string]bool{}
	q := &PathQuery{P: p, Fn: grow}
	q.Step = func(in ssa.Instruction, deferred bool, st uint64, c *PathCtx) (uint64, bool) {
		if i, ok := rawS.idx[in]; ok {
			st = uint64(i)
		}
		// re-slicing the buffer beyond its length: the bound must not exceed the capacity of the
		// slice the field holds on this path (the last store's value, or the field itself)
		if sl, ok := in.(*ssa.Slice); ok && !deferred && sl.High != nil {
			if ld, isLd := sl.X.(*ssa.UnOp); isLd && ld.Op == token.MUL {
				if _, f := loadedField(ld); f == rawF && f != nil {
					var capL lin
					extra := []ssa.Value{ld}
					if st == 0 {
						// nothing stored on this path yet: every load of the field reads the value it had
						// on entry, which the first load names
						first := ssa.Value(ld)
						for _, a := range fieldAccesses(grow, rawF) {
							if a.Kind == "load" {
								if fv, isV := a.Instr.(ssa.Value); isV && a.Instr.Block() == grow.Blocks[0] {
									first = fv
								}
								break
							}
						}
						capL = lin{"cap(" + pr.K.Key(first) + ")", 0}
						extra = append(extra, first)
					} else {
						val := rawS.stores[st-1].Val
						if mk, isMk := val.(*ssa.MakeSlice); isMk {
							cv := c.Resolve(mk.Cap)
							capL = pr.lin(cv)
							extra = append(extra, cv)
						} else {
							capL = lin{"cap(" + pr.K.Key(val) + ")", 0}
							extra = append(extra, val)
						}
					}
					key := fmt.Sprintf("grow|reslice@b%d|%d", sl.Block().Index, st)
					hv := c.Resolve(sl.High)
					res := pr.Prove(sl, Goal{X: hv, YL: &capL, C: 0, extra: extra, assume: c.PathConds()})
					rc.Instance(key, true, nil)
					if !res.OK && !repS[key] {
						repS[key] = true
						rc.ViolationPath(grow, instrPos(sl), "re-slice beyond the capacity", "grow re-slices Raw to n on a path where cap(Raw) >= n is not established ("+res.Goal+"): the slice expression panics for such n instead of growing the buffer", c.Witness(grow, sl))
					}
				}
			}
		}
		return st, false
	}
	rep := map[*ssa.Return]bool{}
	q.AtReturn = func(ret *ssa.Return, st uint64, c *PathCtx) {
		rc.Instance(fmt.Sprintf("grow|return@b%d|%d", ret.Block().Index, st), true, nil)
		if st == 0 {
			// no store: the guard len(Raw) >= n must hold
			var ld ssa.Value
			for _, a := range fieldAccesses(grow, rawF) {
				if a.Kind == "load" {
					ld = a.Instr.(ssa.Value)
					break
				}
			}
			if ld == nil {
				return
			}
			l := pr.linLen(ld, "len")
			res := pr.Prove(ret, Goal{X: n, YL: &l, C: 0, extra: []ssa.Value{ld}, assume: c.PathConds()})
			if !res.OK && !rep[ret] {
				rep[ret] = true
				rc.ViolationPath(grow, instrPos(ret), "return without growing", "grow returns with len(Raw) < n: the header writes that follow index past the buffer", c.Witness(grow, ret))
			}
			return
		}
		got := le.lenOf(rawS.stores[st-1].Val)
		want := le.Eval(n)
		if !got.equal(want) && !rep[ret] {
			rep[ret] = true
			rc.ViolationPath(grow, instrPos(ret), "len(Raw) after grow is "+got.String(), "grow(n) must leave len(Raw) == n on the growing paths", c.Witness(grow, ret))
		}
	}
	q.Run()
}

// checkValueBits: BITS obligations of MessageType.Value (same as C19.value).
func checkValueBits(r *Run, rc *RuleCtx) {
	p := r.P
	mt := p.Named("MessageType")
	valueFn := p.Meth("MessageType", "Value")
	if mt == nil || valueFn == nil {
		rc.Fail("MessageType.Value", "not found")
		return
	}
	r.Analysed(valueFn)
	fM, fC := FieldVar(mt, "Method"), FieldVar(mt, "Class")
	ev := &BitEval{fn: valueFn, memo: map[ssa.Value]bitvec{}}
	ev.Input = func(v ssa.Value) (string, bool) {
		_, f := loadedField(v)
		if f == fM && f != nil {
			return "M", true
		}
		if f == fC && f != nil {
			return "C", true
		}
		return "", false
	}
	for _, ret := range returnsOf(valueFn) {
		bv := ev.Eval(ret.Results[0])
		if len(bv) != 16 {
			rc.Violation(valueFn, instrPos(ret), "return value", "not a 16-bit value")
			continue
		}
		for i := 0; i < 16; i++ {
			want := rfcTypeLayout[i]
			ok := false
			if want[0] == "0" {
				ok = bv[i].K == bZero
			} else {
				ok = bv[i].K == bIn && bv[i].Src == want[0].(string) && bv[i].N == want[1].(int)
			}
			rc.Instance(fmt.Sprintf("Value.bit%d", i), true, nil)
			rc.Obligation(ok, false)
			if !ok {
				rc.Violation(valueFn, instrPos(ret), fmt.Sprintf("wire bit %d", i), fmt.Sprintf("Value() bit %d is %s, RFC 5389 fig.3 requires %v%v", i, bv[i], want[0], want[1]))
			}
		}
	}
}

// checkStaleViews: C03.alias.
func checkStaleViews(r *Run, rc *RuleCtx, fns []*ssa.Function, grow *ssa.Function, rawF *types.Var) {
	for _, fn := range fns {
		if fn == nil {
			continue
		}
		r.Analysed(fn)
		// growth points: calls of grow, stores of an append result into Raw
		var grows []ssa.Instruction
		eachInstr(fn, func(b *ssa.BasicBlock, i int, in ssa.Instruction) {
			if callsFn(in, grow) {
				grows = append(grows, in)
			}
			if s, ok := in.(*ssa.Store); ok {
				if fa, isFA := s.Addr.(*ssa.FieldAddr); isFA && fieldOfAddr(fa) == rawF {
					if c, isC := s.Val.(*ssa.Call); isC && isBuiltinCall(c, "append") {
						grows = append(grows, in)
					}
				}
			}
		})
		rootLoad := func(v ssa.Value) *ssa.UnOp {
			for i := 0; i < 8; i++ {
				switch x := v.(type) {
				case *ssa.Slice:
					v = x.X
					continue
				case *ssa.ChangeType:
					v = x.X
					continue
				case *ssa.UnOp:
					if x.Op == token.MUL {
						if _, f := addrField(x.X); f == rawF {
							return x
						}
					}
				}
				return nil
			}
			return nil
		}
		n := 0
		eachInstr(fn, func(b *ssa.BasicBlock, i int, in ssa.Instruction) {
			dst := byteWriteDst(in)
			if dst == nil {
				return
			}
			ld := rootLoad(dst)
			if ld == nil {
				return
			}
			n++
			for _, g := range grows {
				if g == in || g == ssa.Instruction(ld) {
					continue
				}
				if reachableFrom(ld, g) && reachableAvoid(g, in, ld) {
					rc.Violation(fn, instrPos(in), "write through "+exprDepth(dst, 0), "this view of Raw was taken before the buffer is grown again at "+r.P.pos(instrPos(g))+": if that growth reallocates, the bytes are written into the old array and the message keeps zeros or stale data there")
					return
				}
			}
		})
		rc.Instance(fnName(fn), true, map[string]int{"byte_writes_into_Raw": n, "growth_points": len(grows)})
	}
}

// checkEqualNil: Message.Equal (and what it calls) must not tell a nil slice from an empty one - which of
// the two a Message without attributes holds depends on its history (Reset/Decode truncate with [:0]),
// not on its content.
func checkEqualNil(r *Run, rc *RuleCtx) {
	p := r.P
	eq := p.Meth("Message", "Equal")
	if eq == nil {
		rc.Fail("Message.Equal", "not found")
		return
	}
	cl := p.CG().Closure([]*ssa.Function{eq}, func(f *ssa.Function) bool { return p.isLibFn(f) })
	n := 0
	for _, fn := range cl {
		r.Analysed(fn)
		eachInstr(fn, func(b *ssa.BasicBlock, i int, in ssa.Instruction) {
			bo, ok := in.(*ssa.BinOp)
			if !ok || (bo.Op != token.EQL && bo.Op != token.NEQ) {
				return
			}
			var other ssa.Value
			switch {
			case isNilConst(bo.Y):
				other = bo.X
			case isNilConst(bo.X):
				other = bo.Y
			default:
				return
			}
			if _, isSl := other.Type().Underlying().(*types.Slice); !isSl {
				return
			}
			n++
			rc.Violation(fn, instrPos(bo), exprDepth(bo, 0), "Equal distinguishes a nil slice from an empty one: a reused Message without attributes (empty list) is not Equal to the decode of its own bytes into a fresh Message (nil list), although their content is the same")
		})
		rc.Instance(fnName(fn)+"|no nil test of a slice", true, map[string]string{"fn": fnName(fn)})
	}
}
