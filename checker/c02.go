package main

import (
	"fmt"
	"go/token"
	"go/types"
	"sort"
	"strings"

	"golang.org/x/tools/go/ssa"
)

func init() { register("C02", "other", runC02) }

// firstMatchLoop: fn returns its "found" result only from inside an ascending full range loop over
// `over`, guarded by elem.Type == key, and the value returned there is the loop element.
type matchLoop struct {
	Loop     *Loop
	Elem     *ssa.IndexAddr
	MatchIf  condIf
	EqOnTrue bool
}

func findTypeMatchLoop(fn *ssa.Function, over ssa.Value, key ssa.Value, typeField string) (*matchLoop, string) {
	loops := loopsOf(fn)
	for _, lp := range loops {
		var ia *ssa.IndexAddr
		eachInstr(fn, func(b *ssa.BasicBlock, i int, in ssa.Instruction) {
			if x, ok := in.(*ssa.IndexAddr); ok && lp.Body[b] && canonCell(x.X) == canonCell(over) {
				ia = x
			}
		})
		if ia == nil {
			continue
		}
		idx, start, bound, isIdx := indexLoopInfo(lp)
		if !isIdx {
			return nil, "the loop over the attribute list is not an ascending counting loop"
		}
		if ia.Index != idx || start != 0 {
			return nil, "the loop does not visit the attributes in ascending order from the first"
		}
		if ln, ok := bound.(*ssa.Call); !ok || !isBuiltinCall(ln, "len") || canonCell(ln.Call.Args[0]) != canonCell(over) {
			return nil, "the loop bound is not the length of the attribute list"
		}
		// the type comparison
		for _, ci := range ifsOn(fn, func(v ssa.Value) bool {
			b, ok := v.(*ssa.BinOp)
			if !ok || (b.Op != token.EQL && b.Op != token.NEQ) {
				return false
			}
			isElemType := func(x ssa.Value) bool {
				ld, ok := x.(*ssa.UnOp)
				if !ok || ld.Op != token.MUL {
					return false
				}
				fa, ok := ld.X.(*ssa.FieldAddr)
				if !ok {
					return false
				}
				fv := fieldOfAddr(fa)
				if fv == nil || fv.Name() != typeField {
					return false
				}
				// the struct is the loop element (direct &over[i].Type or via a local copy)
				if fa.X == ssa.Value(ia) {
					return true
				}
				if al, ok := fa.X.(*ssa.Alloc); ok {
					if cv := lastWholeStore(al, ld); cv != nil {
						if l2, ok := cv.(*ssa.UnOp); ok && l2.X == ssa.Value(ia) {
							return true
						}
					}
				}
				return false
			}
			return (isElemType(b.X) && b.Y == key) || (isElemType(b.Y) && b.X == key)
		}) {
			if !lp.Body[ci.If.Block()] {
				continue
			}
			b := ci.Val.(*ssa.BinOp)
			return &matchLoop{Loop: lp, Elem: ia, MatchIf: ci, EqOnTrue: b.Op == token.EQL}, ""
		}
		return nil, "no comparison of the element's type with the requested type inside the loop"
	}
	return nil, "no loop over the attribute list"
}

// lastWholeStore: value of the whole-struct store to alloc a that reaches instruction at.
func lastWholeStore(a *ssa.Alloc, at ssa.Instruction) ssa.Value {
	var best *ssa.Store
	for _, r := range *a.Referrers() {
		if st, ok := r.(*ssa.Store); ok && st.Addr == ssa.Value(a) && instrDominates(st, at) {
			if best == nil || instrDominates(best, st) {
				best = st
			}
		}
	}
	if best == nil {
		return nil
	}
	return best.Val
}

func (m *matchLoop) eqEdge() *ssa.BasicBlock {
	if m.EqOnTrue {
		return m.MatchIf.OnTrue
	}
	return m.MatchIf.OnFalse
}

func runC02(r *Run) {
	p := r.P
	r.Res.Explanation = "the decoder's accept/reject table and field table extracted from the SSA form of (*Message).Decode and compared with RFC 5389 section 6/15 framing: the set of reject guards (normalised to difference constraints over len(Raw), the declared size, the window length and the padded attribute length), the loop invariant that the offset and the window advance by the same 4+padded amount, what is stored on success, the 0x8020 alias, ReadValue bit layout, first-match lookup, membership, and ForEach's save/restore and iteration"
	r.NotDecided("agreement with an independent parse as such: the reference is the embedded RFC table, not a second implementation", "restructurings of Decode beyond the recognised guard language are reported as undecided (a failure)")
	r.Assume("C01.pad: the padding function returns the next multiple of 4", "EXT: binary.BigEndian accessors")
	cl := p.buildClosures()
	dm := cl.DecodeM
	an := r.Rule("C02.anchors", "Decode, lookup and iteration functions resolve", 5)
	getA, getM, contains, forEach := p.Meth("Attributes", "Get"), p.Meth("Message", "Get"), p.Meth("Message", "Contains"), p.Meth("Message", "ForEach")
	for n, f := range map[string]*ssa.Function{"(*Message).Decode": dm, "Attributes.Get": getA, "(*Message).Get": getM, "(*Message).Contains": contains, "(*Message).ForEach": forEach} {
		if f != nil {
			an.Instance(n, false, nil)
			r.Analysed(f)
		} else {
			an.Fail(n, "anchor not found")
		}
	}
	an.Done()
	if dm == nil {
		return
	}
	msg := cl.Message
	rawF, lenF, tidF, attrsF := FieldVar(msg, "Raw"), FieldVar(msg, "Length"), FieldVar(msg, "TransactionID"), FieldVar(msg, "Attributes")
	le := newLinEval(p)
	sums := map[*ssa.Function]*IntSummary{}

	// ---- roles in Decode
	var sCall, aCall, cookieCall, tCall, atCall *ssa.Call
	var rootLoad ssa.Value
	var wPhi *ssa.Phi
	for _, s := range wireSites(le, dm) {
		lo, hi, ok := s.constRange()
		if !ok || s.Role != "src" {
			continue
		}
		c, isCall := s.In.(*ssa.Call)
		if !isCall {
			continue
		}
		if _, f := loadedField(s.Root); f == rawF {
			rootLoad = s.Root
			switch {
			case s.Kind == "Uint16" && lo == 0 && hi == 2:
				tCall = c
			case s.Kind == "Uint16" && lo == 2 && hi == 4:
				sCall = c
			case s.Kind == "Uint32" && lo == 4 && hi == 8:
				cookieCall = c
			}
		} else if ph, isPhi := s.Root.(*ssa.Phi); isPhi {
			wPhi = ph
			switch {
			case s.Kind == "Uint16" && lo == 0 && hi == 2:
				atCall = c
			case s.Kind == "Uint16" && lo == 2 && hi == 4:
				aCall = c
			}
		}
	}
	var pCall *ssa.Call
	eachInstr(dm, func(b *ssa.BasicBlock, i int, in ssa.Instruction) {
		if c, ok := in.(*ssa.Call); ok {
			if sc := c.Call.StaticCallee(); sc != nil && p.isLibFn(sc) && len(sc.Params) == 1 && isIntType(sc.Params[0].Type()) && sc.Signature.Results().Len() == 1 && isIntType(sc.Signature.Results().At(0).Type()) {
				pCall = c
				sums[sc] = summarizeIntFunc(sc)
			}
		}
	})

	// ---- guards
	gd := r.Rule("C02.guards", "the reject conditions of Decode are exactly {len(Raw) <= 19, cookie != 0x2112A442, len(Raw)-size <= 19, len(window) <= 3, len(window)-padded <= 3}; leading type bits, trailing bytes and padding content are never inspected", 5)
	if sCall == nil || aCall == nil || cookieCall == nil || wPhi == nil || pCall == nil || rootLoad == nil {
		gd.Fail("decoder roles", fmt.Sprintf("could not locate the declared size (u16@[2:4]), the cookie (u32@[4:8]), the attribute window, the attribute length (u16@w[2:4]) and the padding call in Decode (size=%v attrLen=%v cookie=%v window=%v pad=%v): undecided", sCall != nil, aCall != nil, cookieCall != nil, wPhi != nil, pCall != nil))
	} else {
		pr := newProver(p, dm)
		rename := map[string]string{
			pr.K.Key(sCall): "S", pr.K.Key(aCall): "A", pr.K.Key(pCall): "P",
			"len(" + pr.K.Key(rootLoad) + ")": "len(R)", "len(" + pr.K.Key(wPhi) + ")": "len(W)",
			zeroTerm: "0",
		}
		norm := func(cond ssa.Value, pol bool) string {
			for {
				if u, ok := cond.(*ssa.UnOp); ok && u.Op == token.NOT {
					pol = !pol
					cond = u.X
					continue
				}
				break
			}
			b, ok := cond.(*ssa.BinOp)
			if !ok {
				return "?" + exprDepth(cond, 0)
			}
			if b.X == ssa.Value(cookieCall) || b.Y == ssa.Value(cookieCall) {
				other := b.Y
				if b.Y == ssa.Value(cookieCall) {
					other = b.X
				}
				c, isC := constInt(other)
				op := b.Op
				if !pol {
					if op == token.EQL {
						op = token.NEQ
					} else if op == token.NEQ {
						op = token.EQL
					}
				}
				if isC {
					return fmt.Sprintf("cookie %s %#x", op, c)
				}
				return "cookie ?"
			}
			if !isIntType(b.X.Type()) {
				return "?" + exprDepth(cond, 0)
			}
			x, y := pr.lin(b.X), pr.lin(b.Y)
			op := b.Op
			if !pol {
				op = map[token.Token]token.Token{token.LSS: token.GEQ, token.LEQ: token.GTR, token.GTR: token.LEQ, token.GEQ: token.LSS, token.EQL: token.NEQ, token.NEQ: token.EQL}[op]
			}
			// to  A - B <= c
			var a, bb lin
			var c int64
			switch op {
			case token.LSS:
				a, bb, c = x, y, -1
			case token.LEQ:
				a, bb, c = x, y, 0
			case token.GTR:
				a, bb, c = y, x, -1
			case token.GEQ:
				a, bb, c = y, x, 0
			default:
				return "?" + op.String()
			}
			c = c - a.Off + bb.Off
			name := func(t string) string {
				if n, ok := rename[t]; ok {
					return n
				}
				return "<" + short(t) + ">"
			}
			if bb.T == zeroTerm {
				return fmt.Sprintf("%s <= %d", name(a.T), c)
			}
			if a.T == zeroTerm {
				return fmt.Sprintf("-%s <= %d", name(bb.T), c)
			}
			return fmt.Sprintf("%s - %s <= %d", name(a.T), name(bb.T), c)
		}
		// reject guards: Ifs one of whose successors is dominated-only by error returns
		_ = errorResultIndex(dm)
		isRejectBlock := func(b *ssa.BasicBlock) bool {
			if len(b.Preds) != 1 {
				return false
			}
			// every path from b ends in a return of a non-nil error (decided per path: the error may
			// travel through the merged result of a normalised helper)
			ok, _, _ := allPathsReject(p, dm, b)
			return ok
		}
		got := map[string]ssa.Instruction{}
		var loopCond string
		for _, b := range dm.Blocks {
			iff, ok := b.Instrs[len(b.Instrs)-1].(*ssa.If)
			if !ok || fullyThreaded(b) {
				continue // (a dispatch on the merged result of a normalised helper is not a guard of its own)
			}
			switch {
			case isRejectBlock(b.Succs[0]):
				got[norm(iff.Cond, true)] = iff
			case isRejectBlock(b.Succs[1]):
				got[norm(iff.Cond, false)] = iff
			default:
				// loop condition
				loopCond = norm(iff.Cond, true)
			}
		}
		want := []string{"len(R) <= 19", fmt.Sprintf("cookie != %#x", stunCookie), "len(R) - S <= 19", "len(W) <= 3", "len(W) - P <= 3"}
		for _, w := range want {
			gd.Instance("reject "+w, true, map[string]string{"reject_when": w})
			if _, ok := got[w]; !ok {
				gd.Violation(dm, dm.Pos(), "missing reject guard: "+w, fmt.Sprintf("Decode does not reject exactly when %s (its reject guards are %v): the accept set differs from RFC 5389 framing", w, sortedKeysI(got)))
			}
		}
		for g, in := range got {
			found := false
			for _, w := range want {
				if w == g {
					found = true
				}
			}
			if !found {
				gd.Violation(dm, instrPos(in), "extra or altered reject guard: "+g, "Decode rejects (or fails to reject) inputs the RFC 5389 framing treats differently; reference guards: "+strings.Join(want, "; "))
			}
		}
		// loop: continue while offset < S  (offset - S <= -1), offset starts at 0 and advances by 4+P as the window does
		lp := r.Rule("C02.loop", "the attribute loop runs while offset < size with offset starting at 0 and advancing by exactly the 4+padded bytes by which the window advances, so it ends exactly when the declared body is consumed", 2)
		var off *ssa.Phi
		for _, in := range wPhi.Block().Instrs {
			if ph, ok := in.(*ssa.Phi); ok && ph != wPhi && isIntType(ph.Type()) {
				off = ph
			}
		}
		if off == nil {
			// no counter: the loop runs while the window is non-empty; with the first window being exactly the
			// declared body (C02.window) and each step cutting 4+padded bytes off its front, that ends exactly
			// when the declared body is consumed
			for _, b := range dm.Blocks {
				if iff, ok := b.Instrs[len(b.Instrs)-1].(*ssa.If); ok && b == wPhi.Block() {
					loopCond = norm(iff.Cond, true)
				}
			}
			lp.Instance("loop condition "+loopCond, true, map[string]string{"continue_while": loopCond})
			if loopCond != "-len(W) <= -1" {
				lp.Violation(dm, instrPos(wPhi), "loop condition "+loopCond, "without a consumed-bytes counter the loop must continue exactly while the window is non-empty")
			}
			step := linExpr{C: 4, Terms: map[string]int64{}}.add(le.Eval(pCall), 1)
			for i, we := range wPhi.Edges {
				if !blockDominates(wPhi.Block(), wPhi.Block().Preds[i]) {
					continue
				}
				root, lo, hi := le.window(we)
				lp.Instance("window step "+lo.String(), true, map[string]string{"window_step": lo.String()})
				if root != ssa.Value(wPhi) || hi != nil || !lo.equal(step) {
					lp.Violation(dm, instrPos(wPhi), "window step", "the window does not advance by 4 + padded length")
				}
			}
		} else {
			rename[pr.K.Key(off)] = "offset"
			// recompute loop condition text with the offset name
			for _, b := range dm.Blocks {
				if iff, ok := b.Instrs[len(b.Instrs)-1].(*ssa.If); ok && b == wPhi.Block() {
					loopCond = norm(iff.Cond, true)
				}
			}
			lp.Instance("loop condition "+loopCond, true, map[string]string{"continue_while": loopCond})
			// the counter may count up from 0 to the declared size, or down from the declared size to 0
			down := loopCond == "-offset <= -1"
			if loopCond != "offset - S <= -1" && !down {
				lp.Violation(dm, instrPos(off), "loop condition "+loopCond, "the loop must continue exactly while offset < declared size (or, counting down, while the remaining size is positive)")
			}
			step := linExpr{C: 4, Terms: map[string]int64{}}.add(le.Eval(pCall), 1)
			for i, e := range off.Edges {
				pred := off.Block().Preds[i]
				if !blockDominates(off.Block(), pred) {
					if down {
						if !le.Eval(e).equal(le.Eval(sCall)) {
							lp.Violation(dm, instrPos(off), "remaining size does not start at the declared size", "")
						}
						continue
					}
					if c, ok := constInt(e); !ok || c != 0 {
						lp.Violation(dm, instrPos(off), "offset does not start at 0", "")
					}
					continue
				}
				d := le.Eval(e).add(le.Eval(off), -1)
				if down {
					d = le.Eval(off).add(le.Eval(e), -1)
				}
				lp.Instance("offset step "+d.String(), true, map[string]string{"offset_step": d.String()})
				if !d.equal(step) {
					lp.Violation(dm, instrPos(off), "offset step "+d.String(), "the consumed-bytes counter does not advance by 4 + padded length: the loop ends before or after the declared body")
				}
				we := wPhi.Edges[i]
				root, lo, hi := le.window(we)
				if root != ssa.Value(wPhi) || hi != nil || !lo.equal(step) {
					lp.Violation(dm, instrPos(wPhi), "window step", "the window does not advance by the same 4 + padded length as the counter")
				}
			}
		}
		lp.Done()
	}
	gd.Done()

	// ---- window (shared with C01)
	wn := r.Rule("C02.window", "the first window is Raw[20:20+size], each value is window[4:][:length], the next window starts at the padded length", 3)
	checkWindow(r, wn, cl, sums)
	wn.Done()

	// ---- fields
	fl := r.Rule("C02.fields", "on success Decode stores Type from u16@[0:2) via ReadValue, Length = u16@[2:4), TransactionID = bytes [8:20), and per attribute Type = alias(u16@w[0:2)), Length = u16@w[2:4)", 5)
	{
		readValue := p.Meth("MessageType", "ReadValue")
		okType := false
		eachInstr(dm, func(b *ssa.BasicBlock, i int, in ssa.Instruction) {
			if c, ok := in.(*ssa.Call); ok && callsFn(c, readValue) && len(c.Call.Args) == 2 && tCall != nil && canonPhi(c.Call.Args[1]) == ssa.Value(tCall) {
				okType = true
			}
		})
		fl.Instance("Type", true, nil)
		if !okType {
			fl.Violation(dm, dm.Pos(), "Type", "the message type is not decoded from bytes [0:2)")
		}
		okLen := false
		for _, a := range fieldAccesses(dm, lenF) {
			if a.Kind == "store" && sCall != nil && stripConvs(a.Instr.(*ssa.Store).Val) == ssa.Value(sCall) {
				okLen = true
			}
		}
		fl.Instance("Length", true, nil)
		if !okLen {
			fl.Violation(dm, dm.Pos(), "Length", "Length is not the 16-bit length field at bytes [2:4)")
		}
		okTID := false
		for _, s := range wireSites(le, dm) {
			if s.Kind == "copy" && s.Role == "dst" && fieldArrayOf(s.Root) == tidF {
				_, lo, hi := le.window(s.Val)
				if l, ok := lo.isConst(); ok && l == 8 && hi != nil {
					if h, ok := hi.isConst(); ok && h == 20 {
						okTID = true
					}
				}
			}
		}
		fl.Instance("TransactionID", true, nil)
		if !okTID {
			fl.Violation(dm, dm.Pos(), "TransactionID", "the transaction ID is not copied from bytes [8:20)")
		}
		attrT := p.Named("RawAttribute")
		atF, alF := FieldVar(attrT, "Type"), FieldVar(attrT, "Length")
		compat := p.Fn("compatAttrType")
		okAT, okAL := false, false
		for _, a := range fieldAccesses(dm, atF) {
			if a.Kind == "store" {
				v := a.Instr.(*ssa.Store).Val
				if c, ok := v.(*ssa.Call); ok && compat != nil && callsFn(c, compat) && atCall != nil && c.Call.Args[0] == ssa.Value(atCall) {
					okAT = true
				}
			}
		}
		for _, a := range fieldAccesses(dm, alF) {
			if a.Kind == "store" && aCall != nil && a.Instr.(*ssa.Store).Val == ssa.Value(aCall) {
				okAL = true
			}
		}
		fl.Instance("attr.Type", true, nil)
		fl.Instance("attr.Length", true, nil)
		if !okAT {
			fl.Violation(dm, dm.Pos(), "attribute Type", "the attribute type is not alias(u16 at bytes [0:2) of the attribute)")
		}
		if !okAL {
			fl.Violation(dm, dm.Pos(), "attribute Length", "the attribute length is not the u16 at bytes [2:4) of the attribute")
		}
		// the decoded attribute appended is the local struct
		okApp := false
		for _, a := range fieldAccesses(dm, attrsF) {
			if a.Kind == "store" {
				if ap, ok := a.Instr.(*ssa.Store).Val.(*ssa.Call); ok && isBuiltinCall(ap, "append") {
					okApp = true
				}
			}
		}
		if !okApp {
			fl.Violation(dm, dm.Pos(), "attribute list", "decoded attributes are not appended to the list")
		}
	}
	fl.Done()

	// ---- compat
	cp := r.Rule("C02.compat", "the attribute-type alias maps 0x8020 to 0x0020 (XOR-MAPPED-ADDRESS) and is the identity otherwise", 2)
	if compat := p.Fn("compatAttrType"); compat == nil {
		cp.Fail("compatAttrType", "not found")
	} else {
		r.Analysed(compat)
		tab, def, ok := switchTable(compat)
		cp.Instance("table", true, map[string]interface{}{"table": fmt.Sprint(tab), "default": def})
		cp.Instance("default", true, nil)
		if !ok {
			cp.Violation(compat, compat.Pos(), "alias table", "cannot extract the table: "+def)
		} else {
			if len(tab) != 1 || tab["32800"] != "32" {
				cp.Violation(compat, compat.Pos(), fmt.Sprintf("alias table %v", tab), "the only alias is 0x8020 -> 0x0020")
			}
			if def != "identity" {
				cp.Violation(compat, compat.Pos(), "default "+def, "all other attribute types must be passed through unchanged")
			}
		}
	}
	cp.Done()

	// ---- type
	ty := r.Rule("C02.type", "ReadValue de-interleaves class and method bits as RFC 5389 figure 3 (BITS, shared with C19)", 24)
	checkReadBits(r, ty)
	ty.Done()

	// ---- get
	gt := r.Rule("C02.get", "Attributes.Get returns the first attribute of the type (ascending full range, match guard, returns the element) and zero,false otherwise; Message.Get delegates and maps not-found to an error; Contains is the same membership test", 3)
	if getA != nil {
		ml, why := findTypeMatchLoop(getA, getA.Params[0], getA.Params[1], "Type")
		gt.Instance("Attributes.Get", true, nil)
		if ml == nil {
			gt.Violation(getA, getA.Pos(), "first-match loop", why)
		} else {
			if in := earlyExit(ml); in != nil {
				gt.Violation(getA, instrPos(in), "early not-found", "the search gives up before the end of the list")
			}
			for _, ret := range returnsOf(getA) {
				okv := ret.Results[1]
				isTrue := false
				if c, ok := okv.(*ssa.Const); ok && c.Value != nil && c.Value.String() == "true" {
					isTrue = true
				}
				inMatch := blockDominates(ml.eqEdge(), ret.Block()) && len(ml.eqEdge().Preds) == 1
				if isTrue != inMatch {
					gt.Violation(getA, instrPos(ret), "found flag", "the found result does not coincide with a type match")
				}
				if isTrue {
					// returned value is the element
					v := ret.Results[0]
					okElem := false
					if ld, ok := v.(*ssa.UnOp); ok {
						if ld.X == ssa.Value(ml.Elem) {
							okElem = true
						}
						// the element addressed again through the index the loop handed out (a merged "index or -1"
						// that is the loop's index wherever this return can be reached)
						if ia, isIA := ld.X.(*ssa.IndexAddr); isIA && ml.Elem != nil && ia.X == ml.Elem.X && canonPhi(ia.Index) == canonPhi(ml.Elem.Index) {
							okElem = true
						}
						if al, ok := ld.X.(*ssa.Alloc); ok {
							if cv := lastWholeStore(al, ld); cv != nil {
								if l2, ok := cv.(*ssa.UnOp); ok && l2.X == ssa.Value(ml.Elem) {
									okElem = true
								}
							}
						}
					}
					if !okElem {
						gt.Violation(getA, instrPos(ret), "returned attribute", "the attribute returned is not the matching element")
					}
				}
			}
		}
	}
	if getM != nil && getA != nil {
		var gc *ssa.Call
		eachInstr(getM, func(b *ssa.BasicBlock, i int, in ssa.Instruction) {
			if c, ok := in.(*ssa.Call); ok && callsFn(c, getA) {
				gc = c
			}
		})
		gt.Instance("Message.Get", true, nil)
		if gc == nil {
			// no delegation: Message.Get must be a first-match search of its own over the message's list
			var over ssa.Value
			eachInstr(getM, func(b *ssa.BasicBlock, i int, in ssa.Instruction) {
				if ia, ok := in.(*ssa.IndexAddr); ok && valueIsLoadOfField(canonCell(ia.X), attrsF) {
					over = ia.X
				}
			})
			var ml *matchLoop
			why := "Message.Get neither delegates to Attributes.Get nor searches the message's own attribute list"
			if over != nil {
				ml, why = findTypeMatchLoop(getM, over, getM.Params[1], "Type")
			}
			if ml == nil {
				gt.Violation(getM, getM.Pos(), "delegation", why)
			} else {
				if in := earlyExit(ml); in != nil {
					gt.Violation(getM, instrPos(in), "early not-found", "the search gives up before the end of the list")
				}
				idx := errorResultIndex(getM)
				for _, ret := range returnsOf(getM) {
					c := &PathCtx{K: newKeyer(), assign: map[string]bool{}, phiSel: map[*ssa.Phi]ssa.Value{}, P: p}
					ns := c.NilState(ret.Results[idx])
					inMatch := blockDominates(ml.eqEdge(), ret.Block()) && len(ml.eqEdge().Preds) == 1
					if (inMatch && ns != +1) || (!inMatch && ns != -1) {
						gt.Violation(getM, instrPos(ret), "error mapping", "Message.Get must return nil iff the attribute was found")
					}
					if inMatch {
						okVal := false
						if ld, ok := deref(ret.Results[0]).(*ssa.UnOp); ok && ld.Op == token.MUL {
							sameElem := func(v ssa.Value) bool {
								if v == ssa.Value(ml.Elem) {
									return true
								}
								ia, ok := v.(*ssa.IndexAddr)
								return ok && canonCell(ia.X) == canonCell(ml.Elem.X) && ia.Index == ml.Elem.Index
							}
							if fa, ok := ld.X.(*ssa.FieldAddr); ok && sameElem(fa.X) {
								if fv := fieldOfAddr(fa); fv != nil && fv.Name() == "Value" {
									okVal = true
								}
							}
						}
						if !okVal {
							gt.Violation(getM, instrPos(ret), "returned value", "Message.Get does not return the value of the matching attribute")
						}
					}
				}
			}
		} else if !valueIsLoadOfField(gc.Call.Args[0], attrsF) || gc.Call.Args[1] != ssa.Value(getM.Params[1]) {
			gt.Violation(getM, getM.Pos(), "delegation", "Message.Get does not look the requested type up in the message's own attribute list")
		} else {
			idx := errorResultIndex(getM)
			q := &PathQuery{P: p, Fn: getM}
			rep := false
			var okV ssa.Value
			for _, u := range *gc.Referrers() {
				if e, ok := u.(*ssa.Extract); ok && e.Index == 1 {
					okV = e
				}
			}
			q.AtReturn = func(ret *ssa.Return, st uint64, c *PathCtx) {
				if okV == nil || rep {
					return
				}
				key, pol := c.K.condKey(okV)
				found, known := c.Known(key)
				if known && !pol {
					found = !found
				}
				ns := c.NilState(ret.Results[idx])
				if !known || (found && ns != +1) || (!found && ns != -1) {
					rep = true
					gt.ViolationPath(getM, instrPos(ret), "error mapping", "Message.Get must return nil iff the attribute was found", c.Witness(getM, ret))
				}
			}
			q.Run()
		}
	}
	if contains != nil {
		attrsLoad := ssa.Value(nil)
		for _, a := range fieldAccesses(contains, attrsF) {
			if a.Kind == "load" {
				attrsLoad = a.Instr.(ssa.Value)
			}
		}
		gt.Instance("Message.Contains", true, nil)
		okC := false
		if getA != nil {
			eachInstr(contains, func(b *ssa.BasicBlock, i int, in ssa.Instruction) {
				if c, ok := in.(*ssa.Call); ok && callsFn(c, getA) {
					okC = true // delegates to the verified lookup
				}
			})
		}
		if !okC && attrsLoad != nil {
			ml, why := findTypeMatchLoop(contains, attrsLoad, contains.Params[1], "Type")
			if ml == nil {
				gt.Violation(contains, contains.Pos(), "membership loop", why)
			} else {
				okC = true
				if in := earlyExit(ml); in != nil {
					gt.Violation(contains, instrPos(in), "early false", "the membership test gives up before the end of the list")
				}
				for _, ret := range returnsOf(contains) {
					// the result computed from a merged "index or -1": judged per incoming value
					if edges, isCmp := mergedIndexTest(ret.Results[0]); isCmp {
						for _, ev := range edges {
							inMatch := blockDominates(ml.eqEdge(), ev.pred) && len(ml.eqEdge().Preds) == 1
							if !ev.known || ev.val != inMatch {
								gt.Violation(contains, instrPos(ret), "membership result", "Contains must be true exactly on a type match")
							}
						}
						continue
					}
					c, isC := ret.Results[0].(*ssa.Const)
					isTrue := isC && c.Value != nil && c.Value.String() == "true"
					inMatch := blockDominates(ml.eqEdge(), ret.Block()) && len(ml.eqEdge().Preds) == 1
					if !isC || isTrue != inMatch {
						gt.Violation(contains, instrPos(ret), "membership result", "Contains must be true exactly on a type match")
					}

				}
			}
		}
		if !okC {
			gt.Violation(contains, contains.Pos(), "membership", "Contains is not a membership test over the attribute list")
		}
	}
	gt.Done()

	// ---- foreach
	fe := r.Rule("C02.foreach", "ForEach saves the attribute list, visits the saved list in ascending order, narrows the message to saved[i:] only for matching i, returns the callback's error and restores the list on every exit", 3)
	if forEach != nil {
		sr := newSaveRestore(p, forEach, attrsF)
		fe.Instance("save/restore", true, map[string]int{"saved": len(sr.saved), "stores": len(sr.stores)})
		if len(sr.saved) == 0 {
			fe.Violation(forEach, forEach.Pos(), "attribute list not saved", "ForEach cannot leave the message as it found it")
		} else {
			viol, _ := sr.run(false)
			for _, v := range viol {
				fe.ViolationPath(forEach, instrPos(v.Ret), "attribute list not restored", "ForEach returns (for example with the callback's error) with the message still narrowed: earlier attributes vanish from Get/Contains", v.Witness)
			}
		}
		// narrowing stores: value = saved[i:] with i the ascending range index over the saved list, on the match edge
		var savedList ssa.Value
		for v := range sr.saved {
			savedList = v
		}
		for _, st := range sr.stores {
			if sr.isSaved(st.Val) {
				continue
			}
			sl, ok := st.Val.(*ssa.Slice)
			fe.Instance("narrowing store", true, map[string]string{"value": exprDepth(st.Val, 0)})
			if !ok || sl.High != nil || sl.Low == nil || !sr.isSaved(sl.X) {
				fe.Violation(forEach, instrPos(st), "narrowing "+exprDepth(st.Val, 0), "the callback must see saved[i:] of the saved list")
				continue
			}
			// the loop ranges over the saved list and the store is on the match edge with index = Low
			var over ssa.Value
			eachInstr(forEach, func(b *ssa.BasicBlock, i int, in ssa.Instruction) {
				if ia, ok := in.(*ssa.IndexAddr); ok && sr.isSaved(ia.X) && ia.Index == sl.Low {
					over = ia.X
				}
			})
			if over == nil {
				fe.Violation(forEach, instrPos(st), "narrowing index", "the narrowing index is not the index of the attribute being visited (e.g. i+1)")
				continue
			}
			ml, why := findTypeMatchLoop(forEach, over, forEach.Params[1], "Type")
			if ml == nil {
				fe.Violation(forEach, instrPos(st), "iteration", why)
				continue
			}
			if !(blockDominates(ml.eqEdge(), st.Block()) && len(ml.eqEdge().Preds) == 1) {
				fe.Violation(forEach, instrPos(st), "narrowing without a type match", "the callback is invoked for attributes of other types")
			}
			for _, ex := range ml.Loop.Exits() {
				if ex[0] == ml.Loop.Header {
					continue
				}
				if _, isRet := ex[1].Instrs[len(ex[1].Instrs)-1].(*ssa.Return); !isRet {
					fe.Violation(forEach, instrPos(ex[0].Instrs[len(ex[0].Instrs)-1]), "early exit", "ForEach stops before all attributes of the type were visited")
				}
			}
		}
		_ = savedList
		// callback error returned
		var fcall *ssa.Call
		eachInstr(forEach, func(b *ssa.BasicBlock, i int, in ssa.Instruction) {
			if c, ok := in.(*ssa.Call); ok && c.Call.Value == ssa.Value(forEach.Params[2]) {
				fcall = c
			}
		})
		fe.Instance("callback", true, nil)
		if fcall == nil {
			fe.Violation(forEach, forEach.Pos(), "callback not called", "")
		} else {
			idx := errorResultIndex(forEach)
			q := &PathQuery{P: p, Fn: forEach, From: fcall}
			rep := false
			q.AtBlock = func(b *ssa.BasicBlock, st uint64, c *PathCtx) uint64 {
				if c.NilState(fcall) == -1 {
					st |= 1
				}
				return st
			}
			q.AtReturn = func(ret *ssa.Return, st uint64, c *PathCtx) {
				if (st&1 != 0 || c.NilState(fcall) == -1) && !rep {
					v := c.Resolve(deref(ret.Results[idx]))
					if v != ssa.Value(fcall) {
						rep = true
						fe.ViolationPath(forEach, instrPos(ret), "callback error not returned", "ForEach must return the callback's error", c.Witness(forEach, ret))
					}
				}
			}
			q.Run()
		}
	}
	fe.Done()

	// ---- the reported list is the list of this input only (shared with C08.reset)
	rs := r.Rule("C02.reset", "on every path of Decode the attribute list is emptied before anything is appended to its previous content and before every successful return: the reported TLV list is that of this input, not of a previously decoded one", 1)
	checkDecodeReset(r, rs, dm, FieldVar(msg, "Attributes"))
	rs.Done()
	// every copying entry point hands Decode a Raw that holds exactly the given bytes: the verdict is that of
	// this byte string, whatever the receiving message held before (shared with C08)
	r.Borrow("C08", map[string]string{"C08.copy": "C02.entry"})
	// a malformed input is rejected by an error return: every guard of Decode stands before the reads it protects
	// (the bounds obligations of the decode closure, shared with C01)
	r.Borrow("C01", map[string]string{"C01.bounds": "C02.bounds"})
}

func sortedKeysI(m map[string]ssa.Instruction) []string {
	var ks []string
	for k := range m {
		ks = append(ks, k)
	}
	sort.Strings(ks)
	return ks
}

// switchTable extracts {constant -> returned constant} for a function of one parameter whose returns
// are guarded by equality tests of the parameter; def is "identity" when the fall-through returns the
// (converted) parameter, or the constant returned.
func switchTable(fn *ssa.Function) (map[string]string, string, bool) {
	if len(fn.Params) < 1 {
		return nil, "no parameter", false
	}
	pa := fn.Params[len(fn.Params)-1]
	tab := map[string]string{}
	def := ""
	for _, ret := range returnsOf(fn) {
		if len(ret.Results) != 1 {
			return nil, "multiple results", false
		}
		// dominating equality conditions on the parameter
		var eqs []string
		for x := ret.Block(); x != nil; x = x.Idom() {
			if len(x.Preds) != 1 {
				continue
			}
			pp := x.Preds[0]
			iff, ok := pp.Instrs[len(pp.Instrs)-1].(*ssa.If)
			if !ok {
				continue
			}
			b, ok := iff.Cond.(*ssa.BinOp)
			if !ok || (b.Op != token.EQL && b.Op != token.NEQ) {
				return nil, "non-equality guard " + exprDepth(iff.Cond, 0), false
			}
			var c *ssa.Const
			if b.X == ssa.Value(pa) {
				c, _ = b.Y.(*ssa.Const)
			} else if b.Y == ssa.Value(pa) {
				c, _ = b.X.(*ssa.Const)
			}
			if c == nil || c.Value == nil {
				return nil, "guard not on the parameter", false
			}
			eq := (b.Op == token.EQL) == (pp.Succs[0] == x)
			if eq {
				eqs = append(eqs, c.Value.ExactString())
			}
		}
		v := ret.Results[0]
		out := ""
		if c, ok := v.(*ssa.Const); ok && c.Value != nil {
			out = c.Value.ExactString()
		} else if stripConvs(v) == ssa.Value(pa) {
			out = "identity"
		} else if ph, ok := v.(*ssa.Phi); ok {
			_ = ph
			return nil, "merged returns", false
		} else {
			out = "?" + exprDepth(v, 0)
		}
		if len(eqs) == 0 {
			if def != "" && def != out {
				return nil, "several defaults", false
			}
			def = out
		} else {
			for _, e := range eqs {
				tab[e] = out
			}
		}
	}
	return tab, def, true
}

// checkReadBits: BITS obligations of ReadValue (same as C19.read).
func checkReadBits(r *Run, rc *RuleCtx) {
	p := r.P
	mt := p.Named("MessageType")
	readFn := p.Meth("MessageType", "ReadValue")
	if mt == nil || readFn == nil {
		rc.Fail("MessageType.ReadValue", "not found")
		return
	}
	r.Analysed(readFn)
	fM, fC := FieldVar(mt, "Method"), FieldVar(mt, "Class")
	ev := &BitEval{fn: readFn, memo: map[ssa.Value]bitvec{}}
	var param ssa.Value
	for _, pa := range readFn.Params {
		if _, _, ok := intWidth(pa.Type()); ok {
			param = pa
		}
	}
	ev.Input = func(v ssa.Value) (string, bool) { return "v", v == param && param != nil }
	expect := map[*types.Var]map[int]int{fM: {}, fC: {}}
	for i := 0; i < 14; i++ {
		f := fM
		if rfcTypeLayout[i][0].(string) == "C" {
			f = fC
		}
		expect[f][rfcTypeLayout[i][1].(int)] = i
	}
	seen := map[*types.Var]bool{}
	eachInstr(readFn, func(b *ssa.BasicBlock, i int, in ssa.Instruction) {
		st, ok := in.(*ssa.Store)
		if !ok {
			return
		}
		fv := fieldOfAddr(st.Addr)
		if fv != fM && fv != fC {
			return
		}
		seen[fv] = true
		bv := ev.Eval(st.Val)
		for k := range bv {
			want := abit{K: bZero}
			if wi, ok := expect[fv][k]; ok {
				want = abit{K: bIn, Src: "v", N: wi}
			}
			rc.Instance(fmt.Sprintf("ReadValue.%s%d", fv.Name(), k), true, nil)
			rc.Obligation(bv[k] == want, false)
			if bv[k] != want {
				rc.Violation(readFn, instrPos(st), fmt.Sprintf("%s bit %d", fv.Name(), k), fmt.Sprintf("ReadValue stores %s, RFC 5389 fig.3 requires %s", bv[k], want))
			}
		}
	})
	if !seen[fM] || !seen[fC] {
		rc.Violation(readFn, readFn.Pos(), "stores", "ReadValue does not store both Method and Class")
	}
}

// earlyExit: an exit of the match loop other than the range-done exit and the match edge.
func earlyExit(ml *matchLoop) ssa.Instruction {
	eq := ml.eqEdge()
	for _, ex := range ml.Loop.Exits() {
		if ex[0] == ml.Loop.Header {
			continue
		}
		if ex[1] == eq || blockDominates(eq, ex[1]) {
			continue
		}
		return ex[0].Instrs[len(ex[0].Instrs)-1]
	}
	return nil
}

// mergedIndexTest: v is a comparison of a phi with a constant (the "index or -1" a search helper returns,
// tested for >= 0): its truth value per incoming edge of the phi, decided from constants and from lower
// bounds that hold by construction (a range index is never negative).
type mergedEdgeVal struct {
	pred  *ssa.BasicBlock
	val   bool
	known bool
}

func mergedIndexTest(v ssa.Value) ([]mergedEdgeVal, bool) {
	bo, ok := v.(*ssa.BinOp)
	if !ok {
		return nil, false
	}
	ph, isPhi := bo.X.(*ssa.Phi)
	k, isK := constInt(bo.Y)
	op := bo.Op
	if !isPhi || !isK {
		ph, isPhi = bo.Y.(*ssa.Phi)
		k, isK = constInt(bo.X)
		switch op {
		case token.LSS:
			op = token.GTR
		case token.LEQ:
			op = token.GEQ
		case token.GTR:
			op = token.LSS
		case token.GEQ:
			op = token.LEQ
		}
	}
	if !isPhi || !isK {
		return nil, false
	}
	var out []mergedEdgeVal
	for i, e := range ph.Edges {
		ev := mergedEdgeVal{pred: ph.Block().Preds[i]}
		if c, isC := constInt(e); isC {
			ev.known = true
			switch op {
			case token.LSS:
				ev.val = c < k
			case token.LEQ:
				ev.val = c <= k
			case token.GTR:
				ev.val = c > k
			case token.GEQ:
				ev.val = c >= k
			case token.EQL:
				ev.val = c == k
			case token.NEQ:
				ev.val = c != k
			default:
				ev.known = false
			}
		} else if lb, okL := lowerBoundOf(e, 0); okL {
			switch op {
			case token.GEQ:
				ev.val, ev.known = true, lb >= k
			case token.GTR:
				ev.val, ev.known = true, lb > k
			case token.LSS:
				ev.val, ev.known = false, lb >= k
			case token.LEQ:
				ev.val, ev.known = false, lb > k
			case token.NEQ:
				ev.val, ev.known = true, lb > k
			case token.EQL:
				ev.val, ev.known = false, lb > k
			}
		}
		out = append(out, ev)
	}
	return out, true
}
