package main

import (
	"fmt"
	"go/constant"
	"go/token"
	"os"
	"sort"
	"strings"

	"golang.org/x/tools/go/ssa"
)

// PATH engine: exploration of the instruction-level control-flow graph of one
// function with (a) predicate consistency - two branches on the same pure
// condition must agree along a path, (b) deferred calls executed at rundefers,
// (c) a small client state carried along the path.

// condKey canonicalises a branch condition into (key, polarity).
func (k *keyer) condKey(c ssa.Value) (string, bool) {
	pol := true
	for {
		if u, ok := c.(*ssa.UnOp); ok && u.Op == token.NOT {
			pol = !pol
			c = u.X
			continue
		}
		break
	}
	if b, ok := c.(*ssa.BinOp); ok {
		switch b.Op {
		case token.NEQ:
			return k.binKey(token.EQL, b.X, b.Y), !pol
		case token.GEQ: // x >= y  ==  !(x < y)
			return k.binKey(token.LSS, b.X, b.Y), !pol
		case token.GTR: // x > y == y < x
			return k.binKey(token.LSS, b.Y, b.X), pol
		case token.LEQ: // x <= y == !(y < x)
			return k.binKey(token.LSS, b.Y, b.X), !pol
		case token.EQL, token.LSS:
			return k.binKey(b.Op, b.X, b.Y), pol
		}
	}
	return k.Key(c), pol
}

func (k *keyer) binKey(op token.Token, x, y ssa.Value) string {
	a, b := k.Key(x), k.Key(y)
	if op == token.EQL && b < a {
		a, b = b, a
	}
	return "(" + a + " " + op.String() + " " + b + ")"
}

// nilTestKey is the condKey key of `v == nil`.
func (k *keyer) nilTestKey(v ssa.Value) string {
	a, b := k.Key(v), "nil"
	if b < a {
		a, b = b, a
	}
	return "(" + a + " == " + b + ")"
}

// PathCtx is the per-path context visible to clients.
type PathCtx struct {
	K      *keyer
	assign map[string]bool
	blocks []int // block indices visited, for witnesses
	phiSel map[*ssa.Phi]ssa.Value
	// cells: last value stored on this path into a local scalar cell (named results spilled for defer)
	cells map[*ssa.Alloc]ssa.Value
	P     *Prog
	q     *PathQuery
}

// PathCond is a branch condition with the truth value it has on the current path.
type PathCond struct {
	Cond ssa.Value
	Val  bool
}

// PathConds returns the branch conditions decided on this path (loop-carried ones already dropped).
func (c *PathCtx) PathConds() []PathCond {
	if c.q == nil {
		return nil
	}
	var out []PathCond
	var keys []string
	for k := range c.assign {
		keys = append(keys, k)
	}
	sort.Strings(keys)
	for _, k := range keys {
		if rec, ok := c.q.condByKey[k]; ok {
			out = append(out, PathCond{rec.cond, c.assign[k] == rec.pol})
		}
	}
	return out
}

// Known returns (value, known) for a canonical condition key.
func (c *PathCtx) Known(key string) (bool, bool) {
	v, ok := c.assign[key]
	return v, ok
}

// resolve follows phis using the path's incoming edges.
func (c *PathCtx) Resolve(v ssa.Value) ssa.Value {
	for i := 0; i < 8; i++ {
		if ld, isLd := v.(*ssa.UnOp); isLd && ld.Op == token.MUL && c.cells != nil {
			if a, isA := ld.X.(*ssa.Alloc); isA {
				if cv, have := c.cells[a]; have {
					v = cv
					continue
				}
			}
		}
		ph, ok := v.(*ssa.Phi)
		if !ok {
			return v
		}
		sel, ok := c.phiSel[ph]
		if !ok {
			return v
		}
		v = sel
	}
	return v
}

// evalCond decides a branch condition from the phi selections of the path: a (negated) phi resolved to
// a boolean constant, a comparison of two resolved constants, or a nil test of a value whose nil-ness
// is known on the path.  ok is false when the path does not decide it.
func (c *PathCtx) evalCond(cond ssa.Value) (val bool, ok bool) {
	neg := false
	for {
		if u, isU := cond.(*ssa.UnOp); isU && u.Op == token.NOT {
			neg = !neg
			cond = u.X
			continue
		}
		break
	}
	rv := c.Resolve(cond)
	if k, isC := rv.(*ssa.Const); isC && k.Value != nil && k.Value.Kind() == constant.Bool {
		return constant.BoolVal(k.Value) != neg, true
	}
	b, isB := rv.(*ssa.BinOp)
	if !isB || (b.Op != token.EQL && b.Op != token.NEQ) {
		return false, false
	}
	x, y := c.Resolve(b.X), c.Resolve(b.Y)
	_, xPhi := b.X.(*ssa.Phi)
	_, yPhi := b.Y.(*ssa.Phi)
	if !xPhi && !yPhi {
		return false, false // nothing path-specific: leave it to the condition keys
	}
	var eq bool
	switch {
	case isNilConst(y):
		ns := c.NilState(b.X)
		if ns == 0 {
			return false, false
		}
		eq = ns == +1
	case isNilConst(x):
		ns := c.NilState(b.Y)
		if ns == 0 {
			return false, false
		}
		eq = ns == +1
	default:
		kx, okx := x.(*ssa.Const)
		ky, oky := y.(*ssa.Const)
		if !okx || !oky || kx.Value == nil || ky.Value == nil {
			return false, false
		}
		eq = constant.Compare(kx.Value, token.EQL, ky.Value)
	}
	return (eq == (b.Op == token.EQL)) != neg, true
}

// resolvedBoolKey: cond is (a negation of) a boolean phi that resolves on this path to a non-constant
// boolean value: the key and polarity of that value.
func (c *PathCtx) resolvedBoolKey(cond ssa.Value) (string, bool, bool) {
	neg := false
	for {
		if u, ok := cond.(*ssa.UnOp); ok && u.Op == token.NOT {
			neg = !neg
			cond = u.X
			continue
		}
		break
	}
	if _, isPhi := cond.(*ssa.Phi); !isPhi {
		return "", false, false
	}
	rv := c.Resolve(cond)
	if rv == cond {
		return "", false, false
	}
	if _, isC := rv.(*ssa.Const); isC {
		return "", false, false
	}
	if _, isPhi := rv.(*ssa.Phi); isPhi {
		return "", false, false
	}
	key, pol := c.K.condKey(rv)
	if neg {
		pol = !pol
	}
	return key, pol, true
}

// NilState classifies an interface/pointer value on this path: +1 nil, -1 non-nil, 0 unknown.
func (c *PathCtx) NilState(v ssa.Value) int {
	// the path's own phi selection first: canonPhi (inside deref) describes a phi only at its uses
	// beyond the dispatch block, not at the dispatch itself
	v = c.Resolve(v)
	v = c.Resolve(deref(v))
	if isNilConst(v) {
		return +1
	}
	switch x := v.(type) {
	case *ssa.MakeInterface, *ssa.Alloc, *ssa.MakeClosure, *ssa.Function:
		_ = x
		return -1
	case *ssa.Call:
		// EXT: fmt.Errorf and errors.New never return nil
		if isPkgFuncCall(x, "fmt", "Errorf") || isPkgFuncCall(x, "errors", "New") {
			return -1
		}
		// a module function every return of which yields a function literal or a named function
		if sc := x.Call.StaticCallee(); sc != nil && sc.Blocks != nil && sc.Signature.Results().Len() == 1 {
			all, n := true, 0
			for _, ret := range returnsOf(sc) {
				n++
				rv := ret.Results[0]
				for {
					if ct, isCT := rv.(*ssa.ChangeType); isCT {
						rv = ct.X
						continue
					}
					break
				}
				switch rv.(type) {
				case *ssa.MakeClosure, *ssa.Function:
				default:
					all = false
				}
			}
			if all && n > 0 {
				return -1
			}
		}
	case *ssa.UnOp:
		// load of a package-level error variable (ErrXxx): non-nil sentinel
		if x.Op == token.MUL {
			if g, ok := x.X.(*ssa.Global); ok && strings.HasPrefix(g.Name(), "Err") {
				return -1
			}
		}
	}
	if val, ok := c.assign[c.K.nilTestKey(v)]; ok {
		if val {
			return +1
		}
		return -1
	}
	return 0
}

func (c *PathCtx) Witness(fn *ssa.Function, end ssa.Instruction) string {
	var sb strings.Builder
	sb.WriteString("entry")
	last := -1
	n := 0
	for _, b := range c.blocks {
		if b == last {
			continue
		}
		last = b
		if n < 40 {
			fmt.Fprintf(&sb, "->b%d", b)
		}
		n++
	}
	if end != nil {
		fmt.Fprintf(&sb, " -> %s", c.P.pos(instrPos(end)))
	}
	// readable conditions
	var cs []string
	for k, v := range c.assign {
		if len(k) < 80 {
			cs = append(cs, fmt.Sprintf("%s=%v", k, v))
		}
	}
	sort.Strings(cs)
	if len(cs) > 6 {
		cs = cs[:6]
	}
	if len(cs) > 0 {
		sb.WriteString(" under {" + strings.Join(cs, ", ") + "}")
	}
	return sb.String()
}

// PathQuery describes one exploration.
type PathQuery struct {
	P    *Prog
	Fn   *ssa.Function
	K    *keyer
	From ssa.Instruction // exploration starts after this instruction; nil = function entry
	// StartBlock (when From is nil): exploration starts at the first instruction of this block, with
	// the conditions that dominate it
	StartBlock *ssa.BasicBlock
	Init       uint64
	// Step is called for every instruction on the path (deferred=true when a
	// deferred call is executed at rundefers; the instruction is then the *ssa.Defer).
	// It returns the new client state and whether to stop exploring this path.
	Step func(in ssa.Instruction, deferred bool, st uint64, c *PathCtx) (uint64, bool)
	// AtReturn is called when a path reaches a return.
	AtReturn func(ret *ssa.Return, st uint64, c *PathCtx)
	// AtBlock is called when a path enters a block (before its instructions); returns the new state.
	AtBlock func(b *ssa.BasicBlock, st uint64, c *PathCtx) uint64
	// AtPanic is called when a path reaches an explicit panic (optional).
	AtPanic func(pn *ssa.Panic, st uint64, c *PathCtx)
	// Fold lets the client decide a branch condition (constant folding under a hypothesis).
	Fold func(cond ssa.Value, c *PathCtx) (val bool, ok bool)
	// InitAssign seeds known conditions.
	InitAssign map[string]bool
	MaxStates  int
	Exhausted  bool // set when MaxStates was hit
	condByKey  map[string]condRec
}

type condRec struct {
	cond ssa.Value
	pol  bool
}

type pathState struct {
	b      *ssa.BasicBlock
	i      int
	st     uint64
	assign map[string]bool
	defers []*ssa.Defer
	blocks []int
	phiSel map[*ssa.Phi]ssa.Value
	cells  map[*ssa.Alloc]ssa.Value
}

func assignKey(m map[string]bool) string {
	if len(m) == 0 {
		return ""
	}
	ks := make([]string, 0, len(m))
	for k, v := range m {
		if v {
			ks = append(ks, k+"=1")
		} else {
			ks = append(ks, k+"=0")
		}
	}
	sort.Strings(ks)
	return strings.Join(ks, ";")
}

func (q *PathQuery) Run() {
	if q.K == nil {
		q.K = newKeyer()
	}
	if q.MaxStates == 0 {
		q.MaxStates = 200000
	}
	q.condByKey = map[string]condRec{}
	fn := q.Fn
	if len(fn.Blocks) == 0 {
		return
	}
	start := pathState{b: fn.Blocks[0], i: 0, st: q.Init, assign: map[string]bool{}, phiSel: map[*ssa.Phi]ssa.Value{}}
	for k, v := range q.InitAssign {
		start.assign[k] = v
	}
	if q.From != nil || q.StartBlock != nil {
		if q.From != nil {
			start.b = q.From.Block()
			start.i = indexInBlock(q.From) + 1
		} else {
			start.b = q.StartBlock
			start.i = 0
		}
		// conditions that hold whenever From executes: dominating single-predecessor branch edges
		for _, ec := range allEntryConds(start.b) {
			key, pol := q.K.condKey(ec.Cond)
			if !ec.Val {
				pol = !pol
			}
			if _, set := start.assign[key]; !set {
				start.assign[key] = pol
			}
		}
	}
	start.blocks = []int{start.b.Index}
	visited := map[string]bool{}
	stack := []pathState{start}
	// which condition keys matter: those tested by more than one If, or queried (nil tests). Keep all; functions are small.
	if os.Getenv("STUNLINT_PATHDBG") != "" {
		defer func() { fmt.Fprintf(os.Stderr, "PATHDBG %s visited=%d\n", fnName(fn), len(visited)) }()
	}
	for len(stack) > 0 {
		s := stack[len(stack)-1]
		stack = stack[:len(stack)-1]
		if len(visited) > q.MaxStates {
			q.Exhausted = true
			return
		}
		var dk strings.Builder
		for _, d := range s.defers {
			fmt.Fprintf(&dk, "%p,", d)
		}
		// constants merged in by the phis of the block just entered (a flag set on the back edge of a
		// bounded retry loop) distinguish visits of the same block: they decide branches on them
		if s.i == 0 {
			for _, in := range s.b.Instrs {
				ph, isPhi := in.(*ssa.Phi)
				if !isPhi {
					break
				}
				if c, isC := s.phiSel[ph].(*ssa.Const); isC && c.Value != nil {
					fmt.Fprintf(&dk, "%s=%s,", ph.Name(), c.Value.ExactString())
				}
			}
		}
		vk := fmt.Sprintf("%d:%d:%d|%s|%s", s.b.Index, s.i, s.st, assignKey(s.assign), dk.String())
		if visited[vk] {
			continue
		}
		visited[vk] = true
		cells := s.cells
		ctx := &PathCtx{K: q.K, assign: s.assign, blocks: s.blocks, phiSel: s.phiSel, cells: cells, P: q.P, q: q}
		stop := false
		st := s.st
		defers := s.defers
		i := s.i
		for ; i < len(s.b.Instrs) && !stop; i++ {
			in := s.b.Instrs[i]
			switch x := in.(type) {
			case *ssa.Defer:
				nd := make([]*ssa.Defer, len(defers), len(defers)+1)
				copy(nd, defers)
				defers = append(nd, x)
				if q.Step != nil {
					st, stop = q.Step(in, false, st, ctx)
				}
			case *ssa.RunDefers:
				for j := len(defers) - 1; j >= 0 && !stop; j-- {
					if q.Step != nil {
						st, stop = q.Step(defers[j], true, st, ctx)
					}
				}
			case *ssa.Return:
				if q.AtReturn != nil {
					q.AtReturn(x, st, ctx)
				}
				stop = true
			case *ssa.Panic:
				if q.AtPanic != nil {
					q.AtPanic(x, st, ctx)
				}
				stop = true
			case *ssa.If, *ssa.Jump:
				// handled below
			default:
				if sto, isSt := in.(*ssa.Store); isSt {
					if a, isA := sto.Addr.(*ssa.Alloc); isA && !a.Heap {
						nc := make(map[*ssa.Alloc]ssa.Value, len(cells)+1)
						for k, v := range cells {
							nc[k] = v
						}
						nc[a] = ctx.Resolve(sto.Val)
						cells = nc
						ctx.cells = cells
					}
				}
				if q.Step != nil {
					st, stop = q.Step(in, false, st, ctx)
				}
			}
		}
		if stop {
			continue
		}
		// successors
		term := s.b.Instrs[len(s.b.Instrs)-1]
		push := func(succ *ssa.BasicBlock, assign map[string]bool) {
			st := st
			if q.AtBlock != nil {
				// the edge's facts are visible to the client before a back edge forgets them
				st = q.AtBlock(succ, st, &PathCtx{K: q.K, assign: assign, blocks: s.blocks, phiSel: s.phiSel, cells: cells, P: q.P, q: q})
			}
			// back edge: forget conditions and phi selections defined inside the loop
			if succ.Dominates(s.b) {
				na := map[string]bool{}
				for k, v := range assign {
					na[k] = v
				}
				assign = q.dropLoopFacts(na, succ)
			}
			ps := map[*ssa.Phi]ssa.Value{}
			for k, v := range s.phiSel {
				ps[k] = v
			}
			// phi selection for this edge
			pi := -1
			for idx, p := range succ.Preds {
				if p == s.b {
					pi = idx
					break
				}
			}
			if pi >= 0 {
				for _, in := range succ.Instrs {
					ph, ok := in.(*ssa.Phi)
					if !ok {
						break
					}
					ps[ph] = ph.Edges[pi]
				}
			}
			nb := make([]int, len(s.blocks), len(s.blocks)+1)
			copy(nb, s.blocks)
			nb = append(nb, succ.Index)
			if len(nb) > 400 {
				nb = nb[len(nb)-400:]
			}
			stack = append(stack, pathState{b: succ, i: 0, st: st, assign: assign, defers: defers, blocks: nb, phiSel: ps, cells: cells})
		}
		switch t := term.(type) {
		case *ssa.If:
			if rv := ctx.Resolve(t.Cond); rv != t.Cond && q.Fold != nil {
				// a case expression merged through a phi (a && b in a tagless switch): decide the selected operand
				if v, ok := q.Fold(rv, ctx); ok {
					if v {
						push(s.b.Succs[0], s.assign)
					} else {
						push(s.b.Succs[1], s.assign)
					}
					break
				}
			}
			if q.Fold != nil {
				if v, ok := q.Fold(t.Cond, ctx); ok {
					if v {
						push(s.b.Succs[0], s.assign)
					} else {
						push(s.b.Succs[1], s.assign)
					}
					break
				}
			}
			key, pol := q.K.condKey(t.Cond)
			if rk, rpol, ok := ctx.resolvedNilKey(t.Cond); ok {
				// a nil test of a merged value: recorded for the value merged in on this path, so
				// that NilState of that value is known afterwards
				key, pol = rk, rpol
			}
			if rk, rpol, ok := ctx.resolvedBoolKey(t.Cond); ok {
				// a merged boolean (exists = phi(false, lookup#1)): recorded under the condition that
				// was merged in on this path
				key, pol = rk, rpol
			}
			if _, have := q.condByKey[key]; !have {
				q.condByKey[key] = condRec{t.Cond, pol}
			}
			// constant condition
			if c, ok := t.Cond.(*ssa.Const); ok && c.Value != nil {
				if c.Value.String() == "true" {
					push(s.b.Succs[0], s.assign)
				} else {
					push(s.b.Succs[1], s.assign)
				}
				break
			}
			// a condition decided by the phi selections of this path (results of inlined helpers,
			// merged booleans, nil tests of a merged error)
			if v, ok := ctx.evalCond(t.Cond); ok {
				if v {
					push(s.b.Succs[0], s.assign)
				} else {
					push(s.b.Succs[1], s.assign)
				}
				break
			}
			if v, ok := s.assign[key]; ok {
				if v == pol {
					push(s.b.Succs[0], s.assign)
				} else {
					push(s.b.Succs[1], s.assign)
				}
				break
			}
			at := map[string]bool{}
			af := map[string]bool{}
			for k, v := range s.assign {
				at[k] = v
				af[k] = v
			}
			at[key] = pol
			af[key] = !pol
			push(s.b.Succs[1], af)
			push(s.b.Succs[0], at)
		case *ssa.Jump:
			push(s.b.Succs[0], s.assign)
		default:
			for _, succ := range s.b.Succs {
				push(succ, s.assign)
			}
		}
	}
}

// dropLoopFacts removes condition facts that mention values defined in the loop headed by h.
func (q *PathQuery) dropLoopFacts(assign map[string]bool, h *ssa.BasicBlock) map[string]bool {
	// names of values defined in blocks dominated by h
	names := map[string]bool{}
	for _, b := range q.Fn.Blocks {
		if h.Dominates(b) {
			for _, in := range b.Instrs {
				if v, ok := in.(ssa.Value); ok {
					names[v.Name()] = true
				}
			}
		}
	}
	for k := range assign {
		// keys embed value names as #tN or @tN; conservative textual test
		drop := false
		for n := range names {
			if n == "" {
				continue
			}
			if strings.Contains(k, "#"+n+")") || strings.Contains(k, "#"+n+" ") || strings.Contains(k, "#"+n+"#") || strings.HasSuffix(k, "#"+n) || strings.Contains(k, "@"+n) || strings.Contains(k, "#"+n+"(") || strings.Contains(k, "#"+n+".") || strings.Contains(k, "#"+n+"[") || strings.Contains(k, "#"+n+"]") || strings.Contains(k, "#"+n+":") {
				drop = true
				break
			}
		}
		if drop {
			delete(assign, k)
		}
	}
	return assign
}

// ---------------------------------------------------------------------------
// convenience queries

// mustPass: every path from `from` to a return accepted by exitOK passes an
// instruction accepted by target. Returns witness paths of violations.
func mustPass(p *Prog, fn *ssa.Function, from ssa.Instruction, target func(in ssa.Instruction, deferred bool, c *PathCtx) bool, exitCounts func(ret *ssa.Return, c *PathCtx) bool) (bad []string, badRet []*ssa.Return) {
	q := &PathQuery{P: p, Fn: fn, From: from}
	q.Step = func(in ssa.Instruction, deferred bool, st uint64, c *PathCtx) (uint64, bool) {
		if target(in, deferred, c) {
			return 1, true
		}
		return st, false
	}
	seen := map[*ssa.Return]bool{}
	q.AtReturn = func(ret *ssa.Return, st uint64, c *PathCtx) {
		if st == 0 && (exitCounts == nil || exitCounts(ret, c)) {
			if !seen[ret] {
				seen[ret] = true
				bad = append(bad, c.Witness(fn, ret))
				badRet = append(badRet, ret)
			}
		}
	}
	q.Run()
	if q.Exhausted {
		bad = append(bad, "path exploration exhausted (undecided)")
		badRet = append(badRet, nil)
	}
	return
}

// ---------------------------------------------------------------------------
// loops

type Loop struct {
	Header *ssa.BasicBlock
	Body   map[*ssa.BasicBlock]bool // includes header
	Latch  []*ssa.BasicBlock
}

func loopsOf(fn *ssa.Function) []*Loop {
	byHeader := map[*ssa.BasicBlock]*Loop{}
	var order []*Loop
	for _, b := range fn.Blocks {
		for _, s := range b.Succs {
			if s.Dominates(b) { // back edge b -> s
				l := byHeader[s]
				if l == nil {
					l = &Loop{Header: s, Body: map[*ssa.BasicBlock]bool{s: true}}
					byHeader[s] = l
					order = append(order, l)
				}
				l.Latch = append(l.Latch, b)
				// collect body: nodes that reach b without passing s
				stack := []*ssa.BasicBlock{b}
				for len(stack) > 0 {
					n := stack[len(stack)-1]
					stack = stack[:len(stack)-1]
					if l.Body[n] {
						continue
					}
					l.Body[n] = true
					stack = append(stack, n.Preds...)
				}
			}
		}
	}
	return order
}

// Exits returns edges (from, to) leaving the loop.
func (l *Loop) Exits() [][2]*ssa.BasicBlock {
	var out [][2]*ssa.BasicBlock
	for b := range l.Body {
		for _, s := range b.Succs {
			if !l.Body[s] {
				out = append(out, [2]*ssa.BasicBlock{b, s})
			}
		}
	}
	sort.Slice(out, func(i, j int) bool {
		if out[i][0].Index != out[j][0].Index {
			return out[i][0].Index < out[j][0].Index
		}
		return out[i][1].Index < out[j][1].Index
	})
	return out
}

func inLoop(loops []*Loop, b *ssa.BasicBlock) *Loop {
	var best *Loop
	for _, l := range loops {
		if l.Body[b] {
			if best == nil || len(l.Body) < len(best.Body) {
				best = l
			}
		}
	}
	return best
}

// allPathsReject: every path that starts at block b (entered with the conditions that dominate it)
// ends in a return whose error result is known non-nil on that path.  n is the number of returning
// paths seen; bad is a return that may report success (nil if none).
func allPathsReject(p *Prog, fn *ssa.Function, b *ssa.BasicBlock) (ok bool, n int, bad *ssa.Return) {
	idx := errorResultIndex(fn)
	if idx < 0 {
		return false, 0, nil
	}
	q := &PathQuery{P: p, Fn: fn, StartBlock: b, MaxStates: 6000}
	q.AtReturn = func(ret *ssa.Return, st uint64, c *PathCtx) {
		n++
		if c.NilState(ret.Results[idx]) != -1 && bad == nil {
			bad = ret
		}
	}
	q.Step = func(in ssa.Instruction, deferred bool, st uint64, c *PathCtx) (uint64, bool) {
		return st, bad != nil
	}
	q.Run()
	return n > 0 && bad == nil && !q.Exhausted, n, bad
}

// resolvedNilKey: for a branch condition `phi == nil` / `phi != nil` whose phi is selected on this
// path, the condition key of the same test on the selected value.
func (c *PathCtx) resolvedNilKey(cond ssa.Value) (string, bool, bool) {
	pol := true
	for {
		if u, ok := cond.(*ssa.UnOp); ok && u.Op == token.NOT {
			pol = !pol
			cond = u.X
			continue
		}
		break
	}
	b, ok := cond.(*ssa.BinOp)
	if !ok || (b.Op != token.EQL && b.Op != token.NEQ) {
		return "", false, false
	}
	var x ssa.Value
	switch {
	case isNilConst(b.Y):
		x = b.X
	case isNilConst(b.X):
		x = b.Y
	default:
		return "", false, false
	}
	if _, isPhi := x.(*ssa.Phi); !isPhi {
		return "", false, false
	}
	rx := c.Resolve(x)
	if rx == x {
		return "", false, false
	}
	rx = c.Resolve(deref(rx))
	if b.Op == token.NEQ {
		pol = !pol
	}
	return c.K.nilTestKey(rx), pol, true
}
