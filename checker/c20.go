package main

import (
	"bufio"
	"bytes"
	"fmt"
	"go/ast"
	"go/token"
	"go/types"
	"os"
	"os/exec"
	"regexp"
	"sort"
	"strconv"
	"strings"

	"golang.org/x/tools/go/ssa"
)

func init() { register("C20", "other", runC20) }

// GCORACLE: escape-analysis diagnostics of the installed Go compiler for the library packages,
// computed from /repo's current tree in this build configuration.
type escapeDiag struct {
	File string
	Line int
	Col  int
	Text string // e.g. "make([]byte, n - len(m.Raw)) escapes to heap" or "moved to heap: b"
}

var escRe = regexp.MustCompile(`^(.*\.go):(\d+):(\d+): (.*(escapes to heap|moved to heap: .*))$`)

func compilerEscapes(p *Prog) ([]escapeDiag, error) {
	args := []string{"build", "-gcflags=-m"}
	if p.Cfg.Tags != "" {
		args = append(args, "-tags="+p.Cfg.Tags)
	}
	args = append(args, ".", "./internal/hmac")
	cmd := exec.Command("go", args...)
	cmd.Dir = p.Dir
	cmd.Env = append(os.Environ(), "GOFLAGS=-mod=mod", "GOPROXY=off", "GOSUMDB=off", "GOTOOLCHAIN=local", "GOARCH="+p.Cfg.GOARCH, "GOOS=linux", "CGO_ENABLED=0", "GOWORK=off")
	var out bytes.Buffer
	cmd.Stdout = &out
	cmd.Stderr = &out
	if err := cmd.Run(); err != nil {
		return nil, fmt.Errorf("go build -gcflags=-m failed: %v: %.400s", err, out.String())
	}
	var res []escapeDiag
	sc := bufio.NewScanner(&out)
	sc.Buffer(make([]byte, 1<<20), 1<<20)
	for sc.Scan() {
		m := escRe.FindStringSubmatch(sc.Text())
		if m == nil {
			continue
		}
		f := strings.TrimPrefix(m[1], "./")
		ln, _ := strconv.Atoi(m[2])
		col, _ := strconv.Atoi(m[3])
		res = append(res, escapeDiag{f, ln, col, m[4]})
	}
	if len(res) == 0 {
		return nil, fmt.Errorf("the compiler printed no escape diagnostics (oracle unavailable)")
	}
	return res, nil
}

// funcAt maps file:line to the enclosing declared function.
type funcIndex struct {
	p     *Prog
	decls []declRange
}
type declRange struct {
	file       string
	start, end int
	fn         *ssa.Function
}

func buildFuncIndex(p *Prog) *funcIndex {
	fi := &funcIndex{p: p}
	for _, pk := range p.Pkgs {
		if !p.isLibPkg(pk.Types) {
			continue
		}
		for _, f := range pk.Syntax {
			for _, d := range f.Decls {
				fd, ok := d.(*ast.FuncDecl)
				if !ok {
					continue
				}
				obj, _ := pk.TypesInfo.Defs[fd.Name].(*types.Func)
				if obj == nil {
					continue
				}
				fn := p.SSA.FuncValue(obj)
				if fn == nil {
					continue
				}
				ps, pe := p.Fset.Position(fd.Pos()), p.Fset.Position(fd.End())
				file := strings.TrimPrefix(ps.Filename, p.Dir+"/")
				fi.decls = append(fi.decls, declRange{file, ps.Line, pe.Line, fn})
			}
		}
	}
	return fi
}

func (fi *funcIndex) at(file string, line int) *ssa.Function {
	for _, d := range fi.decls {
		if d.file == file && d.start <= line && line <= d.end {
			return d.fn
		}
	}
	return nil
}

// canSucceed: from block b a return that may report success is reachable.
func canSucceed(p *Prog, fn *ssa.Function, b *ssa.BasicBlock) bool {
	idx := errorResultIndex(fn)
	if idx < 0 {
		return true
	}
	for x := range blockReach(b) {
		if ret, ok := x.Instrs[len(x.Instrs)-1].(*ssa.Return); ok {
			c := &PathCtx{K: newKeyer(), assign: map[string]bool{}, phiSel: map[*ssa.Phi]ssa.Value{}, P: p}
			if c.NilState(ret.Results[idx]) != -1 {
				return true
			}
		}
	}
	return false
}

// hotClosure: functions reachable from the hot entry points through call sites that lie on a path
// which can still report success (error construction and formatting are not followed).
func hotClosure(p *Prog, entries []*ssa.Function) []*ssa.Function {
	seen := map[*ssa.Function]bool{}
	var out []*ssa.Function
	var visit func(f *ssa.Function)
	visit = func(f *ssa.Function) {
		if f == nil || seen[f] || f.Blocks == nil || !p.isLibFn(f) {
			return
		}
		seen[f] = true
		out = append(out, f)
		for _, cs := range p.CG().Sites[f] {
			if !canSucceed(p, f, cs.Instr.Block()) {
				continue
			}
			cc := cs.Instr.Common()
			// String()/Error() are reached through fmt only
			if cc.IsInvoke() && (cc.Method.Name() == "Error" || cc.Method.Name() == "String") {
				continue
			}
			if cc.IsInvoke() {
				// interfaces declared outside the module (hash.Hash, io.*, encoding.*) dispatch to stdlib
				// implementations on these paths; module types that happen to implement them are not callees here
				if n, ok := cc.Value.Type().(*types.Named); !ok || !p.isModulePkg(n.Obj().Pkg()) {
					continue
				}
			}
			for _, g := range cs.Callees {
				visit(g)
			}
		}
		for _, a := range f.AnonFuncs {
			visit(a)
		}
	}
	for _, e := range entries {
		visit(e)
	}
	sort.SliceStable(out, func(i, j int) bool { return fnName(out[i]) < fnName(out[j]) })
	return out
}

// reviewed allocation sites: amortised growth into retained storage (reason each).
type allocRule struct {
	Fn     string // "" = any hot function
	Match  string // substring of the construct text
	Reason string
}

var amortised = []allocRule{
	{"", "make([]byte, n - len(m.Raw)) escapes to heap", "grow: extends the message's own retained buffer; no allocation once the buffer has held a message at least as large"},
	{"(*hmac.hmac).resetTo", "make([]byte, blocksize) escapes to heap", "append(pad[:0], make([]byte, blocksize)...): the compiler extends the retained pad in place when its capacity suffices (steady state)"},
	{"", "append into retained ", "append into storage retained by the message / destination value: amortised, no allocation once capacity was reached"},
	{"(MessageIntegrity).AddTo", "HMAC sum into Raw's spare capacity", "the Add that follows extends Raw by 24 bytes, so in steady state (buffer reused for a message at least as large) at least 20 bytes are free behind Raw when the HMAC is summed"},
}

// errorValueOrStatic: the diagnostic concerns an error value (allocated only when an error is
// returned) or a string constant (static data, boxed without allocation).
func errorValueOrStatic(p *Prog, text string) (bool, string) {
	t := strings.TrimSuffix(text, " escapes to heap")
	if strings.HasPrefix(t, "\"") {
		return true, "string constant (static data)"
	}
	t = strings.TrimPrefix(t, "&")
	if i := strings.Index(t, "{"); i > 0 {
		name := t[:i]
		for _, pk := range p.Pkgs {
			if o, ok := pk.Types.Scope().Lookup(name).(*types.TypeName); ok {
				errT := types.Universe.Lookup("error").Type().Underlying().(*types.Interface)
				if types.Implements(o.Type(), errT) || types.Implements(types.NewPointer(o.Type()), errT) {
					return true, "error value (allocated only on a path that returns an error)"
				}
			}
		}
	}
	return false, ""
}

func runC20(r *Run) {
	p := r.P
	r.Res.Explanation = "allocation-site analysis of the hot closure (decode family, lookups, all getters/checkers, Build/Reset/WriteHeader/Add/Encode/SetType, all setters): sites = escape diagnostics of the installed compiler (go build -gcflags=-m on the current tree) + every append + allocating stdlib calls (hash.Hash.Sum); each site on a path that can report success must be amortised growth into retained storage (reviewed table) or a listed known finding; an append onto a local scratch buffer must be proved not to outgrow it"
	r.NotDecided("the measured AllocsPerRun (the oracle is the escape analysis of the Go toolchain installed here; another toolchain may decide differently)")
	r.Assume("go build -gcflags=-m of the installed toolchain (GOTOOLCHAIN=local) reports every heap allocation site of the compiled functions", "EXT: hash.Hash.Sum(b) allocates iff cap(b)-len(b) < Size()")
	cl := p.buildClosures()
	var entries []*ssa.Function
	entries = append(entries, cl.DEntries...)
	entries = append(entries, cl.GEntries...)
	entries = append(entries, cl.Setters...)
	for _, n := range []string{"Build", "Reset", "WriteHeader", "Add", "Encode", "SetType", "WriteLength", "WriteType", "WriteTransactionID", "WriteAttributes"} {
		if f := p.Meth("Message", n); f != nil {
			entries = append(entries, f)
		}
	}
	hot := hotClosure(p, dedupFns(entries))
	inHot := map[*ssa.Function]bool{}
	for _, f := range hot {
		inHot[f] = true
		r.Analysed(f)
	}
	an := r.Rule("C20.anchors", "hot entry points resolve and the compiler oracle is available", 40)
	for _, m := range cl.missing {
		an.Fail(m, "anchor not found")
	}
	for _, f := range hot {
		an.Instance(fnName(f), false, nil)
	}
	diags, err := compilerEscapes(p)
	if err != nil {
		an.Fail("compiler oracle", err.Error())
		an.Done()
		return
	}
	an.Instance("compiler oracle", false, map[string]int{"escape_diagnostics": len(diags)})
	an.Done()

	rc := r.Rule("C20.alloc", "every allocation site of the hot closure that lies on a path able to report success is amortised growth into retained storage (reviewed) or a listed known finding", 10)
	fi := buildFuncIndex(p)
	report := func(fn *ssa.Function, pos token.Pos, construct, why string) {
		for _, ar := range amortised {
			if (ar.Fn == "" || ar.Fn == fnName(fn)) && strings.Contains(construct, ar.Match) {
				rc.Instance(fnName(fn)+"|"+construct, true, map[string]string{"fn": fnName(fn), "site": construct, "class": "amortised", "reason": ar.Reason})
				return
			}
		}
		rc.Instance(fnName(fn)+"|"+construct, true, nil)
		rc.Violation(fn, pos, construct, why)
	}
	// (A) compiler diagnostics
	// instructions by source line: a diagnostic inside a helper that the normalisation inlined is
	// attributed to every hot function that now contains instructions of that line
	byLine := map[string][]*ssa.Function{}
	for _, g := range hot {
		if g.Parent() != nil {
			continue
		}
		seenL := map[string]bool{}
		fns := append([]*ssa.Function{g}, g.AnonFuncs...)
		for _, h := range fns {
			eachInstr(h, func(b *ssa.BasicBlock, i int, in ssa.Instruction) {
				if ip := instrPos(in); ip.IsValid() {
					ps := p.Fset.Position(ip)
					k := fmt.Sprintf("%s:%d", strings.TrimPrefix(ps.Filename, p.Dir+"/"), ps.Line)
					if !seenL[k] {
						seenL[k] = true
						byLine[k] = append(byLine[k], g)
					}
				}
			})
		}
	}
	type diagFn struct {
		d  escapeDiag
		fn *ssa.Function
	}
	var work []diagFn
	for _, d := range diags {
		if fn := fi.at(d.File, d.Line); fn != nil {
			work = append(work, diagFn{d, fn})
			continue
		}
		for _, g := range byLine[fmt.Sprintf("%s:%d", d.File, d.Line)] {
			work = append(work, diagFn{d, g})
		}
	}
	for _, w := range work {
		d, fn := w.d, w.fn
		// anonymous functions are attributed to their parent declaration; hot if the parent is hot
		if !inHot[fn] {
			continue
		}
		// success-path filter: instructions of fn (and its closures) on that line
		onLine := false
		succ := false
		var pos token.Pos
		fns := append([]*ssa.Function{fn}, fn.AnonFuncs...)
		for _, g := range fns {
			eachInstr(g, func(b *ssa.BasicBlock, i int, in ssa.Instruction) {
				ip := instrPos(in)
				if !ip.IsValid() {
					return
				}
				ps := p.Fset.Position(ip)
				if ps.Line == d.Line && strings.HasSuffix(ps.Filename, d.File) {
					onLine = true
					if !pos.IsValid() {
						pos = ip
					}
					if canSucceed(p, g, b) {
						succ = true
					}
				}
			})
		}
		if onLine && !succ {
			continue // error path only
		}
		if !pos.IsValid() {
			pos = fn.Pos()
		}
		if ok, why := errorValueOrStatic(p, d.Text); ok {
			rc.Instance(fnName(fn)+"|"+d.Text, false, map[string]string{"fn": fnName(fn), "site": d.Text, "class": why})
			continue
		}
		report(fn, pos, d.Text, "heap allocation on a hot path (compiler escape analysis): decoding, lookups, getters/checkers and rebuilding must not allocate in steady state")
	}
	// (B) appends and (C) allocating stdlib calls
	for _, fn := range hot {
		var pr *Prover
		eachInstr(fn, func(b *ssa.BasicBlock, i int, in ssa.Instruction) {
			c, ok := in.(*ssa.Call)
			if !ok || !canSucceed(p, fn, b) {
				return
			}
			if isBuiltinCall(c, "append") {
				base := c.Call.Args[0]
				if retainedBase(base, 0) {
					report(fn, instrPos(c), "append into retained "+exprCanon(base), "")
					return
				}
				// local scratch: prove it cannot outgrow its capacity
				if pr == nil {
					pr = newProver(p, fn)
				}
				if capC, ok := constCap(base); ok && len(c.Call.Args) == 2 {
					l0 := pr.linLen(base, "len")
					l1 := pr.linLen(c.Call.Args[1], "len")
					if l0.T == zeroTerm {
						res := pr.Prove(c, Goal{XL: &lin{l1.T, l1.Off + l0.Off}, YL: &lin{zeroTerm, capC}, C: 0, extra: []ssa.Value{c.Call.Args[1]}})
						if res.OK {
							rc.Instance(fnName(fn)+"|append within capacity", true, map[string]string{"fn": fnName(fn), "site": exprDepth(c, 0), "class": "proved within the scratch buffer's capacity"})
							return
						}
					}
				}
				report(fn, instrPos(c), "append onto local buffer "+exprCanon(base), "the append may outgrow its stack scratch buffer and allocate for large inputs")
				return
			}
			if c.Call.IsInvoke() && c.Call.Method.Name() == "Sum" && len(c.Call.Args) == 1 {
				arg := c.Call.Args[0]
				if isNilConst(arg) {
					report(fn, instrPos(c), "Sum(nil)", "hash.Hash.Sum(nil) allocates the digest")
					return
				}
				// Sum into a caller-provided buffer: allocation depends on its spare capacity
				if fnName(fn) == "(*hmac.hmac).Sum" || fn.Name() == "newHMAC" {
					rc.Instance(fnName(fn)+"|Sum(in)", true, map[string]string{"fn": fnName(fn), "site": "Sum(" + exprCanon(arg) + ")", "class": "writes into the caller's buffer (the caller's site is the one judged)"})
					return
				}
				report(fn, instrPos(c), "Sum("+exprCanon(arg)+")", "the digest is appended to a buffer whose spare capacity is not established: allocates when fewer than Size() bytes are free")
			}
		})
	}
	// a Sum through the pooled HMAC with the message's spare capacity as scratch (MessageIntegrity)
	if nh := p.Fn("newHMAC"); nh != nil && inHot[nh] {
		for _, fn := range hot {
			eachInstr(fn, func(b *ssa.BasicBlock, i int, in ssa.Instruction) {
				if c, ok := in.(*ssa.Call); ok && callsFn(c, nh) && canSucceed(p, fn, b) && isSpareCapacityView(c.Call.Args[2]) {
					report(fn, instrPos(c), "HMAC sum into Raw's spare capacity", "the 20-byte digest is appended behind Raw: allocates whenever cap(Raw)-len(Raw) < 20")
				}
			})
		}
	}
	rc.Done()
	rt := r.Rule("C20.retain", "in the hot closure a slice field of a retained object (message, destination value, pooled object) is only ever assigned a value derived from its own previous value (reslice without capacity clamp, append onto it): the warm backing array and its capacity survive every operation", 5)
	checkRetained(r, rt, hot)
	rt.Done()
	// ---- no interface-to-interface conversion on a hot path
	ic := r.Rule("C20.ifaceconv", "no conversion of one interface type to another (an upcast such as hash.Hash -> io.Writer, or an assertion to an interface type) lies on a success path of the hot closure: since Go 1.22 such a conversion goes through a per-site type-assert cache that the runtime fills - allocating - at an unpredictable call, which no escape diagnostic shows (EXT, amd64/arm64)", 0)
	{
		n := 0
		for _, fn := range hot {
			eachInstr(fn, func(b *ssa.BasicBlock, i int, in ssa.Instruction) {
				var what string
				switch x := in.(type) {
				case *ssa.ChangeInterface:
					if types.Identical(x.X.Type(), x.Type()) {
						return
					}
					if it, ok := x.Type().Underlying().(*types.Interface); ok && it.NumMethods() == 0 {
						return // to the empty interface: no method table needed
					}
					what = "conversion " + typeShort(x.X.Type()) + " -> " + typeShort(x.Type())
				case *ssa.TypeAssert:
					if _, isI := x.AssertedType.Underlying().(*types.Interface); !isI {
						return
					}
					if _, fromI := x.X.Type().Underlying().(*types.Interface); !fromI {
						return
					}
					what = "assertion to interface " + typeShort(x.AssertedType)
				default:
					return
				}
				if !canSucceed(p, fn, b) {
					return
				}
				n++
				ic.Violation(fn, instrPos(in), what, "interface-to-interface conversion on a hot path: one allocation (the runtime's type-assert cache entry for this site) at an unpredictable call, however well the message and the destinations were warmed")
			})
		}
		ic.Instance("hot closure", true, map[string]int{"functions": len(hot), "conversions_on_success_paths": n})
	}
	ic.Done()

	// the attribute list narrowed for a callback is restored on every exit: a list left narrowed has lost capacity and the next decode allocates (shared with C07)
	r.Borrow("C07", map[string]string{"C07.restore": "C20.restore"})
}

// retainedBase: the append base derives from storage retained across calls (a field of the message,
// of the destination value or of the pooled object, or the pointee of the receiver).
func retainedBase(v ssa.Value, depth int) bool { return retainedBaseV(v, depth, map[ssa.Value]bool{}) }

func retainedBaseV(v ssa.Value, depth int, seen map[ssa.Value]bool) bool {
	if depth > 12 || v == nil {
		return false
	}
	if seen[v] {
		return true // a loop-carried slice: retained iff its other sources are
	}
	seen[v] = true
	switch x := v.(type) {
	case *ssa.Slice:
		return retainedBaseV(x.X, depth+1, seen)
	case *ssa.ChangeType:
		return retainedBaseV(x.X, depth+1, seen)
	case *ssa.Phi:
		for _, e := range x.Edges {
			if !retainedBaseV(e, depth+1, seen) {
				return false
			}
		}
		return true
	case *ssa.Call:
		if isBuiltinCall(x, "append") {
			return retainedBaseV(x.Call.Args[0], depth+1, seen)
		}
	case *ssa.UnOp:
		if x.Op == token.MUL {
			switch a := x.X.(type) {
			case *ssa.FieldAddr:
				if _, isLocal := a.X.(*ssa.Alloc); isLocal {
					al := a.X.(*ssa.Alloc)
					return al.Heap // a heap object's field
				}
				return true
			case *ssa.Parameter:
				return true // *a of a pointer receiver (UnknownAttributes)
			}
		}
	case *ssa.Parameter:
		// a slice handed to an unexported helper: retained iff every library caller passes retained storage
		if args, known := callerArgsOf(x); known {
			for _, a := range args {
				if !retainedBaseV(a, depth+1, seen) {
					return false
				}
			}
			return true
		}
	}
	return false
}

// derivedFromField: v is the slice held by field fv (of any object), possibly resliced without a
// capacity clamp, appended to, or merged by phis; clamp reports a 3-index reslice on the way.
func derivedFromField(v ssa.Value, fv *types.Var, depth int, seen map[ssa.Value]bool, clamp *bool) bool {
	if depth > 12 || v == nil {
		return false
	}
	if seen[v] {
		return true
	}
	seen[v] = true
	switch x := v.(type) {
	case *ssa.Slice:
		if x.Max != nil {
			*clamp = true
		}
		return derivedFromField(x.X, fv, depth+1, seen, clamp)
	case *ssa.ChangeType:
		return derivedFromField(x.X, fv, depth+1, seen, clamp)
	case *ssa.Phi:
		for _, e := range x.Edges {
			if !derivedFromField(e, fv, depth+1, seen, clamp) {
				return false
			}
		}
		return true
	case *ssa.Call:
		if isBuiltinCall(x, "append") {
			return derivedFromField(x.Call.Args[0], fv, depth+1, seen, clamp)
		}
	case *ssa.UnOp:
		if x.Op == token.MUL {
			if fa, ok := x.X.(*ssa.FieldAddr); ok {
				return fieldOfAddr(fa) == fv
			}
			if _, ok := x.X.(*ssa.Parameter); ok && fv == nil {
				return true
			}
			switch a := x.X.(type) {
			case *ssa.Alloc, *ssa.FreeVar:
				if vs, ok := cellStores(a); ok && len(vs) > 0 {
					for _, sv := range vs {
						if !derivedFromField(sv, fv, depth+1, seen, clamp) {
							return false
						}
					}
					return true
				}
			}
		}
	case *ssa.Parameter:
		if args, known := callerArgsOf(x); known {
			for _, a := range args {
				if !derivedFromField(a, fv, depth+1, seen, clamp) {
					return false
				}
			}
			return true
		}
	}
	return false
}

// cellStores: the values stored into a local variable cell (an Alloc, or the FreeVar of a closure bound to one).
func cellStores(cell ssa.Value) ([]ssa.Value, bool) {
	switch c := cell.(type) {
	case *ssa.FreeVar:
		fn := c.Parent()
		idx := -1
		for i, fv := range fn.FreeVars {
			if fv == c {
				idx = i
			}
		}
		if fn.Parent() == nil || idx < 0 {
			return nil, false
		}
		var out []ssa.Value
		found := false
		eachInstr(fn.Parent(), func(b *ssa.BasicBlock, i int, in ssa.Instruction) {
			if mc, ok := in.(*ssa.MakeClosure); ok && mc.Fn == ssa.Value(fn) && idx < len(mc.Bindings) {
				if vs, ok := cellStores(mc.Bindings[idx]); ok {
					out = append(out, vs...)
					found = true
				}
			}
		})
		return out, found
	case *ssa.Alloc:
		var out []ssa.Value
		ok := true
		var visit func(fn *ssa.Function, cellIn ssa.Value)
		visit = func(fn *ssa.Function, cellIn ssa.Value) {
			refs := cellIn.Referrers()
			if refs == nil {
				return
			}
			for _, u := range *refs {
				switch y := u.(type) {
				case *ssa.Store:
					if y.Addr == cellIn {
						out = append(out, y.Val)
					} else {
						ok = false
					}
				case *ssa.UnOp, *ssa.DebugRef:
				case *ssa.MakeClosure:
					for i, bnd := range y.Bindings {
						if bnd == cellIn {
							cf := y.Fn.(*ssa.Function)
							if i < len(cf.FreeVars) {
								visit(cf, cf.FreeVars[i])
							}
						}
					}
				default:
					ok = false
				}
			}
		}
		visit(c.Parent(), c)
		return out, ok
	}
	return nil, false
}

// canonCell: a load of a local variable cell (captured by a closure, hence not lifted to a register)
// that is stored exactly once denotes the stored value.
func canonCell(v ssa.Value) ssa.Value {
	for i := 0; i < 4; i++ {
		ld, ok := v.(*ssa.UnOp)
		if !ok || ld.Op != token.MUL {
			return v
		}
		switch ld.X.(type) {
		case *ssa.Alloc, *ssa.FreeVar:
		default:
			return v
		}
		vs, ok := cellStores(ld.X)
		if !ok || len(vs) != 1 {
			return v
		}
		v = vs[0]
	}
	return v
}

// rootField: the field (or pointer parameter, as "*name") a slice value is a view of.
func rootField(v ssa.Value, depth int) (fv *types.Var, ptrParam string, ok bool) {
	if depth > 12 {
		return nil, "", false
	}
	switch x := v.(type) {
	case *ssa.Slice:
		return rootField(x.X, depth+1)
	case *ssa.ChangeType:
		return rootField(x.X, depth+1)
	case *ssa.Call:
		if isBuiltinCall(x, "append") {
			return rootField(x.Call.Args[0], depth+1)
		}
	case *ssa.Phi:
		for _, e := range x.Edges {
			if f, pp, ok := rootField(e, depth+1); ok {
				return f, pp, true
			}
		}
	case *ssa.UnOp:
		if x.Op == token.MUL {
			switch a := x.X.(type) {
			case *ssa.FieldAddr:
				return fieldOfAddr(a), "", true
			case *ssa.Parameter:
				return nil, "*" + a.Type().String(), true
			case *ssa.Alloc, *ssa.FreeVar:
				if vs, ok := cellStores(a); ok {
					for _, sv := range vs {
						if f, pp, ok := rootField(sv, depth+1); ok {
							return f, pp, true
						}
					}
				}
			}
		}
	}
	return nil, "", false
}

// checkRetained: C20.retain
func checkRetained(r *Run, rc *RuleCtx, hot []*ssa.Function) {
	p := r.P
	// growable retained buffers: fields (or pointees of pointer receivers) some hot function appends onto
	growF := map[*types.Var]bool{}
	growP := map[string]bool{}
	for _, fn := range hot {
		eachInstr(fn, func(b *ssa.BasicBlock, i int, in ssa.Instruction) {
			if c, ok := in.(*ssa.Call); ok && isBuiltinCall(c, "append") && retainedBase(c.Call.Args[0], 0) {
				if f, pp, ok := rootField(c.Call.Args[0], 0); ok {
					if f != nil {
						growF[f] = true
					} else {
						growP[pp] = true
					}
				}
			}
		})
	}
	for _, fn := range hot {
		eachInstr(fn, func(b *ssa.BasicBlock, i int, in ssa.Instruction) {
			st, ok := in.(*ssa.Store)
			if !ok {
				return
			}
			if _, isSl := st.Val.Type().Underlying().(*types.Slice); !isSl {
				return
			}
			var fv *types.Var
			var what string
			switch a := st.Addr.(type) {
			case *ssa.FieldAddr:
				fv = fieldOfAddr(a)
				if !growF[fv] {
					return
				}
				what = ownerName(p, fv) + "." + fv.Name()
			case *ssa.Parameter:
				if !growP["*"+a.Type().String()] {
					return
				}
				what = "*" + a.Name()
			default:
				return
			}
			if !canSucceed(p, fn, b) {
				return
			}
			clamp := false
			der := derivedFromField(st.Val, fv, 0, map[ssa.Value]bool{}, &clamp)
			class := "derived from itself"
			switch {
			case der && clamp:
				class = "capacity clamped"
			case !der && isNilConst(st.Val):
				class = "dropped (nil)"
			case !der:
				class = "replaced by " + exprCanon(st.Val)
			}
			// derived from itself but cut from the front: the bytes before the new start are out of reach for good
			frontCut := false
			if der && !clamp {
				v := st.Val
				for i := 0; i < 8; i++ {
					if ct, isCT := v.(*ssa.ChangeType); isCT {
						v = ct.X
						continue
					}
					sl, isSl := v.(*ssa.Slice)
					if !isSl {
						break
					}
					if sl.Low != nil {
						if c, isC := constInt(sl.Low); !isC || c != 0 {
							frontCut = true
						}
					}
					v = sl.X
				}
				if frontCut && fv != nil {
					// a temporary narrowing that the function undoes on every exit (ForEach around its callback)
					if viol, _ := newSaveRestore(p, fn, fv).run(false); len(viol) == 0 {
						frontCut = false
						class = "narrowed and restored on every exit"
					}
				}
				if frontCut {
					class = "cut from the front"
				}
			}
			rc.Instance(fnName(fn)+"|"+what+"|"+class, true, map[string]interface{}{"fn": fnName(fn), "store": what, "class": class})
			switch {
			case frontCut:
				rc.Violation(fn, instrPos(st), what+" = "+exprCanon(st.Val), "a reused buffer is resliced from a non-zero start: the capacity in front of the new start is lost for good, so the next value that needs the full size (an IPv6 address after an IPv4-mapped one) reallocates although the destination was warm")
			case der && clamp:
				rc.Violation(fn, instrPos(st), what+" = "+exprCanon(st.Val), "a three-index reslice clamps the capacity of a reused buffer: the next larger value (e.g. an IPv6 address after an IPv4 one) has to reallocate although the destination was warm")
			case !der:
				rc.Violation(fn, instrPos(st), what+" = "+exprCanon(st.Val), "the warm backing array of a reused buffer is dropped/replaced on a path that reports success: the next operation that appends onto it allocates again")
			}
		})
	}
}

func ownerName(p *Prog, fv *types.Var) string {
	if n, ok := fieldOwner(p, fv); ok {
		return n.Obj().Name()
	}
	return "?"
}
