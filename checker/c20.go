package main

import (
	"bufio"
	"bytes"
	"fmt"
	"go/ast"
	"go/constant"
	"go/token"
	"go/types"
	"os"
	"os/exec"
	"regexp"
	"sort"
	"strconv"
	"strings"
	"sync"

	"golang.org/x/tools/go/ssa"
)

func init() { register("C20", "other", runC20) }

// GCORACLE: escape-analysis diagnostics of the installed Go compiler for the library packages,
// computed from /repo's current tree in this build configuration.
type escapeDiag struct {
	File string
	Line int
	Col  int
	Text string // e.g. "make([]byte, n - len(m.Raw)) escapes to heap" or "moved to heap: b"
}

var inlRe = regexp.MustCompile(`^(.*\.go):(\d+):(\d+): inlining call to (.*)$`)

// inlinedAt: file:line -> names of the functions the compiler inlined at a call on that line (same build).
var inlinedAtMu sync.Mutex
var inlinedAtByProg = map[*Prog]map[string][]string{}

var escRe = regexp.MustCompile(`^(.*\.go):(\d+):(\d+): (.*(escapes to heap|moved to heap: .*))$`)

func compilerEscapes(p *Prog) ([]escapeDiag, error) {
	args := []string{"build", "-gcflags=-m"}
	if p.Cfg.Tags != "" {
		args = append(args, "-tags="+p.Cfg.Tags)
	}
	args = append(args, ".", "./internal/hmac")
	cmd := exec.Command("go", args...)
	cmd.Dir = p.Dir
	cmd.Env = append(os.Environ(), "GOFLAGS=-mod=mod", "GOPROXY=off", "GOSUMDB=off", "GOTOOLCHAIN=local", "GOARCH="+p.Cfg.GOARCH, "GOOS=linux", "CGO_ENABLED=0", "GOWORK=off")
	var out bytes.Buffer
	cmd.Stdout = &out
	cmd.Stderr = &out
	if err := cmd.Run(); err != nil {
		return nil, fmt.Errorf("go build -gcflags=-m failed: %v: %.400s", err, out.String())
	}
	var res []escapeDiag
	sc := bufio.NewScanner(&out)
	sc.Buffer(make([]byte, 1<<20), 1<<20)
	inl := map[string][]string{}
	defer func() {
		inlinedAtMu.Lock()
		inlinedAtByProg[p] = inl
		inlinedAtMu.Unlock()
	}()
	for sc.Scan() {
		if im := inlRe.FindStringSubmatch(sc.Text()); im != nil {
			k := strings.TrimPrefix(im[1], "./") + ":" + im[2]
			inl[k] = append(inl[k], im[4])
			continue
		}
		m := escRe.FindStringSubmatch(sc.Text())
		if m == nil {
			continue
		}
		f := strings.TrimPrefix(m[1], "./")
		ln, _ := strconv.Atoi(m[2])
		col, _ := strconv.Atoi(m[3])
		res = append(res, escapeDiag{f, ln, col, m[4]})
	}
	if len(res) == 0 {
		return nil, fmt.Errorf("the compiler printed no escape diagnostics (oracle unavailable)")
	}
	return res, nil
}

// funcAt maps file:line to the enclosing declared function.
type funcIndex struct {
	p     *Prog
	decls []declRange
}
type declRange struct {
	file       string
	start, end int
	fn         *ssa.Function
}

func buildFuncIndex(p *Prog) *funcIndex {
	fi := &funcIndex{p: p}
	for _, pk := range p.Pkgs {
		if !p.isLibPkg(pk.Types) {
			continue
		}
		for _, f := range pk.Syntax {
			for _, d := range f.Decls {
				fd, ok := d.(*ast.FuncDecl)
				if !ok {
					continue
				}
				obj, _ := pk.TypesInfo.Defs[fd.Name].(*types.Func)
				if obj == nil {
					continue
				}
				fn := p.SSA.FuncValue(obj)
				if fn == nil {
					continue
				}
				ps, pe := p.Fset.Position(fd.Pos()), p.Fset.Position(fd.End())
				file := strings.TrimPrefix(ps.Filename, p.Dir+"/")
				fi.decls = append(fi.decls, declRange{file, ps.Line, pe.Line, fn})
			}
		}
	}
	return fi
}

func (fi *funcIndex) at(file string, line int) *ssa.Function {
	for _, d := range fi.decls {
		if d.file == file && d.start <= line && line <= d.end {
			return d.fn
		}
	}
	return nil
}

// canSucceed: from block b a return that may report success is reachable.
func canSucceed(p *Prog, fn *ssa.Function, b *ssa.BasicBlock) bool {
	idx := errorResultIndex(fn)
	if idx < 0 {
		// no error result: every return is a success; a block that only leads to a panic is not
		for x := range blockReach(b) {
			if _, ok := x.Instrs[len(x.Instrs)-1].(*ssa.Return); ok {
				return true
			}
		}
		return false
	}
	for x := range blockReach(b) {
		if ret, ok := x.Instrs[len(x.Instrs)-1].(*ssa.Return); ok {
			c := &PathCtx{K: newKeyer(), assign: map[string]bool{}, phiSel: map[*ssa.Phi]ssa.Value{}, P: p}
			if c.NilState(ret.Results[idx]) != -1 {
				return true
			}
		}
	}
	return false
}

// hotClosure: functions reachable from the hot entry points through call sites that lie on a path
// which can still report success (error construction and formatting are not followed).
func hotClosure(p *Prog, entries []*ssa.Function) []*ssa.Function {
	seen := map[*ssa.Function]bool{}
	var out []*ssa.Function
	var visit func(f *ssa.Function)
	visit = func(f *ssa.Function) {
		if f == nil || seen[f] || f.Blocks == nil || !p.isLibFn(f) {
			return
		}
		seen[f] = true
		out = append(out, f)
		for _, cs := range p.CG().Sites[f] {
			if !canSucceed(p, f, cs.Instr.Block()) {
				continue
			}
			cc := cs.Instr.Common()
			// String()/Error() are reached through fmt only
			if cc.IsInvoke() && (cc.Method.Name() == "Error" || cc.Method.Name() == "String") {
				continue
			}
			if cc.IsInvoke() {
				// interfaces declared outside the module (hash.Hash, io.*, encoding.*) dispatch to stdlib
				// implementations on these paths; module types that happen to implement them are not callees here
				if n, ok := cc.Value.Type().(*types.Named); !ok || !p.isModulePkg(n.Obj().Pkg()) {
					continue
				}
			}
			for _, g := range cs.Callees {
				visit(g)
			}
		}
		for _, a := range f.AnonFuncs {
			visit(a)
		}
	}
	for _, e := range entries {
		visit(e)
	}
	sort.SliceStable(out, func(i, j int) bool { return fnName(out[i]) < fnName(out[j]) })
	return out
}

// reviewed allocation sites: amortised growth into retained storage (reason each).
type allocRule struct {
	Fn     string // "" = any hot function
	Match  string // substring of the construct text
	Reason string
}

var amortised = []allocRule{
	{"", "make([]byte, n - len(m.Raw)) escapes to heap", "grow: extends the message's own retained buffer; no allocation once the buffer has held a message at least as large"},
	{"(*hmac.hmac).resetTo", "make([]byte, blocksize) escapes to heap", "append(pad[:0], make([]byte, blocksize)...): the compiler extends the retained pad in place when its capacity suffices (steady state)"},
	{"", "append into retained ", "append into storage retained by the message / destination value: amortised, no allocation once capacity was reached"},
}

// errorValueOrStatic: the diagnostic concerns an error value (allocated only when an error is
// returned) or a string constant (static data, boxed without allocation).
func errorValueOrStatic(p *Prog, text string) (bool, string) {
	t := strings.TrimSuffix(text, " escapes to heap")
	if strings.HasPrefix(t, "\"") {
		return true, "string constant (static data)"
	}
	t = strings.TrimPrefix(t, "&")
	if i := strings.Index(t, "{"); i > 0 {
		name := t[:i]
		for _, pk := range p.Pkgs {
			if o, ok := pk.Types.Scope().Lookup(name).(*types.TypeName); ok {
				errT := types.Universe.Lookup("error").Type().Underlying().(*types.Interface)
				if types.Implements(o.Type(), errT) || types.Implements(types.NewPointer(o.Type()), errT) {
					return true, "error value (allocated only on a path that returns an error)"
				}
			}
		}
	}
	return false, ""
}

func runC20(r *Run) {
	p := r.P
	r.Res.Explanation = "allocation-site analysis of the hot closure (decode family, lookups, all getters/checkers, Build/Reset/WriteHeader/Add/Encode/SetType, all setters): sites = escape diagnostics of the installed compiler (go build -gcflags=-m on the current tree) + every append + allocating stdlib calls (hash.Hash.Sum); each site on a path that can report success must be amortised growth into retained storage (reviewed table) or a listed known finding; an append onto a local scratch buffer must be proved not to outgrow it"
	r.NotDecided("the measured AllocsPerRun (the oracle is the escape analysis of the Go toolchain installed here; another toolchain may decide differently)")
	r.Assume("go build -gcflags=-m of the installed toolchain (GOTOOLCHAIN=local) reports every heap allocation site of the compiled functions", "EXT: hash.Hash.Sum(b) allocates iff cap(b)-len(b) < Size()")
	cl := p.buildClosures()
	var entries []*ssa.Function
	entries = append(entries, cl.DEntries...)
	entries = append(entries, cl.GEntries...)
	entries = append(entries, cl.Setters...)
	for _, n := range []string{"Build", "Reset", "WriteHeader", "Add", "Encode", "SetType", "WriteLength", "WriteType", "WriteTransactionID", "WriteAttributes"} {
		if f := p.Meth("Message", n); f != nil {
			entries = append(entries, f)
		}
	}
	hot := hotClosure(p, dedupFns(entries))
	inHot := map[*ssa.Function]bool{}
	for _, f := range hot {
		inHot[f] = true
		r.Analysed(f)
	}
	an := r.Rule("C20.anchors", "hot entry points resolve and the compiler oracle is available", 40)
	for _, m := range cl.missing {
		an.Fail(m, "anchor not found")
	}
	for _, f := range hot {
		an.Instance(fnName(f), false, nil)
	}
	diags, err := compilerEscapes(p)
	if err != nil {
		an.Fail("compiler oracle", err.Error())
		an.Done()
		return
	}
	an.Instance("compiler oracle", false, map[string]int{"escape_diagnostics": len(diags)})
	an.Done()

	rc := r.Rule("C20.alloc", "every allocation site of the hot closure that lies on a path able to report success is amortised growth into retained storage (reviewed) or a listed known finding", 10)
	fi := buildFuncIndex(p)
	report := func(fn *ssa.Function, pos token.Pos, construct, why string) {
		for _, ar := range amortised {
			if (ar.Fn == "" || ar.Fn == fnName(fn)) && strings.Contains(construct, ar.Match) {
				rc.Instance(fnName(fn)+"|"+construct, true, map[string]string{"fn": fnName(fn), "site": construct, "class": "amortised", "reason": ar.Reason})
				return
			}
		}
		rc.Instance(fnName(fn)+"|"+construct, true, nil)
		rc.Violation(fn, pos, construct, why)
	}
	// (A) compiler diagnostics
	// instructions by source line: a diagnostic inside a helper that the normalisation inlined is
	// attributed to every hot function that now contains instructions of that line
	byLine := map[string][]*ssa.Function{}
	for _, g := range hot {
		if g.Parent() != nil {
			continue
		}
		seenL := map[string]bool{}
		fns := append([]*ssa.Function{g}, g.AnonFuncs...)
		for _, h := range fns {
			eachInstr(h, func(b *ssa.BasicBlock, i int, in ssa.Instruction) {
				if ip := instrPos(in); ip.IsValid() {
					ps := p.Fset.Position(ip)
					k := fmt.Sprintf("%s:%d", strings.TrimPrefix(ps.Filename, p.Dir+"/"), ps.Line)
					if !seenL[k] {
						seenL[k] = true
						byLine[k] = append(byLine[k], g)
					}
				}
			})
		}
	}
	type diagFn struct {
		d  escapeDiag
		fn *ssa.Function
	}
	var work []diagFn
	inlinedAtMu.Lock()
	inl := inlinedAtByProg[p]
	inlinedAtMu.Unlock()
	for _, d := range diags {
		if fn := fi.at(d.File, d.Line); fn != nil {
			// the copy of a diagnostic that the compiler repeats at a call site where it inlined the
			// allocating function: judged where the allocation is written - in the callee when that is hot
			// itself, or, when the normalisation merged the callee's statements into fn, on those statements
			if names := inl[fmt.Sprintf("%s:%d", d.File, d.Line)]; len(names) > 0 {
				var orig []escapeDiag
				for _, d2 := range diags {
					if d2.Text != d.Text || d2.File == d.File && d2.Line == d.Line {
						continue
					}
					g := fi.at(d2.File, d2.Line)
					if g == nil || g.Name() == "_" {
						// the callee's declaration is gone from the normalised program: its statements are in fn
						for _, h := range byLine[fmt.Sprintf("%s:%d", d2.File, d2.Line)] {
							if h == fn {
								orig = append(orig, d2)
								break
							}
						}
						continue
					}
					if g == fn {
						continue
					}
					for _, nm := range names {
						if strings.HasSuffix(nm, g.Name()) {
							orig = append(orig, d2)
							break
						}
					}
				}
				if len(orig) > 0 {
					for _, d2 := range orig {
						for _, g := range byLine[fmt.Sprintf("%s:%d", d2.File, d2.Line)] {
							if g == fn {
								work = append(work, diagFn{d2, fn})
							}
						}
					}
					continue
				}
			}
			work = append(work, diagFn{d, fn})
			continue
		}
		for _, g := range byLine[fmt.Sprintf("%s:%d", d.File, d.Line)] {
			work = append(work, diagFn{d, g})
		}
	}
	for _, w := range work {
		d, fn := w.d, w.fn
		// anonymous functions are attributed to their parent declaration; hot if the parent is hot
		if !inHot[fn] {
			continue
		}
		// success-path filter: instructions of fn (and its closures) on that line
		onLine := false
		succ := false
		var pos token.Pos
		fns := append([]*ssa.Function{fn}, fn.AnonFuncs...)
		for _, g := range fns {
			eachInstr(g, func(b *ssa.BasicBlock, i int, in ssa.Instruction) {
				ip := instrPos(in)
				if !ip.IsValid() {
					return
				}
				ps := p.Fset.Position(ip)
				if ps.Line == d.Line && strings.HasSuffix(ps.Filename, d.File) {
					onLine = true
					if !pos.IsValid() {
						pos = ip
					}
					if canSucceed(p, g, b) {
						succ = true
					}
				}
			})
		}
		if onLine && !succ {
			continue // error path only
		}
		if !pos.IsValid() {
			pos = fn.Pos()
		}
		if ok, why := errorValueOrStatic(p, d.Text); ok {
			rc.Instance(fnName(fn)+"|"+d.Text, false, map[string]string{"fn": fnName(fn), "site": d.Text, "class": why})
			continue
		}
		if strings.HasPrefix(d.Text, "make(") {
			// growth: every make the diagnostic can refer to runs only after a failed capacity test of a
			// retained buffer, and its result becomes that buffer
			mks := growthMakes(p, fn, d.File, d.Line)
			grown := len(mks) > 0
			for _, mk := range mks {
				if !capInsufficient(mk.Block(), nil) || !storedIntoRetained(mk) {
					grown = false
				}
			}
			if grown {
				rc.Instance(fnName(fn)+"|"+d.Text, true, map[string]string{"fn": fnName(fn), "site": d.Text, "class": "amortised", "reason": "allocated only after the capacity test of the retained buffer failed, and installed as that buffer: no allocation once the buffer has held a value at least as large"})
				continue
			}
		}
		report(fn, pos, d.Text, "heap allocation on a hot path (compiler escape analysis): decoding, lookups, getters/checkers and rebuilding must not allocate in steady state")
	}
	// (B) appends and (C) allocating stdlib calls
	for _, fn := range hot {
		var pr *Prover
		eachInstr(fn, func(b *ssa.BasicBlock, i int, in ssa.Instruction) {
			c, ok := in.(*ssa.Call)
			if !ok || !canSucceed(p, fn, b) {
				return
			}
			if isBuiltinCall(c, "append") {
				base := c.Call.Args[0]
				if retainedBase(base, 0) {
					report(fn, instrPos(c), "append into retained "+exprCanon(base), "")
					return
				}
				// local scratch: prove it cannot outgrow its capacity
				if pr == nil {
					pr = newProver(p, fn)
				}
				if capC, ok := constCap(base); ok && len(c.Call.Args) == 2 {
					l0 := pr.linLen(base, "len")
					l1 := pr.linLen(c.Call.Args[1], "len")
					if l0.T == zeroTerm {
						res := pr.Prove(c, Goal{XL: &lin{l1.T, l1.Off + l0.Off}, YL: &lin{zeroTerm, capC}, C: 0, extra: []ssa.Value{c.Call.Args[1]}})
						if res.OK {
							rc.Instance(fnName(fn)+"|append within capacity", true, map[string]string{"fn": fnName(fn), "site": exprDepth(c, 0), "class": "proved within the scratch buffer's capacity"})
							return
						}
					}
				}
				what := "append onto local buffer " + exprCanon(base)
				if sc, okC := scratchCapOf(base, 0, map[ssa.Value]bool{}); okC {
					// the capacity is part of the site: a reviewed finding is about a scratch of that very size
					what += fmt.Sprintf(" (capacity %d)", sc)
				}
				report(fn, instrPos(c), what, "the append may outgrow its stack scratch buffer and allocate for large inputs")
				return
			}
			if c.Call.IsInvoke() && c.Call.Method.Name() == "Sum" && len(c.Call.Args) == 1 {
				arg := c.Call.Args[0]
				if isNilConst(arg) {
					report(fn, instrPos(c), "Sum(nil)", "hash.Hash.Sum(nil) allocates the digest")
					return
				}
				// Sum into a caller-provided buffer: allocation depends on its spare capacity
				if fnName(fn) == "(*hmac.hmac).Sum" || fn == p.Fn("newHMAC") {
					rc.Instance(fnName(fn)+"|Sum(in)", true, map[string]string{"fn": fnName(fn), "site": "Sum(" + exprCanon(arg) + ")", "class": "writes into the caller's buffer (the caller's site is the one judged)"})
					return
				}
				report(fn, instrPos(c), "Sum("+exprCanon(arg)+")", "the digest is appended to a buffer whose spare capacity is not established: allocates when fewer than Size() bytes are free")
			}
		})
	}
	// a Sum through the pooled HMAC with the message's spare capacity as scratch (MessageIntegrity)
	if nh := p.Fn("newHMAC"); nh != nil && inHot[nh] {
		for _, fn := range hot {
			eachInstr(fn, func(b *ssa.BasicBlock, i int, in ssa.Instruction) {
				if c, ok := in.(*ssa.Call); ok && callsFn(c, nh) && canSucceed(p, fn, b) && isSpareCapacityView(c.Call.Args[2]) {
					if why, ok := scratchCoveredByAdd(p, fn, c); ok {
						rc.Instance(fnName(fn)+"|HMAC sum into Raw's spare capacity", true, map[string]string{"fn": fnName(fn), "site": "HMAC sum into Raw's spare capacity", "class": "amortised", "reason": why})
						return
					}
					report(fn, instrPos(c), "HMAC sum into Raw's spare capacity", "the 20-byte digest is appended behind Raw: allocates whenever cap(Raw)-len(Raw) < 20")
				}
			})
		}
	}
	rc.Done()
	rt := r.Rule("C20.retain", "in the hot closure a slice field of a retained object (message, destination value, pooled object) is only ever assigned a value derived from its own previous value (reslice without capacity clamp, append onto it): the warm backing array and its capacity survive every operation", 5)
	checkRetained(r, rt, hot)
	rt.Done()
	// ---- no interface-to-interface conversion on a hot path
	ic := r.Rule("C20.ifaceconv", "no conversion of one interface type to another (an upcast such as hash.Hash -> io.Writer, or an assertion to an interface type) lies on a success path of the hot closure: since Go 1.22 such a conversion goes through a per-site type-assert cache that the runtime fills - allocating - at an unpredictable call, which no escape diagnostic shows (EXT, amd64/arm64)", 0)
	{
		n := 0
		for _, fn := range hot {
			eachInstr(fn, func(b *ssa.BasicBlock, i int, in ssa.Instruction) {
				var what string
				switch x := in.(type) {
				case *ssa.ChangeInterface:
					if types.Identical(x.X.Type(), x.Type()) {
						return
					}
					if it, ok := x.Type().Underlying().(*types.Interface); ok && it.NumMethods() == 0 {
						return // to the empty interface: no method table needed
					}
					what = "conversion " + typeShort(x.X.Type()) + " -> " + typeShort(x.Type())
				case *ssa.TypeAssert:
					if _, isI := x.AssertedType.Underlying().(*types.Interface); !isI {
						return
					}
					if _, fromI := x.X.Type().Underlying().(*types.Interface); !fromI {
						return
					}
					what = "assertion to interface " + typeShort(x.AssertedType)
				default:
					return
				}
				if !canSucceed(p, fn, b) {
					return
				}
				n++
				ic.Violation(fn, instrPos(in), what, "interface-to-interface conversion on a hot path: one allocation (the runtime's type-assert cache entry for this site) at an unpredictable call, however well the message and the destinations were warmed")
			})
		}
		ic.Instance("hot closure", true, map[string]int{"functions": len(hot), "conversions_on_success_paths": n})
	}
	ic.Done()

	// ---- no copying string conversion on a hot path
	sc := r.Rule("C20.strconv", "no conversion between []byte and string lies on a success path of the hot closure, except where the compiler is known not to copy (string(b) used only as a map key, in a comparison, or ranged over): the runtime copies the bytes, into a 32-byte stack buffer when the result does not escape and onto the heap for anything longer - an allocation that depends on the size of the value and that no escape diagnostic shows", 0)
	{
		n := 0
		for _, fn := range hot {
			eachInstr(fn, func(b *ssa.BasicBlock, i int, in ssa.Instruction) {
				cv, ok := in.(*ssa.Convert)
				if !ok {
					return
				}
				isStr := func(t types.Type) bool {
					bt, ok := t.Underlying().(*types.Basic)
					return ok && bt.Info()&types.IsString != 0
				}
				isBytes := func(t types.Type) bool {
					sl, ok := t.Underlying().(*types.Slice)
					if !ok {
						return false
					}
					bt, ok := sl.Elem().Underlying().(*types.Basic)
					return ok && (bt.Kind() == types.Byte || bt.Kind() == types.Uint8)
				}
				if !(isStr(cv.Type()) && isBytes(cv.X.Type()) || isBytes(cv.Type()) && isStr(cv.X.Type())) {
					return
				}
				if _, isC := cv.X.(*ssa.Const); isC {
					return
				}
				if !canSucceed(p, fn, b) {
					return
				}
				// uses the compiler performs without copying: string(b) compared, used as map key, or ranged over
				allFree := len(*cv.Referrers()) > 0
				for _, u := range *cv.Referrers() {
					switch y := u.(type) {
					case *ssa.BinOp:
						if y.Op != token.EQL && y.Op != token.NEQ && y.Op != token.LSS && y.Op != token.GTR && y.Op != token.LEQ && y.Op != token.GEQ {
							allFree = false
						}
					case *ssa.Lookup:
						if y.Index != ssa.Value(cv) {
							allFree = false
						}
					case *ssa.Range, *ssa.DebugRef:
					default:
						allFree = false
					}
				}
				if allFree && isStr(cv.Type()) {
					sc.Instance(fnName(fn)+"|"+exprDepth(cv, 0), false, map[string]string{"fn": fnName(fn), "conversion": exprDepth(cv, 0), "class": "not copied by the compiler (comparison / map key / range)"})
					return
				}
				n++
				sc.Violation(fn, instrPos(cv), "conversion "+exprDepth(cv, 0), "the conversion copies the bytes: values longer than the runtime's 32-byte temporary are copied onto the heap on every call, however warm the message and the destinations are")
			})
		}
		sc.Instance("hot closure", true, map[string]int{"functions": len(hot), "copying_conversions_on_success_paths": n})
	}
	sc.Done()

	// the attribute list narrowed for a callback is restored on every exit: a list left narrowed has lost capacity and the next decode allocates (shared with C07)
	r.Borrow("C07", map[string]string{"C07.restore": "C20.restore"})
	// re-encoding re-adds the attributes into the list's own backing array (truncated, not replaced): a warm message is
	// re-encoded without allocating (shared with C03)
	r.Borrow("C03", map[string]string{"C03.encode": "C20.encode"})
}

// retainedBase: the append base derives from storage retained across calls (a field of the message,
// of the destination value or of the pooled object, or the pointee of the receiver).
func retainedBase(v ssa.Value, depth int) bool { return retainedBaseV(v, depth, map[ssa.Value]bool{}) }

func retainedBaseV(v ssa.Value, depth int, seen map[ssa.Value]bool) bool {
	if depth > 12 || v == nil {
		return false
	}
	if seen[v] {
		return true // a loop-carried slice: retained iff its other sources are
	}
	seen[v] = true
	switch x := v.(type) {
	case *ssa.Slice:
		return retainedBaseV(x.X, depth+1, seen)
	case *ssa.ChangeType:
		return retainedBaseV(x.X, depth+1, seen)
	case *ssa.Phi:
		for _, e := range x.Edges {
			if !retainedBaseV(e, depth+1, seen) {
				return false
			}
		}
		return true
	case *ssa.Call:
		if isBuiltinCall(x, "append") {
			return retainedBaseV(x.Call.Args[0], depth+1, seen)
		}
	case *ssa.UnOp:
		if x.Op == token.MUL {
			switch a := x.X.(type) {
			case *ssa.FieldAddr:
				if _, isLocal := a.X.(*ssa.Alloc); isLocal {
					al := a.X.(*ssa.Alloc)
					return al.Heap // a heap object's field
				}
				return true
			case *ssa.Parameter:
				return true // *a of a pointer receiver (UnknownAttributes)
			}
		}
	case *ssa.Parameter:
		// a slice handed to an unexported helper: retained iff every library caller passes retained storage
		if args, known := callerArgsOf(x); known {
			for _, a := range args {
				if !retainedBaseV(a, depth+1, seen) {
					return false
				}
			}
			return true
		}
	}
	return false
}

// derivedFromField: v is the slice held by field fv (of any object), possibly resliced without a
// capacity clamp, appended to, or merged by phis; clamp reports a 3-index reslice on the way.
func derivedFromField(v ssa.Value, fv *types.Var, depth int, seen map[ssa.Value]bool, clamp *bool) bool {
	if depth > 12 || v == nil {
		return false
	}
	if seen[v] {
		return true
	}
	seen[v] = true
	switch x := v.(type) {
	case *ssa.Slice:
		if x.Max != nil {
			*clamp = true
		}
		return derivedFromField(x.X, fv, depth+1, seen, clamp)
	case *ssa.ChangeType:
		return derivedFromField(x.X, fv, depth+1, seen, clamp)
	case *ssa.Phi:
		for _, e := range x.Edges {
			if !derivedFromField(e, fv, depth+1, seen, clamp) {
				return false
			}
		}
		return true
	case *ssa.Call:
		if isBuiltinCall(x, "append") {
			return derivedFromField(x.Call.Args[0], fv, depth+1, seen, clamp)
		}
	case *ssa.UnOp:
		if x.Op == token.MUL {
			if fa, ok := x.X.(*ssa.FieldAddr); ok {
				return fieldOfAddr(fa) == fv
			}
			if _, ok := x.X.(*ssa.Parameter); ok && fv == nil {
				return true
			}
			switch a := x.X.(type) {
			case *ssa.Alloc, *ssa.FreeVar:
				if vs, ok := cellStores(a); ok && len(vs) > 0 {
					for _, sv := range vs {
						if !derivedFromField(sv, fv, depth+1, seen, clamp) {
							return false
						}
					}
					return true
				}
			}
		}
	case *ssa.Parameter:
		if args, known := callerArgsOf(x); known {
			for _, a := range args {
				if !derivedFromField(a, fv, depth+1, seen, clamp) {
					return false
				}
			}
			return true
		}
	}
	return false
}

// cellStores: the values stored into a local variable cell (an Alloc, or the FreeVar of a closure bound to one).
func cellStores(cell ssa.Value) ([]ssa.Value, bool) {
	switch c := cell.(type) {
	case *ssa.FreeVar:
		fn := c.Parent()
		idx := -1
		for i, fv := range fn.FreeVars {
			if fv == c {
				idx = i
			}
		}
		if fn.Parent() == nil || idx < 0 {
			return nil, false
		}
		var out []ssa.Value
		found := false
		eachInstr(fn.Parent(), func(b *ssa.BasicBlock, i int, in ssa.Instruction) {
			if mc, ok := in.(*ssa.MakeClosure); ok && mc.Fn == ssa.Value(fn) && idx < len(mc.Bindings) {
				if vs, ok := cellStores(mc.Bindings[idx]); ok {
					out = append(out, vs...)
					found = true
				}
			}
		})
		return out, found
	case *ssa.Alloc:
		var out []ssa.Value
		ok := true
		var visit func(fn *ssa.Function, cellIn ssa.Value)
		visit = func(fn *ssa.Function, cellIn ssa.Value) {
			refs := cellIn.Referrers()
			if refs == nil {
				return
			}
			for _, u := range *refs {
				switch y := u.(type) {
				case *ssa.Store:
					if y.Addr == cellIn {
						out = append(out, y.Val)
					} else {
						ok = false
					}
				case *ssa.UnOp, *ssa.DebugRef:
				case *ssa.MakeClosure:
					for i, bnd := range y.Bindings {
						if bnd == cellIn {
							cf := y.Fn.(*ssa.Function)
							if i < len(cf.FreeVars) {
								visit(cf, cf.FreeVars[i])
							}
						}
					}
				default:
					ok = false
				}
			}
		}
		visit(c.Parent(), c)
		return out, ok
	}
	return nil, false
}

// canonCell: a load of a local variable cell (captured by a closure, hence not lifted to a register)
// that is stored exactly once denotes the stored value.
func canonCell(v ssa.Value) ssa.Value {
	for i := 0; i < 4; i++ {
		ld, ok := v.(*ssa.UnOp)
		if !ok || ld.Op != token.MUL {
			return v
		}
		switch ld.X.(type) {
		case *ssa.Alloc, *ssa.FreeVar:
		default:
			return v
		}
		vs, ok := cellStores(ld.X)
		if !ok || len(vs) != 1 {
			return v
		}
		v = vs[0]
	}
	return v
}

// rootField: the field (or pointer parameter, as "*name") a slice value is a view of.
func rootField(v ssa.Value, depth int) (fv *types.Var, ptrParam string, ok bool) {
	if depth > 12 {
		return nil, "", false
	}
	switch x := v.(type) {
	case *ssa.Slice:
		return rootField(x.X, depth+1)
	case *ssa.ChangeType:
		return rootField(x.X, depth+1)
	case *ssa.Call:
		if isBuiltinCall(x, "append") {
			return rootField(x.Call.Args[0], depth+1)
		}
	case *ssa.Phi:
		for _, e := range x.Edges {
			if f, pp, ok := rootField(e, depth+1); ok {
				return f, pp, true
			}
		}
	case *ssa.UnOp:
		if x.Op == token.MUL {
			switch a := x.X.(type) {
			case *ssa.FieldAddr:
				return fieldOfAddr(a), "", true
			case *ssa.Parameter:
				return nil, "*" + a.Type().String(), true
			case *ssa.Alloc, *ssa.FreeVar:
				if vs, ok := cellStores(a); ok {
					for _, sv := range vs {
						if f, pp, ok := rootField(sv, depth+1); ok {
							return f, pp, true
						}
					}
				}
			}
		}
	}
	return nil, "", false
}

// checkRetained: C20.retain
func checkRetained(r *Run, rc *RuleCtx, hot []*ssa.Function) {
	p := r.P
	// growable retained buffers: fields (or pointees of pointer receivers) some hot function appends onto
	growF := map[*types.Var]bool{}
	growP := map[string]bool{}
	for _, fn := range hot {
		eachInstr(fn, func(b *ssa.BasicBlock, i int, in ssa.Instruction) {
			if c, ok := in.(*ssa.Call); ok && isBuiltinCall(c, "append") && retainedBase(c.Call.Args[0], 0) {
				if f, pp, ok := rootField(c.Call.Args[0], 0); ok {
					if f != nil {
						growF[f] = true
					} else {
						growP[pp] = true
					}
				}
			}
		})
	}
	for _, fn := range hot {
		eachInstr(fn, func(b *ssa.BasicBlock, i int, in ssa.Instruction) {
			st, ok := in.(*ssa.Store)
			if !ok {
				return
			}
			if _, isSl := st.Val.Type().Underlying().(*types.Slice); !isSl {
				return
			}
			var fv *types.Var
			var what string
			switch a := st.Addr.(type) {
			case *ssa.FieldAddr:
				fv = fieldOfAddr(a)
				if !growF[fv] {
					return
				}
				what = ownerName(p, fv) + "." + fv.Name()
			case *ssa.Parameter:
				if !growP["*"+a.Type().String()] {
					return
				}
				what = "*" + a.Name()
			default:
				return
			}
			if !canSucceed(p, fn, b) {
				return
			}
			clamp := false
			der := derivedFromField(st.Val, fv, 0, map[ssa.Value]bool{}, &clamp)
			class := "derived from itself"
			switch {
			case der && clamp:
				class = "capacity clamped"
			case !der && isNilConst(st.Val):
				class = "dropped (nil)"
			case !der:
				class = "replaced by " + exprCanon(st.Val)
			}
			grown := false
			if !der && !isNilConst(st.Val) && fv != nil && capInsufficient(b, fv) {
				// a larger buffer installed only when the capacity test of this very field failed: growth
				grown = true
				class = "grown (capacity test failed)"
			}
			// derived from itself but cut from the front: the bytes before the new start are out of reach for good
			frontCut := false
			if der && !clamp {
				v := st.Val
				for i := 0; i < 8; i++ {
					if ct, isCT := v.(*ssa.ChangeType); isCT {
						v = ct.X
						continue
					}
					sl, isSl := v.(*ssa.Slice)
					if !isSl {
						break
					}
					if sl.Low != nil {
						if c, isC := constInt(sl.Low); !isC || c != 0 {
							frontCut = true
						}
					}
					v = sl.X
				}
				if frontCut && fv != nil {
					// a temporary narrowing that the function undoes on every exit (ForEach around its callback)
					if viol, _ := newSaveRestore(p, fn, fv).run(false); len(viol) == 0 {
						frontCut = false
						class = "narrowed and restored on every exit"
					}
				}
				if frontCut {
					class = "cut from the front"
				}
			}
			rc.Instance(fnName(fn)+"|"+what+"|"+class, true, map[string]interface{}{"fn": fnName(fn), "store": what, "class": class})
			switch {
			case frontCut:
				rc.Violation(fn, instrPos(st), what+" = "+exprCanon(st.Val), "a reused buffer is resliced from a non-zero start: the capacity in front of the new start is lost for good, so the next value that needs the full size (an IPv6 address after an IPv4-mapped one) reallocates although the destination was warm")
			case der && clamp:
				rc.Violation(fn, instrPos(st), what+" = "+exprCanon(st.Val), "a three-index reslice clamps the capacity of a reused buffer: the next larger value (e.g. an IPv6 address after an IPv4 one) has to reallocate although the destination was warm")
			case !der && !grown:
				rc.Violation(fn, instrPos(st), what+" = "+exprCanon(st.Val), "the warm backing array of a reused buffer is dropped/replaced on a path that reports success: the next operation that appends onto it allocates again")
			}
		})
	}
}

// capInsufficient: block b is only entered when a capacity test of the retained slice field fv (or, with
// fv nil, of any retained slice) has just failed - `cap(x) < n` holds on entry.  An allocation there is
// growth: it does not happen once the buffer has held a value at least as large.
func capInsufficient(b *ssa.BasicBlock, fv *types.Var) bool {
	isCapOf := func(v ssa.Value) bool {
		c, ok := v.(*ssa.Call)
		if !ok || !isBuiltinCall(c, "cap") || !retainedBase(c.Call.Args[0], 0) {
			return false
		}
		if fv == nil {
			return true
		}
		f, _, ok := rootField(c.Call.Args[0], 0)
		return ok && f == fv
	}
	for _, ec := range allEntryConds(b) {
		cond, val := ec.Cond, ec.Val
		for {
			u, ok := cond.(*ssa.UnOp)
			if !ok || u.Op != token.NOT {
				break
			}
			cond, val = u.X, !val
		}
		bo, ok := cond.(*ssa.BinOp)
		if !ok {
			continue
		}
		op := bo.Op
		if !val {
			switch op {
			case token.LSS:
				op = token.GEQ
			case token.LEQ:
				op = token.GTR
			case token.GTR:
				op = token.LEQ
			case token.GEQ:
				op = token.LSS
			default:
				continue
			}
		}
		// cap(x) < y, cap(x) <= y, y > cap(x), y >= cap(x)
		if (op == token.LSS || op == token.LEQ) && isCapOf(bo.X) || (op == token.GTR || op == token.GEQ) && isCapOf(bo.Y) {
			return true
		}
	}
	return false
}

// growthMakes: the make([]T, ...) instructions a compiler diagnostic at file:line of fn can refer to - those
// on that line in fn itself, or in the module functions called on that line (the compiler reports an
// allocation of an inlined callee at the call site).
func growthMakes(p *Prog, fn *ssa.Function, file string, line int) []*ssa.MakeSlice {
	var out []*ssa.MakeSlice
	seen := map[*ssa.Function]bool{}
	var all func(g *ssa.Function, depth int)
	all = func(g *ssa.Function, depth int) {
		if g == nil || seen[g] || g.Blocks == nil || depth > 3 || !p.isLibFn(g) {
			return
		}
		seen[g] = true
		eachInstr(g, func(b *ssa.BasicBlock, i int, in ssa.Instruction) {
			if mk, ok := in.(*ssa.MakeSlice); ok {
				out = append(out, mk)
			}
			if c, ok := in.(ssa.CallInstruction); ok {
				all(c.Common().StaticCallee(), depth+1)
			}
		})
	}
	fns := append([]*ssa.Function{fn}, fn.AnonFuncs...)
	for _, g := range fns {
		eachInstr(g, func(b *ssa.BasicBlock, i int, in ssa.Instruction) {
			ip := instrPos(in)
			if !ip.IsValid() {
				return
			}
			ps := p.Fset.Position(ip)
			if ps.Line != line || !strings.HasSuffix(ps.Filename, file) {
				return
			}
			if mk, ok := in.(*ssa.MakeSlice); ok {
				out = append(out, mk)
			}
			if c, ok := in.(ssa.CallInstruction); ok {
				all(c.Common().StaticCallee(), 1)
			}
		})
	}
	return out
}

// storedIntoRetained: the made slice (possibly resliced) is what a retained slice field is set to.
func storedIntoRetained(mk *ssa.MakeSlice) bool {
	seen := map[ssa.Value]bool{}
	var walk func(v ssa.Value, depth int) bool
	walk = func(v ssa.Value, depth int) bool {
		if depth > 6 || seen[v] {
			return false
		}
		seen[v] = true
		for _, ref := range *v.Referrers() {
			switch x := ref.(type) {
			case *ssa.Store:
				if x.Val == v {
					if fa, ok := x.Addr.(*ssa.FieldAddr); ok {
						if al, isLocal := fa.X.(*ssa.Alloc); !isLocal || al.Heap {
							return true
						}
					}
				}
			case *ssa.Slice:
				if x.X == v && walk(x, depth+1) {
					return true
				}
			case *ssa.Phi:
				if walk(x, depth+1) {
					return true
				}
			}
		}
		return false
	}
	return walk(mk, 0)
}

// scratchCoveredByAdd: the HMAC is summed into the spare capacity behind Raw at a point where Raw is
// grow(n)'d, and every success path then appends an attribute through (*Message).Add such that the
// final length 20 + Length + 4 + len(value) exceeds n by at least the digest size: a buffer that has
// held the finished message once (steady state) has the digest's room free behind n.
func scratchCoveredByAdd(p *Prog, fn *ssa.Function, hm *ssa.Call) (string, bool) {
	view, ok := hm.Call.Args[2].(*ssa.Slice)
	if !ok {
		return "", false
	}
	ld, ok := view.X.(*ssa.UnOp)
	if !ok || ld.Op != token.MUL {
		return "", false
	}
	n := reachingGrow(p, ld)
	if n == nil {
		return "", false
	}
	add := p.Meth("Message", "Add")
	msg := p.Named("Message")
	if add == nil || msg == nil {
		return "", false
	}
	lenF := FieldVar(msg, "Length")
	if lenF == nil {
		return "", false
	}
	digest := int64(20)
	for _, pk := range p.Pkgs {
		for path, imp := range pk.Imports {
			if path == "crypto/sha1" && imp.Types != nil {
				if c, ok := imp.Types.Scope().Lookup("Size").(*types.Const); ok {
					if v, exact := constant.Int64Val(c.Val()); exact {
						digest = v
					}
				}
			}
		}
	}
	// the Add calls behind the sum
	var adds []*ssa.Call
	eachInstr(fn, func(b *ssa.BasicBlock, i int, in ssa.Instruction) {
		if c, ok := in.(*ssa.Call); ok && callsFn(c, add) && instrDominates(hm, c) {
			adds = append(adds, c)
		}
	})
	if len(adds) != 1 {
		return "", false
	}
	a := adds[0]
	// every success return behind the sum lies behind the Add
	idx := errorResultIndex(fn)
	for _, ret := range returnsOf(fn) {
		if !instrDominates(hm, ret) {
			continue
		}
		if idx >= 0 {
			c := &PathCtx{K: newKeyer(), assign: map[string]bool{}, phiSel: map[*ssa.Phi]ssa.Value{}, P: p}
			if c.NilState(ret.Results[idx]) == -1 {
				continue
			}
		}
		if !instrDominates(a, ret) {
			return "", false
		}
	}
	// the Length the Add starts from: the last store of the field that dominates it
	var last *ssa.Store
	eachInstr(fn, func(b *ssa.BasicBlock, i int, in ssa.Instruction) {
		if st, ok := in.(*ssa.Store); ok && fieldOfAddr(st.Addr) == lenF && instrDominates(st, a) {
			if last == nil || instrDominates(last, st) {
				last = st
			}
		}
	})
	if last == nil {
		return "", false
	}
	// nothing between that store and the Add writes Length
	bad := false
	eachInstr(fn, func(b *ssa.BasicBlock, i int, in ssa.Instruction) {
		c, ok := in.(ssa.CallInstruction)
		if !ok || in == ssa.Instruction(a) || !instrDominates(last, in) || !instrDominates(in, a) {
			return
		}
		if sc := c.Common().StaticCallee(); sc != nil && p.isModuleFn(sc) {
			if m, unk := modFields(p, sc, map[*ssa.Function]bool{}); m[lenF] || unk {
				bad = true
			}
		} else if sc == nil {
			if _, isB := c.Common().Value.(*ssa.Builtin); !isB {
				bad = true
			}
		}
	})
	if bad {
		return "", false
	}
	le := newLinEval(p)
	start := le.Eval(n)
	vl, isC := le.lenOf(a.Call.Args[2]).isConst()
	if !isC {
		return "", false
	}
	pad := (4 - vl%4) % 4
	final := le.Eval(last.Val).add(linExpr{C: 20 + 4 + vl + pad, Terms: map[string]int64{}}, 1)
	room, isC := final.add(start, -1).isConst()
	if !isC || room < digest {
		return "", false
	}
	return fmt.Sprintf("summed behind grow(%s); the Add that follows on every success path ends the message at %s: %d >= %d bytes behind the scratch start belong to a buffer that has held the finished message once", start, final, room, digest), true
}

// scratchCapOf: the constant capacity of the local buffer an append chain (phis, reslices, appends) started from.
func scratchCapOf(v ssa.Value, depth int, seen map[ssa.Value]bool) (int64, bool) {
	if depth > 8 || v == nil {
		return 0, false
	}
	if seen[v] {
		return -1, true // loop-carried: decided by the other sources
	}
	seen[v] = true
	if c, ok := constCap(v); ok {
		return c, true
	}
	switch x := v.(type) {
	case *ssa.Phi:
		res, have := int64(-1), false
		for _, e := range x.Edges {
			c, ok := scratchCapOf(e, depth+1, seen)
			if !ok {
				return 0, false
			}
			if c < 0 {
				continue
			}
			if have && c != res {
				return 0, false
			}
			res, have = c, true
		}
		return res, have
	case *ssa.Call:
		if isBuiltinCall(x, "append") {
			return scratchCapOf(x.Call.Args[0], depth+1, seen)
		}
	case *ssa.Slice:
		if x.Max == nil {
			return scratchCapOf(x.X, depth+1, seen)
		}
	}
	return 0, false
}

func ownerName(p *Prog, fv *types.Var) string {
	if n, ok := fieldOwner(p, fv); ok {
		return n.Obj().Name()
	}
	return "?"
}
