package main

import (
	"fmt"
	"go/token"
	"go/types"
	"strings"

	"golang.org/x/tools/go/ssa"
)

func init() { register("C11", "other", runC11) }

// exprIsAttemptPlusOneTimesRTO: v == Duration(attempt+1) * rto (commutative forms), where attempt and rto are loads of the given fields.
func isAttemptFormula(v ssa.Value, attempt, rto *types.Var) (bool, string) {
	mul, ok := v.(*ssa.BinOp)
	if !ok || mul.Op != token.MUL {
		return false, "not a product"
	}
	isRTO := func(x ssa.Value) bool {
		for i := 0; i < 4; i++ {
			switch y := x.(type) {
			case *ssa.Convert:
				x = y.X
			case *ssa.ChangeType:
				x = y.X
			default:
				return valueIsLoadOfField(x, rto)
			}
		}
		return false
	}
	isAttPlus1 := func(x ssa.Value) bool {
		for i := 0; i < 4; i++ {
			switch y := x.(type) {
			case *ssa.Convert:
				x = y.X
				continue
			case *ssa.ChangeType:
				x = y.X
				continue
			case *ssa.BinOp:
				if y.Op != token.ADD {
					return false
				}
				if c, ok := constInt(y.Y); ok && c == 1 {
					return stripConv(y.X, attempt)
				}
				if c, ok := constInt(y.X); ok && c == 1 {
					return stripConv(y.Y, attempt)
				}
				return false
			}
			return false
		}
		return false
	}
	if (isRTO(mul.X) && isAttPlus1(mul.Y)) || (isRTO(mul.Y) && isAttPlus1(mul.X)) {
		return true, "(attempt+1)*rto"
	}
	return false, exprDepth(v, 0)
}

func stripConv(x ssa.Value, f *types.Var) bool {
	for i := 0; i < 4; i++ {
		switch y := x.(type) {
		case *ssa.Convert:
			x = y.X
		case *ssa.ChangeType:
			x = y.X
		default:
			return valueIsLoadOfField(x, f)
		}
	}
	return false
}

func runC11(r *Run) {
	p := r.P
	r.Res.Explanation = "structural premises of the retransmission contract decided on every path: the stored request is a copy, the retransmitted buffer is a private full-length copy made before re-publication, the connection is written only by Start and by the retransmission branch, every path to the retransmission write passes the strict attempt guard and exactly one increment, Start resets the counter, the client RTO is read only at Start and copied into the transaction, the deadline formula is (attempt+1)*rto, the agent's deadline predicate is strict (C13.collect)"
	r.NotDecided("wall-clock behaviour", "interleavings of SetRTO with Start as a trace property", "that n+1 is a bound on writes as a trace property (only the premises of the induction)")
	r.Assume("append(x[:0], y...) yields a slice of len(y) holding a copy of y", "C13.collect: a transaction is timed out only strictly after its deadline")
	m := resolveClient(p)
	if !clientAnchors(r, "C11", m) {
		return
	}
	k := newKeyer()
	k.fwdLocal = true
	k.pureFieldLoads = true
	rawMsg := FieldVar(p.Named("Message"), "Raw")

	// ---- snapshot
	sn := r.Rule("C11.snapshot", "the bytes stored in the transaction at Start are a copy of msg.Raw (append into the transaction's own buffer), never msg.Raw itself", 1)
	{
		n, nCopy := 0, 0
		for _, a := range fieldAccesses(m.Start, m.TxRaw) {
			if a.Kind != "store" {
				continue
			}
			n++
			st := a.Instr.(*ssa.Store)
			sn.Instance("Start|raw store", true, map[string]string{"stored": exprDepth(st.Val, 0)})
			if rawLoadAlias(st.Val, rawMsg, nil) {
				sn.Violation(m.Start, instrPos(st), "raw = "+exprDepth(st.Val, 0), "the transaction retains the caller's message buffer: retransmissions carry whatever the caller writes into it afterwards")
				continue
			}
			// a truncation of the transaction's own buffer (first half of `x = x[:0]; x = append(x, raw...)`)
			if zeroLenValue(st.Val, 0) {
				continue
			}
			// must be append(<empty own buffer>, msg.Raw...)
			ap, ok := st.Val.(*ssa.Call)
			if !ok || !isBuiltinCall(ap, "append") || len(ap.Call.Args) != 2 || !valueIsLoadOfField(ap.Call.Args[1], rawMsg) {
				sn.Violation(m.Start, instrPos(st), "raw = "+exprDepth(st.Val, 0), "the stored request is not a full copy of msg.Raw")
				continue
			}
			if !zeroLenValue(ap.Call.Args[0], 0) {
				sn.Violation(m.Start, instrPos(st), "raw = "+exprDepth(st.Val, 0), "the copy is appended to previous content")
				continue
			}
			nCopy++
		}
		if n > 0 && nCopy == 0 {
			sn.Violation(m.Start, m.Start.Pos(), "no snapshot", "Start truncates the transaction's buffer but never copies the request into it")
		}
		if n == 0 {
			sn.Violation(m.Start, m.Start.Pos(), "no snapshot", "Start does not store the request bytes in the transaction")
		}
	}
	sn.Done()

	// ---- full private copy for the retransmission write
	fl := r.Rule("C11.full", "the slice handed to Connection.Write in the retransmission branch is a private copy of the whole stored request (append(buf[:0], raw...)) made before the transaction is re-published", 1)
	var retxWrite *ssa.Call
	eachInstr(m.Callback, func(b *ssa.BasicBlock, i int, in ssa.Instruction) {
		if c, ok := in.(*ssa.Call); ok && ifaceCallOnField(c, m.Conn, "Write") {
			retxWrite = c
		}
	})
	if retxWrite == nil {
		fl.Violation(m.Callback, m.Callback.Pos(), "no retransmission write", "the callback never writes to the connection")
	} else {
		arg := retxWrite.Call.Args[0]
		desc := exprDepth(arg, 0)
		val := arg
		if ld, ok := arg.(*ssa.UnOp); ok && ld.Op == token.MUL {
			if st := reachingFieldStore(p, ld); st != nil {
				val = st.Val
			}
		}
		fl.Instance("retransmission write", true, map[string]string{"written": desc, "value": exprDepth(val, 0)})
		ok := false
		why := "the written buffer is not append(buf[:0], raw...) of the stored request"
		if aliasesField(val, m.TxRaw, 0) {
			why = "the stored request itself is written after the transaction has been re-published: a concurrent completion recycles the object and the next Start overwrites these bytes"
		} else if ap, isAp := val.(*ssa.Call); isAp && isBuiltinCall(ap, "append") && len(ap.Call.Args) == 2 && valueIsLoadOfField(ap.Call.Args[1], m.TxRaw) {
			if zeroLenValue(ap.Call.Args[0], 0) {
				ok = true
			}
			// made before re-publication
			eachInstr(m.Callback, func(b *ssa.BasicBlock, i int, in ssa.Instruction) {
				if callsFn(in, m.Reg) && !instrDominates(ap, in) {
					ok = false
					why = "the copy is made after the transaction has been re-published"
				}
			})
		} else if cp, isCp := copyInto(val); isCp {
			_ = cp
			why = "the copy into a fixed-size buffer is not proved to hold the whole request (len(dst) >= len(raw)): larger requests are truncated on retransmission"
		}
		if !ok {
			fl.Violation(m.Callback, instrPos(retxWrite), "Write("+desc+")", why)
		}
	}
	fl.Done()

	// ---- who writes the connection
	wr := r.Rule("C11.writers", "the client's connection is written only by Start (once, through WriteTo) and by the retransmission branch of the agent callback", 2)
	for _, fn := range p.LibFuncs() {
		eachInstr(fn, func(b *ssa.BasicBlock, i int, in ssa.Instruction) {
			ci, ok := in.(ssa.CallInstruction)
			if !ok {
				return
			}
			cc := ci.Common()
			writes := false
			if cc.IsInvoke() && cc.Method.Name() == "Write" && valueIsLoadOfField(cc.Value, m.Conn) {
				writes = true
			}
			if !cc.IsInvoke() {
				for _, a := range cc.Args {
					// c.c handed to a function as io.Writer (msg.WriteTo(c.c))
					if mi, ok := a.(*ssa.ChangeInterface); ok && valueIsLoadOfField(mi.X, m.Conn) {
						if sc := cc.StaticCallee(); sc != nil && sc.Name() == "WriteTo" {
							writes = true
						} else if sc != nil && sc.Name() != "ReadFrom" {
							writes = true
						}
					}
				}
			}
			if !writes {
				return
			}
			wr.Instance(fnName(fn)+"|write", true, map[string]string{"fn": fnName(fn), "write": shortInstr(in)})
			if fn != m.Start && fn != m.Callback {
				wr.Violation(fn, instrPos(in), "connection write", "a function other than Start and the retransmission branch writes to the connection: more than n+1 transmissions or writes after completion")
			}
		})
	}
	// Start writes once: its write is not in a loop
	{
		loops := loopsOf(m.Start)
		eachInstr(m.Start, func(b *ssa.BasicBlock, i int, in ssa.Instruction) {
			if sc := staticCallee(in); sc != nil && sc.Name() == "WriteTo" && inLoop(loops, b) != nil {
				wr.Violation(m.Start, instrPos(in), "write in loop", "Start writes the request more than once")
			}
		})
	}
	wr.Done()

	// ---- no write for a transaction that may already be over
	ww := r.Rule("C11.writewindow", "a request is written before its transaction is published (registered in the client table and armed in the agent), or under the lock that completions take: otherwise a response, the final timeout or Close can end the transaction between publication and the write, and the request is written for a transaction that is over", 2)
	for _, fn := range []*ssa.Function{m.Start, m.Callback} {
		if fn == nil {
			continue
		}
		li := computeLocks(fn)
		isWrite := func(in ssa.Instruction) bool {
			ci, ok := in.(ssa.CallInstruction)
			if !ok {
				return false
			}
			cc := ci.Common()
			if cc.IsInvoke() && cc.Method.Name() == "Write" && valueIsLoadOfField(cc.Value, m.Conn) {
				return true
			}
			if !cc.IsInvoke() {
				for _, a := range cc.Args {
					if mi, ok := a.(*ssa.ChangeInterface); ok && valueIsLoadOfField(mi.X, m.Conn) {
						if sc := cc.StaticCallee(); sc != nil && sc.Name() != "ReadFrom" {
							return true
						}
					}
				}
			}
			return false
		}
		rep := map[ssa.Instruction]bool{}
		nW := 0
		q := &PathQuery{P: p, Fn: fn}
		q.Step = func(in ssa.Instruction, deferred bool, st uint64, c *PathCtx) (uint64, bool) {
			if callsFn(in, m.Reg) {
				return st | 1, false
			}
			if !isWrite(in) {
				return st, false
			}
			if st&1 == 0 || rep[in] {
				return st, false
			}
			held := li.Held(in)
			for obj, mode := range held {
				if mode == "W" && strings.HasSuffix(obj, "."+m.Mux.Name()) {
					return st, false
				}
			}
			rep[in] = true
			ww.ViolationPath(fn, instrPos(in), "write after the transaction was published", "the transaction is in the client table (and armed in the agent) before the request is written and nothing excludes its completion meanwhile: a response, the final timeout or Close handled in that window ends it, and the request is then written for a transaction that is already over", c.Witness(fn, in))
			return st, false
		}
		q.Run()
		eachInstr(fn, func(b *ssa.BasicBlock, i int, in ssa.Instruction) {
			if isWrite(in) {
				nW++
			}
		})
		ww.Instance(fnName(fn)+"|writes", true, map[string]int{"write_sites": nW, "after_publication": len(rep)})
	}
	ww.Done()

	// ---- the callback completes a re-published transaction only if its own removal found it (shared with C10)
	r.Borrow("C10", map[string]string{"C10.removal": "C11.removal"})

	// ---- count
	ct := r.Rule("C11.count", "every path of the callback to the retransmission write passes attempt < maxAttempts and event.Error != nil and exactly one increment of the attempt counter; Start resets the counter; WithNoRetransmit stores maxAttempts = 0", 3)
	if retxWrite != nil {
		fn := m.Callback
		// classify comparisons between maxAttempts and attempt
		type cmpInfo struct {
			strictWhenTrue  bool // cond true  => attempt < max
			strictWhenFalse bool
		}
		cmps := map[string]cmpInfo{}
		errNilKeys := map[string]bool{}
		// the branch conditions of the function, a merged boolean (`a || b`, the result of a predicate helper)
		// contributing the comparisons merged into it: PATH keys such a branch by the one its path came through
		var condBinOps []*ssa.BinOp
		{
			seenV := map[ssa.Value]bool{}
			var addCond func(v ssa.Value, depth int)
			addCond = func(v ssa.Value, depth int) {
				if v == nil || seenV[v] || depth > 4 {
					return
				}
				seenV[v] = true
				switch x := v.(type) {
				case *ssa.BinOp:
					condBinOps = append(condBinOps, x)
				case *ssa.UnOp:
					if x.Op == token.NOT {
						addCond(x.X, depth+1)
					}
				case *ssa.Phi:
					for _, e := range x.Edges {
						addCond(e, depth+1)
					}
				}
			}
			for _, b := range fn.Blocks {
				if iff, ok := b.Instrs[len(b.Instrs)-1].(*ssa.If); ok {
					addCond(iff.Cond, 0)
				}
			}
		}
		attLoads := map[ssa.Value]bool{} // the loads of the attempt counter that are compared with the limit
		for _, bo := range condBinOps {
			isMax := func(v ssa.Value) bool {
				if c, ok := v.(*ssa.Call); ok {
					if n, ok := atomicOpOnField(c, m.MaxAttempts); ok && n == "LoadInt32" {
						return true
					}
				}
				return valueIsLoadOfField(v, m.MaxAttempts)
			}
			isAtt := func(v ssa.Value) bool { return valueIsLoadOfField(v, m.TxAttempt) }
			key, pol := k.condKey(bo)
			var op token.Token
			switch {
			case isMax(bo.X) && isAtt(bo.Y):
				attLoads[bo.Y] = true
				// max OP attempt  -> attempt OP' max
				op = map[token.Token]token.Token{token.LSS: token.GTR, token.LEQ: token.GEQ, token.GTR: token.LSS, token.GEQ: token.LEQ, token.EQL: token.EQL, token.NEQ: token.NEQ}[bo.Op]
			case isAtt(bo.X) && isMax(bo.Y):
				attLoads[bo.X] = true
				op = bo.Op
			default:
				// event.Error == nil ?
				if (bo.Op == token.EQL || bo.Op == token.NEQ) && (isNilConst(bo.X) || isNilConst(bo.Y)) {
					v := bo.X
					if isNilConst(v) {
						v = bo.Y
					}
					if kk := k.Key(v); len(kk) > 0 && containsErrorField(v) {
						errNilKeys[key] = true
					}
				}
				continue
			}
			// cond (as written) true means: attempt op max. Strict "attempt < max" holds when op==LSS and cond true, or op==GEQ and cond false
			ci := cmpInfo{}
			switch op {
			case token.LSS:
				ci.strictWhenTrue = true
			case token.GEQ:
				ci.strictWhenFalse = true
			}
			// condKey may have flipped polarity: key true <=> written cond == pol
			if !pol {
				ci.strictWhenTrue, ci.strictWhenFalse = ci.strictWhenFalse, ci.strictWhenTrue
			}
			cmps[key] = ci
		}
		q := &PathQuery{P: p, Fn: fn, K: k}
		rep := false
		repOrder := false
		nPaths := 0
		q.Step = func(in ssa.Instruction, deferred bool, st uint64, c *PathCtx) (uint64, bool) {
			if s, ok := in.(*ssa.Store); ok {
				if _, f := addrField(s.Addr); f == m.TxAttempt {
					// increment by one?
					inc := false
					if bo, ok := s.Val.(*ssa.BinOp); ok && bo.Op == token.ADD {
						if c1, ok := constInt(bo.Y); ok && c1 == 1 && valueIsLoadOfField(bo.X, m.TxAttempt) {
							inc = true
						}
					}
					if !inc {
						return st | 4, false // foreign store
					}
					if st&1 != 0 {
						return st | 2, false
					}
					return st | 1, false
				}
			}
			// the limit is tested on the number of transmissions made so far, not on the counter already incremented
			// for the one that is about to be made
			if v, isV := in.(ssa.Value); isV && attLoads[v] && st&1 != 0 && !repOrder {
				repOrder = true
				ct.ViolationPath(fn, instrPos(in), "attempt limit tested after the increment", "the counter compared with the limit already counts the retransmission under way: the request is repeated n-1 times instead of n and the final timeout is reported one deadline early", c.Witness(fn, in))
			}
			// the deadline of the retransmission is computed from the counter after its increment
			if m.NextTimeout != nil && callsFn(in, m.NextTimeout) && st&1 == 0 && !repOrder {
				repOrder = true
				ct.ViolationPath(fn, instrPos(in), "deadline computed before the attempt counter is incremented", "the retransmission's deadline is (attempt+1)*rto with the attempt number of the previous transmission: transmission k >= 1 is repeated after k*r instead of (k+1)*r, and the final timeout comes early", c.Witness(fn, in))
			}
			if in == ssa.Instruction(retxWrite) {
				nPaths++
				strict := false
				for key, ci := range cmps {
					if v, known := c.Known(key); known && ((v && ci.strictWhenTrue) || (!v && ci.strictWhenFalse)) {
						strict = true
					}
				}
				errNonNil := false
				for key := range errNilKeys {
					if v, known := c.Known(key); known && !v {
						errNonNil = true
					}
				}
				if !rep {
					switch {
					case !strict:
						rep = true
						ct.ViolationPath(fn, instrPos(in), "retransmission without the strict attempt guard", "a path reaches the retransmission write although attempt < maxAttempts has not been established: more than n retransmissions (or one with retransmission disabled)", c.Witness(fn, in))
					case !errNonNil:
						rep = true
						ct.ViolationPath(fn, instrPos(in), "retransmission without an error event", "a path reaches the retransmission write for an event that carries no error (a response)", c.Witness(fn, in))
					case st&7 != 1:
						rep = true
						ct.ViolationPath(fn, instrPos(in), "attempt counter not incremented exactly once", "the attempt counter must grow by one per retransmission (it bounds the number of writes and scales the next deadline)", c.Witness(fn, in))
					}
				}
				return st, true
			}
			return st, false
		}
		q.Run()
		ct.Instance("callback|paths to write", true, map[string]interface{}{"paths_to_retransmission_write": nPaths, "attempt_guards": len(cmps)})
		if nPaths == 0 {
			ct.Violation(fn, fn.Pos(), "unreachable write", "no path reaches the retransmission write")
		}
	}
	// Start: attempt = 0
	{
		ok := false
		for _, a := range fieldAccesses(m.Start, m.TxAttempt) {
			if st, isS := a.Instr.(*ssa.Store); isS && a.Kind == "store" {
				if c, isC := constInt(st.Val); isC && c == 0 {
					ok = true
				}
			}
		}
		ct.Instance("Start|attempt=0", true, nil)
		if !ok {
			ct.Violation(m.Start, m.Start.Pos(), "attempt not reset", "a recycled transaction starts with the previous transaction's attempt count")
		}
	}
	// WithNoRetransmit
	if wn := p.Fn("WithNoRetransmit"); wn != nil {
		r.Analysed(wn)
		ok := false
		for _, a := range fieldAccesses(wn, m.MaxAttempts) {
			if st, isS := a.Instr.(*ssa.Store); isS && a.Kind == "store" {
				if c, isC := constInt(st.Val); isC && c == 0 {
					ok = true
				}
			}
		}
		ct.Instance("WithNoRetransmit|maxAttempts=0", true, nil)
		if !ok {
			ct.Violation(wn, wn.Pos(), "maxAttempts not zero", "with retransmission disabled the request must be written exactly once")
		}
	} else {
		ct.Fail("WithNoRetransmit", "not found")
	}
	ct.Done()

	// ---- rto
	rt := r.Rule("C11.rto", "the client's RTO is read only in Start (atomically) and copied into the transaction; deadlines are computed from the transaction's own rto and attempt as (attempt+1)*rto", 3)
	for _, s := range m.soft {
		rt.Fail(s, "the transaction no longer carries the RTO it was started with (or its deadline function is gone): retransmission deadlines cannot be independent of later SetRTO calls")
	}
	if len(m.soft) == 0 {
		cbClosure := p.CG().Closure([]*ssa.Function{m.Callback}, func(f *ssa.Function) bool { return p.isLibFn(f) && f != m.Start })
		for _, fn := range cbClosure {
			for _, a := range fieldAccesses(fn, m.RTO) {
				rt.Instance(fnName(fn)+"|rto access", true, nil)
				rt.Violation(fn, instrPos(a.Instr), "client RTO read on the retransmission path", "retransmission deadlines of an in-flight transaction follow later SetRTO calls instead of the RTO it was started with")
			}
		}
		// Start copies atomic load of c.rto into t.rto
		ok := false
		for _, a := range fieldAccesses(m.Start, m.TxRTO) {
			if st, isS := a.Instr.(*ssa.Store); isS && a.Kind == "store" {
				v := st.Val
				for i := 0; i < 3; i++ {
					if cv, isCv := v.(*ssa.Convert); isCv {
						v = cv.X
					} else if ct2, isCt := v.(*ssa.ChangeType); isCt {
						v = ct2.X
					}
				}
				if c, isC := v.(*ssa.Call); isC {
					if n, isAt := atomicOpOnField(c, m.RTO); isAt && n == "LoadInt64" {
						ok = true
					}
				}
			}
		}
		rt.Instance("Start|t.rto = atomic load of c.rto", true, nil)
		if !ok {
			rt.Violation(m.Start, m.Start.Pos(), "transaction rto", "Start does not copy the atomically loaded client RTO into the transaction")
		}
		// SetRTO stores atomically
		okSet := false
		eachInstr(m.SetRTO, func(b *ssa.BasicBlock, i int, in ssa.Instruction) {
			if n, isAt := atomicOpOnField(in, m.RTO); isAt && n == "StoreInt64" {
				okSet = true
			}
		})
		// ... of the value it was given
		eachInstr(m.SetRTO, func(b *ssa.BasicBlock, i int, in ssa.Instruction) {
			if n, isAt := atomicOpOnField(in, m.RTO); isAt && n == "StoreInt64" {
				args := callArgs(in)
				given := false
				if len(args) == 2 {
					v := stripConvs(args[1])
					for _, pa := range m.SetRTO.Params[1:] {
						if v == ssa.Value(pa) {
							given = true
						}
					}
				}
				if !given {
					rt.Violation(m.SetRTO, instrPos(in), "SetRTO does not store its argument", "the RTO of transactions started later is not the one the caller set")
				}
			}
		})
		rt.Instance("SetRTO|atomic store", true, nil)
		if !okSet {
			rt.Violation(m.SetRTO, m.SetRTO.Pos(), "SetRTO", "SetRTO must store the RTO atomically (Start loads it concurrently)")
		}
		for _, a := range fieldAccesses(m.SetRTO, m.RTO) {
			if a.Kind == "store" {
				rt.Violation(m.SetRTO, instrPos(a.Instr), "plain store to rto", "data race with Start's atomic load")
			}
		}
		// formula: every deadline handed to the agent's Start is <time of this transmission> + (attempt+1)*rto
		// of the transaction, computed directly or through a helper that returns param.Add(formula)
		isNow := func(v ssa.Value) bool {
			v = deref(stripConvs(v))
			if c, ok := v.(*ssa.Call); ok && c.Call.IsInvoke() && c.Call.Method.Name() == "Now" {
				return true
			}
			if ld, ok := v.(*ssa.UnOp); ok && ld.Op == token.MUL {
				if _, f := addrField(ld.X); f == m.TxStart && f != nil {
					if st := reachingFieldStore(p, ld); st != nil {
						if c, ok := deref(stripConvs(st.Val)).(*ssa.Call); ok && c.Call.IsInvoke() && c.Call.Method.Name() == "Now" {
							return true
						}
					}
				}
			}
			return false
		}
		deadlineOK := func(v ssa.Value) (bool, string) {
			c, ok := deref(v).(*ssa.Call)
			if !ok {
				return false, exprDepth(v, 0)
			}
			if isMethodCall(c, "time", "Time", "Add") && len(c.Call.Args) == 2 {
				okf, d := isAttemptFormula(c.Call.Args[1], m.TxAttempt, m.TxRTO)
				if okf && isNow(c.Call.Args[0]) {
					return true, "now + " + d
				}
				return false, exprDepth(c.Call.Args[0], 0) + " + " + d
			}
			if g := c.Call.StaticCallee(); g != nil && p.isLibFn(g) && g.Blocks != nil && g.Signature.Results().Len() == 1 {
				r.Analysed(g)
				all := true
				desc := ""
				rets := returnsOf(g)
				for _, ret := range rets {
					ac, ok := deref(ret.Results[0]).(*ssa.Call)
					if !ok || !isMethodCall(ac, "time", "Time", "Add") || len(ac.Call.Args) != 2 {
						all = false
						continue
					}
					okf, d := isAttemptFormula(ac.Call.Args[1], m.TxAttempt, m.TxRTO)
					desc = d
					pa, isP := ac.Call.Args[0].(*ssa.Parameter)
					if !okf || !isP {
						all = false
						desc = exprDepth(ac.Call.Args[0], 0) + " + " + d
						continue
					}
					pi := paramIndex(g, pa)
					if pi < 0 || pi >= len(c.Call.Args) || !isNow(c.Call.Args[pi]) {
						all = false
						desc = "base time " + exprDepth(c.Call.Args[pi], 0) + " + " + d
					}
				}
				if all && len(rets) > 0 {
					return true, "now + " + desc
				}
				return false, desc
			}
			return false, exprDepth(v, 0)
		}
		nSites := 0
		for _, fn := range p.LibFuncs() {
			eachInstr(fn, func(b *ssa.BasicBlock, i int, in ssa.Instruction) {
				if !ifaceCallOnField(in, m.Agent, "Start") {
					return
				}
				cc := in.(ssa.CallInstruction).Common()
				if len(cc.Args) != 2 {
					return
				}
				nSites++
				okd, desc := deadlineOK(cc.Args[1])
				rt.Instance(fnName(fn)+"|deadline formula", true, map[string]string{"fn": fnName(fn), "formula": desc})
				if !okd {
					rt.Violation(fn, instrPos(in), "deadline formula "+desc, "the deadline handed to the agent must be the time of this transmission + (attempt+1)*rto with the transaction's own attempt and rto")
				}
			})
		}
		if nSites < 2 {
			rt.Violation(m.Start, m.Start.Pos(), "deadline sites", fmt.Sprintf("found %d agent Start sites, expected the initial transmission and the retransmission", nSites))
		}
	}
	rt.Done()

	// ---- deadlines and collection times are read from the same clock
	// ---- a default never replaces a configured RTO
	rd := r.Rule("C11.rtodefault", "a constant is stored into the client's RTO only on the edge on which the RTO is still zero (NewClient's and WithNoRetransmit's defaults): the RTO the caller configured with WithRTO/SetRTO is the r of the schedule, never silently replaced", 1)
	{
		n := 0
		for _, fn := range p.LibFuncs() {
			if fn.Blocks == nil {
				continue
			}
			for _, a := range fieldAccesses(fn, m.RTO) {
				st, ok := a.Instr.(*ssa.Store)
				if !ok || a.Kind != "store" {
					continue
				}
				isConstVal := func(v ssa.Value) bool {
					_, ok := constInt(stripConvs(v))
					return ok
				}
				if !isConstVal(st.Val) {
					continue
				}
				if _, fresh := a.Addr.X.(*ssa.Alloc); fresh {
					continue // the initial value of a client under construction, before any option has run
				}
				n++
				r.Analysed(fn)
				guarded := false
				for _, ec := range allEntryConds(st.Block()) {
					cond, val := ec.Cond, ec.Val
					for {
						u, isU := cond.(*ssa.UnOp)
						if !isU || u.Op != token.NOT {
							break
						}
						cond, val = u.X, !val
					}
					bo, isB := cond.(*ssa.BinOp)
					if !isB || (bo.Op != token.EQL && bo.Op != token.NEQ) {
						continue
					}
					z, isZ := constInt(bo.Y)
					if !isZ || z != 0 || !valueIsLoadOfField(stripConvs(bo.X), m.RTO) {
						continue
					}
					if (bo.Op == token.EQL) == val {
						guarded = true
					}
				}
				rd.Instance(fnName(fn)+"|default RTO", true, map[string]interface{}{"fn": fnName(fn), "guarded_by_rto_zero": guarded})
				if !guarded {
					rd.Violation(fn, instrPos(st), "default RTO stored unconditionally", "a constant RTO is stored although an RTO may already be configured: the request is retransmitted (and timed out) on another schedule than the configured r")
				}
			}
		}
		if n == 0 {
			rd.Fail("default RTO", "no default store of the client RTO found")
		}
	}
	rd.Done()

	ck := r.Rule("C11.clock", "the built-in collector hands its callback the reading of a Clock (Now()), and that Clock is the client's own (NewClient passes client.clock to it): deadlines (computed from the client's clock) and collection times are on one time line", 2)
	{
		tc := p.Named("tickerCollector")
		var startFn *ssa.Function
		if tc != nil {
			startFn = p.MethodOf(tc, "Start")
		}
		if tc == nil || startFn == nil || len(startFn.Params) < 3 {
			ck.Fail("tickerCollector.Start", "built-in collector not found")
		} else {
			r.Analysed(startFn)
			var clockF *types.Var
			nCalls := 0
			fns := append([]*ssa.Function{startFn}, startFn.AnonFuncs...)
			for _, g := range fns {
				eachInstr(g, func(b *ssa.BasicBlock, i int, in ssa.Instruction) {
					c, ok := in.(*ssa.Call)
					if !ok || c.Call.IsInvoke() || len(c.Call.Args) != 1 {
						return
					}
					// the callback: a call of a function value taking the time (the parameter f itself, a
					// free variable bound to it, or the parameter of a goroutine literal it was handed to)
					isCB := false
					if c.Call.StaticCallee() == nil {
						if sig, isSig := c.Call.Value.Type().Underlying().(*types.Signature); isSig && sig.Params().Len() == 1 && isNamedType(sig.Params().At(0).Type(), "time", "Time") {
							isCB = true
						}
					}
					if !isCB {
						return
					}
					nCalls++
					arg := deref(c.Call.Args[0])
					okArg := false
					if nc, isC := arg.(*ssa.Call); isC && nc.Call.IsInvoke() && nc.Call.Method.Name() == "Now" {
						if _, f := loadedField(nc.Call.Value); f != nil && isNamedType(f.Type(), modulePath, "Clock") {
							clockF = f
							okArg = true
						}
					}
					ck.Instance("collector tick", true, map[string]string{"callback_argument": exprDepth(arg, 0)})
					if !okArg {
						ck.Violation(g, instrPos(c), "collector passes "+exprDepth(arg, 0), "the collection time is not read from the collector's Clock: with a client Clock other than the wall clock the deadlines and the collection times are on different time lines (timeouts fire early or never)")
					}
				})
			}
			if nCalls == 0 {
				ck.Violation(startFn, startFn.Pos(), "collector never calls its callback", "undecided")
			}
			// NewClient hands its own clock to the built-in collector
			if clockF != nil && m.NewClient != nil && m.Clock != nil {
				okPass := false
				eachInstr(m.NewClient, func(b *ssa.BasicBlock, i int, in ssa.Instruction) {
					if s, ok := in.(*ssa.Store); ok {
						if fa, isFA := s.Addr.(*ssa.FieldAddr); isFA && fieldOfAddr(fa) == clockF && valueIsLoadOfField(deref(s.Val), m.Clock) {
							okPass = true
						}
					}
				})
				ck.Instance("NewClient passes its clock", true, nil)
				if !okPass {
					ck.Violation(m.NewClient, m.NewClient.Pos(), "collector clock", "the built-in collector is not given the client's Clock")
				}
			}
		}
	}
	ck.Done()

	// ---- "repeated only once the clock has passed the deadline": the agent's selection predicate is strict
	r.Borrow("C13", map[string]string{"C13.collect": "C11.strict"})
	// a transaction object is pooled once and only by its owner: a shared object loses or duplicates retransmissions (shared with C12)
	r.Borrow("C12", map[string]string{"C12.pool": "C11.pool"})

	// ---- nothing more is written once a transaction ended: shared with C10.reenter
	re := r.Rule("C11.reenter", "the agent callback calls a handler-invoking agent method only while the transaction is not registered in the client table (otherwise the nested callback retransmits a transaction that is being ended: more than n+1 writes)", 1)
	checkReenter(r, re, m, newKeyer())
	re.Done()
}

func containsErrorField(v ssa.Value) bool {
	_, f := loadedField(v)
	if f != nil && f.Name() == "Error" {
		return true
	}
	if ld, ok := v.(*ssa.UnOp); ok && ld.Op == token.MUL {
		if fa, ok := ld.X.(*ssa.FieldAddr); ok {
			if fv := fieldOfAddr(fa); fv != nil && fv.Name() == "Error" {
				return true
			}
		}
	}
	return false
}

// aliasesField: v shares storage with a load of field fv.
func aliasesField(v ssa.Value, fv *types.Var, depth int) bool {
	if depth > 8 || v == nil {
		return false
	}
	if valueIsLoadOfField(v, fv) {
		return true
	}
	switch x := v.(type) {
	case *ssa.Slice:
		return aliasesField(x.X, fv, depth+1)
	case *ssa.Phi:
		for _, e := range x.Edges {
			if aliasesField(e, fv, depth+1) {
				return true
			}
		}
	case *ssa.Call:
		if isBuiltinCall(x, "append") && len(x.Call.Args) > 0 {
			return aliasesField(x.Call.Args[0], fv, depth+1)
		}
	case *ssa.ChangeType:
		return aliasesField(x.X, fv, depth+1)
	}
	return false
}

// copyInto: v is dst[:copy(dst, src)] style value.
func copyInto(v ssa.Value) (ssa.Value, bool) {
	sl, ok := v.(*ssa.Slice)
	if !ok || sl.High == nil {
		return nil, false
	}
	if c, ok := sl.High.(*ssa.Call); ok && isBuiltinCall(c, "copy") {
		return c.Call.Args[0], true
	}
	return nil, false
}
