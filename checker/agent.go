package main

import (
	"fmt"
	"go/token"
	"go/types"
	"strings"

	"golang.org/x/tools/go/ssa"
)

// agentModel resolves the roles of the Agent type from the code (by name first,
// then by unique field type, so that unexported renames do not matter).
type agentModel struct {
	T         *types.Named
	Mux       *types.Var
	Tx        *types.Var
	Closed    *types.Var
	Handler   *types.Var
	Methods   []*ssa.Function
	ErrClosed *ssa.Global
}

func isNamedType(t types.Type, pkg, name string) bool {
	n, ok := t.(*types.Named)
	if !ok || n.Obj().Pkg() == nil {
		return false
	}
	return n.Obj().Pkg().Path() == pkg && n.Obj().Name() == name
}

func isMutexType(t types.Type) bool {
	return isNamedType(t, "sync", "Mutex") || isNamedType(t, "sync", "RWMutex")
}

func isMapType(t types.Type) bool { _, ok := t.Underlying().(*types.Map); return ok }
func isBoolType(t types.Type) bool {
	b, ok := t.Underlying().(*types.Basic)
	return ok && b.Kind() == types.Bool
}
func isFuncType(t types.Type) bool { _, ok := t.Underlying().(*types.Signature); return ok }

func resolveAgent(p *Prog) (*agentModel, []string) {
	var missing []string
	m := &agentModel{T: p.Named("Agent")}
	if m.T == nil {
		return nil, []string{"type Agent"}
	}
	m.Mux = RoleField(m.T, "mux", isMutexType)
	m.Tx = RoleField(m.T, "transactions", isMapType)
	m.Closed = RoleField(m.T, "closed", isBoolType)
	m.Handler = RoleField(m.T, "handler", isFuncType)
	for n, v := range map[string]*types.Var{"Agent mutex field": m.Mux, "Agent transaction table field": m.Tx, "Agent closed flag field": m.Closed, "Agent handler field": m.Handler} {
		if v == nil {
			missing = append(missing, n)
		}
	}
	for _, f := range p.LibFuncs() {
		if f.Signature.Recv() == nil || f.Parent() != nil {
			continue
		}
		rt := f.Signature.Recv().Type()
		if pt, ok := rt.(*types.Pointer); ok {
			rt = pt.Elem()
		}
		if rt == types.Type(m.T) && f.Blocks != nil {
			m.Methods = append(m.Methods, f)
		}
	}
	if g, ok := p.Stun.Members["ErrAgentClosed"].(*ssa.Global); ok {
		m.ErrClosed = g
	} else {
		missing = append(missing, "ErrAgentClosed")
	}
	return m, missing
}

func (m *agentModel) isShared(fv *types.Var) bool {
	return fv != nil && (fv == m.Tx || fv == m.Closed || fv == m.Handler)
}

// sharedAccess is an access to a mutex-protected field, including uses of a loaded map value.
type sharedAccess struct {
	In    ssa.Instruction
	Base  ssa.Value // the *T the field belongs to
	Field *types.Var
	Kind  string // load, store, addr, mapread, mapwrite, mapdelete, maprange, maplen
}

// sharedAccesses finds accesses to the given fields in fn, following loaded map values to their uses.
func sharedAccesses(fn *ssa.Function, fields map[*types.Var]bool) []sharedAccess {
	var out []sharedAccess
	eachInstr(fn, func(b *ssa.BasicBlock, i int, in ssa.Instruction) {
		fa, ok := in.(*ssa.FieldAddr)
		if !ok {
			return
		}
		fv := fieldOfAddr(fa)
		if !fields[fv] {
			return
		}
		refs := fa.Referrers()
		if refs == nil {
			return
		}
		for _, u := range *refs {
			switch y := u.(type) {
			case *ssa.Store:
				if y.Addr == fa {
					out = append(out, sharedAccess{y, fa.X, fv, "store"})
				} else {
					out = append(out, sharedAccess{y, fa.X, fv, "addr"})
				}
			case *ssa.UnOp:
				if y.Op != token.MUL {
					out = append(out, sharedAccess{y, fa.X, fv, "addr"})
					continue
				}
				out = append(out, sharedAccess{y, fa.X, fv, "load"})
				if isMapType(fv.Type()) {
					out = append(out, mapUses(y, fa.X, fv)...)
				}
				if _, isSl := fv.Type().Underlying().(*types.Slice); isSl {
					out = append(out, sliceUses(y, fa.X, fv, map[ssa.Value]bool{})...)
				}
			case *ssa.DebugRef:
			default:
				out = append(out, sharedAccess{u, fa.X, fv, "addr"})
			}
		}
	})
	return out
}

// sliceUses follows a slice loaded from a protected field through reslices, phis, conversions and
// appends onto it, and reports every access to its backing array (element loads/stores, append, copy,
// escape into a call): the header is a private copy, the backing array is shared state.
func sliceUses(sv ssa.Value, base ssa.Value, fv *types.Var, seen map[ssa.Value]bool) []sharedAccess {
	if seen[sv] {
		return nil
	}
	seen[sv] = true
	var out []sharedAccess
	refs := sv.Referrers()
	if refs == nil {
		return nil
	}
	for _, u := range *refs {
		switch y := u.(type) {
		case *ssa.Slice:
			if y.X == sv {
				out = append(out, sliceUses(y, base, fv, seen)...)
			}
		case *ssa.Phi:
			out = append(out, sliceUses(y, base, fv, seen)...)
		case *ssa.ChangeType:
			out = append(out, sliceUses(y, base, fv, seen)...)
		case *ssa.Convert:
			out = append(out, sliceUses(y, base, fv, seen)...)
		case *ssa.IndexAddr:
			if y.X != sv {
				continue
			}
			if rr := y.Referrers(); rr != nil {
				for _, n := range *rr {
					switch z := n.(type) {
					case *ssa.UnOp:
						if z.Op == token.MUL {
							out = append(out, sharedAccess{z, base, fv, "elemread"})
						}
					case *ssa.Store:
						if z.Addr == ssa.Value(y) {
							out = append(out, sharedAccess{z, base, fv, "elemwrite"})
						} else {
							out = append(out, sharedAccess{z, base, fv, "addr"})
						}
					case *ssa.DebugRef:
					default:
						out = append(out, sharedAccess{n, base, fv, "addr"})
					}
				}
			}
		case *ssa.Call:
			if b, ok := y.Call.Value.(*ssa.Builtin); ok {
				switch b.Name() {
				case "len", "cap":
					// header only
				case "append":
					if y.Call.Args[0] == sv {
						out = append(out, sharedAccess{y, base, fv, "elemwrite"})
						out = append(out, sliceUses(y, base, fv, seen)...)
					} else {
						out = append(out, sharedAccess{y, base, fv, "elemread"})
					}
				case "copy":
					if y.Call.Args[0] == sv {
						out = append(out, sharedAccess{y, base, fv, "elemwrite"})
					} else {
						out = append(out, sharedAccess{y, base, fv, "elemread"})
					}
				default:
					out = append(out, sharedAccess{y, base, fv, "addr"})
				}
			} else {
				out = append(out, sharedAccess{y, base, fv, "addr"})
			}
		case *ssa.Store:
			// stored somewhere: into the same object's field is a field store (counted there); elsewhere it escapes
			if fa, ok := y.Addr.(*ssa.FieldAddr); ok && fa.X == base {
				continue
			}
			out = append(out, sharedAccess{y, base, fv, "addr"})
		case *ssa.BinOp, *ssa.DebugRef:
		default:
			out = append(out, sharedAccess{u, base, fv, "addr"})
		}
	}
	return out
}

func mapUses(mv ssa.Value, base ssa.Value, fv *types.Var) []sharedAccess {
	var out []sharedAccess
	refs := mv.Referrers()
	if refs == nil {
		return nil
	}
	for _, u := range *refs {
		switch y := u.(type) {
		case *ssa.Lookup:
			out = append(out, sharedAccess{y, base, fv, "mapread"})
		case *ssa.MapUpdate:
			out = append(out, sharedAccess{y, base, fv, "mapwrite"})
		case *ssa.Range:
			out = append(out, sharedAccess{y, base, fv, "maprange"})
			if rr := y.Referrers(); rr != nil {
				for _, n := range *rr {
					if nx, ok := n.(*ssa.Next); ok {
						out = append(out, sharedAccess{nx, base, fv, "maprange"})
					}
				}
			}
		case *ssa.Call:
			if b, ok := y.Call.Value.(*ssa.Builtin); ok {
				switch b.Name() {
				case "delete":
					out = append(out, sharedAccess{y, base, fv, "mapdelete"})
				case "len":
					out = append(out, sharedAccess{y, base, fv, "maplen"})
				default:
					out = append(out, sharedAccess{y, base, fv, "addr"})
				}
			} else {
				out = append(out, sharedAccess{y, base, fv, "addr"})
			}
		case *ssa.BinOp: // comparison with nil
			out = append(out, sharedAccess{y, base, fv, "load"})
		case *ssa.DebugRef:
		default:
			out = append(out, sharedAccess{u, base, fv, "addr"})
		}
	}
	return out
}

func (a sharedAccess) isWrite() bool {
	return a.Kind == "store" || a.Kind == "mapwrite" || a.Kind == "mapdelete" || a.Kind == "addr" || a.Kind == "elemwrite"
}

// handlerCalls: dynamic calls in fn whose callee value is a load of field fv (directly or via a local copy).
func handlerCalls(fn *ssa.Function, fv *types.Var) []*ssa.Call {
	var out []*ssa.Call
	eachInstr(fn, func(b *ssa.BasicBlock, i int, in ssa.Instruction) {
		c, ok := in.(*ssa.Call)
		if !ok || c.Call.IsInvoke() || c.Call.StaticCallee() != nil {
			return
		}
		if _, isB := c.Call.Value.(*ssa.Builtin); isB {
			return
		}
		if _, f := loadedField(canonPhi(c.Call.Value)); f == fv {
			out = append(out, c)
			return
		}
		// h declared first and loaded under a condition (var h Handler; if open { h = a.handler }): every
		// non-nil source of the merged value is a load of the field
		if ph, isPhi := c.Call.Value.(*ssa.Phi); isPhi {
			n, all := 0, true
			seen := map[*ssa.Phi]bool{}
			var walk func(p *ssa.Phi)
			walk = func(p *ssa.Phi) {
				if seen[p] {
					return
				}
				seen[p] = true
				for _, e := range p.Edges {
					if isNilConst(e) {
						continue
					}
					if q, ok := e.(*ssa.Phi); ok {
						walk(q)
						continue
					}
					if _, f := loadedField(e); f == fv {
						n++
					} else {
						all = false
					}
				}
			}
			walk(ph)
			if all && n > 0 {
				out = append(out, c)
			}
		}
	})
	return out
}

func describeAccess(a sharedAccess) string {
	return fmt.Sprintf("%s of %s.%s", a.Kind, exprDepth(a.Base, 0), a.Field.Name())
}

// loadsGlobal: v is a load of package-level variable g.
func loadsGlobal(v ssa.Value, g *ssa.Global) bool {
	u, ok := deref(v).(*ssa.UnOp)
	return ok && u.Op == token.MUL && u.X == ssa.Value(g)
}

func shortInstr(in ssa.Instruction) string {
	s := in.String()
	if v, ok := in.(ssa.Value); ok && v.Name() != "" {
		s = v.Name() + " = " + s
	}
	s = strings.ReplaceAll(s, modulePath+".", "")
	if len(s) > 120 {
		s = s[:120]
	}
	return s
}
