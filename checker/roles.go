package main

// Roles of the reference tree's unexported helpers.
//
// The rules name a handful of unexported helpers of the reference tree (the padding function, the
// attribute-type alias, the pooled-HMAC wrapper, the function that returns a transaction to its
// pool, ...).  A maintainer may rename any of them, or turn a function into a method.  When the
// reference name is absent from the package, the helper is looked for by its role - its signature
// and, where the signature is not telling enough, what its body calls - and, if exactly one
// function fits, that function stands in for the name: the normalisation keeps it a function
// (inline.go) and Prog.Fn resolves the reference name to it.

import (
	"go/ast"
	"go/types"
	"strings"

	"golang.org/x/tools/go/ssa"
)

type helperRole struct {
	name string
	// sig: receiver (if any) and parameters, then results, as type strings relative to the package
	params  []string
	results []string
	calls   string // a selector the body must mention ("" = none), e.g. "AcquireSHA1", "Put"
}

var helperRoles = []helperRole{
	{"compatAttrType", []string{"uint16"}, []string{"AttrType"}, ""},
	{"nearestPaddedValueLength", []string{"int"}, []string{"int"}, ""},
	{"newHMAC", []string{"[]byte|MessageIntegrity", "[]byte", "[]byte"}, []string{"[]byte"}, "AcquireSHA1"},
	{"putClientTransaction", []string{"*clientTransaction"}, nil, "Put"},
	{"checkHMAC", []string{"[]byte", "[]byte"}, []string{"error"}, ""},
	{"checkFingerprint", []string{"uint32", "uint32"}, []string{"error"}, ""},
}

// sigMatches: the function's receiver+parameters and results have the role's types.
func (hr helperRole) sigMatches(sig *types.Signature, pkg *types.Package) bool {
	q := func(p *types.Package) string {
		if p == pkg {
			return ""
		}
		return p.Name()
	}
	var ps []string
	if r := sig.Recv(); r != nil {
		ps = append(ps, types.TypeString(r.Type(), q))
	}
	for i := 0; i < sig.Params().Len(); i++ {
		ps = append(ps, types.TypeString(sig.Params().At(i).Type(), q))
	}
	if len(ps) != len(hr.params) || sig.Results().Len() != len(hr.results) || sig.Variadic() {
		return false
	}
	for i, want := range hr.params {
		ok := false
		for _, alt := range strings.Split(want, "|") {
			if ps[i] == alt {
				ok = true
			}
		}
		if !ok {
			return false
		}
	}
	for i, want := range hr.results {
		if types.TypeString(sig.Results().At(i).Type(), q) != want {
			return false
		}
	}
	return true
}

// roleAliasesOfSource: for the source form (before normalisation): new name (package-relative helper key) ->
// reference name, for every role whose reference name the package does not declare and that exactly one
// unexported function fits.
func roleAliasesOfSource(files []*ast.File, info *types.Info, pkg *types.Package, pkgPath string) map[string]string {
	out := map[string]string{}
	if pkg == nil || pkgPath != modulePath {
		return out
	}
	for _, hr := range helperRoles {
		if pkg.Scope().Lookup(hr.name) != nil {
			continue
		}
		var fits []*types.Func
		for _, f := range files {
			for _, d := range f.Decls {
				fd, ok := d.(*ast.FuncDecl)
				if !ok || fd.Body == nil || ast.IsExported(fd.Name.Name) || fd.Name.Name == "_" {
					continue
				}
				obj, _ := info.Defs[fd.Name].(*types.Func)
				if obj == nil || !hr.sigMatches(obj.Type().(*types.Signature), pkg) {
					continue
				}
				if hr.calls != "" {
					found := false
					ast.Inspect(fd.Body, func(n ast.Node) bool {
						if se, ok := n.(*ast.SelectorExpr); ok && se.Sel.Name == hr.calls {
							found = true
						}
						return true
					})
					if !found {
						continue
					}
				}
				fits = append(fits, obj)
			}
		}
		if len(fits) == 1 {
			out[helperKey(pkgPath, fits[0])] = hr.name
		}
	}
	return out
}

// roleFn: the SSA function standing in for a reference helper name that the package no longer declares.
func (p *Prog) roleFn(name string) *ssa.Function {
	var hr *helperRole
	for i := range helperRoles {
		if helperRoles[i].name == name {
			hr = &helperRoles[i]
		}
	}
	if hr == nil || p.Stun == nil {
		return nil
	}
	var fits []*ssa.Function
	for _, f := range p.LibFuncs() {
		if f.Pkg != p.Stun || f.Parent() != nil || f.Blocks == nil || f.Synthetic != "" {
			continue
		}
		obj, _ := f.Object().(*types.Func)
		if obj == nil || obj.Exported() || obj.Name() == "_" || !hr.sigMatches(f.Signature, p.Stun.Pkg) {
			continue
		}
		if hr.calls != "" {
			found := false
			eachInstr(f, func(b *ssa.BasicBlock, i int, in ssa.Instruction) {
				if ci, ok := in.(ssa.CallInstruction); ok {
					cc := ci.Common()
					if sc := cc.StaticCallee(); sc != nil && sc.Name() == hr.calls {
						found = true
					}
					if cc.IsInvoke() && cc.Method.Name() == hr.calls {
						found = true
					}
				}
			})
			if !found {
				continue
			}
		}
		fits = append(fits, f)
	}
	if len(fits) == 1 {
		roleDisplay[fits[0]] = name
		return fits[0]
	}
	return nil
}

// roleDisplay: functions standing in for a reference helper, with the reference name they are reported under.
var roleDisplay = map[*ssa.Function]string{}
