package main

import (
	"fmt"
	"go/token"
	"go/types"
	"os"
	"sort"
	"strings"

	"golang.org/x/tools/go/packages"
	"golang.org/x/tools/go/ssa"
	"golang.org/x/tools/go/ssa/ssautil"
)

const modulePath = "github.com/pion/stun/v3"

// Config is one build configuration of /repo.
type Config struct {
	Tags   string // "" or "debug"
	GOARCH string // amd64 or 386
}

func (c Config) String() string { return c.GOARCH + "/" + c.Tags }

// Prog is the loaded, type-checked and SSA-built program for one Config.
type Prog struct {
	globalTables map[*ssa.Global]*globalTable
	globWriters  map[*ssa.Global][]ssa.Instruction
	Cfg          Config
	Dir          string
	Fset         *token.FileSet
	Pkgs         []*packages.Package // module packages only
	All          []*packages.Package // every package in the import graph
	SSA          *ssa.Program
	Stun         *ssa.Package
	Hmac         *ssa.Package
	funcs        []*ssa.Function // all module functions (incl. anonymous), deterministic order
	// InlineInfo records the helper normalisation that was applied (nil: nothing to normalise).
	InlineInfo map[string]interface{}
	cg         *CallGraph
}

func loadProg(dir string, cfg Config) (*Prog, error) {
	os.Unsetenv("GOWORK")
	env := append(os.Environ(),
		"GOFLAGS=-mod=mod", "GOPROXY=off", "GOSUMDB=off", "GOTOOLCHAIN=local",
		"GOARCH="+cfg.GOARCH, "GOOS=linux", "CGO_ENABLED=0", "GOWORK=off")
	pc := &packages.Config{
		Mode:  packages.LoadAllSyntax,
		Dir:   dir,
		Env:   env,
		Tests: false,
	}
	if cfg.Tags != "" {
		pc.BuildFlags = []string{"-tags=" + cfg.Tags}
	}
	initial, err := packages.Load(pc, "./...")
	if err != nil {
		return nil, fmt.Errorf("packages.Load: %w", err)
	}
	if len(initial) == 0 {
		return nil, fmt.Errorf("no packages loaded from %s", dir)
	}
	var errs []string
	packages.Visit(initial, nil, func(p *packages.Package) {
		for _, e := range p.Errors {
			errs = append(errs, e.Error())
		}
	})
	if len(errs) > 0 {
		sort.Strings(errs)
		if len(errs) > 8 {
			errs = errs[:8]
		}
		return nil, fmt.Errorf("configuration %s does not type-check: %s", cfg, strings.Join(errs, "; "))
	}
	p := &Prog{Cfg: cfg, Dir: dir}
	// helper normalisation (inline.go): analyse the helper-free normal form when new helpers exist
	if os.Getenv("STUNLINT_NOINLINE") == "" {
		var all0 []*packages.Package
		packages.Visit(initial, nil, func(pk *packages.Package) { all0 = append(all0, pk) })
		ir, ierr := inlineNewHelpers(initial, all0, cfg.GOARCH)
		switch {
		case ierr != nil:
			p.InlineInfo = map[string]interface{}{"abandoned": ierr.Error()}
		case ir != nil:
			if d := os.Getenv("STUNLINT_DUMPOVERLAY"); d != "" {
				for name, src := range ir.Overlay {
					_ = os.WriteFile(d+"/"+strings.ReplaceAll(strings.TrimPrefix(name, dir+"/"), "/", "_"), src, 0o644)
				}
			}
			pc2 := *pc
			pc2.Overlay = ir.Overlay
			initial2, err2 := packages.Load(&pc2, "./...")
			nerr := 0
			if err2 == nil {
				packages.Visit(initial2, nil, func(pk *packages.Package) { nerr += len(pk.Errors) })
			}
			if err2 != nil || nerr > 0 || len(initial2) != len(initial) {
				p.InlineInfo = map[string]interface{}{"abandoned": "normalised program does not load", "skipped": ir.Skipped}
			} else {
				initial = initial2
				p.InlineInfo = map[string]interface{}{"inlined": ir.Notes, "helpers_dropped": ir.Removed, "not_inlined": ir.Skipped}
			}
		}
	}
	p.Fset = initial[0].Fset
	packages.Visit(initial, nil, func(pk *packages.Package) { p.All = append(p.All, pk) })
	for _, pk := range initial {
		if pk.PkgPath == modulePath || strings.HasPrefix(pk.PkgPath, modulePath+"/") {
			p.Pkgs = append(p.Pkgs, pk)
		}
	}
	sort.Slice(p.Pkgs, func(i, j int) bool { return p.Pkgs[i].PkgPath < p.Pkgs[j].PkgPath })
	if len(p.Pkgs) < 4 {
		return nil, fmt.Errorf("only %d module packages loaded (expected the library, internal/hmac, cmd/*, stuntest)", len(p.Pkgs))
	}
	prog, _ := ssautil.AllPackages(initial, ssa.InstantiateGenerics)
	prog.Build()
	p.SSA = prog
	canonicaliseOperands(prog)
	for _, pk := range p.Pkgs {
		sp := prog.Package(pk.Types)
		if sp == nil {
			return nil, fmt.Errorf("no SSA for %s", pk.PkgPath)
		}
		switch pk.PkgPath {
		case modulePath:
			p.Stun = sp
		case modulePath + "/internal/hmac":
			p.Hmac = sp
		}
	}
	if p.Stun == nil || p.Hmac == nil {
		return nil, fmt.Errorf("package stun or internal/hmac missing in %s", cfg)
	}
	p.collectFuncs()
	callerProg = p
	return p, nil
}

func (p *Prog) isModulePkg(pkg *types.Package) bool {
	if pkg == nil {
		return false
	}
	return pkg.Path() == modulePath || strings.HasPrefix(pkg.Path(), modulePath+"/")
}

// isLibPkg: the library proper (package stun and internal/...), not cmd/, e2e/, stuntest/.
func (p *Prog) isLibPkg(pkg *types.Package) bool {
	if pkg == nil {
		return false
	}
	return pkg.Path() == modulePath || strings.HasPrefix(pkg.Path(), modulePath+"/internal/")
}

func (p *Prog) collectFuncs() {
	seen := map[*ssa.Function]bool{}
	var add func(f *ssa.Function)
	add = func(f *ssa.Function) {
		if f == nil || seen[f] {
			return
		}
		seen[f] = true
		p.funcs = append(p.funcs, f)
		for _, a := range f.AnonFuncs {
			add(a)
		}
	}
	for _, pk := range p.Pkgs {
		sp := p.SSA.Package(pk.Types)
		var names []string
		for n := range sp.Members {
			names = append(names, n)
		}
		sort.Strings(names)
		for _, n := range names {
			switch m := sp.Members[n].(type) {
			case *ssa.Function:
				add(m)
			case *ssa.Type:
				for _, t := range []types.Type{m.Type(), types.NewPointer(m.Type())} {
					ms := p.SSA.MethodSets.MethodSet(t)
					for i := 0; i < ms.Len(); i++ {
						f := p.SSA.MethodValue(ms.At(i))
						if f != nil && f.Synthetic == "" && f.Pkg == sp {
							add(f)
						}
					}
				}
			}
		}
	}
}

// Funcs returns every source function of the module (all packages).
func (p *Prog) Funcs() []*ssa.Function { return p.funcs }

// LibFuncs returns the functions of package stun and internal/*.
func (p *Prog) LibFuncs() []*ssa.Function {
	var out []*ssa.Function
	for _, f := range p.funcs {
		if f.Pkg != nil && p.isLibPkg(f.Pkg.Pkg) {
			out = append(out, f)
		}
	}
	return out
}

// Fn returns the package-level function name of package stun (nil if absent).
func (p *Prog) Fn(name string) *ssa.Function {
	if f := p.Stun.Func(name); f != nil {
		return f
	}
	// a reference helper that was renamed (or became a method): resolved by its role
	return p.roleFn(name)
}

// Named returns the named type of package stun.
func (p *Prog) Named(name string) *types.Named {
	return namedIn(p.Stun.Pkg, name)
}

func namedIn(pkg *types.Package, name string) *types.Named {
	o := pkg.Scope().Lookup(name)
	if o == nil {
		return nil
	}
	tn, ok := o.(*types.TypeName)
	if !ok {
		return nil
	}
	n, _ := tn.Type().(*types.Named)
	return n
}

// Meth resolves method name on type typ (value or pointer receiver) of package stun.
func (p *Prog) Meth(typ, name string) *ssa.Function {
	return p.methIn(p.Stun.Pkg, typ, name)
}

func (p *Prog) methIn(pkg *types.Package, typ, name string) *ssa.Function {
	n := namedIn(pkg, typ)
	if n == nil {
		return nil
	}
	return p.MethodOf(n, name)
}

// MethodOf resolves a declared method (value or pointer receiver) of a named type.
func (p *Prog) MethodOf(n *types.Named, name string) *ssa.Function {
	for _, t := range []types.Type{n, types.NewPointer(n)} {
		ms := p.SSA.MethodSets.MethodSet(t)
		for i := 0; i < ms.Len(); i++ {
			sel := ms.At(i)
			if sel.Obj().Name() == name {
				f := p.SSA.MethodValue(sel)
				if f != nil && f.Synthetic == "" {
					return f
				}
				// wrapper for promoted/value method: find the declared function
				if fo, ok := sel.Obj().(*types.Func); ok {
					if df := p.SSA.FuncValue(fo); df != nil {
						return df
					}
				}
			}
		}
	}
	return nil
}

// FieldVar returns the field object `name` of struct type n (nil if absent).
func FieldVar(n *types.Named, name string) *types.Var {
	if n == nil {
		return nil
	}
	st, ok := n.Underlying().(*types.Struct)
	if !ok {
		return nil
	}
	for i := 0; i < st.NumFields(); i++ {
		if st.Field(i).Name() == name {
			return st.Field(i)
		}
	}
	return nil
}

// FieldByType returns the unique field of n whose type satisfies pred.
func FieldByType(n *types.Named, pred func(types.Type) bool) *types.Var {
	if n == nil {
		return nil
	}
	st, ok := n.Underlying().(*types.Struct)
	if !ok {
		return nil
	}
	var found *types.Var
	for i := 0; i < st.NumFields(); i++ {
		if pred(st.Field(i).Type()) {
			if found != nil {
				return nil
			}
			found = st.Field(i)
		}
	}
	return found
}

// RoleField resolves a struct field by name first, then by unique type.
func RoleField(n *types.Named, name string, pred func(types.Type) bool) *types.Var {
	if v := FieldVar(n, name); v != nil && (pred == nil || pred(v.Type())) {
		return v
	}
	if pred != nil {
		return FieldByType(n, pred)
	}
	return nil
}

// Implementers returns the module's named types T (as T or *T, whichever is the
// smallest type whose method set satisfies iface) implementing iface.
func (p *Prog) Implementers(iface *types.Interface) []types.Type {
	var out []types.Type
	for _, pk := range p.Pkgs {
		scope := pk.Types.Scope()
		names := scope.Names()
		for _, nm := range names {
			tn, ok := scope.Lookup(nm).(*types.TypeName)
			if !ok || tn.IsAlias() {
				continue
			}
			n, ok := tn.Type().(*types.Named)
			if !ok || types.IsInterface(n) {
				continue
			}
			if types.Implements(n, iface) {
				out = append(out, n)
			} else if types.Implements(types.NewPointer(n), iface) {
				out = append(out, types.NewPointer(n))
			}
		}
	}
	return out
}

func (p *Prog) pos(pos token.Pos) string {
	if !pos.IsValid() {
		return "-"
	}
	ps := p.Fset.Position(pos)
	f := ps.Filename
	if strings.HasPrefix(f, p.Dir+"/") {
		f = f[len(p.Dir)+1:]
	}
	return fmt.Sprintf("%s:%d:%d", f, ps.Line, ps.Column)
}

// fnName gives a stable, readable function name.
func fnName(f *ssa.Function) string {
	if f == nil {
		return "<nil>"
	}
	if ref, ok := roleDisplay[f]; ok {
		return ref // a renamed reference helper is reported (and keyed) under its reference name
	}
	s := f.String()
	s = strings.ReplaceAll(s, modulePath+"/internal/", "")
	s = strings.ReplaceAll(s, modulePath+"/", "")
	s = strings.ReplaceAll(s, modulePath+".", "")
	s = strings.ReplaceAll(s, modulePath, "stun")
	return s
}

// instrPos finds the best source position for an instruction.
func instrPos(in ssa.Instruction) token.Pos {
	if in.Pos().IsValid() {
		return in.Pos()
	}
	if v, ok := in.(ssa.Value); ok {
		_ = v
	}
	// operands
	var ops []*ssa.Value
	ops = in.Operands(ops)
	for _, o := range ops {
		if o != nil && *o != nil && (*o).Pos().IsValid() {
			return (*o).Pos()
		}
	}
	if in.Parent() != nil {
		return in.Parent().Pos()
	}
	return token.NoPos
}

// canonicaliseOperands puts the constant operand of a comparison, and of a commutative integer operation,
// on the right - in place, in every function of the module: `4 >= len(v)` and `len(v) <= 4`, `1 == f(x)` and
// `f(x) == 1`, `0x8000 & t` and `t & 0x8000` are then one shape for every rule. Only the operand order (and
// for ordered comparisons the mirrored operator) changes; both operands keep this instruction among their
// referrers, and the value computed is the same.
func canonicaliseOperands(prog *ssa.Program) {
	for fn := range ssautil.AllFunctions(prog) {
		if fn.Blocks == nil || fn.Pkg == nil || !strings.HasPrefix(fn.Pkg.Pkg.Path(), modulePath) {
			continue
		}
		for _, b := range fn.Blocks {
			for _, in := range b.Instrs {
				bo, ok := in.(*ssa.BinOp)
				if !ok {
					continue
				}
				if _, isC := bo.X.(*ssa.Const); !isC {
					continue
				}
				if _, isC := bo.Y.(*ssa.Const); isC {
					continue
				}
				switch bo.Op {
				case token.EQL, token.NEQ:
				case token.LSS:
					bo.Op = token.GTR
				case token.LEQ:
					bo.Op = token.GEQ
				case token.GTR:
					bo.Op = token.LSS
				case token.GEQ:
					bo.Op = token.LEQ
				case token.ADD, token.MUL, token.AND, token.OR, token.XOR:
					bt, isB := bo.X.Type().Underlying().(*types.Basic)
					if !isB || bt.Info()&types.IsInteger == 0 {
						continue
					}
				default:
					continue
				}
				bo.X, bo.Y = bo.Y, bo.X
			}
		}
	}
}
