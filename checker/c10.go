package main

import (
	"fmt"
	"go/token"
	"go/types"
	"strings"

	"golang.org/x/tools/go/ssa"
)

func init() { register("C10", "other", runC10) }

func clientAnchors(r *Run, id string, m *clientModel) bool {
	an := r.Rule(id+".anchors", "Client, clientTransaction and their role functions resolve (by name, then by type/shape)", 10)
	for _, s := range m.missing {
		an.Fail(s, "anchor not found: the client's transaction machinery cannot be located")
	}
	for _, f := range []*ssa.Function{m.Start, m.Do, m.Close, m.Callback, m.Reg, m.Del, m.Handle, m.Reader, m.Acquire, m.Put, m.NextTimeout} {
		if f != nil {
			an.Instance(fnName(f), false, nil)
			r.Analysed(f)
		}
	}
	an.Done()
	return len(m.missing) == 0
}

func runC10(r *Run) {
	p := r.P
	r.Res.Explanation = "structural premises of exactly-once completion decided on every path of client.go: the handler is only invoked under the atomic once-guard, every pooled transaction is fully re-initialised before publication, every removal from the client table is followed by exactly one completion or by a complete re-registration, completion never happens while the entry is registered, Start rolls back its registration on every error return, the agent callback never returns before the table lookup, Do waits iff Start succeeded and its wait loop/handshake is ordered under the condition lock"
	r.NotDecided("liveness under the Go scheduler", "exactly-once as a trace property of concurrent executions (only the per-path premises)", "the window in which Start returns a write error after Close already completed the transaction")
	r.Assume("sync/atomic.AddInt32 is atomic", "sync.Cond semantics", "agent side: C13.terminal (one terminal event per registered transaction)")
	m := resolveClient(p)
	if !clientAnchors(r, "C10", m) {
		return
	}
	k := newKeyer()
	k.fwdLocal = true
	k.pureFieldLoads = true

	// ---- once
	once := r.Rule("C10.once", "the transaction's handler field is called only in one function and only under atomic.AddInt32(&calls,1) == 1; the counter is reset only on an object fresh from the pool before publication", 2)
	nCalls := 0
	for _, fn := range p.LibFuncs() {
		eachInstr(fn, func(b *ssa.BasicBlock, i int, in ssa.Instruction) {
			c, ok := in.(*ssa.Call)
			if !ok || c.Call.IsInvoke() || c.Call.StaticCallee() != nil {
				return
			}
			if !valueIsLoadOfField(c.Call.Value, m.TxH) {
				return
			}
			nCalls++
			once.Instance(fnName(fn)+"|call h", true, map[string]string{"fn": fnName(fn), "call": "transaction handler"})
			// dominated by the true edge of AddInt32(&x.calls, 1) == 1
			ok2 := false
			for _, ci := range ifsOn(fn, func(v ssa.Value) bool {
				bo, ok := v.(*ssa.BinOp)
				if !ok || bo.Op != token.EQL {
					return false
				}
				ac, ok := bo.X.(*ssa.Call)
				one, isOne := constInt(bo.Y)
				if !ok {
					ac, ok = bo.Y.(*ssa.Call)
					one, isOne = constInt(bo.X)
				}
				if !ok || !isOne || one != 1 {
					return false
				}
				name, isAt := atomicOpOnField(ac, m.TxCalls)
				if !isAt || name != "AddInt32" {
					return false
				}
				d, isC := constInt(ac.Call.Args[1])
				return isC && d == 1
			}) {
				if len(ci.OnTrue.Preds) == 1 && blockDominates(ci.OnTrue, b) {
					ok2 = true
				}
			}
			if !ok2 {
				once.Violation(fn, instrPos(c), "unguarded handler call", "the user's handler is invoked without winning atomic.AddInt32(&calls, 1) == 1: two completions of the same transaction both invoke it")
			}
			if fn != m.Handle {
				once.Violation(fn, instrPos(c), "handler call outside handle", "the handler field is invoked outside the once-guarded function")
			}
		})
		// stores to calls
		for _, a := range fieldAccesses(fn, m.TxCalls) {
			if a.Kind != "store" {
				continue
			}
			once.Instance(fnName(fn)+"|store calls", true, map[string]string{"fn": fnName(fn), "store": "calls counter"})
			base := a.Addr.X
			fresh := false
			if m.isAcquire(base) {
				fresh = true
			}
			if _, ok := base.(*ssa.Alloc); ok {
				fresh = true // constructor literal
			}
			if !fresh {
				once.Violation(fn, instrPos(a.Instr), "counter reset on a live object", "the once-guard counter is reset on an object that is not fresh from the pool: a second completion of the same object passes the guard again")
				continue
			}
			// before publication
			eachInstr(fn, func(b *ssa.BasicBlock, i int, in ssa.Instruction) {
				if callsFn(in, m.Reg) && !instrDominates(a.Instr, in) {
					once.Violation(fn, instrPos(a.Instr), "counter reset after publication", "the counter is reset after the transaction became visible in the table")
				}
			})
		}
	}
	if nCalls == 0 {
		once.Fail("handler call", "no call of the transaction handler found")
	}
	once.Done()

	// ---- init
	ini := r.Rule("C10.init", "after acquiring a pooled transaction every field is assigned before it is published in the table", 7)
	{
		fn := m.Start
		var acq ssa.Value
		var reg ssa.Instruction
		eachInstr(fn, func(b *ssa.BasicBlock, i int, in ssa.Instruction) {
			if v, ok := in.(ssa.Value); ok && m.isAcquire(v) {
				acq = v
			}
			if callsFn(in, m.Reg) {
				reg = in
			}
		})
		if acq == nil || reg == nil {
			ini.Fail("acquire/register in Start", "Start does not acquire a pooled transaction and register it")
		} else {
			st := m.TX.Underlying().(*types.Struct)
			for i := 0; i < st.NumFields(); i++ {
				fv := st.Field(i)
				ok := false
				for _, a := range fieldAccesses(fn, fv) {
					if a.Kind == "store" && a.Addr.X == acq && instrDominates(a.Instr, reg) {
						ok = true
					}
				}
				ini.Instance("field "+fv.Name(), true, map[string]string{"field": fv.Name(), "assigned_before_publication": fmt.Sprint(ok)})
				if !ok {
					ini.Violation(fn, instrPos(reg), "field "+fv.Name()+" not re-initialised", "a recycled transaction is published with the previous transaction's "+fv.Name())
				}
			}
		}
	}
	ini.Done()

	// ---- removal / completion in the agent callback
	rem := r.Rule("C10.removal", "every path of the agent callback from the removal of a found transaction to a return either completes it exactly once (handle) while it is not registered, or re-registers it completely (table, agent, write all succeeded)", 1)
	checkCallbackPaths(r, rem, m, k)
	rem.Done()

	// ---- re-entrancy: the agent's Stop/Collect/Close/Process call the handler synchronously
	re := r.Rule("C10.reenter", "the agent callback calls a handler-invoking agent method (one whose *Agent implementation reaches a call of the agent's handler) only while the transaction is not registered in the client table: the nested callback must not find it", 1)
	checkReenter(r, re, m, k)
	re.Done()

	// ---- the agent side of "a closed error when the client is closed" (agent.go is one of C10's anchors)
	r.Borrow("C13", map[string]string{"C13.close": "C10.agentclose", "C13.terminal": "C10.agentterminal"})

	// ---- rollback in Start
	rb := r.Rule("C10.rollback", "in Start every path from a successful registration to a return of a non-nil error passes the client delete (so a failed Start never leaves a live handler) and, once the agent was armed, the delete confirmed that the entry was still registered (otherwise the transaction was completed meanwhile and Start must not fail); Start removes/stops only what this very call registered", 1)
	{
		fn := m.Start
		var reg *ssa.Call
		eachInstr(fn, func(b *ssa.BasicBlock, i int, in ssa.Instruction) {
			if c, ok := in.(*ssa.Call); ok && callsFn(c, m.Reg) {
				reg = c
			}
		})
		if reg == nil {
			rb.Fail("registration in Start", "not found")
		} else {
			idx := errorResultIndex(fn)
			var dels, agentStarts []*ssa.Call
			eachInstr(fn, func(b *ssa.BasicBlock, i int, in ssa.Instruction) {
				if ci, ok := in.(*ssa.Call); ok {
					if callsFn(ci, m.Del) {
						dels = append(dels, ci)
					}
					if ci.Call.IsInvoke() && ci.Call.Method.Name() == "Start" {
						agentStarts = append(agentStarts, ci)
					}
				}
			})
			q := &PathQuery{P: p, Fn: fn, From: reg, K: k}
			q.Step = func(in ssa.Instruction, deferred bool, st uint64, c *PathCtx) (uint64, bool) {
				if callsFn(in, m.Del) {
					return st | 1, false
				}
				return st, false
			}
			rep := map[*ssa.Return]bool{}
			n := 0
			q.AtReturn = func(ret *ssa.Return, st uint64, c *PathCtx) {
				if c.NilState(reg) != +1 {
					return // registration failed: nothing to roll back
				}
				v := c.Resolve(deref(ret.Results[idx]))
				if c.NilState(v) == +1 {
					// success: the transaction must still be somebody's to complete - not taken back by this call
					for _, d := range dels {
						key, pol := k.condKey(d)
						if kv, known := c.Known(key); known && kv == pol && !rep[ret] {
							rep[ret] = true
							rb.ViolationPath(fn, instrPos(ret), "success after the rollback", "Start has itself removed the transaction from the client table (its delete found the entry) and then reports success: no event can reach the handler any more - it is never invoked, and a Do waits for it forever", c.Witness(fn, ret))
						}
					}
					return
				}
				n++
				if st&1 == 0 && !rep[ret] {
					rep[ret] = true
					rb.ViolationPath(fn, instrPos(ret), "error return without rollback", "Start returns an error but the transaction stays in the client table: a later message with that ID invokes a handler whose Start failed", c.Witness(fn, ret))
					return
				}
				// once the transaction is in the client table, an event carrying its ID - a tick, Close, or a
				// (duplicate) message, which the agent's Process passes on whether or not it knows the ID - can
				// complete it at any moment; an error may then be reported only if this call itself took the
				// registration back: the delete must have reported that it found the entry
				_ = agentStarts
				confirmed := false
				for _, d := range dels {
					key, pol := k.condKey(d)
					if v, known := c.Known(key); known && v == pol {
						confirmed = true
					}
				}
				if !confirmed && !rep[ret] {
					rep[ret] = true
					rb.ViolationPath(fn, instrPos(ret), "error return after an unconfirmed rollback", "the transaction was published in the client table, so a timer tick, a message with its ID or Close may already have completed it (handler invoked) when a later step fails; Start reports an error without knowing that its own delete still found the entry: the handler is invoked although Start failed, and Do returns without waiting for it (its pooled waiter is recycled while marked processed)", c.Witness(fn, ret))
				}
			}
			q.Run()
			rb.Instance(fnName(fn), true, map[string]interface{}{"fn": fnName(fn), "error_paths_after_registration": n})
			// the converse: Start removes or stops a transaction only if this very call registered it (a
			// handler-less Start or an indication registers nothing; a transaction of another call that
			// carries the same ID must stay in flight)
			nRoll := 0
			repI := map[ssa.Instruction]bool{}
			q2 := &PathQuery{P: p, Fn: fn, K: k}
			q2.Step = func(in ssa.Instruction, deferred bool, st uint64, c *PathCtx) (uint64, bool) {
				if in == ssa.Instruction(reg) {
					return st | 1, false
				}
				isStop := false
				if ci, ok := in.(*ssa.Call); ok && ci.Call.IsInvoke() && ci.Call.Method.Name() == "Stop" {
					isStop = true
				}
				if callsFn(in, m.Del) || isStop {
					nRoll++
					if st&1 == 0 && !repI[in] {
						repI[in] = true
						rb.ViolationPath(fn, instrPos(in), "rollback without registration", "Start removes/stops the transaction with the message's ID on a path on which this call registered nothing (no handler): an in-flight transaction of another call that carries the same ID loses its handler and never completes", c.Witness(fn, in))
					}
				}
				return st, false
			}
			q2.Run()
			rb.Instance(fnName(fn)+"|rollback only of own registration", true, map[string]interface{}{"fn": fnName(fn), "rollback_sites_on_paths": nRoll})
		}
	}
	rb.Done()

	// ---- between re-publication and a confirmed removal the callback does not touch the transaction object
	hd := r.Rule("C10.handsoff", "in the agent callback, once the transaction has been registered again (the re-registration succeeded) and until a removal by this callback has found it, the callback itself reads and writes no field of the transaction object: everything it needs (ID, deadline, bytes) was copied before, because a response may complete and recycle the object at any moment and a later Start fill it with another request", 1)
	if m.Callback != nil && m.Reg != nil && m.Del != nil {
		fn := m.Callback
		var regCalls []*ssa.Call
		eachInstr(fn, func(b *ssa.BasicBlock, i int, in ssa.Instruction) {
			if c, ok := in.(*ssa.Call); ok && callsFn(c, m.Reg) {
				regCalls = append(regCalls, c)
			}
		})
		isTx := func(v ssa.Value) bool {
			v = canonPhi(v)
			for _, rc := range regCalls {
				for _, a := range rc.Call.Args {
					if canonPhi(a) == v {
						if pt, ok := a.Type().Underlying().(*types.Pointer); ok && types.Identical(pt.Elem(), m.TX) {
							return true
						}
					}
				}
			}
			return false
		}
		rep := map[ssa.Instruction]bool{}
		nAcc := 0
		q := &PathQuery{P: p, Fn: fn}
		q.Step = func(in ssa.Instruction, deferred bool, st uint64, c *PathCtx) (uint64, bool) {
			if cl, ok := in.(*ssa.Call); ok && callsFn(cl, m.Reg) {
				return st | 1, false
			}
			fa, ok := in.(*ssa.FieldAddr)
			if !ok || st&1 == 0 || !isTx(fa.X) {
				return st, false
			}
			nAcc++
			owned := false
			for _, pc := range c.PathConds() {
				cond, val := pc.Cond, pc.Val
				for {
					u, isU := cond.(*ssa.UnOp)
					if !isU || u.Op != token.NOT {
						break
					}
					cond, val = u.X, !val
				}
				// the re-registration failed: the object never left this callback
				if bo, isB := cond.(*ssa.BinOp); isB && (bo.Op == token.EQL || bo.Op == token.NEQ) {
					x := bo.X
					if isNilConst(x) {
						x = bo.Y
					}
					if cl, isC := canonPhi(deref(x)).(*ssa.Call); isC && callsFn(cl, m.Reg) && (isNilConst(bo.X) || isNilConst(bo.Y)) {
						if (bo.Op == token.NEQ) == val {
							owned = true
						}
					}
				}
				// a removal by this callback found the entry: it is this callback's again
				if cl, isC := canonPhi(deref(cond)).(*ssa.Call); isC && callsFn(cl, m.Del) && val {
					owned = true
				}
			}
			if !owned && !rep[in] {
				rep[in] = true
				hd.ViolationPath(fn, instrPos(in), "transaction."+fieldOfAddr(fa).Name()+" accessed after re-publication", "the callback touches the transaction object while it is registered again: a response may have completed and recycled it, and a later Start may already have filled it with another request - the ID read here can be that of a live, unrelated transaction, which the rollback then removes and fails", c.Witness(fn, in))
			}
			return st, false
		}
		q.Run()
		hd.Instance(fnName(fn)+"|re-registrations", true, map[string]int{"reg_calls": len(regCalls), "field_accesses_after": nAcc, "violations": len(rep)})
		if len(regCalls) == 0 {
			hd.Fail(fnName(fn), "no re-registration call found in the agent callback")
		}
	}
	hd.Done()

	// ---- returning a transaction to the pool is the last thing done with it
	pl2 := r.Rule("C10.putlast", "on every path, nothing uses a transaction object after it was handed back to the pool (no method call on it, no field access, not passed on): from that moment a concurrent Start may own and refill it, and the handler invoked would be another transaction's", 2)
	if m.Put != nil {
		nPut := 0
		for _, fn := range []*ssa.Function{m.Callback, m.Start} {
			if fn == nil {
				continue
			}
			var puts []*ssa.Call
			eachInstr(fn, func(b *ssa.BasicBlock, i int, in ssa.Instruction) {
				if c, ok := in.(*ssa.Call); ok && callsFn(c, m.Put) && len(c.Call.Args) >= 1 {
					puts = append(puts, c)
				}
			})
			for _, pc := range puts {
				nPut++
				obj := canonPhi(pc.Call.Args[0])
				uses := func(in ssa.Instruction) bool {
					if in == ssa.Instruction(pc) {
						return false
					}
					var ops []*ssa.Value
					for _, o := range in.Operands(ops) {
						if o != nil && *o != nil && canonPhi(*o) == obj {
							if _, isDbg := in.(*ssa.DebugRef); isDbg {
								return false
							}
							return true
						}
					}
					return false
				}
				rep := false
				q := &PathQuery{P: p, Fn: fn, From: pc}
				q.Step = func(in ssa.Instruction, deferred bool, st uint64, c *PathCtx) (uint64, bool) {
					if !rep && uses(in) {
						rep = true
						pl2.ViolationPath(fn, instrPos(in), "use of the transaction after it was returned to the pool", "the object is used after putClientTransaction: a concurrent Start may already have taken it from the pool and stored its own handler and ID in it, so this completion reaches the wrong transaction (and the right one never hears of it)", c.Witness(fn, in))
					}
					return st, false
				}
				q.Run()
				pl2.Instance(fmt.Sprintf("%s|put@b%d", fnName(fn), pc.Block().Index), true, nil)
			}
		}
		if nPut == 0 {
			pl2.Fail("putClientTransaction", "no call returning a transaction to the pool found in Start or the agent callback")
		}
		// and inside the function that returns it: handing the object to the pool is its last touch (the fields are
		// cleared before, not after - afterwards they are the next owner's)
		if m.Put.Blocks != nil {
			r.Analysed(m.Put)
			nPool := 0
			eachInstr(m.Put, func(b *ssa.BasicBlock, i int, in ssa.Instruction) {
				pc, ok := in.(*ssa.Call)
				if !ok || pc.Call.IsInvoke() || len(pc.Call.Args) != 2 {
					return
				}
				sc := pc.Call.StaticCallee()
				if sc == nil || sc.Name() != "Put" || sc.Pkg == nil || sc.Pkg.Pkg.Path() != "sync" {
					return
				}
				obj := pc.Call.Args[1]
				if mi, isMI := obj.(*ssa.MakeInterface); isMI {
					obj = mi.X
				}
				obj = canonPhi(obj)
				nPool++
				rep := false
				q := &PathQuery{P: p, Fn: m.Put, From: pc}
				q.Step = func(in2 ssa.Instruction, deferred bool, st uint64, c *PathCtx) (uint64, bool) {
					if rep {
						return st, false
					}
					if _, isDbg := in2.(*ssa.DebugRef); isDbg {
						return st, false
					}
					var ops []*ssa.Value
					for _, o := range in2.Operands(ops) {
						if o != nil && *o != nil && canonPhi(*o) == obj {
							rep = true
							pl2.ViolationPath(m.Put, instrPos(in2), "the transaction is touched after sync.Pool.Put", "a field of the object is read or written after the pool has it: a concurrent Start may already own it, and what is cleared here is the next transaction's ID, handler or buffer", c.Witness(m.Put, in2))
						}
					}
					return st, false
				}
				q.Run()
				pl2.Instance(fnName(m.Put)+"|pool put", true, nil)
			})
			if nPool == 0 {
				pl2.Fail(fnName(m.Put), "no sync.Pool.Put in the function that returns a transaction to the pool")
			}
		}
	}
	pl2.Done()

	// ---- a failed retransmission is reported with its own error
	ee := r.Rule("C10.errevent", "on every path of the agent callback on which a step of the retransmission has failed (the re-registration, the agent's Start, the write to the connection: their error is known non-nil), the event handed to the handler has had its Error stored after that step: the handler hears of the failure, not of the timeout that triggered the attempt", 2)
	if m.Callback != nil && m.Handle != nil && m.Callback.Blocks != nil {
		fn := m.Callback
		var evErr *types.Var
		if evT := p.Named("Event"); evT != nil {
			evErr = FieldVar(evT, "Error")
		}
		type step struct {
			call ssa.Instruction
			err  ssa.Value
			what string
		}
		var steps []step
		eachInstr(fn, func(b *ssa.BasicBlock, i int, in ssa.Instruction) {
			c, ok := in.(*ssa.Call)
			if !ok {
				return
			}
			switch {
			case m.Reg != nil && callsFn(c, m.Reg):
				steps = append(steps, step{c, c, "re-registration"})
			case ifaceCallOnField(c, m.Agent, "Start"):
				steps = append(steps, step{c, c, "agent Start"})
			case ifaceCallOnField(c, m.Conn, "Write"):
				for _, u := range *c.Referrers() {
					if e, isE := u.(*ssa.Extract); isE && e.Index == 1 {
						steps = append(steps, step{c, e, "connection write"})
					}
				}
			}
		})
		if evErr == nil || len(steps) == 0 {
			ee.Fail(fnName(fn), "Event.Error or the retransmission steps of the agent callback not found")
		} else {
			isStep := map[ssa.Instruction]bool{}
			for _, st := range steps {
				isStep[st.call] = true
			}
			rep := map[ssa.Instruction]bool{}
			seen := map[string]bool{}
			q := &PathQuery{P: p, Fn: fn, MaxStates: 20000}
			q.Step = func(in ssa.Instruction, deferred bool, st uint64, c *PathCtx) (uint64, bool) {
				if deferred {
					return st, false
				}
				if isStep[in] {
					return 0, false // a new step: what was stored before is about an earlier one
				}
				if s, ok := in.(*ssa.Store); ok {
					if _, f := addrField(s.Addr); f == evErr && !isNilConst(s.Val) {
						// what is stored is the error of a step that failed on this path, or is built from it
						for _, sp := range steps {
							if c.NilState(sp.err) == -1 && errDependsOn(s.Val, sp.err, 0) {
								return 1, false
							}
						}
						return 0, false
					}
				}
				if cl, ok := in.(*ssa.Call); ok && callsFn(cl, m.Handle) {
					for _, sp := range steps {
						if c.NilState(sp.err) != -1 {
							continue
						}
						key := fmt.Sprintf("%s|handle@b%d after failed %s", fnName(fn), cl.Block().Index, sp.what)
						if !seen[key] {
							seen[key] = true
							ee.Instance(key, true, nil)
						}
						if st&1 == 0 && !rep[cl] {
							rep[cl] = true
							ee.ViolationPath(fn, instrPos(cl), "handler called with the stale event after a failed "+sp.what, "the "+sp.what+" failed on this path, but the event's Error was not stored afterwards with that error (or a value built from it): the handler is told of the timeout that triggered the retransmission, or of an unrelated error, not of the one that ended the transaction", c.Witness(fn, cl))
						}
					}
				}
				return st, false
			}
			q.Run()
			r.Analysed(fn)
			if q.Exhausted {
				ee.Fail(fnName(fn), "path exploration exhausted: undecided")
			}
		}
	}
	ee.Done()

	// ---- the confirming removal identifies the transaction, not only its ID
	ow := r.Rule("C10.owner", "the removal whose result confirms ownership (Start's and the callback's rollbacks) compares the table entry with the very transaction the caller is about to complete or report on: an entry registered later under the same ID is not taken for the caller's own", 1)
	if m.Del != nil {
		r.Analysed(m.Del)
		byIdentity := false
		for _, pa := range m.Del.Params[1:] {
			if pt, ok := pa.Type().Underlying().(*types.Pointer); ok {
				if _, isS := pt.Elem().Underlying().(*types.Struct); isS {
					// compared with the looked-up entry before the delete?
					eachInstr(m.Del, func(b *ssa.BasicBlock, i int, in ssa.Instruction) {
						if bo, ok := in.(*ssa.BinOp); ok && (bo.Op == token.EQL || bo.Op == token.NEQ) && (bo.X == ssa.Value(pa) || bo.Y == ssa.Value(pa)) {
							byIdentity = true
						}
					})
				}
			}
		}
		ow.Instance(fnName(m.Del), true, map[string]interface{}{"fn": fnName(m.Del), "compares_entry_with_transaction": byIdentity})
		if !byIdentity {
			ow.Violation(m.Del, m.Del.Pos(), "ownership confirmed by ID only", "the rollback asks whether any transaction is registered under the ID: when the caller's transaction was completed meanwhile and a new one was started with the same ID (the same request sent again), the stale caller removes the new transaction, whose handler is then never invoked, and completes or pools the old object a second time")
		}
	}
	ow.Done()

	// ---- closed: no return before the lookup
	cl := r.Rule("C10.closed", "no path through the agent callback returns before the table lookup (so the closed events emitted by the agent's Close reach in-flight transactions)", 1)
	{
		fn := m.Callback
		var lookups []ssa.Instruction
		for _, a := range sharedAccesses(fn, map[*types.Var]bool{m.Table: true}) {
			if a.Kind == "mapread" {
				lookups = append(lookups, a.In)
			}
		}
		cl.Instance(fnName(fn), true, map[string]interface{}{"fn": fnName(fn), "lookups": len(lookups)})
		if len(lookups) == 0 {
			cl.Violation(fn, fn.Pos(), "no table lookup", "the callback does not look the transaction up")
		} else {
			bad, rets := mustPass(p, fn, nil, func(in ssa.Instruction, deferred bool, c *PathCtx) bool {
				for _, l := range lookups {
					if in == l {
						return true
					}
				}
				return false
			}, nil)
			for i, w := range bad {
				pos := fn.Pos()
				if rets[i] != nil {
					pos = instrPos(rets[i])
				}
				cl.ViolationPath(fn, pos, "return before the lookup", "the callback drops the event without looking the transaction up: handlers of in-flight transactions are never invoked on Close and Do blocks forever", w)
			}
		}
	}
	cl.Done()

	// ---- Do
	do := r.Rule("C10.do", "Do waits on every path on which Start returned nil and on none on which it returned an error; the wait is a loop on the processed flag under the condition lock; the event handler sets processed under that lock, has run the callback before that (or within the same hold of the lock) and broadcasts after it (or within the same hold)", 3)
	checkDo(r, do, m)
	do.Done()
	// a pooled transaction is released only by the party that owns it (shared with C12)
	r.Borrow("C12", map[string]string{"C12.pool": "C10.pool"})
	// deadlines and collection times are on one time line: otherwise no transaction ever times out and the handler of
	// an unanswered request is never invoked (shared with C11)
	r.Borrow("C11", map[string]string{"C11.clock": "C10.clock"})
	// a found transaction is completed, never handed to the fallback handler instead: the agent has already dropped
	// its side, so nothing else would ever complete it (shared with C12)
	r.Borrow("C12", map[string]string{"C12.fallback": "C10.fallback"})
	// the retransmissions are bounded by the attempt counter, so the timeout of an unanswered request is eventually
	// delivered (shared with C11); Close waits for nothing while it holds the client mutex, so the closed events are
	// delivered and Do returns (shared with C15)
	r.Borrow("C11", map[string]string{"C11.count": "C10.bounded"})
	r.Borrow("C15", map[string]string{"C15.noblock": "C10.noblock"})
}

func checkCallbackPaths(r *Run, rc *RuleCtx, m *clientModel, k *keyer) {
	p := r.P
	fn := m.Callback
	var del *ssa.Call
	for _, a := range sharedAccesses(fn, map[*types.Var]bool{m.Table: true}) {
		if a.Kind == "mapdelete" {
			del = a.In.(*ssa.Call)
		}
	}
	if del == nil {
		rc.Violation(fn, fn.Pos(), "no removal", "the callback does not remove the transaction it found")
		return
	}
	const (
		regBit = 1 << iota // currently registered in the client table
		agentOK
		wroteOK
		h1
		h2
	)
	var regCall, agentCall *ssa.Call
	var writeErr ssa.Value
	const confirmShift = 8
	var delCalls []*ssa.Call
	eachInstr(fn, func(b *ssa.BasicBlock, i int, in ssa.Instruction) {
		if c2, ok := in.(*ssa.Call); ok && callsFn(c2, m.Del) {
			delCalls = append(delCalls, c2)
		}
	})
	nTaken := 0
	q := &PathQuery{P: p, Fn: fn, From: del, K: k}
	repH := map[ssa.Instruction]bool{}
	q.Step = func(in ssa.Instruction, deferred bool, st uint64, c *PathCtx) (uint64, bool) {
		if _, isD := in.(*ssa.Defer); isD {
			return st, false
		}
		if c2, ok := in.(*ssa.Call); ok {
			if callsFn(c2, m.Reg) {
				regCall = c2
				return st | regBit, false
			}
			if callsFn(c2, m.Del) {
				// the entry was (successfully) published again: from then on a response or Close can
				// complete and recycle it at any moment, so whoever goes on to complete it must know
				// that this delete still found it
				if st&regBit != 0 && regCall != nil && c.NilState(regCall) == +1 {
					for i, d := range delCalls {
						if d == c2 && i < 8 {
							st |= 1 << uint(confirmShift+i)
						}
					}
				}
				return st &^ regBit, false
			}
			if ifaceCallOnField(c2, m.Agent, "Start") {
				agentCall = c2
				if st&regBit == 0 && !repH[in] {
					repH[in] = true
					rc.ViolationPath(fn, instrPos(in), "agent armed before the client table", "the agent transaction is started while the transaction is not (yet) in the client table: a response processed in that window is dropped as unknown and the transaction is orphaned (no completion, no timeout, no closed event)", c.Witness(fn, in))
				}
				return st | agentOK, false
			}
			if ifaceCallOnField(c2, m.Conn, "Write") {
				for _, u := range *c2.Referrers() {
					if e, ok := u.(*ssa.Extract); ok && e.Index == 1 {
						writeErr = e
					}
				}
				return st | wroteOK, false
			}
			if callsFn(c2, m.Handle) {
				// completion while registered? (registered only counts if the registration succeeded)
				if st&regBit != 0 && (regCall == nil || c.NilState(regCall) != -1) && !repH[in] {
					repH[in] = true
					rc.ViolationPath(fn, instrPos(in), "completion while registered", "the transaction is completed (and returned to the pool) while it is still in the client table: a late response for that ID is delivered to whatever transaction recycles the object", c.Witness(fn, in))
				}
				for i, d := range delCalls {
					if i < 8 && st&(1<<uint(confirmShift+i)) != 0 {
						key, pol := k.condKey(d)
						if v, known := c.Known(key); !(known && v == pol) && !repH[in] {
							repH[in] = true
							rc.ViolationPath(fn, instrPos(in), "completion after an unconfirmed removal", "the transaction had been published again (re-registered for a retransmission); a response or Close may have completed and recycled it before this removal, which does not check that it still found the entry: the object is completed and pooled twice, and the transaction that next takes it from the pool gets this error and loses its stored request", c.Witness(fn, in))
						}
					}
				}
				if st&h1 != 0 {
					return st | h2, false
				}
				return st | h1, false
			}
		}
		return st, false
	}
	rep := map[*ssa.Return]bool{}
	nDone, nRereg := 0, 0
	q.AtReturn = func(ret *ssa.Return, st uint64, c *PathCtx) {
		if st&h2 != 0 {
			if !rep[ret] {
				rep[ret] = true
				rc.ViolationPath(fn, instrPos(ret), "two completions on one path", "handle is invoked twice for one removal", c.Witness(fn, ret))
			}
			return
		}
		if st&h1 != 0 {
			nDone++
			return
		}
		// not completed: must be completely re-registered
		ok := st&regBit != 0 && st&agentOK != 0 && st&wroteOK != 0 &&
			regCall != nil && c.NilState(regCall) == +1 &&
			agentCall != nil && c.NilState(agentCall) == +1 &&
			writeErr != nil && c.NilState(writeErr) == +1
		if ok {
			nRereg++
			return
		}
		// the removal of the re-published entry found nothing: somebody else completed it
		for i, d := range delCalls {
			if i < 8 && st&(1<<uint(confirmShift+i)) != 0 {
				key, pol := k.condKey(d)
				if v, known := c.Known(key); known && v != pol {
					nTaken++
					return
				}
			}
		}
		if !rep[ret] {
			rep[ret] = true
			rc.ViolationPath(fn, instrPos(ret), "removed but neither completed nor re-registered", "a transaction that was removed from the client table is dropped: its handler is never invoked", c.Witness(fn, ret))
		}
	}
	q.Run()
	if q.Exhausted {
		rc.Violation(fn, fn.Pos(), "path exploration exhausted", "undecided")
	}
	rc.Instance(fnName(fn), true, map[string]interface{}{"fn": fnName(fn), "completing_paths": nDone, "re_registering_paths": nRereg, "taken_by_another_party_paths": nTaken})
	if nDone == 0 || nRereg == 0 {
		rc.Violation(fn, fn.Pos(), "path classes", fmt.Sprintf("expected both completing and re-registering paths, found %d and %d: the callback's structure is not recognised (undecided)", nDone, nRereg))
	}
	// the lookup key is the event's ID and handle's receiver is the looked-up entry: C12.key
}

func checkDo(r *Run, rc *RuleCtx, m *clientModel) {
	p := r.P
	fn := m.Do
	var startCall *ssa.Call
	var waitFn *ssa.Function
	eachInstr(fn, func(b *ssa.BasicBlock, i int, in ssa.Instruction) {
		if c, ok := in.(*ssa.Call); ok && callsFn(c, m.Start) {
			startCall = c
		}
	})
	if m.Waiter != nil {
		waitFn = p.MethodOf(m.Waiter, "wait")
	}
	if startCall == nil || waitFn == nil {
		rc.Fail("Start call / wait in Do", "not found")
		return
	}
	r.Analysed(waitFn)
	q := &PathQuery{P: p, Fn: fn, From: startCall}
	q.Step = func(in ssa.Instruction, deferred bool, st uint64, c *PathCtx) (uint64, bool) {
		if _, isD := in.(*ssa.Defer); isD && !deferred {
			return st, false
		}
		if callsFn(in, waitFn) {
			return st | 1, false
		}
		return st, false
	}
	rep := map[*ssa.Return]bool{}
	q.AtReturn = func(ret *ssa.Return, st uint64, c *PathCtx) {
		ns := c.NilState(startCall)
		if rep[ret] {
			return
		}
		switch {
		case ns == +1 && st&1 == 0:
			rep[ret] = true
			rc.ViolationPath(fn, instrPos(ret), "return without waiting", "Do returns although Start succeeded and the callback has not run: the pooled handler is recycled while still in use", c.Witness(fn, ret))
		case ns == -1 && st&1 != 0:
			rep[ret] = true
			rc.ViolationPath(fn, instrPos(ret), "wait after failed Start", "Do waits for a callback that will never come", c.Witness(fn, ret))
		case ns == 0:
			rep[ret] = true
			rc.ViolationPath(fn, instrPos(ret), "Start error not examined", "Do does not branch on Start's error before waiting/returning", c.Witness(fn, ret))
		}
	}
	q.Run()
	rc.Instance(fnName(fn), true, map[string]string{"fn": fnName(fn)})

	// wait loop
	procF := RoleField(m.Waiter, "processed", isBoolType)
	condF := RoleField(m.Waiter, "cond", func(t types.Type) bool {
		pt, ok := t.(*types.Pointer)
		return ok && isNamedType(pt.Elem(), "sync", "Cond")
	})
	cbF := RoleField(m.Waiter, "callback", isFuncType)
	if procF == nil || condF == nil || cbF == nil {
		rc.Fail("callbackWaitHandler fields", "processed/cond/callback not found")
		return
	}
	{
		li := computeLocks(waitFn)
		loops := loopsOf(waitFn)
		nWait := 0
		eachInstr(waitFn, func(b *ssa.BasicBlock, i int, in ssa.Instruction) {
			if !isMethodCall(in, "sync", "Cond", "Wait") {
				return
			}
			nWait++
			lp := inLoop(loops, b)
			ok := false
			if lp != nil {
				for _, ex := range lp.Exits() {
					if iff, isIf := ex[0].Instrs[len(ex[0].Instrs)-1].(*ssa.If); isIf {
						c := iff.Cond
						if u, isU := c.(*ssa.UnOp); isU && u.Op == token.NOT {
							c = u.X
						}
						if valueIsLoadOfField(c, procF) {
							ok = true
						}
					}
				}
			}
			if !ok {
				rc.Violation(waitFn, instrPos(in), "cond.Wait outside a loop on processed", "a wake-up that is spurious or precedes the wait is mistaken for completion (or missed)")
			}
			if len(li.Held(in)) == 0 {
				rc.Violation(waitFn, instrPos(in), "cond.Wait without the lock", "Wait must be called with cond.L held")
			}
		})
		rc.Instance(fnName(waitFn), true, map[string]interface{}{"fn": fnName(waitFn), "cond_waits": nWait})
		if nWait == 0 {
			rc.Violation(waitFn, waitFn.Pos(), "no cond.Wait", "wait() does not wait")
		}
		for _, a := range fieldAccesses(waitFn, procF) {
			if len(li.Held(a.Instr)) == 0 {
				rc.Violation(waitFn, instrPos(a.Instr), a.Kind+" of processed without the lock", "the processed flag is accessed outside cond.L")
			}
		}
	}
	// HandleEvent: callback call -> processed=true -> Broadcast, all under the lock
	he := p.MethodOf(m.Waiter, "HandleEvent")
	if he == nil {
		rc.Fail("HandleEvent", "not found")
		return
	}
	r.Analysed(he)
	li := computeLocks(he)
	var cbCall, bcast ssa.Instruction
	var setProc *ssa.Store
	eachInstr(he, func(b *ssa.BasicBlock, i int, in ssa.Instruction) {
		if c, ok := in.(*ssa.Call); ok && !c.Call.IsInvoke() && c.Call.StaticCallee() == nil {
			if v := c.Call.Value; valueIsLoadOfField(v, cbF) || valueIsLoadOfField(deref(v), cbF) {
				cbCall = in
			}
		}
		if isMethodCall(in, "sync", "Cond", "Broadcast") || isMethodCall(in, "sync", "Cond", "Signal") {
			bcast = in
		}
	})
	for _, a := range fieldAccesses(he, procF) {
		if st, ok := a.Instr.(*ssa.Store); ok && a.Kind == "store" {
			if c, isC := st.Val.(*ssa.Const); isC && c.Value != nil && c.Value.String() == "true" {
				setProc = st
			}
		}
	}
	rc.Instance(fnName(he), true, map[string]interface{}{"fn": fnName(he), "callback_call": cbCall != nil, "processed_store": setProc != nil, "broadcast": bcast != nil})
	if cbCall == nil || setProc == nil || bcast == nil {
		rc.Violation(he, he.Pos(), "handshake incomplete", "the event handler must run the callback, set processed and broadcast")
		return
	}
	// one hold of the condition lock: both instructions are executed with the lock held and nothing between them
	// releases it - what happens inside is seen by the waiter only as a whole (it re-acquires the lock to look)
	sameHold := func(a, b ssa.Instruction) bool {
		if len(li.Held(a)) == 0 || len(li.Held(b)) == 0 {
			return false
		}
		first, second := a, b
		if !instrDominates(first, second) {
			first, second = b, a
			if !instrDominates(first, second) {
				return false
			}
		}
		released := false
		eachInstr(he, func(_ *ssa.BasicBlock, _ int, in ssa.Instruction) {
			if op := lockOpOf(in); op != nil && (op.Kind == "Unlock" || op.Kind == "RUnlock") {
				if _, isDefer := in.(*ssa.Defer); !isDefer && instrDominates(first, in) && instrDominates(in, second) {
					released = true
				}
			}
		})
		return !released
	}
	if len(li.Held(setProc)) == 0 {
		rc.Violation(he, instrPos(setProc), strings.TrimSpace(shortInstr(setProc))+" outside the condition lock", "the waiter reads the flag under cond.L: written outside it the flag is a data race, and with the broadcast outside the lock too the wake-up can be lost (the waiter checks, the flag is set and broadcast, the waiter sleeps)")
	}
	if !instrDominates(cbCall, setProc) && !sameHold(cbCall, setProc) {
		rc.Violation(he, instrPos(setProc), "processed set before the callback ran", "Do can observe processed == true and return while its callback is still running")
	}
	if !instrDominates(setProc, bcast) && !sameHold(setProc, bcast) {
		rc.Violation(he, instrPos(bcast), "broadcast before processed is set", "a waiter woken by the broadcast still sees processed == false and sleeps forever")
	}
}

// reentrantAgentMethods: names of the Agent methods that reach (through Agent methods) a call of the agent's handler.
func reentrantAgentMethods(p *Prog) map[string]bool {
	am, _ := resolveAgent(p)
	out := map[string]bool{}
	if am == nil || am.T == nil || am.Handler == nil {
		return out
	}
	byFn := map[*ssa.Function]bool{}
	for _, f := range am.Methods {
		if len(handlerCalls(f, am.Handler)) > 0 {
			byFn[f] = true
		}
	}
	for changed := true; changed; {
		changed = false
		for _, f := range am.Methods {
			if byFn[f] {
				continue
			}
			eachInstr(f, func(b *ssa.BasicBlock, i int, in ssa.Instruction) {
				if sc := staticCallee(in); sc != nil && byFn[sc] && !byFn[f] {
					byFn[f] = true
					changed = true
				}
			})
		}
	}
	for f := range byFn {
		out[f.Name()] = true
	}
	return out
}

func checkReenter(r *Run, rc *RuleCtx, m *clientModel, k *keyer) {
	p := r.P
	fn := m.Callback
	reent := reentrantAgentMethods(p)
	if len(reent) == 0 {
		rc.Violation(fn, fn.Pos(), "no handler-invoking agent method found", "Agent model not recognised (undecided)")
		return
	}
	var del *ssa.Call
	for _, a := range sharedAccesses(fn, map[*types.Var]bool{m.Table: true}) {
		if a.Kind == "mapdelete" {
			del = a.In.(*ssa.Call)
		}
	}
	if del == nil {
		rc.Violation(fn, fn.Pos(), "no removal", "the callback does not remove the transaction it found")
		return
	}
	const regBit = 1
	var regCall *ssa.Call
	rep := map[ssa.Instruction]bool{}
	seen := map[ssa.Instruction]bool{}
	q := &PathQuery{P: p, Fn: fn, From: del, K: k}
	q.Step = func(in ssa.Instruction, deferred bool, st uint64, c *PathCtx) (uint64, bool) {
		c2, ok := in.(*ssa.Call)
		if !ok {
			return st, false
		}
		if callsFn(c2, m.Reg) {
			regCall = c2
			return st | regBit, false
		}
		if callsFn(c2, m.Del) {
			return st &^ regBit, false
		}
		if c2.Call.IsInvoke() {
			if _, f := loadedField(c2.Call.Value); f == m.Agent && reent[c2.Call.Method.Name()] {
				if !seen[in] {
					seen[in] = true
					rc.Instance(fnName(fn)+"|"+c2.Call.Method.Name(), true, map[string]interface{}{"call": "agent." + c2.Call.Method.Name(), "at": p.pos(instrPos(in))})
				}
				if st&regBit != 0 && (regCall == nil || c.NilState(regCall) != -1) && !rep[in] {
					rep[in] = true
					rc.ViolationPath(fn, instrPos(in), "agent."+c2.Call.Method.Name()+" while registered", "the agent invokes the client callback synchronously from this call while the transaction is still in the client table: the nested callback finds it, retransmits or completes it, and the outer call then completes and recycles the same object again (extra writes, double put, a live entry deleted)", c.Witness(fn, in))
				}
			}
		}
		return st, false
	}
	q.Run()
	if q.Exhausted {
		rc.Violation(fn, fn.Pos(), "path exploration exhausted", "undecided")
	}
}

// errDependsOn: v is the error e itself, or an interface made of a local structure one of whose fields was
// stored with e (StopErr{Err: stopErr, Cause: writeErr}).
func errDependsOn(v, e ssa.Value, depth int) bool {
	if v == e {
		return true
	}
	if depth > 4 || v == nil {
		return false
	}
	switch x := v.(type) {
	case *ssa.MakeInterface:
		return errDependsOn(x.X, e, depth+1)
	case *ssa.ChangeInterface:
		return errDependsOn(x.X, e, depth+1)
	case *ssa.Phi:
		for _, ed := range x.Edges {
			if errDependsOn(ed, e, depth+1) {
				return true
			}
		}
	case *ssa.UnOp:
		if x.Op == token.MUL {
			if al, ok := x.X.(*ssa.Alloc); ok {
				for _, u := range *al.Referrers() {
					fa, isFA := u.(*ssa.FieldAddr)
					if !isFA {
						continue
					}
					for _, w := range *fa.Referrers() {
						if st, isSt := w.(*ssa.Store); isSt && st.Addr == ssa.Value(fa) && errDependsOn(st.Val, e, depth+1) {
							return true
						}
					}
				}
			}
		}
	}
	return false
}
