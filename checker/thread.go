package main

// Virtual jump threading (tail duplication of dispatch blocks).
//
// After helper normalisation (inline.go) — and in hand-written code with `ok := a && b; if ok` or a
// single-exit style — a function contains dispatch blocks: a join J whose terminating If tests a
// value that is a function of J's own phis and constants only, e.g.
//
//	r_err = phi [B1: ErrX, B2: nil]   ...   if r_err != nil goto Fail else Cont
//
// Which way J goes is decided by the edge control came in on.  go/ssa's own dominator tree knows
// nothing of that: Cont is dominated by neither B2 nor the guards in front of it, so dominance-based
// engines (PROVE's branch facts, the must-lockset, every `a dominates b` rule) lose what the
// original, un-extracted code made visible.  This file builds, per function, the split graph in
// which J is duplicated per decided arm (J/0 goes only to Succs[0], J/1 only to Succs[1]; edges whose
// arm cannot be decided still enter the undivided J) and answers dominance and "which branch
// conditions hold on entry to a block" on it.  Splitting only removes paths no execution can take,
// so every fact derived on the split graph holds for all executions.  Functions without dispatch
// blocks keep go/ssa's answers.

import (
	"go/constant"
	"go/token"

	"golang.org/x/tools/go/ssa"
)

type tnode struct {
	blk *ssa.BasicBlock
	arm int // -1: the block itself; 0/1: the copy that continues to Succs[arm] only
}

type tcfg struct {
	fn      *ssa.Function
	changed bool
	// target[J][i]: arm taken by dispatch block J when entered over its i-th edge (-1: undecided)
	target map[*ssa.BasicBlock][]int
	nodes  []tnode
	nodeOf map[*ssa.BasicBlock][]int // all nodes of a block (first = the block itself)
	succ   [][]int
	pred   [][]int
	roots  []int
	dom    map[*ssa.BasicBlock]map[*ssa.BasicBlock]bool // dom[b] = blocks that dominate b (incl. b)
	idom   map[*ssa.BasicBlock]*ssa.BasicBlock
	conds  map[*ssa.BasicBlock][]PathCond
}

var tcfgCache = map[*ssa.Function]*tcfg{}

func threadedCFG(fn *ssa.Function) *tcfg {
	if t, ok := tcfgCache[fn]; ok {
		return t
	}
	t := &tcfg{fn: fn, target: map[*ssa.BasicBlock][]int{}, nodeOf: map[*ssa.BasicBlock][]int{}}
	tcfgCache[fn] = t
	for _, j := range fn.Blocks {
		if len(j.Preds) < 2 || len(j.Instrs) == 0 {
			continue
		}
		if _, ok := j.Instrs[len(j.Instrs)-1].(*ssa.If); !ok || j.Succs[0] == j.Succs[1] {
			continue
		}
		var tg []int
		any := false
		for i, p := range j.Preds {
			arm := -1
			dup := 0
			for _, q := range j.Preds {
				if q == p {
					dup++
				}
			}
			if dup == 1 && p != j {
				if a, ok := dispatchArm(j, i, p); ok {
					arm = a
					any = true
				}
			}
			tg = append(tg, arm)
		}
		if any {
			t.target[j] = tg
			t.changed = true
		}
	}
	if !t.changed {
		return t
	}
	// nodes
	add := func(b *ssa.BasicBlock, arm int) int {
		t.nodes = append(t.nodes, tnode{b, arm})
		id := len(t.nodes) - 1
		t.nodeOf[b] = append(t.nodeOf[b], id)
		return id
	}
	variant := map[*ssa.BasicBlock][2]int{}
	for _, b := range fn.Blocks {
		add(b, -1)
	}
	for _, b := range fn.Blocks {
		if tg := t.target[b]; tg != nil {
			v := [2]int{-1, -1}
			for _, a := range tg {
				if a >= 0 && v[a] < 0 {
					v[a] = add(b, a)
				}
			}
			variant[b] = v
		}
	}
	t.succ = make([][]int, len(t.nodes))
	t.pred = make([][]int, len(t.nodes))
	// the k-th successor edge of block p lands on which node?
	land := func(p *ssa.BasicBlock, k int) int {
		s := p.Succs[k]
		if tg := t.target[s]; tg != nil {
			for i, q := range s.Preds {
				if q == p && tg[i] >= 0 {
					return variant[s][tg[i]]
				}
			}
		}
		return t.nodeOf[s][0]
	}
	for id, n := range t.nodes {
		seen := map[int]bool{}
		for k := range n.blk.Succs {
			if n.arm >= 0 && k != n.arm {
				continue
			}
			d := land(n.blk, k)
			if !seen[d] {
				seen[d] = true
				t.succ[id] = append(t.succ[id], d)
				t.pred[d] = append(t.pred[d], id)
			}
		}
	}
	t.roots = []int{t.nodeOf[fn.Blocks[0]][0]}
	if fn.Recover != nil {
		t.roots = append(t.roots, t.nodeOf[fn.Recover][0])
	}
	t.computeDominance()
	return t
}

// dispatchArm decides which arm J's If takes when J is entered over its i-th edge (from p):
// the condition must be a function of J's phis and constants.
func dispatchArm(j *ssa.BasicBlock, i int, p *ssa.BasicBlock) (int, bool) {
	iff := j.Instrs[len(j.Instrs)-1].(*ssa.If)
	isJPhi := func(v ssa.Value) bool {
		ph, ok := v.(*ssa.Phi)
		return ok && ph.Block() == j
	}
	subst := func(v ssa.Value) ssa.Value {
		if isJPhi(v) {
			return v.(*ssa.Phi).Edges[i]
		}
		return v
	}
	var eval func(v ssa.Value, depth int) (bool, bool)
	eval = func(v ssa.Value, depth int) (bool, bool) {
		if depth > 6 {
			return false, false
		}
		if isJPhi(v) {
			if k, ok := subst(v).(*ssa.Const); ok && k.Value != nil && k.Value.Kind() == constant.Bool {
				return constant.BoolVal(k.Value), true
			}
			return false, false
		}
		// a condition tested before (`open := !closed; if open {…}; unlock; if !open {…}`): an SSA value does not
		// change, so what the earlier branch established on the way to this edge still holds
		if depth == 0 || isNot(v) {
			if val, ok := condKnownOnEdge(v, p, j); ok {
				return val, true
			}
		}
		switch x := v.(type) {
		case *ssa.UnOp:
			if x.Op == token.NOT && x.Block() == j {
				if b, ok := eval(x.X, depth+1); ok {
					return !b, true
				}
			}
		case *ssa.BinOp:
			if x.Block() == j && (x.Op == token.LSS || x.Op == token.LEQ || x.Op == token.GTR || x.Op == token.GEQ) && (isJPhi(x.X) || isJPhi(x.Y)) {
				// ordered comparison of the merged value with a constant ("index or -1"): decided when the incoming
				// value is a constant, or has a lower bound by construction (a range index, a length) that settles it
				a, b := subst(x.X), subst(x.Y)
				op := x.Op
				kb, okb := constInt(b)
				if !okb {
					// constant on the left: mirror
					if ka, oka := constInt(a); oka {
						a, kb, okb = b, ka, true
						switch op {
						case token.LSS:
							op = token.GTR
						case token.LEQ:
							op = token.GEQ
						case token.GTR:
							op = token.LSS
						case token.GEQ:
							op = token.LEQ
						}
					}
				}
				if !okb {
					return false, false
				}
				if ka, oka := constInt(a); oka {
					switch op {
					case token.LSS:
						return ka < kb, true
					case token.LEQ:
						return ka <= kb, true
					case token.GTR:
						return ka > kb, true
					default:
						return ka >= kb, true
					}
				}
				if lb, okL := lowerBoundOf(a, 0); okL {
					switch op {
					case token.GEQ:
						if lb >= kb {
							return true, true
						}
					case token.GTR:
						if lb > kb {
							return true, true
						}
					case token.LSS:
						if lb >= kb {
							return false, true
						}
					case token.LEQ:
						if lb > kb {
							return false, true
						}
					}
				}
				return false, false
			}
			if x.Block() != j || (x.Op != token.EQL && x.Op != token.NEQ) {
				return false, false
			}
			if !isJPhi(x.X) && !isJPhi(x.Y) {
				return false, false // not a function of J's phis
			}
			a, b := subst(x.X), subst(x.Y)
			var eq bool
			switch {
			case isNilConst(a) || isNilConst(b):
				other := a
				if isNilConst(a) {
					other = b
				}
				ns := nilnessAt(other, p)
				if ns == 0 {
					ns = nilnessOnEdge(other, p, j)
				}
				if ns == 0 {
					return false, false
				}
				eq = ns == +1
			default:
				ka, oka := a.(*ssa.Const)
				kb, okb := b.(*ssa.Const)
				if !oka || !okb || ka.Value == nil || kb.Value == nil {
					return false, false
				}
				eq = constant.Compare(ka.Value, token.EQL, kb.Value)
			}
			return eq == (x.Op == token.EQL), true
		}
		return false, false
	}
	val, ok := eval(iff.Cond, 0)
	if !ok {
		return -1, false
	}
	if val {
		return 0, true
	}
	return 1, true
}

func isNot(v ssa.Value) bool {
	u, ok := v.(*ssa.UnOp)
	return ok && u.Op == token.NOT
}

// condKnownOnEdge: the boolean SSA value v (a branch condition, possibly negated) has a known truth value
// whenever control passes the edge p -> j, because a branch on the same value dominates p (or p itself
// branches on it and j is one of its two different successors).  Plain SSA dominance is used: the facts
// hold on every execution.
func condKnownOnEdge(v ssa.Value, p, j *ssa.BasicBlock) (bool, bool) {
	strip := func(c ssa.Value) (ssa.Value, bool) {
		pol := true
		for {
			u, ok := c.(*ssa.UnOp)
			if !ok || u.Op != token.NOT {
				return c, pol
			}
			c, pol = u.X, !pol
		}
	}
	base, pol := strip(v)
	if _, isC := base.(*ssa.Const); isC {
		return false, false
	}
	if _, isPhi := base.(*ssa.Phi); isPhi {
		return false, false // a merged flag is handled by the phi rules, per incoming edge
	}
	if iff, ok := p.Instrs[len(p.Instrs)-1].(*ssa.If); ok && len(p.Succs) == 2 && p.Succs[0] != p.Succs[1] {
		if b2, pol2 := strip(iff.Cond); b2 == base {
			taken := p.Succs[0] == j // the condition of p holds on this edge
			return (taken == pol2) == pol, true
		}
	}
	for b := p; b != nil; b = b.Idom() {
		if len(b.Preds) != 1 {
			continue
		}
		q := b.Preds[0]
		iff, ok := q.Instrs[len(q.Instrs)-1].(*ssa.If)
		if !ok || len(q.Succs) != 2 || q.Succs[0] == q.Succs[1] {
			continue
		}
		if b2, pol2 := strip(iff.Cond); b2 == base {
			taken := q.Succs[0] == b
			return (taken == pol2) == pol, true
		}
	}
	return false, false
}

// lowerBoundOf: a lower bound that an integer value has by construction: constants, lengths, unsigned
// conversions, sums with constants, and counters phi(c0, phi+k) with k >= 0 (monotone: never below c0).
func lowerBoundOf(v ssa.Value, depth int) (int64, bool) {
	if depth > 6 {
		return 0, false
	}
	if c, ok := constInt(v); ok {
		return c, true
	}
	switch x := v.(type) {
	case *ssa.Call:
		if isBuiltinCall(x, "len") || isBuiltinCall(x, "cap") {
			return 0, true
		}
	case *ssa.Convert:
		if _, signed, ok := intWidth(x.X.Type()); ok && !signed {
			if _, _, okT := intWidth(x.Type()); okT {
				// widening of an unsigned value (narrowing to a signed type of the same width could go negative)
				wf, _, _ := intWidth(x.X.Type())
				wt, st, _ := intWidth(x.Type())
				if wt > wf || !st {
					return 0, true
				}
			}
		}
		if _, _, ok := intWidth(x.X.Type()); ok {
			wf, _, _ := intWidth(x.X.Type())
			wt, _, _ := intWidth(x.Type())
			if wt >= wf {
				return lowerBoundOf(x.X, depth+1)
			}
		}
	case *ssa.BinOp:
		if x.Op == token.ADD {
			if k, ok := constInt(x.Y); ok {
				if lb, okL := lowerBoundOf(x.X, depth+1); okL {
					return lb + k, true
				}
			}
			if k, ok := constInt(x.X); ok {
				if lb, okL := lowerBoundOf(x.Y, depth+1); okL {
					return lb + k, true
				}
			}
		}
	case *ssa.Phi:
		have := false
		var lb int64
		for _, e := range x.Edges {
			if b, ok := e.(*ssa.BinOp); ok && b.Op == token.ADD && b.X == ssa.Value(x) {
				if k, isC := constInt(b.Y); isC && k >= 0 {
					continue // the counter's own increment
				}
			}
			if e == ssa.Value(x) {
				continue
			}
			l, ok := lowerBoundOf(e, depth+1)
			if !ok {
				return 0, false
			}
			if !have || l < lb {
				lb, have = l, true
			}
		}
		return lb, have
	}
	return 0, false
}

// nilnessAt: +1 nil, -1 non-nil, 0 unknown, for value v at the end of block p.
func nilnessAt(v ssa.Value, p *ssa.BasicBlock) int {
	if isNilConst(v) {
		return +1
	}
	switch x := v.(type) {
	case *ssa.MakeInterface, *ssa.Alloc, *ssa.MakeClosure, *ssa.Function, *ssa.Global:
		return -1
	case *ssa.UnOp:
		if x.Op == token.MUL {
			if g, ok := x.X.(*ssa.Global); ok && len(g.Name()) > 3 && g.Name()[:3] == "Err" {
				return -1
			}
		}
	case *ssa.Call:
		if isPkgFuncCall(x, "fmt", "Errorf") || isPkgFuncCall(x, "errors", "New") {
			return -1
		}
	}
	// a dominating nil test of exactly this value
	for x := p; x != nil; x = x.Idom() {
		if len(x.Preds) != 1 {
			continue
		}
		q := x.Preds[0]
		iff, ok := q.Instrs[len(q.Instrs)-1].(*ssa.If)
		if !ok || q.Succs[0] == q.Succs[1] {
			continue
		}
		pol := q.Succs[0] == x
		cond := iff.Cond
		for {
			if u, ok := cond.(*ssa.UnOp); ok && u.Op == token.NOT {
				pol = !pol
				cond = u.X
				continue
			}
			break
		}
		b, ok := cond.(*ssa.BinOp)
		if !ok || (b.Op != token.EQL && b.Op != token.NEQ) {
			continue
		}
		if !((b.X == v && isNilConst(b.Y)) || (b.Y == v && isNilConst(b.X))) {
			continue
		}
		if pol == (b.Op == token.EQL) {
			return +1
		}
		return -1
	}
	return 0
}

// reach: nodes reachable from the given start nodes without entering a node of `avoid`.
func (t *tcfg) reach(from []int, avoid map[int]bool) []bool {
	seen := make([]bool, len(t.nodes))
	var stack []int
	for _, f := range from {
		if !avoid[f] && !seen[f] {
			seen[f] = true
			stack = append(stack, f)
		}
	}
	for len(stack) > 0 {
		n := stack[len(stack)-1]
		stack = stack[:len(stack)-1]
		for _, s := range t.succ[n] {
			if !avoid[s] && !seen[s] {
				seen[s] = true
				stack = append(stack, s)
			}
		}
	}
	return seen
}

func (t *tcfg) computeDominance() {
	fn := t.fn
	t.dom = map[*ssa.BasicBlock]map[*ssa.BasicBlock]bool{}
	t.idom = map[*ssa.BasicBlock]*ssa.BasicBlock{}
	t.conds = map[*ssa.BasicBlock][]PathCond{}
	all := t.reach(t.roots, nil)
	live := func(b *ssa.BasicBlock) bool {
		for _, n := range t.nodeOf[b] {
			if all[n] {
				return true
			}
		}
		return false
	}
	for _, b := range fn.Blocks {
		t.dom[b] = map[*ssa.BasicBlock]bool{b: true}
	}
	// a dominates b  iff  no node of b is reachable once all nodes of a are removed
	for _, a := range fn.Blocks {
		if !live(a) {
			continue
		}
		avoid := map[int]bool{}
		for _, n := range t.nodeOf[a] {
			avoid[n] = true
		}
		r := t.reach(t.roots, avoid)
		for _, b := range fn.Blocks {
			if b == a || !live(b) {
				continue
			}
			hit := false
			for _, n := range t.nodeOf[b] {
				if r[n] {
					hit = true
				}
			}
			if !hit {
				t.dom[b][a] = true
			}
		}
	}
	for _, b := range fn.Blocks {
		if !live(b) {
			// dead on the split graph (cannot happen for whole blocks, kept for safety): SSA's answer
			for x := b.Idom(); x != nil; x = x.Idom() {
				t.dom[b][x] = true
			}
		}
		var best *ssa.BasicBlock
		for d := range t.dom[b] {
			if d == b {
				continue
			}
			if best == nil || len(t.dom[d]) > len(t.dom[best]) || (len(t.dom[d]) == len(t.dom[best]) && d.Index > best.Index) {
				best = d
			}
		}
		t.idom[b] = best
	}
	// branch conditions known when control is in x, one per dominating If d: d removed, x cannot be
	// reached from d's other arm, i.e. after the last visit of d every path to x took this arm.
	// Only the condition of the nearest such position is reported per block (callers walk the chain).
	for _, x := range fn.Blocks {
		if !live(x) {
			continue
		}
		for d := range t.dom[x] {
			if d == x {
				continue
			}
			iff, ok := d.Instrs[len(d.Instrs)-1].(*ssa.If)
			if !ok || d.Succs[0] == d.Succs[1] {
				continue
			}
			avoid := map[int]bool{}
			for _, n := range t.nodeOf[d] {
				avoid[n] = true
			}
			viaArm := [2]bool{}
			for arm := 0; arm < 2; arm++ {
				var starts []int
				for _, n := range t.nodeOf[d] {
					if !all[n] {
						continue
					}
					if t.nodes[n].arm >= 0 && t.nodes[n].arm != arm {
						continue
					}
					for _, s := range t.succ[n] {
						if t.nodes[s].blk == d.Succs[arm] {
							starts = append(starts, s)
						}
					}
				}
				r := t.reach(starts, avoid)
				for _, n := range t.nodeOf[x] {
					if r[n] {
						viaArm[arm] = true
					}
				}
			}
			switch {
			case viaArm[0] && !viaArm[1]:
				t.conds[x] = append(t.conds[x], PathCond{iff.Cond, true})
			case viaArm[1] && !viaArm[0]:
				t.conds[x] = append(t.conds[x], PathCond{iff.Cond, false})
			}
		}
	}
}

// blockDominates: a dominates b (reflexive), on the split graph when the function has dispatch blocks.
func blockDominates(a, b *ssa.BasicBlock) bool {
	if a == nil || b == nil || a.Parent() != b.Parent() {
		return false
	}
	if a == b {
		return true
	}
	t := threadedCFG(a.Parent())
	if !t.changed {
		return a.Dominates(b)
	}
	return t.dom[b][a]
}

// tIdomOf: immediate dominator (nil for roots).
func tIdomOf(b *ssa.BasicBlock) *ssa.BasicBlock {
	t := threadedCFG(b.Parent())
	if !t.changed {
		return b.Idom()
	}
	return t.idom[b]
}

// allEntryConds: every branch condition known to hold whenever control is in block x.
func allEntryConds(x *ssa.BasicBlock) []PathCond {
	t := threadedCFG(x.Parent())
	if t.changed {
		return t.conds[x]
	}
	var out []PathCond
	for b := x; b != nil; b = b.Idom() {
		if len(b.Preds) == 1 {
			p := b.Preds[0]
			if iff, ok := p.Instrs[len(p.Instrs)-1].(*ssa.If); ok && p.Succs[0] != p.Succs[1] {
				out = append(out, PathCond{iff.Cond, p.Succs[0] == b})
			}
		}
	}
	return out
}

// fullyThreaded: every incoming edge of the dispatch block b has a decided arm.
func fullyThreaded(b *ssa.BasicBlock) bool {
	t := threadedCFG(b.Parent())
	tg := t.target[b]
	if tg == nil {
		return false
	}
	for _, x := range tg {
		if x < 0 {
			return false
		}
	}
	return true
}

// canonPhi: a phi of a dispatch block whose every use lies in the region of one successor that only
// one incoming edge can lead to has, at all those uses, the value of that edge (the success result
// of a normalised helper after `if err != nil { return }`).  A use that stores the phi into a local
// cell inside the dispatch block counts through the cell's loads.  Returns v itself otherwise.
func canonPhi(v ssa.Value) ssa.Value {
	for n := 0; n < 4; n++ {
		ph, ok := v.(*ssa.Phi)
		if !ok {
			return v
		}
		r := canonPhi1(ph)
		if r == nil {
			return v
		}
		v = r
	}
	return v
}

var canonPhiMemo = map[*ssa.Phi]ssa.Value{}

func canonPhi1(ph *ssa.Phi) ssa.Value {
	if r, ok := canonPhiMemo[ph]; ok {
		return r
	}
	canonPhiMemo[ph] = nil
	if es := phiLiveEdges(ph); len(es) == 1 {
		canonPhiMemo[ph] = es[0]
		return es[0]
	}
	return nil
}

var liveEdgesMemo = map[*ssa.Phi][]ssa.Value{}

// phiLiveEdges: for a phi of a dispatch block all of whose uses lie in the region of one arm, the
// incoming values that can reach that arm (edges decided for the other arm are dead there).
// nil when the phi is not of that kind.
func phiLiveEdges(ph *ssa.Phi) []ssa.Value {
	if r, ok := liveEdgesMemo[ph]; ok {
		return r
	}
	liveEdgesMemo[ph] = nil
	j := ph.Block()
	if j == nil || j.Parent() == nil {
		return nil
	}
	t := threadedCFG(j.Parent())
	tg := t.target[j]
	if !t.changed || tg == nil {
		return nil
	}
	refs := ph.Referrers()
	if refs == nil {
		return nil
	}
	// the blocks in which the phi's value is observed
	var useBlocks []*ssa.BasicBlock
	for _, u := range *refs {
		if _, isDbg := u.(*ssa.DebugRef); isDbg {
			continue
		}
		if _, isPhi := u.(*ssa.Phi); isPhi {
			return nil
		}
		if u.Block() != j {
			useBlocks = append(useBlocks, u.Block())
			continue
		}
		switch x := u.(type) {
		case *ssa.BinOp, *ssa.UnOp, *ssa.If:
			// the dispatch condition itself
		case *ssa.Store:
			a, ok := x.Addr.(*ssa.Alloc)
			if !ok || x.Val != ssa.Value(ph) {
				return nil
			}
			// a private cell: stored only here, otherwise only loaded (whole or by field)
			for _, cu := range *a.Referrers() {
				switch y := cu.(type) {
				case *ssa.Store:
					if y != x {
						return nil
					}
				case *ssa.UnOp:
					useBlocks = append(useBlocks, y.Block())
				case *ssa.FieldAddr:
					for _, fu := range *y.Referrers() {
						if ld, ok := fu.(*ssa.UnOp); ok && ld.Op == token.MUL {
							useBlocks = append(useBlocks, ld.Block())
						} else if _, isDbg := fu.(*ssa.DebugRef); !isDbg {
							return nil
						}
					}
				case *ssa.DebugRef:
				default:
					return nil
				}
			}
		default:
			return nil
		}
	}
	if len(useBlocks) == 0 {
		return nil
	}
	theArm := -1
	for _, ub := range useBlocks {
		if ub == j {
			return nil
		}
		arm := -1
		for k, cand := range j.Succs {
			if len(cand.Preds) == 1 && cand.Preds[0] == j && blockDominates(cand, ub) {
				if arm >= 0 && arm != k {
					return nil
				}
				arm = k
			}
		}
		if arm < 0 || (theArm >= 0 && theArm != arm) {
			return nil
		}
		theArm = arm
	}
	var out []ssa.Value
	dead := 0
	for i := range j.Preds {
		if tg[i] < 0 || tg[i] == theArm {
			out = append(out, ph.Edges[i])
		} else {
			dead++
		}
	}
	if dead == 0 || len(out) == 0 {
		return nil
	}
	liveEdgesMemo[ph] = out
	return out
}

// phiValueIn: the value a dispatch-block phi has whenever control is in block b, when b lies in the
// region of one arm of the dispatch and exactly one incoming edge can lead to that arm (nil otherwise).
func phiValueIn(ph *ssa.Phi, b *ssa.BasicBlock) ssa.Value {
	j := ph.Block()
	if j == nil || b == nil || j.Parent() != b.Parent() || j == b {
		return nil
	}
	t := threadedCFG(j.Parent())
	tg := t.target[j]
	if !t.changed || tg == nil {
		return nil
	}
	arm := -1
	for k, cand := range j.Succs {
		if len(cand.Preds) == 1 && cand.Preds[0] == j && blockDominates(cand, b) {
			if arm >= 0 {
				return nil
			}
			arm = k
		}
	}
	if arm < 0 {
		return nil
	}
	var live ssa.Value
	n := 0
	for i := range j.Preds {
		if tg[i] < 0 || tg[i] == arm {
			live = ph.Edges[i]
			n++
		}
	}
	if n != 1 {
		return nil
	}
	return live
}

// nilnessOnEdge: what p's own branch says about v on the edge p -> j (p ends in `if v == nil` and j is
// reached over exactly one of its arms).
func nilnessOnEdge(v ssa.Value, p, j *ssa.BasicBlock) int {
	iff, ok := p.Instrs[len(p.Instrs)-1].(*ssa.If)
	if !ok || p.Succs[0] == p.Succs[1] {
		return 0
	}
	arm := -1
	for k, s := range p.Succs {
		if s == j {
			arm = k
		}
	}
	if arm < 0 {
		return 0
	}
	pol := arm == 0
	cond := iff.Cond
	for {
		if u, ok := cond.(*ssa.UnOp); ok && u.Op == token.NOT {
			pol = !pol
			cond = u.X
			continue
		}
		break
	}
	b, ok := cond.(*ssa.BinOp)
	if !ok || (b.Op != token.EQL && b.Op != token.NEQ) {
		return 0
	}
	if !((b.X == v && isNilConst(b.Y)) || (b.Y == v && isNilConst(b.X))) {
		return 0
	}
	if pol == (b.Op == token.EQL) {
		return +1
	}
	return -1
}
