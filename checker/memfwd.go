package main

import (
	"go/token"
	"go/types"

	"golang.org/x/tools/go/ssa"
)

// Store->load forwarding for non-escaping local allocations (go/ssa keeps
// structs whose fields are addressed as Allocs; e.g. `attr := RawAttribute{..}`
// in Decode or `event := Event{..}` in Agent.Collect).

// localAllocOK: the alloc's address is used only by FieldAddr (whose uses are
// only stores-to/loads), whole loads and whole stores-to.
func localAllocOK(a *ssa.Alloc) bool {
	refs := a.Referrers()
	if refs == nil {
		return false
	}
	for _, r := range *refs {
		switch x := r.(type) {
		case *ssa.FieldAddr:
			fr := x.Referrers()
			if fr == nil {
				return false
			}
			for _, u := range *fr {
				switch y := u.(type) {
				case *ssa.Store:
					if y.Addr != x {
						return false
					}
				case *ssa.UnOp:
					if y.Op != token.MUL {
						return false
					}
				case *ssa.DebugRef:
				case *ssa.IndexAddr:
					// &a.f[i] on an array field: element access; treat array fields as opaque but local
					if !indexAddrLocalOK(y) {
						return false
					}
				case *ssa.Slice:
					// slicing an array field (m.TransactionID[:]) - alias escapes
					return false
				default:
					return false
				}
			}
		case *ssa.Store:
			if x.Addr != a {
				return false // address stored somewhere
			}
		case *ssa.UnOp:
			if x.Op != token.MUL {
				return false
			}
		case *ssa.DebugRef:
		default:
			return false
		}
	}
	return true
}

func indexAddrLocalOK(ia *ssa.IndexAddr) bool {
	fr := ia.Referrers()
	if fr == nil {
		return false
	}
	for _, u := range *fr {
		switch y := u.(type) {
		case *ssa.Store:
			if y.Addr != ia {
				return false
			}
		case *ssa.UnOp:
			if y.Op != token.MUL {
				return false
			}
		case *ssa.DebugRef:
		default:
			return false
		}
	}
	return true
}

// reachableFrom: can control flow go from instruction a (after it) to instruction b?
func reachableFrom(a, b ssa.Instruction) bool { return reachableAvoid(a, b, nil) }

// reachableAvoid: is there a path from just after a to b that does not execute avoid?
func reachableAvoid(a, b, avoid ssa.Instruction) bool {
	type pt struct {
		blk *ssa.BasicBlock
		i   int
	}
	seen := map[*ssa.BasicBlock]bool{}
	stack := []pt{{a.Block(), indexInBlock(a) + 1}}
	for len(stack) > 0 {
		p := stack[len(stack)-1]
		stack = stack[:len(stack)-1]
		if p.i == 0 {
			if seen[p.blk] {
				continue
			}
			seen[p.blk] = true
		}
		blocked := false
		for i := p.i; i < len(p.blk.Instrs); i++ {
			in := p.blk.Instrs[i]
			if in == b {
				return true
			}
			if avoid != nil && in == avoid {
				blocked = true
				break
			}
		}
		if blocked {
			continue
		}
		for _, s := range p.blk.Succs {
			stack = append(stack, pt{s, 0})
		}
	}
	return false
}

// localFieldSource finds the store that defines field fld of local alloc a at `at`.
// It returns (value, zero, whole): whole means the value is a whole-struct value whose field fld is meant.
func localFieldSource(a *ssa.Alloc, fld int, at ssa.Instruction) (val ssa.Value, zero bool, whole bool) {
	type cand struct {
		st    *ssa.Store
		whole bool
	}
	var cands []cand
	refs := a.Referrers()
	if refs == nil {
		return nil, false, false
	}
	for _, r := range *refs {
		switch x := r.(type) {
		case *ssa.FieldAddr:
			if x.Field != fld {
				continue
			}
			for _, u := range *x.Referrers() {
				if st, ok := u.(*ssa.Store); ok && st.Addr == x {
					cands = append(cands, cand{st, false})
				}
			}
		case *ssa.Store:
			if x.Addr == a {
				cands = append(cands, cand{x, true})
			}
		}
	}
	var best *cand
	for i := range cands {
		c := &cands[i]
		if !instrDominates(c.st, at) {
			continue
		}
		ok := true
		for j := range cands {
			o := &cands[j]
			if o == c {
				continue
			}
			if reachableFrom(c.st, o.st) && reachableAvoid(o.st, at, c.st) {
				ok = false
				break
			}
		}
		if ok {
			best = c
			break
		}
	}
	if best == nil {
		for _, c := range cands {
			if reachableFrom(c.st, at) {
				return nil, false, false
			}
		}
		return nil, true, false // never stored before `at`: zero value
	}
	return best.st.Val, false, best.whole
}

// localFieldValue returns the value that field `fld` (index) of local alloc `a` holds
// at instruction `at`, or nil when unknown. zero reports a known zero value.
func localFieldValue(a *ssa.Alloc, fld int, at ssa.Instruction, depth int) (val ssa.Value, zero bool) {
	if depth > 6 || !localAllocOK(a) {
		return nil, false
	}
	v, z, whole := localFieldSource(a, fld, at)
	if z {
		return nil, true
	}
	if v == nil {
		return nil, false
	}
	if !whole {
		return v, false
	}
	switch x := v.(type) {
	case *ssa.UnOp:
		if x.Op == token.MUL {
			if b, ok := x.X.(*ssa.Alloc); ok {
				return localFieldValue(b, fld, x, depth+1)
			}
		}
	case *ssa.Const:
		return nil, true
	}
	return nil, false
}

// forwardLoad resolves a load instruction of a local struct field or local scalar alloc.
func forwardLoad(ld *ssa.UnOp) ssa.Value {
	if ld.Op != token.MUL {
		return nil
	}
	switch ad := ld.X.(type) {
	case *ssa.FieldAddr:
		a, ok := ad.X.(*ssa.Alloc)
		if !ok {
			return nil
		}
		v, _ := localFieldValue(a, ad.Field, ld, 0)
		return v
	}
	return nil
}

// structArgField resolves field `name` of a struct-typed call argument that is a load of a local alloc.
func structArgField(arg ssa.Value, name string) (val ssa.Value, zero bool, ok bool) {
	ld, isLoad := arg.(*ssa.UnOp)
	if !isLoad || ld.Op != token.MUL {
		return nil, false, false
	}
	a, isAlloc := ld.X.(*ssa.Alloc)
	if !isAlloc {
		return nil, false, false
	}
	pt, _ := a.Type().Underlying().(*types.Pointer)
	if pt == nil {
		return nil, false, false
	}
	st, _ := pt.Elem().Underlying().(*types.Struct)
	if st == nil {
		return nil, false, false
	}
	for i := 0; i < st.NumFields(); i++ {
		if st.Field(i).Name() == name {
			v, z := localFieldValue(a, i, ld, 0)
			if v == nil && !z {
				return nil, false, false
			}
			return v, z, true
		}
	}
	return nil, false, false
}

// scalarAllocOK: alloc used only by whole loads and stores-to (e.g. a result spilled because of defer).
func scalarAllocOK(a *ssa.Alloc) bool {
	refs := a.Referrers()
	if refs == nil {
		return false
	}
	for _, r := range *refs {
		switch x := r.(type) {
		case *ssa.Store:
			if x.Addr != ssa.Value(a) {
				return false
			}
		case *ssa.UnOp:
			if x.Op != token.MUL {
				return false
			}
		case *ssa.DebugRef:
		default:
			return false
		}
	}
	return true
}

// deref resolves a load from a non-escaping local scalar alloc to the stored value when a single
// store dominates the load and no other store can intervene. Otherwise returns v unchanged.
func deref(v ssa.Value) ssa.Value {
	for i := 0; i < 6; i++ {
		v = canonPhi(v)
		ld, ok := v.(*ssa.UnOp)
		if !ok || ld.Op != token.MUL {
			return v
		}
		a, ok := ld.X.(*ssa.Alloc)
		if !ok || !scalarAllocOK(a) {
			return v
		}
		var stores []*ssa.Store
		for _, r := range *a.Referrers() {
			if st, ok := r.(*ssa.Store); ok {
				stores = append(stores, st)
			}
		}
		var best *ssa.Store
		for _, c := range stores {
			if !instrDominates(c, ld) {
				continue
			}
			ok := true
			for _, o := range stores {
				if o != c && reachableFrom(c, o) && reachableAvoid(o, ld, c) {
					ok = false
				}
			}
			if ok {
				best = c
				break
			}
		}
		if best == nil {
			return v
		}
		v = best.Val
	}
	return v
}

// reachingFieldStore: for a load of field f through a pointer (heap object), the unique store to the
// same address expression that dominates the load with no possible intervening write to field f.
// Calls kill the field only when a module callee (static, or any module implementer of the invoked
// interface method) may store to f; code outside the module cannot name fields of unexported types,
// and for exported types an external call is a kill.
func reachingFieldStoreE(p *Prog, ld *ssa.UnOp, entryOnly *bool) *ssa.Store {
	fa, ok := ld.X.(*ssa.FieldAddr)
	if !ok {
		return nil
	}
	fv := fieldOfAddr(fa)
	if fv == nil {
		return nil
	}
	k := newKeyer()
	k.pureFieldLoads = true
	addr := k.Key(fa)
	fn := ld.Parent()
	var cands []*ssa.Store
	var kills []ssa.Instruction
	ownerExported := true
	if pt, ok := fa.X.Type().Underlying().(*types.Pointer); ok {
		if n, ok := pt.Elem().(*types.Named); ok {
			ownerExported = n.Obj().Exported()
		}
	}
	eachInstr(fn, func(b *ssa.BasicBlock, i int, in ssa.Instruction) {
		switch x := in.(type) {
		case *ssa.Store:
			if sa, ok := x.Addr.(*ssa.FieldAddr); ok && fieldOfAddr(sa) == fv {
				if k.Key(sa) == addr {
					cands = append(cands, x)
				} else {
					kills = append(kills, x)
				}
			}
		case ssa.CallInstruction:
			if _, isDefer := in.(*ssa.Defer); isDefer {
				return
			}
			cc := x.Common()
			if _, isB := cc.Value.(*ssa.Builtin); isB {
				return
			}
			killed := false
			resolved := false
			for _, cs := range p.CG().Sites[fn] {
				if cs.Instr != x {
					continue
				}
				resolved = true
				for _, g := range cs.Callees {
					mod, unknown := modFields(p, g, map[*ssa.Function]bool{})
					if mod[fv] || (unknown && ownerExported) {
						killed = true
					}
				}
				if (cs.Dynamic || cs.ExtIface != "" || len(cs.External) > 0) && ownerExported {
					for _, e := range cs.External {
						if !extAllowed(e) {
							killed = true
						}
					}
					if cs.Dynamic || cs.ExtIface != "" {
						killed = true
					}
				}
			}
			if !resolved && ownerExported {
				killed = true
			}
			if killed {
				kills = append(kills, in)
			}
		}
	})
	var best *ssa.Store
	for _, c := range cands {
		if !instrDominates(c, ld) {
			continue
		}
		ok := true
		for _, o := range cands {
			if o != c && reachableFrom(c, o) && reachableAvoid(o, ld, c) {
				ok = false
			}
		}
		for _, kl := range kills {
			if reachableFrom(c, kl) && reachableAvoid(kl, ld, c) {
				ok = false
			}
		}
		if ok {
			best = c
		}
	}
	if best == nil && entryOnly != nil {
		// is the load still the value the field had on entry? no candidate store or kill may precede it
		*entryOnly = true
		for _, c := range cands {
			if reachesBefore(c, ld) {
				*entryOnly = false
			}
		}
		for _, kl := range kills {
			if reachesBefore(kl, ld) {
				*entryOnly = false
			}
		}
	}
	return best
}

// reachesBefore: instruction a can execute before b on some path from the entry.
func reachesBefore(a, b ssa.Instruction) bool {
	if a == b {
		return false
	}
	return reachableFrom(a, b)
}

func reachingFieldStore(p *Prog, ld *ssa.UnOp) *ssa.Store { return reachingFieldStoreE(p, ld, nil) }

// fieldEntryValue: the load reads the value the field had when the function was entered.
func fieldEntryValue(p *Prog, ld *ssa.UnOp) bool {
	e := false
	st := reachingFieldStoreE(p, ld, &e)
	return st == nil && e
}

// reachingGrow: for a load of a slice field F of a heap object (m.Raw), a call of the module's
// grow-like method on the same object that dominates the load such that between the call and the load
// the field can only have been changed by that very method again (grow never shrinks: rule C03.grow
// proves len >= n at its returns, and its only stores extend the slice). Returns the n of that call:
// len(load) >= n.
func reachingGrow(p *Prog, ld *ssa.UnOp) ssa.Value {
	fa, ok := ld.X.(*ssa.FieldAddr)
	if !ok {
		return nil
	}
	fv := fieldOfAddr(fa)
	grow := p.Meth("Message", "grow")
	if fv == nil || grow == nil || len(grow.Params) != 2 {
		return nil
	}
	gm, _ := modFields(p, grow, map[*ssa.Function]bool{})
	if !gm[fv] {
		return nil
	}
	fn := ld.Parent()
	// the only function that stores the field, among everything a callee can reach, is grow itself
	onlyGrowStores := func(g *ssa.Function) bool {
		seen := map[*ssa.Function]bool{}
		okAll := true
		var walk func(f *ssa.Function)
		walk = func(f *ssa.Function) {
			if seen[f] || !okAll {
				return
			}
			seen[f] = true
			if f == grow {
				return
			}
			if f.Blocks == nil {
				return
			}
			eachInstr(f, func(b *ssa.BasicBlock, i int, in ssa.Instruction) {
				if st, isS := in.(*ssa.Store); isS {
					if sa, isFA := st.Addr.(*ssa.FieldAddr); isFA && fieldOfAddr(sa) == fv {
						okAll = false
					}
				}
			})
			for _, cs := range p.CG().Sites[f] {
				if cs.Dynamic || cs.ExtIface != "" {
					if m, u := modFields(p, f, map[*ssa.Function]bool{}); m[fv] || u {
						// conservative: an unknown callee that may touch the field
						okAll = false
					}
				}
				for _, c := range cs.Callees {
					if p.isModuleFn(c) {
						walk(c)
					}
				}
			}
		}
		walk(g)
		return okAll
	}
	k := newKeyer()
	k.pureFieldLoads = true
	base := k.Key(fa.X)
	var cands []*ssa.Call
	var kills []ssa.Instruction
	eachInstr(fn, func(b *ssa.BasicBlock, i int, in ssa.Instruction) {
		switch x := in.(type) {
		case *ssa.Store:
			if sa, isFA := x.Addr.(*ssa.FieldAddr); isFA && fieldOfAddr(sa) == fv {
				kills = append(kills, x)
			}
		case *ssa.Call:
			if _, isB := x.Call.Value.(*ssa.Builtin); isB {
				return
			}
			if callsFn(x, grow) && len(x.Call.Args) == 2 && k.Key(x.Call.Args[0]) == base {
				cands = append(cands, x)
				return
			}
			killed := false
			resolved := false
			for _, cs := range p.CG().Sites[fn] {
				if cs.Instr != ssa.CallInstruction(x) {
					continue
				}
				resolved = true
				if cs.Dynamic {
					killed = true
				}
				for _, g := range cs.Callees {
					m, u := modFields(p, g, map[*ssa.Function]bool{})
					if (m[fv] || u) && !onlyGrowStores(g) {
						killed = true
					}
				}
			}
			if !resolved {
				killed = true
			}
			if killed {
				kills = append(kills, x)
			}
		}
	})
	for _, c := range cands {
		if !instrDominates(c, ld) {
			continue
		}
		ok := true
		for _, kl := range kills {
			if reachableFrom(c, kl) && reachableAvoid(kl, ld, c) {
				ok = false
			}
		}
		if ok {
			return c.Call.Args[1]
		}
	}
	return nil
}
