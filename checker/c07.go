package main

import (
	"fmt"
	"go/token"
	"go/types"
	"sort"
	"strings"

	"golang.org/x/tools/go/ssa"
)

func init() {
	register("C07", "other", runC07)
	d := registry["C07"]
	d.Post = postTags("C07")
	registry["C07"] = d
}

// decoded-message invariants and destination-buffer idioms (see DESIGN.md, justified-exception tables).
func justifiedG() *justTable {
	return &justTable{entries: []*justifiedEntry{
		{Rule: "", Fn: "(*MappedAddress).GetFromAs", Construct: "MappedAddress.IP|hi <= len", Reason: "destination buffer: both branches before this point establish len(a.IP) >= ipLen (skip: len >= ipLen; grow loop exits when len >= ipLen); re-slice within capacity of caller-owned storage, not message bytes"},
		{Rule: "", Fn: "(*XORMappedAddress).GetFromAs", Construct: "XORMappedAddress.IP|hi <= len", Reason: "destination buffer, same idiom as MappedAddress.GetFromAs"},
		{Rule: "", Fn: "(*Message).WriteLength", Construct: "Message.Raw|hi <= len", Reason: "write side: grow(4) on the line before ensures len(Raw) >= 4 (rule C03.grow)"},
		{Rule: "", Fn: "(*Message).grow", Construct: "Message.Raw|hi <= len", Reason: "write side: re-slice guarded by cap(Raw) >= n extends the message's own buffer within its capacity"},
		{Rule: "", Fn: "(FingerprintAttr).Check", Construct: "Message.Raw|0 <= hi", Reason: "decoded-message invariant: a decoded message that contains a FINGERPRINT attribute with a 4-byte value (CheckSize passed) has len(Raw) >= 20+8"},
		{Rule: "", Fn: "(MessageIntegrity).Check", Construct: "Message.Raw|hi <= len", Reason: "decoded-message invariant: Length = len(Raw)-20 and the message contains a MESSAGE-INTEGRITY TLV, so 20+Length'-24 lies within Raw; for a non-20-byte MAC the span is still inside Raw because Length' >= 4+len(MAC) (documented limit: not proved here)"},
	}}
}

func (t *justTable) forRule(rule string) *justTable {
	o := &justTable{}
	for _, e := range t.entries {
		c := *e
		c.Rule = rule
		o.entries = append(o.entries, &c)
	}
	return o
}

func messageFields(p *Prog) map[*types.Var]bool {
	out := map[*types.Var]bool{}
	n := p.Named("Message")
	if n == nil {
		return out
	}
	st := n.Underlying().(*types.Struct)
	for i := 0; i < st.NumFields(); i++ {
		out[st.Field(i)] = true
	}
	return out
}

// writeSide: functions of the setter closure that mutate the message by design.
func writeSideSet(p *Prog, cl *closures) map[*ssa.Function]bool {
	out := map[*ssa.Function]bool{}
	for _, n := range []string{"Add", "Build", "Reset", "Encode", "WriteHeader", "WriteLength", "WriteType", "WriteTransactionID", "WriteAttributes", "SetType", "NewTransactionID", "grow", "Decode", "Write", "UnmarshalBinary", "GobDecode", "ReadFrom", "CloneTo"} {
		if f := p.Meth("Message", n); f != nil {
			out[f] = true
		}
	}
	for _, f := range cl.Setters {
		out[f] = true
	}
	return out
}

func runC07(r *Run) {
	p := r.P
	r.Res.Explanation = "static rules over the getter/checker closure G in every build configuration: bounds obligations against len (PROVE, with nil-return summaries of CheckSize/CheckOverflow), locality of the Message fields a getter may load, no store to message state except verified save/restore pairs, restore of Length and header on every path of MessageIntegrity.Check, agreement of the release and debug variants of the check helpers, panic constructs"
	r.NotDecided("that the values returned are the right ones (C06)", "the two decoded-message invariants and two destination-buffer idioms listed as justified entries")
	r.Assume("EXT: binary.BigEndian.UintN(b) needs len(b) >= N/8", "EXT: xor.XorBytes(dst,a,b) needs len(dst) >= min(len(a),len(b))", "EXT: hash.Hash.Sum(b) appends; hash.Hash.Write never returns an error", "decoded-message invariant for FingerprintAttr.Check and MessageIntegrity.Check spans")
	cl := p.buildClosures()
	an := r.Rule("C07.anchors", "getter, checker and lookup entry points resolve", 20)
	for _, m := range cl.missing {
		an.Fail(m, "anchor not found")
	}
	for _, f := range cl.GEntries {
		an.Instance(fnName(f), false, nil)
	}
	an.Done()
	sums := map[*ssa.Function]*IntSummary{}
	ws := writeSideSet(p, cl)
	mf := messageFields(p)

	// ---- bounds
	jt := justifiedG().forRule("C07.bounds")
	b := r.Rule("C07.bounds", "every index, slice, fixed-width accessor and XorBytes in the getter/checker closure is within len of its operand (never relies on spare capacity)", 60)
	runBounds(r, b, cl.G, jt, sums)
	for _, e := range jt.entries {
		if !e.used {
			// an exemption that is no longer needed (the site moved or is now proved) suppresses nothing; recorded only
			b.Instance("unused justified entry "+e.Fn+" "+e.Construct, false, map[string]string{"unused_justified_entry": e.Fn + " " + e.Construct})
		}
	}
	b.Done()

	// ---- locality
	loc := r.Rule("C07.local", "a typed getter loads from the Message only its own attribute (through Get) and, for XOR types, the transaction ID: no load of Raw, Length, Type or the attribute list", 10)
	lookup := map[*ssa.Function]bool{}
	for _, n := range []string{"Get", "Contains"} {
		if f := p.Meth("Message", n); f != nil {
			lookup[f] = true
		}
	}
	if f := p.Meth("Attributes", "Get"); f != nil {
		lookup[f] = true
	}
	for _, g := range cl.Getters {
		fns := p.CG().Closure([]*ssa.Function{g}, func(f *ssa.Function) bool { return p.isLibFn(f) && !lookup[f] })
		for _, fn := range fns {
			var flds []*types.Var
			for fv := range mf {
				flds = append(flds, fv)
			}
			sort.Slice(flds, func(i, j int) bool { return flds[i].Name() < flds[j].Name() })
			for _, fv := range flds {
				for _, a := range fieldAccesses(fn, fv) {
					key := fmt.Sprintf("%s|%s|%s", fnName(fn), fv.Name(), a.Kind)
					loc.Instance(key, true, map[string]string{"getter": fnName(g), "in": fnName(fn), "access": a.Kind + " of Message." + fv.Name()})
					if fv.Name() == "TransactionID" && a.Kind != "store" && a.Kind != "addr" {
						continue
					}
					loc.Violation(fn, instrPos(a.Instr), a.Kind+" of Message."+fv.Name(), "a getter's result must depend only on its own attribute value (and the transaction ID for XOR types)")
				}
			}
			loc.Instance(fnName(g)+"|"+fnName(fn), false, nil)
		}
	}
	loc.Done()

	// ---- read-only / restore
	ro := r.Rule("C07.readonly", "no function of the getter/checker closure stores to a Message field, writes message bytes or calls a write-side function, except verified save/restore pairs (ForEach: Attributes; MessageIntegrity.Check: Length + header bytes)", 2)
	rs := r.Rule("C07.restore", "the value loaded from the field before the first store is stored back on every path to every return, and for Length the header bytes are rewritten after the restoring store", 2)
	lengthF := FieldVar(cl.Message, "Length")
	for _, fn := range cl.G {
		if ws[fn] || !p.isLibFn(fn) || (fn.Pkg != p.Stun && fn.Parent() == nil) {
			continue
		}
		if fn.Parent() != nil {
			// anonymous function: its stores to Message fields must be the restoring half of the parent's save/restore
			for fv := range mf {
				for _, a := range fieldAccesses(fn, fv) {
					if a.Kind != "store" && a.Kind != "addr" {
						continue
					}
					ok := false
					sr := newSaveRestore(p, fn.Parent(), fv)
					eachInstr(fn.Parent(), func(bb *ssa.BasicBlock, i int, in ssa.Instruction) {
						if d, isD := in.(*ssa.Defer); isD {
							callee := d.Call.Value
							if mc, isMC := callee.(*ssa.MakeClosure); isMC {
								callee = mc.Fn
							}
							if callee == ssa.Value(fn) && sr.deferRestores(d) {
								ok = true
							}
						}
					})
					ro.Instance(fnName(fn)+"|"+fv.Name(), true, nil)
					if !ok {
						ro.Violation(fn, instrPos(a.Instr), "store to Message."+fv.Name()+" in closure", "a closure in the getter/checker closure changes the message and is not the deferred restore of a saved value")
					}
				}
			}
			continue
		}
		restoring := map[*types.Var]bool{}
		var flds []*types.Var
		for fv := range mf {
			flds = append(flds, fv)
		}
		sort.Slice(flds, func(i, j int) bool { return flds[i].Name() < flds[j].Name() })
		for _, fv := range flds {
			var stores []FieldAccess
			for _, a := range fieldAccesses(fn, fv) {
				if a.Kind == "store" || a.Kind == "addr" {
					stores = append(stores, a)
				}
			}
			if len(stores) == 0 {
				continue
			}
			ro.Instance(fnName(fn)+"|"+fv.Name(), true, map[string]string{"fn": fnName(fn), "stores_to": "Message." + fv.Name()})
			sr := newSaveRestore(p, fn, fv)
			if len(sr.saved) == 0 {
				ro.Violation(fn, instrPos(stores[0].Instr), "store to Message."+fv.Name(), "a getter/checker changes the message without having saved the previous value")
				continue
			}
			restoring[fv] = true
			viol, addDirty := sr.run(fv == lengthF)
			rs.Instance(fnName(fn)+"|"+fv.Name(), true, map[string]interface{}{"fn": fnName(fn), "field": fv.Name(), "saved_loads": len(sr.saved), "stores": len(sr.stores)})
			for _, v := range viol {
				what := "field not restored"
				if v.State&srDirty == 0 {
					what = "header bytes not rewritten after the restore"
				}
				rs.ViolationPath(fn, instrPos(v.Ret), what+" (Message."+fv.Name()+")", "the message is left modified on this return: length/attribute list differ from before the call", v.Witness)
			}
			for _, in := range addDirty {
				rs.Violation(fn, instrPos(in), "mutator called while "+fv.Name()+" is modified", "a coherent mutator runs on a temporarily modified field")
			}
		}
		// calls to write-side functions and byte writes
		eachInstr(fn, func(bb *ssa.BasicBlock, i int, in ssa.Instruction) {
			if sc := staticCallee(in); sc != nil && ws[sc] {
				key := fnName(fn) + "|call " + sc.Name()
				ro.Instance(key, true, map[string]string{"fn": fnName(fn), "calls_write_side": fnName(sc)})
				if sc.Name() == "WriteLength" && restoring[lengthF] {
					return
				}
				ro.Violation(fn, instrPos(in), "call "+fnName(sc), "a getter/checker calls a write-side function: the message is not the same after the call")
			}
			if dst := byteWriteDst(in); dst != nil && messageDerived(dst, 0) {
				// zero-length view at the end of Raw (HMAC scratch) is outside the visible bytes
				if isSpareCapacityView(dst) {
					return
				}
				ro.Instance(fnName(fn)+"|bytewrite", true, nil)
				ro.Violation(fn, instrPos(in), "write into "+exprDepth(dst, 0), "message bytes are overwritten by a getter/checker")
			}
			// a digest summed into a view of the message: Sum appends behind the view's length, so only the
			// zero-length view at the very end of Raw keeps the visible bytes untouched
			if c, ok := in.(*ssa.Call); ok {
				var scratch []ssa.Value
				if c.Call.IsInvoke() && c.Call.Method.Name() == "Sum" && len(c.Call.Args) == 1 {
					scratch = append(scratch, c.Call.Args[0])
				} else if sc := c.Call.StaticCallee(); sc != nil && p.isLibFn(sc) {
					for _, i := range sumScratchParams(p, sc, map[*ssa.Function]bool{}) {
						if i < len(c.Call.Args) {
							scratch = append(scratch, c.Call.Args[i])
						}
					}
				}
				for _, sv := range scratch {
					if isNilConst(sv) || !messageDerived(sv, 0) {
						continue
					}
					if _, isParam := sliceRoot(sv).(*ssa.Parameter); isParam {
						continue // a helper's own parameter: judged at the call sites
					}
					ro.Instance(fnName(fn)+"|sumscratch", true, nil)
					if !isSpareCapacityView(sv) {
						ro.Violation(fn, instrPos(in), "digest summed into "+exprDepth(sv, 0), "the digest is appended behind a view that ends inside the buffer: when bytes follow the message in Raw (Decode keeps them) the checker overwrites up to 20 visible bytes")
					}
				}
			}
		})
	}
	ro.Done()
	rs.Done()

	// ---- the integrity check's verdict depends on the covered span only (shared with C04.span)
	r.Borrow("C04", map[string]string{"C04.span": "C07.span"})
	// the integrity check's verdict depends on the key's bytes at the time of the call only: the HMAC implementation
	// neither writes nor retains the caller's key (shared with C04/C18)
	r.Borrow("C04", map[string]string{"C04.key": "C07.key"})

	// ---- fresh: a reused destination carries nothing of its previous content
	fr := r.Rule("C07.fresh", "on every path of a typed getter with a pointer receiver that reports success, every field of the destination (or the destination itself) has been assigned, directly or by the getter it delegates to: the result is a function of the message only, not of what the destination held before", 8)
	checkFresh(r, fr, cl)
	fr.Done()

	// ---- a destination written in place never views the message
	ad := r.Rule("C07.aliasdest", "a destination slice field that a typed getter writes in place (element stores, copy, XorBytes, append) is never assigned a view of the message's bytes: a later call with the same destination cannot write into a message", 2)
	checkAliasDest(r, ad, cl, p.Meth("Message", "Get"))
	ad.Done()

	// ---- the looked-up value is used only where the lookup succeeded
	lk := r.Rule("C07.lookup", "in the getter/checker closure, what Message.Get returned as the value is used only on paths on which the error it returned is known nil: a getter or checker does not go on with the nil value of a missing attribute (and fail with another error, or slice the message with lengths computed for an attribute that is not there)", 6)
	if getM := p.Meth("Message", "Get"); getM != nil {
		for _, fn := range cl.G {
			if fn.Blocks == nil || fn == getM {
				continue
			}
			eachInstr(fn, func(_ *ssa.BasicBlock, _ int, in ssa.Instruction) {
				gc, ok := in.(*ssa.Call)
				if !ok || !callsFn(gc, getM) {
					return
				}
				var valE, errE ssa.Value
				for _, u := range *gc.Referrers() {
					if e, isE := u.(*ssa.Extract); isE {
						if e.Index == 0 {
							valE = e
						} else {
							errE = e
						}
					}
				}
				if valE == nil {
					return
				}
				r.Analysed(fn)
				lk.Instance(fnName(fn)+"|Get", true, nil)
				if errE == nil {
					lk.Violation(fn, instrPos(gc), "the error of Get is dropped", "the value is used whether or not the attribute was found")
					return
				}
				rep := false
				q := &PathQuery{P: p, Fn: fn, From: gc}
				q.Step = func(in2 ssa.Instruction, deferred bool, st uint64, c *PathCtx) (uint64, bool) {
					if rep {
						return st, true
					}
					if _, isDbg := in2.(*ssa.DebugRef); isDbg {
						return st, false
					}
					if in2 == valE.(ssa.Instruction) {
						return st, false
					}
					var ops []*ssa.Value
					for _, o := range in2.Operands(ops) {
						if o != nil && *o == valE && c.NilState(errE) != +1 {
							if _, isPhi := in2.(*ssa.Phi); isPhi {
								continue // merged with other values: the use of the merge decides
							}
							rep = true
							lk.ViolationPath(fn, instrPos(in2), "value of Get used without its error known nil", "on this path the lookup may have failed: the nil value goes on into the size checks and slices computed for an attribute that is not there (another error than not-found at best, an out-of-range slice of the message at worst)", c.Witness(fn, in2))
						}
					}
					return st, false
				}
				q.Run()
			})
		}
	} else {
		lk.Fail("Message.Get", "not found")
	}
	lk.Done()

	// ---- tags: nil-return conditions of the check helpers (compared across configurations in Post)
	tg := r.Rule("C07.tags", "CheckSize, CheckOverflow, checkHMAC and checkFingerprint return nil exactly under their reference condition in this build configuration (the parent compares release and debug)", 4)
	r.Res.Extra = map[string]interface{}{"nilconds": checkHelperConds(r, tg)}
	tg.Done()

	// ---- nopanic
	np := r.Rule("C07.nopanic", "no explicit panic, unchecked type assertion or channel operation in the getter/checker closure, except the reviewed internal/hmac and writeOrPanic sites", 1)
	var scope []*ssa.Function
	for _, fn := range cl.G {
		scope = append(scope, fn)
	}
	checkNoPanic(r, np, scope, func(fn *ssa.Function, ps panicSite) string {
		if fn.Pkg == p.Hmac || (fn.Parent() != nil && fn.Parent().Pkg == p.Hmac) {
			return "internal/hmac: assertions guarded by the marshaled typestate and pool typing (rules C18.marshaled, C18.pool)"
		}
		if pn, ok := ps.In.(*ssa.Panic); ok {
			// panic(err) where err is the error of an io.Writer/hash.Hash Write call
			if mi, ok := pn.X.(*ssa.MakeInterface); ok {
				if e, ok := mi.X.(*ssa.Extract); ok {
					if c, ok := e.Tuple.(*ssa.Call); ok && c.Call.IsInvoke() && c.Call.Method.Name() == "Write" {
						return "EXT: hash.Hash.Write never returns an error"
					}
				}
			}
			if e, ok := pn.X.(*ssa.Extract); ok {
				if c, ok := e.Tuple.(*ssa.Call); ok && c.Call.IsInvoke() && c.Call.Method.Name() == "Write" {
					return "EXT: hash.Hash.Write never returns an error"
				}
			}
			if ci, ok := pn.X.(*ssa.ChangeInterface); ok {
				if e, ok := ci.X.(*ssa.Extract); ok {
					if c, ok := e.Tuple.(*ssa.Call); ok && c.Call.IsInvoke() && c.Call.Method.Name() == "Write" {
						return "EXT: hash.Hash.Write never returns an error"
					}
				}
			}
		}
		return ""
	})
	np.Done()
}

// byteWriteDst: the destination slice of an instruction that writes bytes (element store, copy, PutUintN, XorBytes).
func byteWriteDst(in ssa.Instruction) ssa.Value {
	switch x := in.(type) {
	case *ssa.Store:
		if ia, ok := x.Addr.(*ssa.IndexAddr); ok {
			if _, isSlice := ia.X.Type().Underlying().(*types.Slice); isSlice {
				return ia.X
			}
		}
	case *ssa.Call:
		if isBuiltinCall(x, "copy") {
			return x.Call.Args[0]
		}
		if name, _, buf, ok := accessorCall(x); ok && strings.HasPrefix(name, "Put") {
			return buf
		}
		if isPkgFuncCall(x, "github.com/pion/transport/v3/utils/xor", "XorBytes") {
			return x.Call.Args[0]
		}
	}
	return nil
}

// sumScratchParams: indices (into Params, receiver included) of the slice parameters of fn that reach the
// argument of a hash Sum call, directly or through a module callee: Sum appends the digest behind them.
func sumScratchParams(p *Prog, fn *ssa.Function, onStack map[*ssa.Function]bool) []int {
	if fn == nil || fn.Blocks == nil || onStack[fn] {
		return nil
	}
	onStack[fn] = true
	defer delete(onStack, fn)
	idx := map[*ssa.Parameter]int{}
	for i, pa := range fn.Params {
		idx[pa] = i
	}
	found := map[int]bool{}
	var root func(v ssa.Value, depth int)
	root = func(v ssa.Value, depth int) {
		if depth > 6 {
			return
		}
		switch x := v.(type) {
		case *ssa.Parameter:
			if i, ok := idx[x]; ok {
				found[i] = true
			}
		case *ssa.Slice:
			root(x.X, depth+1)
		case *ssa.ChangeType:
			root(x.X, depth+1)
		case *ssa.Phi:
			for _, e := range x.Edges {
				root(e, depth+1)
			}
		}
	}
	eachInstr(fn, func(b *ssa.BasicBlock, i int, in ssa.Instruction) {
		c, ok := in.(*ssa.Call)
		if !ok {
			return
		}
		if c.Call.IsInvoke() && c.Call.Method.Name() == "Sum" && len(c.Call.Args) == 1 {
			root(c.Call.Args[0], 0)
			return
		}
		if sc := c.Call.StaticCallee(); sc != nil && p.isLibFn(sc) {
			for _, j := range sumScratchParams(p, sc, onStack) {
				if j < len(c.Call.Args) {
					root(c.Call.Args[j], 0)
				}
			}
		}
	})
	var out []int
	for i := range found {
		out = append(out, i)
	}
	sort.Ints(out)
	return out
}

// isSpareCapacityView: x[len(x):] (zero-length view behind the visible bytes).
func isSpareCapacityView(v ssa.Value) bool {
	sl, ok := v.(*ssa.Slice)
	if !ok || sl.High != nil || sl.Low == nil {
		return false
	}
	c, ok := sl.Low.(*ssa.Call)
	return ok && isBuiltinCall(c, "len")
}

// nilCondString: canonical description of when fn returns nil ("p1 == p2", "p1 <= p2", "Equal(p0,p1)").
func nilCondString(p *Prog, fn *ssa.Function) (string, bool) {
	if fn == nil || fn.Blocks == nil {
		return "", false
	}
	idx := errorResultIndex(fn)
	if idx < 0 {
		return "", false
	}
	// per path: is the returned error nil, and under which branch conditions
	k := newKeyer()
	k.paramPos = true
	lit := func(pc PathCond) string {
		key, pol := k.condKey(pc.Cond)
		if !pc.Val {
			pol = !pol
		}
		// readable: module/static callee names for calls
		cond := pc.Cond
		for {
			if u, ok := cond.(*ssa.UnOp); ok && u.Op == token.NOT {
				cond = u.X
				continue
			}
			break
		}
		if c, ok := cond.(*ssa.Call); ok {
			if sc := c.Call.StaticCallee(); sc != nil {
				var as []string
				for _, a := range c.Call.Args {
					as = append(as, k.Key(a))
				}
				key = sc.String() + "(" + strings.Join(as, ",") + ")"
				key = strings.ReplaceAll(key, modulePath+"/", "")
			}
		}
		if !pol {
			key = "!" + key
		}
		return key
	}
	nonNil := 0
	unknown := ""
	nilConj := map[string]bool{}
	q := &PathQuery{P: p, Fn: fn, K: k}
	q.AtReturn = func(ret *ssa.Return, st uint64, c *PathCtx) {
		switch c.NilState(ret.Results[idx]) {
		case -1:
			nonNil++
		case +1:
			var cs []string
			for _, pc := range c.PathConds() {
				cs = append(cs, lit(pc))
			}
			sort.Strings(cs)
			nilConj[strings.Join(cs, " && ")] = true
		default:
			unknown = exprDepth(c.Resolve(deref(ret.Results[idx])), 0)
		}
	}
	q.Run()
	if unknown != "" || q.Exhausted {
		return "a return of unknown nilness: " + unknown, false
	}
	if len(nilConj) == 0 || nonNil == 0 {
		return fmt.Sprintf("%d nil returns, %d non-nil returns", len(nilConj), nonNil), false
	}
	var conds []string
	for cj := range nilConj {
		conds = append(conds, cj)
	}
	sort.Strings(conds)
	return strings.Join(conds, " || "), true
}

var helperReference = map[string]string{
	"CheckSize":        "(p:1 == p:2)",
	"CheckOverflow":    "!(p:2 < p:1)",
	"checkFingerprint": "(p:0 == p:1)",
	"checkHMAC":        "internal/hmac.Equal(p:0,p:1)",
}

func checkHelperConds(r *Run, rc *RuleCtx) map[string]string {
	p := r.P
	out := map[string]string{}
	for _, name := range []string{"CheckSize", "CheckOverflow", "checkFingerprint", "checkHMAC"} {
		fn := p.Fn(name)
		if fn == nil {
			// unexported helpers may have been renamed: find by use (callee of the checkers' final return)
			rc.Fail(name, "check helper not found (renamed?): its nil-return condition cannot be compared with the reference")
			continue
		}
		r.Analysed(fn)
		s, ok := nilCondString(p, fn)
		out[name] = s
		rc.Instance(name, true, map[string]string{"helper": name, "returns_nil_iff": s})
		if !ok {
			rc.Violation(fn, fn.Pos(), "nil-return condition", "cannot derive when "+name+" returns nil: "+s)
			continue
		}
		if s != helperReference[name] {
			rc.Violation(fn, fn.Pos(), "nil-return condition "+s, fmt.Sprintf("%s must return nil exactly when %s; in this build configuration it returns nil when %s", name, helperReference[name], s))
		}
	}
	// every other function that exists in a release and a debug variant and returns an error: its nil-return
	// condition is recorded, and the parent compares the two variants with each other
	{
		var names []string
		for n := range tagSiblings[modulePath] {
			names = append(names, n)
		}
		sort.Strings(names)
		for _, name := range names {
			if _, named := helperReference[name]; named {
				continue
			}
			fn := p.Fn(name)
			if fn == nil || fn.Blocks == nil || errorResultIndex(fn) < 0 {
				continue
			}
			r.Analysed(fn)
			if s, ok := nilCondString(p, fn); ok {
				out[name] = s
				rc.Instance(name, true, map[string]string{"helper": name, "returns_nil_iff": s, "compared": "between the release and the debug variant"})
			}
		}
	}
	// hmac.Equal is constant-time comparison == 1
	eq := p.Hmac.Func("Equal")
	if eq == nil {
		rc.Fail("hmac.Equal", "function not found")
	} else {
		ok := false
		var other *ssa.Return
		var classify func(v ssa.Value, depth int) int // 1 canonical, 0 constant false, -1 anything else
		classify = func(v ssa.Value, depth int) int {
			if b, isB := v.(*ssa.BinOp); isB && b.Op == token.EQL {
				c, isC := b.X.(*ssa.Call)
				one, isOne := constInt(b.Y)
				if isC && isOne && one == 1 && isPkgFuncCall(c, "crypto/subtle", "ConstantTimeCompare") &&
					len(c.Call.Args) == 2 && c.Call.Args[0] == ssa.Value(eq.Params[0]) && c.Call.Args[1] == ssa.Value(eq.Params[1]) {
					return 1
				}
			}
			if c, isC := v.(*ssa.Const); isC && c.Value != nil && c.Value.String() == "false" {
				return 0
			}
			if ph, isPhi := v.(*ssa.Phi); isPhi && depth < 3 {
				res := 0
				for _, e := range ph.Edges {
					switch classify(e, depth+1) {
					case 1:
						res = 1
					case -1:
						return -1
					}
				}
				return res
			}
			return -1
		}
		for _, ret := range returnsOf(eq) {
			// every way of answering true is the whole-slice constant-time comparison; an early
			// `return false` (different lengths) is the only other answer allowed
			switch classify(ret.Results[0], 0) {
			case 1:
				ok = true
			case -1:
				other = ret
			}
		}
		if other != nil {
			ok = false
		}
		rc.Instance("hmac.Equal", true, map[string]string{"helper": "hmac.Equal", "is": "subtle.ConstantTimeCompare(mac1, mac2) == 1"})
		if !ok {
			rc.Violation(eq, eq.Pos(), "hmac.Equal", "Equal must be subtle.ConstantTimeCompare(mac1, mac2) == 1 on the whole slices (length-sensitive, constant time)")
		}
	}
	return out
}

// postTags compares the helper conditions across build configurations.
func postTags(prop string) func(verif, repo, tier string, results []*PropResult) []Finding {
	return func(verif, repo, tier string, results []*PropResult) []Finding {
		var out []Finding
		ref := map[string]string{}
		refCfg := ""
		for _, pr := range results {
			m, _ := pr.Extra["nilconds"].(map[string]interface{})
			if m == nil {
				continue
			}
			if refCfg == "" {
				refCfg = pr.Config
				for k, v := range m {
					ref[k] = fmt.Sprint(v)
				}
				continue
			}
			for k, v := range m {
				if ref[k] != fmt.Sprint(v) {
					out = append(out, Finding{Prop: prop, Rule: prop + ".tags", Config: pr.Config, Func: k, Pos: "-", Construct: "sibling disagreement",
						Msg: fmt.Sprintf("%s returns nil when %q in %s but when %q in %s: the release and debug variants must agree", k, ref[k], refCfg, fmt.Sprint(v), pr.Config)})
				}
			}
		}
		return out
	}
}

// checkFresh: C07.fresh.
func checkFresh(r *Run, rc *RuleCtx, cl *closures) {
	p := r.P
	isGetter := map[*ssa.Function]bool{}
	for _, g := range cl.Getters {
		isGetter[g] = true
	}
	for _, fn := range cl.Getters {
		if fn.Blocks == nil || len(fn.Params) == 0 {
			continue
		}
		recv := fn.Params[0]
		pt, ok := recv.Type().Underlying().(*types.Pointer)
		if !ok {
			continue // value receiver: nothing to fill
		}
		idx := errorResultIndex(fn)
		if idx < 0 {
			continue
		}
		nf := 1
		var names []string
		if st, isSt := pt.Elem().Underlying().(*types.Struct); isSt {
			nf = st.NumFields()
			for i := 0; i < nf; i++ {
				names = append(names, st.Field(i).Name())
			}
		} else {
			names = []string{"*" + recv.Name()}
		}
		if nf == 0 || nf > 60 {
			continue
		}
		all := uint64(1)<<uint(nf) - 1
		fromRecv := func(v ssa.Value) bool {
			for i := 0; i < 4; i++ {
				switch x := v.(type) {
				case *ssa.ChangeType:
					v = x.X
					continue
				case *ssa.Convert:
					v = x.X
					continue
				}
				break
			}
			return v == ssa.Value(recv)
		}
		r.Analysed(fn)
		rep := map[*ssa.Return]bool{}
		nSucc := 0
		q := &PathQuery{P: p, Fn: fn}
		q.Step = func(in ssa.Instruction, deferred bool, st uint64, c *PathCtx) (uint64, bool) {
			switch x := in.(type) {
			case *ssa.Store:
				if x.Addr == ssa.Value(recv) {
					return all, false
				}
				if fa, ok := x.Addr.(*ssa.FieldAddr); ok && fa.X == ssa.Value(recv) {
					return st | 1<<uint(fa.Field), false
				}
			case *ssa.Call:
				if sc := x.Call.StaticCallee(); sc != nil && p.isLibFn(sc) && len(x.Call.Args) > 0 && fromRecv(x.Call.Args[0]) {
					// delegation to another getter on the same destination (checked on its own), valid
					// on the path on which that call reported success
					if isGetter[sc] && c.NilState(x) != -1 {
						return all, false
					}
				}
			}
			return st, false
		}
		q.AtReturn = func(ret *ssa.Return, st uint64, c *PathCtx) {
			if c.NilState(ret.Results[idx]) == -1 {
				return
			}
			// a delegation whose error is returned as is: success of this return is success of the callee
			if call, ok := c.Resolve(deref(c.Resolve(ret.Results[idx]))).(*ssa.Call); ok {
				if sc := call.Call.StaticCallee(); sc != nil && isGetter[sc] && len(call.Call.Args) > 0 && fromRecv(call.Call.Args[0]) {
					st = all
				}
			}
			nSucc++
			if st&all == all || rep[ret] {
				return
			}
			rep[ret] = true
			var missing []string
			for i := 0; i < nf; i++ {
				if st&(1<<uint(i)) == 0 {
					missing = append(missing, names[i])
				}
			}
			rc.ViolationPath(fn, instrPos(ret), "destination not assigned: "+strings.Join(missing, ","), "the getter reports success on a path that leaves (part of) a reused destination as it was: the caller sees the value of an earlier message", c.Witness(fn, ret))
		}
		q.Run()
		rc.Instance(fnName(fn), true, map[string]interface{}{"fn": fnName(fn), "destination_parts": names, "success_paths": nSucc})
		if q.Exhausted {
			rc.Violation(fn, fn.Pos(), "path exploration exhausted", "undecided")
		}
		// a destination slice that is reused (resliced from itself to a non-zero length) keeps its old
		// bytes: they must all be cleared (a full zeroing loop over the field) before the success returns
		if st, isSt := pt.Elem().Underlying().(*types.Struct); isSt {
			for fi := 0; fi < st.NumFields(); fi++ {
				fv := st.Field(fi)
				if _, isSl := fv.Type().Underlying().(*types.Slice); !isSl {
					continue
				}
				var reuse []*ssa.Store
				for _, a := range fieldAccesses(fn, fv) {
					s, ok := a.Instr.(*ssa.Store)
					if !ok || a.Kind != "store" {
						continue
					}
					if sl, isSlice := s.Val.(*ssa.Slice); isSlice && valueIsLoadOfField(sl.X, fv) {
						if c, isC := constInt(sl.High); sl.High != nil && !(isC && c == 0) {
							reuse = append(reuse, s)
						}
					}
				}
				if len(reuse) == 0 {
					continue
				}
				// zeroing loops over the field
				var zeroLoops []*Loop
				loops := loopsOf(fn)
				eachInstr(fn, func(b *ssa.BasicBlock, i int, in ssa.Instruction) {
					s, ok := in.(*ssa.Store)
					if !ok {
						return
					}
					ia, isIA := s.Addr.(*ssa.IndexAddr)
					if !isIA || !valueIsLoadOfField(ia.X, fv) {
						return
					}
					if c, isC := constInt(s.Val); !isC || c != 0 {
						return
					}
					if lp := inLoop(loops, b); lp != nil && (fullRangeLoopAllowingReturnExit(lp, ia.X, ia, fn) || countingLoopOver(lp, ia.X, ia)) {
						zeroLoops = append(zeroLoops, lp)
					}
				})
				// whole-slice clearing instructions: clear(field), or copy(field, zero[:]) from a local array
				// that is never written and is at least as long as the resliced field can be
				var clearers []ssa.Instruction
				clearerCap := map[ssa.Instruction]int64{} // copy from a zero array: its length
				eachInstr(fn, func(b *ssa.BasicBlock, i int, in ssa.Instruction) {
					call, ok := in.(*ssa.Call)
					if !ok {
						return
					}
					if isBuiltinCall(call, "clear") && valueIsLoadOfField(call.Call.Args[0], fv) {
						clearers = append(clearers, call)
						return
					}
					if !isBuiltinCall(call, "copy") || !valueIsLoadOfField(call.Call.Args[0], fv) {
						return
					}
					src, isSl := call.Call.Args[1].(*ssa.Slice)
					if !isSl || src.High != nil || src.Max != nil {
						return
					}
					if src.Low != nil {
						if c, isC := constInt(src.Low); !isC || c != 0 {
							return
						}
					}
					al, isA := src.X.(*ssa.Alloc)
					if !isA {
						return
					}
					at, isArr := al.Type().(*types.Pointer).Elem().Underlying().(*types.Array)
					if !isArr {
						return
					}
					// the array stays zero: its only uses are slicing for reading
					for _, u := range *al.Referrers() {
						switch y := u.(type) {
						case *ssa.Slice:
							for _, u2 := range *y.Referrers() {
								c2, isC := u2.(*ssa.Call)
								if !isC || !isBuiltinCall(c2, "copy") || c2.Call.Args[1] != ssa.Value(y) || c2.Call.Args[0] == ssa.Value(y) {
									return
								}
							}
						case *ssa.DebugRef:
						default:
							return
						}
					}
					clearers = append(clearers, call)
					clearerCap[call] = at.Len()
				})
				idx := errorResultIndex(fn)
				for _, s := range reuse {
					// only the final reslice matters: one that no later reuse-store of the field follows
					final := true
					for _, s2 := range reuse {
						if s2 != s && instrDominates(s, s2) {
							final = false
						}
					}
					if !final {
						continue
					}
					rc.Instance(fnName(fn)+"|"+fv.Name()+" cleared after reuse", true, map[string]string{"fn": fnName(fn), "reused": fv.Name()})
					for _, ret := range returnsOf(fn) {
						c := &PathCtx{K: newKeyer(), assign: map[string]bool{}, phiSel: map[*ssa.Phi]ssa.Value{}, P: p}
						if c.NilState(ret.Results[idx]) == -1 || !blockDominates(s.Block(), ret.Block()) {
							continue
						}
						cleared := false
						for _, zl := range zeroLoops {
							if blockDominates(s.Block(), zl.Header) && blockDominates(zl.Header, ret.Block()) {
								cleared = true
							}
						}
						for _, ci := range clearers {
							if !instrDominates(s, ci) || !blockDominates(ci.Block(), ret.Block()) {
								continue
							}
							if n, bounded := clearerCap[ci]; bounded {
								// the field's length at the copy is the final reslice's constant bound
								fits := false
								if cs := constSetOf(s.Val.(*ssa.Slice).High, 0); cs != nil {
									fits = true
									for c := range cs {
										if c > n {
											fits = false
										}
									}
								}
								for _, a := range fieldAccesses(fn, fv) {
									if s3, ok := a.Instr.(*ssa.Store); ok && a.Kind == "store" && s3 != s && instrDominates(s, s3) && instrDominates(s3, ci) {
										fits = false
									}
								}
								if !fits {
									continue
								}
							}
							cleared = true
						}
						if !cleared {
							rc.Violation(fn, instrPos(s), "reused "+fv.Name()+" not cleared", "the destination keeps its old backing bytes and nothing clears all of them before the getter reports success: bytes the value does not overwrite (a short value) show the address of an earlier message")
							break
						}
					}
				}
			}
		}
	}
}

// checkAliasDest: a destination slice field that a getter writes in place (element stores, copy, XorBytes
// or append onto the field's own storage) must never be made to view the message: the next decode into
// the same destination would then write into the message it read before.
// viaField: v is the slice held by field fv, or a local working copy of it (reslices, appends onto it, merges
// of these): writing through v writes the storage the field holds or is about to be given back.
func viaField(v ssa.Value, fv *types.Var) bool {
	if valueIsLoadOfField(sliceRoot(v), fv) {
		return true
	}
	clamp := false
	return fv != nil && derivedFromField(v, fv, 0, map[ssa.Value]bool{}, &clamp)
}

func checkAliasDest(r *Run, rc *RuleCtx, cl *closures, getM *ssa.Function) {
	p := r.P
	msg := p.Named("Message")
	rawF := FieldVar(msg, "Raw")
	le := newLinEval(p)
	for _, fn := range cl.Getters {
		if fn.Blocks == nil || len(fn.Params) == 0 {
			continue
		}
		pt, ok := fn.Params[0].Type().Underlying().(*types.Pointer)
		if !ok {
			continue
		}
		st, isSt := pt.Elem().Underlying().(*types.Struct)
		if !isSt {
			continue
		}
		for fi := 0; fi < st.NumFields(); fi++ {
			fv := st.Field(fi)
			if _, isSl := fv.Type().Underlying().(*types.Slice); !isSl {
				continue
			}
			// in-place writers through the field
			var writer ssa.Instruction
			eachInstr(fn, func(b *ssa.BasicBlock, i int, in ssa.Instruction) {
				switch x := in.(type) {
				case *ssa.Store:
					if ia, isIA := x.Addr.(*ssa.IndexAddr); isIA && viaField(ia.X, fv) {
						writer = in
					}
				case *ssa.Call:
					switch {
					case isBuiltinCall(x, "copy") && viaField(x.Call.Args[0], fv):
						writer = in
					case isBuiltinCall(x, "append") && viaField(x.Call.Args[0], fv):
						writer = in
					case isPkgFuncCall(x, "github.com/pion/transport/v3/utils/xor", "XorBytes") && viaField(x.Call.Args[0], fv):
						writer = in
					}
				}
			})
			if writer == nil {
				continue
			}
			r.Analysed(fn)
			rc.Instance(fnName(fn)+"|"+fv.Name(), true, map[string]string{"getter": fnName(fn), "field_written_in_place": fv.Name(), "writer": shortInstr(writer)})
			for _, a := range fieldAccesses(fn, fv) {
				s, isS := a.Instr.(*ssa.Store)
				if !isS || a.Kind != "store" {
					continue
				}
				root, _, _ := le.window(s.Val)
				views := false
				if e, isE := root.(*ssa.Extract); isE {
					if c, isC := e.Tuple.(*ssa.Call); isC && getM != nil && callsFn(c, getM) {
						views = true
					}
				}
				if rawF != nil && valueIsLoadOfField(root, rawF) {
					views = true
				}
				if views {
					rc.Violation(fn, instrPos(s), fv.Name()+" = "+exprDepth(s.Val, 0), "the destination is made to view the message's own bytes, and this getter also writes the destination in place ("+shortInstr(writer)+"): the next call with the same destination overwrites the message it was filled from")
				}
			}
		}
	}
}

func sliceRoot(v ssa.Value) ssa.Value {
	for i := 0; i < 8; i++ {
		switch x := v.(type) {
		case *ssa.Slice:
			v = x.X
			continue
		case *ssa.ChangeType:
			v = x.X
			continue
		}
		break
	}
	return v
}
