package main

import (
	"fmt"
	"go/token"
	"go/types"
	"strings"
	"sync"

	"golang.org/x/tools/go/ssa"
)

func init() { register("C01", "other", runC01) }

// justified exception: an obligation that holds because of a data-structure invariant no local
// argument sees. Keyed by rule, function and construct (never by line).
type justifiedEntry struct {
	Rule, Fn, Construct, Reason string
	used                        bool
}

type justTable struct {
	entries []*justifiedEntry
}

func (t *justTable) match(rule, fn, construct string) *justifiedEntry {
	for _, e := range t.entries {
		if e.Rule == rule && e.Fn == fn && e.Construct == construct {
			e.used = true
			return e
		}
	}
	return nil
}

// runBounds discharges all bounds obligations of the given functions.
func runBounds(r *Run, rc *RuleCtx, fns []*ssa.Function, jt *justTable, sums map[*ssa.Function]*IntSummary, opts ...func(*Prover)) {
	p := r.P
	sumFn := func(f *ssa.Function) *IntSummary {
		if s, ok := sums[f]; ok {
			return s
		}
		s := summarizeIntFunc(f)
		sums[f] = s
		return s
	}
	for _, fn := range fns {
		if fn.Blocks == nil {
			continue
		}
		r.Analysed(fn)
		pr := newProver(p, fn)
		pr.Sum = sumFn
		for _, o := range opts {
			o(pr)
		}
		for _, ob := range boundsObligations(pr, fn) {
			ok, trivial, failed, facts := dischargeObligation(pr, ob)
			key := fnName(fn) + "|" + ob.Desc + "|" + ob.Kind
			if ok {
				var sample interface{}
				if !trivial {
					sample = map[string]interface{}{"fn": fnName(fn), "site": ob.Desc, "kind": ob.Kind, "facts": facts}
				}
				rc.Instance(key, !trivial, sample)
				rc.Obligation(true, false)
				continue
			}
			goalKind := failed
			if i := strings.Index(goalKind, " i.e. "); i >= 0 {
				goalKind = goalKind[:i]
			}
			if je := jt.match(rc.rr.ID, fnName(fn), rootFieldOf(ob.Base)+"|"+goalKind); je != nil {
				rc.Instance(key, true, map[string]interface{}{"fn": fnName(fn), "site": ob.Desc, "justified": je.Reason})
				rc.Obligation(false, true)
				continue
			}
			rc.Instance(key, true, nil)
			rc.Obligation(false, false)
			derived := ""
			if messageDerived(ob.Base, 0) {
				derived = " (operand derives from message bytes)"
			}
			rc.Violation(fn, instrPos(ob.In), ob.Desc, fmt.Sprintf("cannot prove %s from the guards that dominate this access%s: out-of-range access (panic, or a read beyond the declared bytes when the buffer has spare capacity)", failed, derived))
		}
	}
}

// loopVariant decides termination of every loop of fn; returns the description of undecided loops.
func checkLoops(r *Run, rc *RuleCtx, fn *ssa.Function, sums map[*ssa.Function]*IntSummary) {
	p := r.P
	loops := loopsOf(fn)
	if len(loops) == 0 {
		return
	}
	pr := newProver(p, fn)
	pr.Sum = func(f *ssa.Function) *IntSummary {
		if s, ok := sums[f]; ok {
			return s
		}
		s := summarizeIntFunc(f)
		sums[f] = s
		return s
	}
	for _, lp := range loops {
		key := fmt.Sprintf("%s|loop@b%d", fnName(fn), lp.Header.Index)
		// (a) range loops
		isRange := false
		for _, in := range lp.Header.Instrs {
			if _, ok := in.(*ssa.Next); ok {
				isRange = true
			}
		}
		if !isRange && rangeIndexLoop(lp) {
			isRange = true
		}
		if isRange {
			rc.Instance(key, false, map[string]string{"fn": fnName(fn), "loop": "range loop"})
			continue
		}
		// (b) variant against an exit guard
		decided := false
		why := ""
		for _, ex := range lp.Exits() {
			iff, ok := ex[0].Instrs[len(ex[0].Instrs)-1].(*ssa.If)
			if !ok {
				continue
			}
			cmp, ok := iff.Cond.(*ssa.BinOp)
			if !ok {
				continue
			}
			stayOnTrue := lp.Body[ex[0].Succs[0]]
			// normalise to: stay in loop while  small < big  (or <=)
			var small, big ssa.Value
			switch cmp.Op {
			case token.LSS, token.LEQ:
				small, big = cmp.X, cmp.Y
			case token.GTR, token.GEQ:
				small, big = cmp.Y, cmp.X
			default:
				continue
			}
			if !stayOnTrue {
				small, big = big, small
			}
			// a value-preserving conversion of the counter (int(t) for a named integer type, a widening
			// conversion of the same signedness) compares like the counter itself
			for n := 0; n < 3; n++ {
				if ct, isCT := small.(*ssa.ChangeType); isCT {
					small = ct.X
					continue
				}
				if cv, isCV := small.(*ssa.Convert); isCV {
					w1, s1, ok1 := intWidth(cv.X.Type())
					w2, s2, ok2 := intWidth(cv.Type())
					if ok1 && ok2 && s1 == s2 && w2 >= w1 {
						small = cv.X
						continue
					}
				}
				break
			}
			// increasing counter: small is a header phi, big loop invariant
			if ph, ok := small.(*ssa.Phi); ok && ph.Block() == lp.Header && loopInvariant(lp, big) {
				all := true
				for i, e := range ph.Edges {
					pred := lp.Header.Preds[i]
					if !lp.Body[pred] {
						continue
					}
					at := pred.Instrs[len(pred.Instrs)-1]
					res := pr.Prove(at, Goal{X: ph, Y: e, C: -1})
					if !res.OK {
						all = false
						why = "cannot prove the counter grows on the back edge: " + res.Goal
					}
				}
				if all {
					decided = true
					rc.Instance(key, true, map[string]string{"fn": fnName(fn), "loop": "counter " + exprDepth(small, 0) + " strictly increases towards loop-invariant " + exprDepth(big, 0)})
					break
				}
			}
			// shrinking window: big is len(w) of a header phi slice, small invariant
			if c, ok := big.(*ssa.Call); ok && isBuiltinCall(c, "len") {
				if ph, ok := c.Call.Args[0].(*ssa.Phi); ok && ph.Block() == lp.Header && loopInvariant(lp, small) {
					all := true
					for i, e := range ph.Edges {
						pred := lp.Header.Preds[i]
						if !lp.Body[pred] {
							continue
						}
						at := pred.Instrs[len(pred.Instrs)-1]
						l1 := pr.linLen(e, "len")
						l0 := pr.linLen(ph, "len")
						res := pr.Prove(at, Goal{XL: &l1, YL: &l0, C: -1, extra: []ssa.Value{e}})
						if !res.OK {
							all = false
							why = "cannot prove the window shrinks on the back edge: " + res.Goal
						}
					}
					if all {
						decided = true
						rc.Instance(key, true, map[string]string{"fn": fnName(fn), "loop": "window " + exprDepth(ph, 0) + " strictly shrinks"})
						break
					}
				}
			}
		}
		// (c) a flag-bounded loop (`for retried := false; ; retried = true { ... if retried { return } ... }`):
		// a boolean header phi that is false on entry and true on every back edge, and a test of it whose
		// true outcome leaves the loop and which every path to a back edge has passed: at most two rounds
		if !decided {
			for _, in := range lp.Header.Instrs {
				ph, isPhi := in.(*ssa.Phi)
				if !isPhi {
					break
				}
				if b, isB := ph.Type().Underlying().(*types.Basic); !isB || b.Kind() != types.Bool {
					continue
				}
				okShape := true
				for i, e := range ph.Edges {
					c, isC := e.(*ssa.Const)
					if !isC || c.Value == nil {
						okShape = false
						break
					}
					inside := lp.Body[lp.Header.Preds[i]]
					if (c.Value.String() == "true") != inside {
						okShape = false
					}
				}
				if !okShape {
					continue
				}
				for blk := range lp.Body {
					iff, isIf := blk.Instrs[len(blk.Instrs)-1].(*ssa.If)
					if !isIf {
						continue
					}
					cond, leaveOn := iff.Cond, 0
					if u, isU := cond.(*ssa.UnOp); isU && u.Op == token.NOT {
						cond, leaveOn = u.X, 1
					}
					if cond != ssa.Value(ph) || lp.Body[blk.Succs[leaveOn]] {
						continue
					}
					all := true
					for _, lt := range lp.Latch {
						if !blockDominates(blk, lt) {
							all = false
						}
					}
					if all {
						decided = true
						rc.Instance(key, true, map[string]string{"fn": fnName(fn), "loop": "flag " + exprDepth(ph, 0) + ": false on entry, true on every back edge, the loop is left when it is set"})
					}
				}
				if decided {
					break
				}
			}
		}
		if !decided {
			rc.Instance(key, true, nil)
			if why == "" {
				why = "no exit guard of the form counter<bound or len(window)>=c with a monotone variant"
			}
			rc.Violation(fn, instrPos(lp.Header.Instrs[0]), fmt.Sprintf("loop at block %d", lp.Header.Index), "termination undecided: "+why)
		}
	}
}

func loopInvariant(lp *Loop, v ssa.Value) bool {
	switch x := v.(type) {
	case *ssa.Const, *ssa.Parameter, *ssa.FreeVar, *ssa.Global:
		return true
	case ssa.Instruction:
		if lp.Body[x.Block()] {
			// a pure recomputation of invariant operands (len(x), conversions)
			switch y := v.(type) {
			case *ssa.UnOp:
				if cv := canonCell(y); cv != v {
					return loopInvariant(lp, cv)
				}
				// a field load whose field is not stored and which no call can change inside the loop
				if fa, ok := y.X.(*ssa.FieldAddr); ok && y.Op == token.MUL && loopInvariant(lp, fa.X) {
					fv := fieldOfAddr(fa)
					clean := fv != nil
					for b := range lp.Body {
						for _, in := range b.Instrs {
							switch z := in.(type) {
							case *ssa.Store:
								if sa, ok := z.Addr.(*ssa.FieldAddr); ok && fieldOfAddr(sa) == fv {
									clean = false
								}
							case ssa.CallInstruction:
								if _, isB := z.Common().Value.(*ssa.Builtin); !isB {
									clean = false
								}
							}
						}
					}
					return clean
				}
			case *ssa.Call:
				if isBuiltinCall(y, "len") {
					return loopInvariant(lp, y.Call.Args[0])
				}
			case *ssa.Convert:
				return loopInvariant(lp, y.X)
			case *ssa.ChangeType:
				return loopInvariant(lp, y.X)
			case *ssa.BinOp:
				return loopInvariant(lp, y.X) && loopInvariant(lp, y.Y)
			}
			return false
		}
		return true
	}
	return false
}

// indexLoopInfo recognises a counting loop in either of its two SSA shapes and returns the value that
// is the index inside the body, its first value and the invariant bound:
//
//	for i := range s            header: inc = phi(-1, inc) + 1; if inc < bound   (index = inc, first = 0)
//	for i := c; i < bound; i++  header: i = phi(c, i + 1);      if i < bound     (index = i,   first = c)
func indexLoopInfo(lp *Loop) (idx ssa.Value, start int64, bound ssa.Value, ok bool) {
	idx, sv, off, bound, ok := indexLoopInfoV(lp)
	if !ok {
		return nil, 0, nil, false
	}
	c, isC := constInt(sv)
	if !isC {
		return nil, 0, nil, false
	}
	return idx, c + off, bound, true
}

// indexLoopInfoV: like indexLoopInfo, but the first value may be any loop-invariant value:
// the index starts at startV + off.
func indexLoopInfoV(lp *Loop) (idx ssa.Value, startV ssa.Value, off int64, bound ssa.Value, ok bool) {
	iff, isIf := lp.Header.Instrs[len(lp.Header.Instrs)-1].(*ssa.If)
	if !isIf {
		return nil, nil, 0, nil, false
	}
	cmp, isB := iff.Cond.(*ssa.BinOp)
	if !isB {
		return nil, nil, 0, nil, false
	}
	x, y := cmp.X, cmp.Y
	switch cmp.Op {
	case token.LSS:
	case token.GTR:
		x, y = y, x
	default:
		return nil, nil, 0, nil, false
	}
	if !loopInvariant(lp, y) || !lp.Body[lp.Header.Succs[0]] {
		return nil, nil, 0, nil, false
	}
	isInc := func(v ssa.Value, ph *ssa.Phi) bool {
		b, ok := v.(*ssa.BinOp)
		if !ok || b.Op != token.ADD || b.X != ssa.Value(ph) {
			return false
		}
		c, ok := constInt(b.Y)
		return ok && c == 1
	}
	phiOK := func(ph *ssa.Phi, inc ssa.Value) (ssa.Value, bool) {
		if ph.Block() != lp.Header {
			return nil, false
		}
		var init ssa.Value
		for i, e := range ph.Edges {
			if lp.Body[ph.Block().Preds[i]] {
				// loop-carried edge
				if inc != nil {
					if e != inc {
						return nil, false
					}
				} else if !isInc(e, ph) {
					return nil, false
				}
				continue
			}
			if !loopInvariant(lp, e) {
				return nil, false
			}
			if init != nil && init != e {
				ci, ok1 := constInt(init)
				ce, ok2 := constInt(e)
				if !ok1 || !ok2 || ci != ce {
					return nil, false
				}
			}
			init = e
		}
		return init, init != nil
	}
	// range shape
	if inc, isBin := x.(*ssa.BinOp); isBin && inc.Op == token.ADD {
		if ph, isPhi := inc.X.(*ssa.Phi); isPhi && isInc(inc, ph) {
			if init, ok := phiOK(ph, inc); ok {
				return inc, init, 1, y, true
			}
		}
		return nil, nil, 0, nil, false
	}
	// three-clause shape
	if ph, isPhi := x.(*ssa.Phi); isPhi {
		if init, ok := phiOK(ph, nil); ok {
			return ph, init, 0, y, true
		}
	}
	return nil, nil, 0, nil, false
}

// rangeIndexLoop: `for i := range s` / `for i := 0; i < len(s); i++` shapes with a monotone counter compared to an invariant bound.
func rangeIndexLoop(lp *Loop) bool {
	_, _, _, ok := indexLoopInfo(lp)
	return ok
}

// taintedByMessage: does integer v depend on a value read from message bytes?
func taintedByMessage(v ssa.Value, depth int, seen map[ssa.Value]bool) bool {
	if v == nil || depth > 20 || seen[v] {
		return false
	}
	seen[v] = true
	switch x := v.(type) {
	case *ssa.Call:
		if _, _, _, ok := accessorCall(x); ok {
			return true
		}
		if isBuiltinCall(x, "len") || isBuiltinCall(x, "cap") {
			return false
		}
		for _, a := range x.Call.Args {
			if isIntType(a.Type()) && taintedByMessage(a, depth+1, seen) {
				return true
			}
		}
	case *ssa.BinOp:
		return taintedByMessage(x.X, depth+1, seen) || taintedByMessage(x.Y, depth+1, seen)
	case *ssa.Convert:
		return taintedByMessage(x.X, depth+1, seen)
	case *ssa.ChangeType:
		return taintedByMessage(x.X, depth+1, seen)
	case *ssa.Phi:
		for _, e := range x.Edges {
			if taintedByMessage(e, depth+1, seen) {
				return true
			}
		}
	case *ssa.UnOp:
		if x.Op == token.MUL {
			switch a := x.X.(type) {
			case *ssa.IndexAddr:
				return messageDerived(a.X, 0)
			case *ssa.FieldAddr:
				if al, ok := a.X.(*ssa.Alloc); ok {
					if fv, _ := localFieldValue(al, a.Field, x, 0); fv != nil {
						return taintedByMessage(fv, depth+1, seen)
					}
				}
				if fv := fieldOfAddr(a); fv != nil && fv.Name() == "Length" {
					return true // Message.Length / RawAttribute.Length are decoded from the wire
				}
			}
		}
		return taintedByMessage(x.X, depth+1, seen)
	}
	return false
}

// aliasOf: does slice value v share storage with value root (ignoring append's variadic source)?
func aliasOf(v, root ssa.Value, depth int) bool {
	if v == nil || depth > 12 {
		return false
	}
	if v == root {
		return true
	}
	switch x := v.(type) {
	case *ssa.Slice:
		return aliasOf(x.X, root, depth+1)
	case *ssa.ChangeType:
		return aliasOf(x.X, root, depth+1)
	case *ssa.Convert:
		return aliasOf(x.X, root, depth+1)
	case *ssa.Phi:
		for _, e := range x.Edges {
			if aliasOf(e, root, depth+1) {
				return true
			}
		}
	case *ssa.Call:
		if isBuiltinCall(x, "append") && len(x.Call.Args) > 0 {
			return aliasOf(x.Call.Args[0], root, depth+1)
		}
	case *ssa.MakeInterface:
		return aliasOf(x.X, root, depth+1)
	}
	return false
}

func runC01(r *Run) {
	p := r.P
	r.Res.Explanation = "bounds obligations of every index, slice and fixed-width accessor in the decode closure proved against len (not cap) from dominating guards (PROVE), padding summary, loop variants, panic constructs, allocation-size taint, entry wiring and IsMessage agreement; holds for every byte string and capacity because guards are code shape"
	r.NotDecided("behaviour of the Go runtime and of stdlib callees (EXT table)", "a misbehaving io.Reader (contract 0 <= n <= len(p) assumed)")
	r.Assume("EXT: binary.BigEndian.UintN(b) needs len(b) >= N/8 and touches nothing else", "EXT: io.Reader.Read returns 0 <= n <= len(p)", "EXT: fmt.Sprintf does not panic and calls only String()/Error() of its operands", "Go slice expression semantics: s[lo:hi] requires 0 <= lo <= hi <= cap(s); the rules demand hi <= len(s)")
	cl := p.buildClosures()
	an := r.Rule("C01.anchors", "decode entry points and (*Message).Decode resolve", 8)
	for _, m := range cl.missing {
		an.Fail(m, "anchor not found")
	}
	for _, f := range cl.DEntries {
		an.Instance(fnName(f), false, nil)
	}
	an.Done()
	if cl.DecodeM == nil {
		return
	}
	sums := map[*ssa.Function]*IntSummary{}
	jt := &justTable{}

	// ---- bounds
	b := r.Rule("C01.bounds", "every index, slice and fixed-width accessor in the decode closure is within len of its operand (x[:cap(x)] is the one accepted idiom)", 18)
	runBounds(r, b, cl.D, jt, sums)
	b.Done()

	// ---- padding summary
	pad := r.Rule("C01.pad", "value summary of the padding function: for l >= 0 the result r satisfies l <= r <= l+3 and r ≡ 0 (mod 4), i.e. the smallest multiple of 4 not below l", 1)
	var padFn *ssa.Function
	// the padding function is the int->int module function called by Decode on the attribute length
	eachInstr(cl.DecodeM, func(bb *ssa.BasicBlock, i int, in ssa.Instruction) {
		if c, ok := in.(*ssa.Call); ok {
			if sc := c.Call.StaticCallee(); sc != nil && p.isLibFn(sc) && len(sc.Params) == 1 && isIntType(sc.Params[0].Type()) && sc.Signature.Results().Len() == 1 && isIntType(sc.Signature.Results().At(0).Type()) {
				padFn = sc
			}
		}
	})
	if padFn == nil {
		pad.Fail("padding function", "Decode does not call an int->int padding function: padding arithmetic not located (undecided)")
	} else {
		r.Analysed(padFn)
		s := summarizeIntFunc(padFn)
		sums[padFn] = s
		pad.Instance(fnName(padFn), true, map[string]interface{}{"fn": fnName(padFn), "summary": fmt.Sprintf("%+v", s)})
		if s == nil {
			pad.Violation(padFn, padFn.Pos(), "padding arithmetic", "cannot derive a value summary l <= r <= l+3, r ≡ 0 (mod 4) (the result is not provably the next multiple of 4)")
		} else if !(s.RelLo == 0 && s.RelHi == 3 && s.Mod == 4 && s.Rem == 0) {
			pad.Violation(padFn, padFn.Pos(), "padding arithmetic", fmt.Sprintf("derived summary r in l+[%d,%d], r ≡ %d (mod %d) is not the next multiple of 4 (need l+[0,3], ≡ 0 mod 4)", s.RelLo, s.RelHi, s.Rem, s.Mod))
		}
	}
	pad.Done()

	// ---- loops, recursion
	lr := r.Rule("C01.loop", "every loop in the decode closure is a range loop or has a strictly monotone variant tied to an exit guard; no call-graph cycle", 1)
	for _, fn := range cl.D {
		checkLoops(r, lr, fn, sums)
	}
	for _, cyc := range p.CG().Cycles(cl.D) {
		var names []string
		for _, f := range cyc {
			names = append(names, fnName(f))
		}
		lr.Violation(cyc[0], cyc[0].Pos(), "recursion "+strings.Join(names, " -> "), "call-graph cycle in the decode closure: recursion depth is not bounded by code shape")
	}
	lr.Done()

	// ---- panic constructs
	np := r.Rule("C01.nopanic", "no explicit panic, unchecked type assertion, channel operation or call outside the external contract table in the decode closure", 0)
	checkNoPanic(r, np, cl.D, nil)
	np.Done()

	// ---- allocation taint
	sh := r.Rule("C01.shared", "the decode closure - including the String/Error methods of the values it formats into its error messages - uses package-level variables only if nothing changes them after initialisation (or one mutex guards every access): decoding is independent of what was decoded before and safe for concurrent callers (a map written while read is a fatal error, not a panic that can be recovered)", 1)
	{
		fns := append([]*ssa.Function{}, cl.D...)
		fns = append(fns, fmtReachable(p, cl.D)...)
		checkSharedState(r, sh, fns)
	}
	sh.Done()

	al := r.Rule("C01.alloc", "no integer read from message bytes reaches the size operand of make in the decode closure", 0)
	nAlloc := 0
	for _, fn := range cl.D {
		eachInstr(fn, func(bb *ssa.BasicBlock, i int, in ssa.Instruction) {
			if mk, ok := in.(*ssa.MakeSlice); ok {
				nAlloc++
				al.Instance(fnName(fn)+"|"+exprDepth(mk, 0), true, map[string]string{"fn": fnName(fn), "alloc": exprDepth(mk, 0)})
				if taintedByMessage(mk.Len, 0, map[ssa.Value]bool{}) || taintedByMessage(mk.Cap, 0, map[ssa.Value]bool{}) {
					al.Violation(fn, instrPos(mk), exprDepth(mk, 0), "allocation size is controlled by a length field read from the message (a 20-byte input can demand 64 KiB)")
				}
			}
		})
	}
	// positive control: the taint query recognises Decode's own size value
	ctl := false
	eachInstr(cl.DecodeM, func(bb *ssa.BasicBlock, i int, in ssa.Instruction) {
		if sl, ok := in.(*ssa.Slice); ok && sl.High != nil && taintedByMessage(sl.High, 0, map[ssa.Value]bool{}) {
			ctl = true
		}
	})
	if ctl {
		al.Instance("control: Decode slices by a wire length", false, nil)
	} else {
		al.Fail("control", "positive control failed: the taint query no longer recognises the declared length in Decode")
	}
	al.Done()

	// ---- entries
	en := r.Rule("C01.entry", "each copying entry point stores a copy (never the caller's slice) into Raw, reaches (*Message).Decode and returns its error unchanged", 5)
	checkEntries(r, en, cl)
	en.Done()

	// ---- IsMessage agreement
	im := r.Rule("C01.ismsg", "Decode's length and cookie reject guards use the same offsets and constant as IsMessage, so a successful decode implies IsMessage", 1)
	checkIsMessage(r, im, cl)
	im.Done()

	// ---- window
	wn := r.Rule("C01.window", "attribute values are views inside the declared body: the window starts as buf[20:20+size], each Value is window[:aL] after the 4-byte header, and the next window starts at the padded length", 3)
	checkWindow(r, wn, cl, sums)
	wn.Done()

	for _, e := range jt.entries {
		if !e.used {
			b.Fail("stale justified entry "+e.Fn+" "+e.Construct, "a justified-exception line matches nothing")
		}
	}
	// on every path Decode empties the attribute list before it reports success: no value of an earlier message is exposed (shared with C08)
	r.Borrow("C08", map[string]string{"C08.reset": "C01.reset"})
}

// extAllowed: external callee allowed in no-panic closures.
func extAllowed(f *ssa.Function) bool {
	if f == nil {
		return false
	}
	pkg := ""
	if f.Pkg != nil {
		pkg = f.Pkg.Pkg.Path()
	} else if f.Object() != nil && f.Object().Pkg() != nil {
		pkg = f.Object().Pkg().Path()
	}
	switch pkg {
	case "fmt", "errors", "bytes", "strings", "strconv", "math/bits", "unicode/utf8", "crypto/subtle", "hash/crc32", "sync/atomic", "encoding/binary",
		"net", "net/url", "io", "sort", "time", "unicode", "math", "encoding/base64", "encoding/hex",
		"github.com/pion/transport/v3/utils/xor", "sync", "crypto/sha1", "crypto/sha256", "crypto/md5", "hash":
		return true
	}
	return false
}

func checkNoPanic(r *Run, rc *RuleCtx, fns []*ssa.Function, allow func(fn *ssa.Function, ps panicSite) string) {
	p := r.P
	cg := p.CG()
	n := 0
	for _, fn := range fns {
		for _, ps := range panicConstructs(fn) {
			n++
			key := fnName(fn) + "|" + ps.Desc
			if allow != nil {
				if why := allow(fn, ps); why != "" {
					rc.Instance(key, true, map[string]string{"fn": fnName(fn), "construct": ps.Desc, "justified": why})
					continue
				}
			}
			rc.Instance(key, true, nil)
			rc.Violation(fn, instrPos(ps.In), ps.Desc, "construct can panic for some input")
		}
		for _, cs := range cg.Sites[fn] {
			for _, ext := range cs.External {
				if !extAllowed(ext) {
					rc.Instance(fnName(fn)+"|ext "+ext.String(), true, nil)
					rc.Violation(fn, instrPos(cs.Instr), "call "+ext.String(), "call to an external function outside the external contract table (not known to be total)")
				}
			}
		}
	}
	// positive control: the scanner finds the explicit panics that exist elsewhere in the library
	ctl := 0
	for _, f := range p.LibFuncs() {
		ctl += len(panicConstructs(f))
	}
	if ctl > 0 {
		rc.Instance("control: scanner finds explicit panic sites elsewhere in the library", false, fmt.Sprintf("%d panic constructs in the library, %d inside this closure", ctl, n))
	} else {
		rc.Fail("control", "positive control failed: the scanner finds no panic construct anywhere in the library")
	}
}

func checkEntries(r *Run, rc *RuleCtx, cl *closures) {
	p := r.P
	rawField := FieldVar(cl.Message, "Raw")
	if rawField == nil {
		rc.Fail("Message.Raw", "field not found")
		return
	}
	entrySet := map[*ssa.Function]bool{}
	for _, f := range cl.DEntries {
		entrySet[f] = true
	}
	for _, fn := range cl.DEntries {
		if fn == cl.DecodeM || fn.Name() == "IsMessage" {
			continue
		}
		r.Analysed(fn)
		// stores to Raw
		var dataParams []ssa.Value
		for _, pa := range fn.Params {
			if s, ok := pa.Type().Underlying().(*types.Slice); ok {
				if b, ok := s.Elem().Underlying().(*types.Basic); ok && b.Kind() == types.Byte {
					dataParams = append(dataParams, pa)
				}
			}
		}
		stores := 0
		for _, a := range fieldAccesses(fn, rawField) {
			if a.Kind != "store" {
				continue
			}
			stores++
			st := a.Instr.(*ssa.Store)
			for _, dp := range dataParams {
				if aliasOf(st.Val, dp, 0) {
					rc.Violation(fn, instrPos(st), "Raw = "+exprDepth(st.Val, 0), "the message retains the caller's slice instead of a copy: later writes by the caller change the decoded message")
				}
			}
			// source message of CloneTo: m.Raw must not be aliased into b.Raw
			if ld := rawLoadAlias(st.Val, rawField, a.Addr.X); ld {
				rc.Violation(fn, instrPos(st), "Raw = "+exprDepth(st.Val, 0), "the destination shares storage with another message's Raw")
			}
		}
		// call to Decode (or another entry) whose error is returned
		var dcalls []*ssa.Call
		eachInstr(fn, func(b *ssa.BasicBlock, i int, in ssa.Instruction) {
			if c, ok := in.(*ssa.Call); ok {
				if sc := c.Call.StaticCallee(); sc != nil && (sc == cl.DecodeM || (entrySet[sc] && sc != fn)) {
					dcalls = append(dcalls, c)
				}
			}
		})
		key := fnName(fn)
		rc.Instance(key, true, map[string]interface{}{"fn": key, "raw_stores": stores, "decode_calls": len(dcalls)})
		if len(dcalls) == 0 {
			rc.Violation(fn, fn.Pos(), "no Decode call", "the entry point never decodes what it stored")
			continue
		}
		// what is decoded is exactly the data: the Raw store that reaches the Decode call is
		// append(<empty>, data...) (or a reslice to the data's length)
		for _, dc := range dcalls {
			if dc.Call.StaticCallee() != cl.DecodeM || (len(dataParams) == 0 && fn.Name() != "CloneTo") {
				continue
			}
			var best *ssa.Store
			for _, a := range fieldAccesses(fn, rawField) {
				if st, ok := a.Instr.(*ssa.Store); ok && a.Kind == "store" && instrDominates(st, dc) {
					if best == nil || instrDominates(best, st) {
						best = st
					}
				}
			}
			if best == nil {
				rc.Violation(fn, instrPos(dc), "no store of the copy before Decode", "the buffer handed to Decode is not established to hold exactly the data (bytes of the previous message behind the copy would be decoded as part of this one)")
				continue
			}
			if !exactCopyValue(best.Val, 0) {
				rc.Violation(fn, instrPos(best), "Raw = "+exprDepth(best.Val, 0), "the stored buffer is not append(<empty>, data...): its length is not established to equal the data's length")
			}
			if fn.Name() == "CloneTo" {
				// the clone holds exactly the source's bytes: what is appended is the source's Raw itself, not a
				// re-slice of it by a cached field (shorter: bytes are lost; longer: stale buffer content is cloned)
				var srcs []ssa.Value
				var collect func(v ssa.Value, depth int)
				collect = func(v ssa.Value, depth int) {
					if depth > 6 {
						return
					}
					switch x := v.(type) {
					case *ssa.Call:
						if isBuiltinCall(x, "append") && len(x.Call.Args) == 2 {
							srcs = append(srcs, x.Call.Args[1])
						}
					case *ssa.ChangeType:
						collect(x.X, depth+1)
					case *ssa.Phi:
						for _, e := range x.Edges {
							collect(e, depth+1)
						}
					}
				}
				collect(best.Val, 0)
				for _, sv := range srcs {
					for {
						ct, isCT := sv.(*ssa.ChangeType)
						if !isCT {
							break
						}
						sv = ct.X
					}
					whole := false
					if ld, isLd := canonPhi(sv).(*ssa.UnOp); isLd && ld.Op == token.MUL {
						if _, f := loadedField(ld); f == rawField {
							whole = true
						}
					}
					if !whole {
						rc.Violation(fn, instrPos(best), "clone source "+exprDepth(sv, 0), "CloneTo does not copy the source's Raw as it is: a view cut by a cached field loses bytes or, when it reaches beyond len(Raw), clones stale buffer content")
					}
				}
			}
			eachInstr(fn, func(b *ssa.BasicBlock, i int, in ssa.Instruction) {
				if ci, ok := in.(ssa.CallInstruction); ok && in != ssa.Instruction(dc) && instrDominates(best, in) && instrDominates(in, dc) {
					if _, isB := ci.Common().Value.(*ssa.Builtin); isB {
						return
					}
					if sc := ci.Common().StaticCallee(); sc != nil && !p.isLibFn(sc) {
						return
					}
					rc.Violation(fn, instrPos(in), "call between the copy and Decode", "the copied buffer may be resized before it is decoded (undecided)")
				}
			})
		}
		// an entry that fills Raw from a reader: on every path from the Read to Decode the buffer has been
		// resliced to exactly the number of bytes read (also when that number is zero)
		if len(dataParams) == 0 && fn.Name() != "CloneTo" {
			var rd *ssa.Call
			eachInstr(fn, func(b *ssa.BasicBlock, i int, in ssa.Instruction) {
				if c, ok := in.(*ssa.Call); ok && c.Call.IsInvoke() && c.Call.Method.Name() == "Read" {
					rd = c
				}
			})
			if rd != nil {
				isCount := func(v ssa.Value) bool {
					e, ok := stripConvs(v).(*ssa.Extract)
					return ok && e.Index == 0 && e.Tuple == ssa.Value(rd)
				}
				repD := map[ssa.Instruction]bool{}
				q := &PathQuery{P: p, Fn: fn, From: rd}
				q.Step = func(in ssa.Instruction, deferred bool, st uint64, c *PathCtx) (uint64, bool) {
					if s, ok := in.(*ssa.Store); ok {
						if fa, isFA := s.Addr.(*ssa.FieldAddr); isFA && fieldOfAddr(fa) == rawField {
							if sl, isSl := s.Val.(*ssa.Slice); isSl && sl.Low == nil && sl.High != nil && isCount(c.Resolve(sl.High)) {
								return st | 1, false
							}
							return st &^ 1, false
						}
					}
					for _, dc := range dcalls {
						if in == ssa.Instruction(dc) && st&1 == 0 && !repD[in] {
							repD[in] = true
							rc.ViolationPath(fn, instrPos(in), "Decode of a buffer not cut to the bytes read", "on this path Raw still has the length it had before the read (for example after reading zero bytes): the previous message is decoded and reported again", c.Witness(fn, in))
						}
					}
					return st, false
				}
				q.Run()
			}
		}
		idx := errorResultIndex(fn)
		if idx < 0 {
			continue
		}
		q := &PathQuery{P: p, Fn: fn}
		reported := map[*ssa.Return]bool{}
		q.AtReturn = func(ret *ssa.Return, st uint64, c *PathCtx) {
			v := c.Resolve(deref(ret.Results[idx]))
			for _, dc := range dcalls {
				if v == ssa.Value(dc) {
					return
				}
				if e, ok := v.(*ssa.Extract); ok && e.Tuple == ssa.Value(dc) {
					return
				}
			}
			if c.NilState(v) == -1 {
				return // early error (nil target, read error)
			}
			if !reported[ret] {
				reported[ret] = true
				rc.ViolationPath(fn, instrPos(ret), "return "+exprDepth(v, 0), "a return that may report success does not return the error of (*Message).Decode", c.Witness(fn, ret))
			}
		}
		q.Run()
	}
}

// exactCopyValue: v is append(z, src...) with len(z) == 0, i.e. a buffer holding exactly src.
func exactCopyValue(v ssa.Value, depth int) bool {
	if depth > 6 {
		return false
	}
	switch x := v.(type) {
	case *ssa.Call:
		if isBuiltinCall(x, "append") && len(x.Call.Args) == 2 {
			return zeroLenValue(x.Call.Args[0], depth+1)
		}
	case *ssa.ChangeType:
		return exactCopyValue(x.X, depth+1)
	case *ssa.Phi:
		for _, e := range x.Edges {
			if !exactCopyValue(e, depth+1) {
				return false
			}
		}
		return len(x.Edges) > 0
	}
	return false
}

func zeroLenValue(v ssa.Value, depth int) bool {
	if depth > 6 {
		return false
	}
	switch x := v.(type) {
	case *ssa.Const:
		return x.Value == nil
	case *ssa.MakeSlice:
		c, ok := constInt(x.Len)
		return ok && c == 0
	case *ssa.Slice:
		if x.High != nil {
			if c, ok := constInt(x.High); ok && c == 0 {
				return true
			}
		}
	case *ssa.ChangeType:
		return zeroLenValue(x.X, depth+1)
	case *ssa.UnOp:
		if x.Op == token.MUL && callerProg != nil {
			if st := reachingFieldStore(callerProg, x); st != nil {
				return zeroLenValue(st.Val, depth+1)
			}
		}
	}
	return false
}

// rawLoadAlias: v aliases a load of field Raw of an object other than dstBase.
func rawLoadAlias(v ssa.Value, raw *types.Var, dstBase ssa.Value) bool {
	switch x := v.(type) {
	case *ssa.UnOp:
		if x.Op == token.MUL {
			if b, f := addrField(x.X); f == raw && b != dstBase {
				return true
			}
		}
	case *ssa.Slice:
		return rawLoadAlias(x.X, raw, dstBase)
	case *ssa.Phi:
		for _, e := range x.Edges {
			if rawLoadAlias(e, raw, dstBase) {
				return true
			}
		}
	case *ssa.Call:
		if isBuiltinCall(x, "append") && len(x.Call.Args) > 0 {
			return rawLoadAlias(x.Call.Args[0], raw, dstBase)
		}
	}
	return false
}

// headerGuards extracts, for the conditions that must hold at instruction `at`, canonical
// descriptors of length and cookie tests on the byte slice root.
func headerGuards(pr *Prover, at ssa.Instruction, extra ssa.Value) map[string]bool {
	return headerGuardsX(pr, at, extra, false)
}

// headerGuardsX: with strict, a condition that is not a length/accessor comparison is kept as an
// opaque requirement (for IsMessage: anything it demands beyond what Decode establishes is a violation).
var headerSiteCache = map[*ssa.Function][]wireSite{}
var headerSiteMu sync.Mutex

func headerGuardsX(pr *Prover, at ssa.Instruction, extra ssa.Value, strict bool) map[string]bool {
	out := map[string]bool{}
	addCond := func(cond ssa.Value, pol bool) {
		for {
			if u, ok := cond.(*ssa.UnOp); ok && u.Op == token.NOT {
				pol = !pol
				cond = u.X
				continue
			}
			break
		}
		b, ok := cond.(*ssa.BinOp)
		if !ok {
			if strict {
				out[fmt.Sprintf("?%s=%v", exprDepth(cond, 0), pol)] = true
			}
			return
		}
		// length test
		desc := func(v ssa.Value) string {
			if c, ok := v.(*ssa.Call); ok {
				if isBuiltinCall(c, "len") {
					return "len(R)"
				}
				if name, _, buf, ok := accessorCall(c); ok {
					if sl, ok := buf.(*ssa.Slice); ok {
						lo, _ := constInt(sl.Low)
						hi, _ := constInt(sl.High)
						if sl.Low == nil {
							lo = 0
						}
						return fmt.Sprintf("%s(R[%d:%d])", name, lo, hi)
					}
				}
			}
			if c, ok := constInt(v); ok {
				return fmt.Sprintf("%#x", c)
			}
			// a hand-written big-endian read (LAYOUT reports it as the UintN site it spells)
			if in, ok := stripConvs(v).(ssa.Instruction); ok && in.Parent() != nil {
				fn := in.Parent()
				headerSiteMu.Lock()
				sites, have := headerSiteCache[fn]
				headerSiteMu.Unlock()
				if !have {
					sites = wireSites(newLinEval(pr.P), fn)
					headerSiteMu.Lock()
					headerSiteCache[fn] = sites
					headerSiteMu.Unlock()
				}
				for _, ws := range sites {
					if ws.Val != nil && ws.Val == stripConvs(v) && (ws.Kind == "Uint32" || ws.Kind == "Uint16") && ws.Hi != nil {
						lo, okL := ws.Lo.isConst()
						hi, okH := ws.Hi.isConst()
						if okL && okH {
							return fmt.Sprintf("%s(R[%d:%d])", ws.Kind, lo, hi)
						}
					}
				}
			}
			return ""
		}
		x, y := desc(b.X), desc(b.Y)
		if x == "" || y == "" {
			if strict {
				out[fmt.Sprintf("?%s=%v", exprDepth(cond, 0), pol)] = true
			}
			return
		}
		op := b.Op
		if strings.HasPrefix(x, "0x") { // constant on the left: swap
			x, y = y, x
			switch op {
			case token.LSS:
				op = token.GTR
			case token.LEQ:
				op = token.GEQ
			case token.GTR:
				op = token.LSS
			case token.GEQ:
				op = token.LEQ
			}
		}
		if !pol {
			switch op {
			case token.LSS:
				op = token.GEQ
			case token.LEQ:
				op = token.GTR
			case token.GTR:
				op = token.LEQ
			case token.GEQ:
				op = token.LSS
			case token.EQL:
				op = token.NEQ
			case token.NEQ:
				op = token.EQL
			}
		}
		// normalise x > c  to  x >= c+1
		if op == token.GTR {
			var c int64
			fmt.Sscanf(y, "%v", &c)
			y = fmt.Sprintf("%#x", c+1)
			op = token.GEQ
		}
		out[x+" "+op.String()+" "+y] = true
	}
	b := at.Block()
	for _, ec := range allEntryConds(b) {
		addCond(ec.Cond, ec.Val)
	}
	if extra != nil {
		addCond(extra, true)
	}
	return out
}

func checkIsMessage(r *Run, rc *RuleCtx, cl *closures) {
	p := r.P
	isMsg := p.Fn("IsMessage")
	if isMsg == nil {
		rc.Fail("IsMessage", "function not found")
		return
	}
	r.Analysed(isMsg)
	// conditions under which IsMessage returns true
	want := map[string]bool{}
	okShape := false
	for _, ret := range returnsOf(isMsg) {
		v := ret.Results[0]
		switch x := v.(type) {
		case *ssa.Phi:
			nonFalse := 0
			for i, e := range x.Edges {
				if c, ok := e.(*ssa.Const); ok && c.Value != nil && c.Value.String() == "false" {
					continue
				}
				nonFalse++
				pred := x.Block().Preds[i]
				pr := newProver(p, isMsg)
				want = headerGuardsX(pr, pred.Instrs[len(pred.Instrs)-1], e, true)
			}
			okShape = nonFalse == 1
		case *ssa.BinOp:
			pr := newProver(p, isMsg)
			want = headerGuardsX(pr, ret, x, true)
			okShape = true
		}
	}
	if !okShape || len(want) < 2 {
		rc.Fail("IsMessage shape", fmt.Sprintf("could not extract the conjunction IsMessage tests (got %v): undecided", sortedKeys(want)))
		return
	}
	// conditions that hold at every successful return of Decode
	dm := cl.DecodeM
	pr := newProver(p, dm)
	idx := errorResultIndex(dm)
	n := 0
	for _, ret := range returnsOf(dm) {
		if idx < 0 || !isNilConst(deref(ret.Results[idx])) {
			continue
		}
		n++
		have := headerGuards(pr, ret, nil)
		rc.Instance("Decode success return", true, map[string]interface{}{"IsMessage_requires": sortedKeys(want), "Decode_success_implies": sortedKeys(have)})
		for w := range want {
			if have[w] {
				continue
			}
			// a length condition may follow from other guards: ask PROVE at the return
			var c int64
			if n, _ := fmt.Sscanf(w, "len(R) >= %v", &c); n == 1 {
				if root := cookieRoot(dm); root != nil {
					l := pr.linLen(root, "len")
					if res := pr.Prove(ret, Goal{XL: &lin{zeroTerm, c}, YL: &l, C: 0, extra: []ssa.Value{root}}); res.OK {
						continue
					}
				}
			}
			rc.Violation(dm, instrPos(ret), "IsMessage condition "+w, fmt.Sprintf("Decode can succeed without establishing %q, which IsMessage requires (Decode's guards: %v)", w, sortedKeys(have)))
		}
	}
	if n == 0 {
		rc.Fail("Decode success return", "no `return nil` found in (*Message).Decode")
	}
}

// checkWindow: structure of the attribute window in Decode.
func checkWindow(r *Run, rc *RuleCtx, cl *closures, sums map[*ssa.Function]*IntSummary) {
	p := r.P
	dm := cl.DecodeM
	attrT := p.Named("RawAttribute")
	valueF := FieldVar(attrT, "Value")
	rawF := FieldVar(cl.Message, "Raw")
	if valueF == nil || rawF == nil {
		rc.Fail("RawAttribute.Value / Message.Raw", "field not found")
		return
	}
	pr := newProver(p, dm)
	pr.Sum = func(f *ssa.Function) *IntSummary { return sums[f] }
	// (1) the value stored in attr.Value is w2[:aL] where w2 = w[4:], w the loop window (phi), aL = u16 at w[2:4]
	nv := 0
	for _, a := range fieldAccesses(dm, valueF) {
		if a.Kind != "store" {
			continue
		}
		nv++
		st := a.Instr.(*ssa.Store)
		sl, ok := st.Val.(*ssa.Slice)
		desc := exprDepth(st.Val, 0)
		rc.Instance("Value = "+desc, true, map[string]string{"value_view": desc})
		if !ok || sl.Low != nil || sl.High == nil {
			rc.Violation(dm, instrPos(st), "Value = "+desc, "the attribute value is not a prefix view window[:length] of the attribute window")
			continue
		}
		// the high bound must be the 16-bit length read at offset [2:4] of the attribute header
		if !isU16At(pr, sl.High, 2) {
			rc.Violation(dm, instrPos(st), "Value = "+desc, "the value length is not the 16-bit length field at bytes [2:4) of the attribute header")
		}
		// the base window must be header-window[4:]
		base, ok := sl.X.(*ssa.Slice)
		if !ok {
			rc.Violation(dm, instrPos(st), "Value = "+desc, "the value does not start right after the 4-byte attribute header")
			continue
		}
		if lo, ok := constInt(base.Low); !ok || lo != 4 || base.High != nil {
			rc.Violation(dm, instrPos(st), "Value = "+desc, "the value does not start right after the 4-byte attribute header")
		}
		// base.X must be the loop window phi whose initial value is Raw[20:20+size]
		ph, ok := base.X.(*ssa.Phi)
		if !ok {
			rc.Violation(dm, instrPos(st), "window", "the attribute window is not a loop-carried slice")
			continue
		}
		initOK, stepOK := false, false
		for i, e := range ph.Edges {
			pred := ph.Block().Preds[i]
			if blockDominates(pred, ph.Block()) && !blockDominates(ph.Block(), pred) {
				// initial window
				if isl, ok := e.(*ssa.Slice); ok {
					lo, lok := constInt(isl.Low)
					if lok && lo == 20 && isl.High != nil {
						hl := pr.lin(isl.High)
						// high = 20 + u16@[2:4]
						if hb, ok := isl.High.(*ssa.BinOp); ok && hb.Op == token.ADD {
							var other ssa.Value
							if c, ok := constInt(hb.X); ok && c == 20 {
								other = hb.Y
							} else if c, ok := constInt(hb.Y); ok && c == 20 {
								other = hb.X
							}
							if other != nil && isU16At(pr, other, 2) {
								if _, f := loadedField(isl.X); f == rawF {
									initOK = true
								}
							}
						}
						_ = hl
					}
				}
				rc.Instance("initial window "+exprDepth(e, 0), true, map[string]string{"initial_window": exprDepth(e, 0)})
			} else {
				// step: the next window starts 4 + padded(length) bytes into this one, in one reslice
				// (window[4+p:]) or two (window[4:][p:]), open-ended
				var konst int64
				var terms []ssa.Value
				var split func(v ssa.Value)
				split = func(v ssa.Value) {
					v = stripConvs(v)
					if c, ok := constInt(v); ok {
						konst += c
						return
					}
					if b, ok := v.(*ssa.BinOp); ok && b.Op == token.ADD {
						split(b.X)
						split(b.Y)
						return
					}
					terms = append(terms, v)
				}
				okChain := true
				cur := canonPhi(e)
				for i := 0; i < 4 && cur != ssa.Value(ph); i++ {
					nsl, ok := cur.(*ssa.Slice)
					if !ok || nsl.High != nil || nsl.Low == nil {
						okChain = false
						break
					}
					split(nsl.Low)
					cur = canonPhi(nsl.X)
				}
				if okChain && cur == ssa.Value(ph) && konst == 4 && len(terms) == 1 {
					if c, ok := terms[0].(*ssa.Call); ok {
						if sc := c.Call.StaticCallee(); sc != nil && sums[sc] != nil && len(c.Call.Args) == 1 && pr.lin(c.Call.Args[0]) == pr.lin(sl.High) {
							stepOK = true
						}
					}
				}
				rc.Instance("next window "+exprDepth(e, 0), true, map[string]string{"next_window": exprDepth(e, 0)})
			}
		}
		if !initOK {
			rc.Violation(dm, instrPos(ph), "initial window", "the first attribute window is not Raw[20 : 20+declared length]: attributes may be read from outside the declared body")
		}
		if !stepOK {
			rc.Violation(dm, instrPos(ph), "next window", "the next attribute window does not start at the padded value length: values can overlap or skip bytes")
		}
	}
	if nv == 0 {
		rc.Fail("attr.Value store", "Decode does not store an attribute value view")
	}
}

// isU16At: v is int(Uint16(x[off:off+2])) for some slice x.
func isU16At(pr *Prover, v ssa.Value, off int64) bool {
	for i := 0; i < 6; i++ {
		v = canonPhi(v)
		switch x := v.(type) {
		case *ssa.Convert:
			v = x.X
			continue
		case *ssa.ChangeType:
			v = x.X
			continue
		case *ssa.UnOp:
			if x.Op == token.MUL {
				if fa, ok := x.X.(*ssa.FieldAddr); ok {
					if a, ok := fa.X.(*ssa.Alloc); ok {
						if fv, _ := localFieldValue(a, fa.Field, x, 0); fv != nil {
							v = fv
							continue
						}
					}
				}
				if d := deref(x); d != ssa.Value(x) {
					v = d
					continue
				}
			}
			return false
		case *ssa.Call:
			name, w, buf, ok := accessorCall(x)
			if !ok || w != 2 || !strings.HasPrefix(name, "Uint") {
				return false
			}
			sl, ok := buf.(*ssa.Slice)
			if !ok {
				return false
			}
			lo := int64(0)
			if sl.Low != nil {
				var lok bool
				lo, lok = constInt(sl.Low)
				if !lok {
					return false
				}
			}
			return lo == off
		}
		return false
	}
	return false
}

// cookieRoot: the byte slice whose bytes [4:8) Decode compares with the magic cookie.
func cookieRoot(fn *ssa.Function) ssa.Value {
	var root ssa.Value
	eachInstr(fn, func(b *ssa.BasicBlock, i int, in ssa.Instruction) {
		if name, w, buf, ok := accessorCall(in); ok && w == 4 && name == "Uint32" && root == nil {
			if sl, ok := buf.(*ssa.Slice); ok {
				root = sl.X
			}
		}
	})
	return root
}

// rootFieldOf: "Type.field" of the struct field a slice value is (a re-slice of) a load of; "" otherwise.
func rootFieldOf(v ssa.Value) string {
	for i := 0; i < 8; i++ {
		switch x := v.(type) {
		case *ssa.Slice:
			v = x.X
			continue
		case *ssa.ChangeType:
			v = x.X
			continue
		case *ssa.UnOp:
			if x.Op == token.MUL {
				if fa, ok := x.X.(*ssa.FieldAddr); ok {
					if fv := fieldOfAddr(fa); fv != nil {
						tn := "?"
						if pt, ok := fa.X.Type().Underlying().(*types.Pointer); ok {
							if n, ok := pt.Elem().(*types.Named); ok {
								tn = n.Obj().Name()
							}
						}
						return tn + "." + fv.Name()
					}
				}
			}
			return ""
		}
		return ""
	}
	return ""
}
