package main

import (
	"go/token"
	"go/types"

	"golang.org/x/tools/go/ssa"
)

func init() { register("C12", "other", runC12) }

func runC12(r *Run) {
	p := r.P
	r.Res.Explanation = "data-flow identities of response routing decided on the SSA form: the client table is indexed by the event's own transaction ID, the completed transaction is the one found, lookup and removal happen in one write-locked section, the agent builds the event from the message's own ID and the message itself, the reader hands a message to the agent only after a successful read+decode of that same message, the fallback handler runs only for unknown IDs and never for stopped events, recycled transaction objects are cleared and fully re-initialised"
	r.NotDecided("behaviour over histories of thousands of pooled reuses as a trace property (only the per-use reset/initialisation premises)")
	r.Assume("map lookup by a [12]byte key is exact", "C10.init/C10.removal for pooled objects")
	m := resolveClient(p)
	if !clientAnchors(r, "C12", m) {
		return
	}
	k := newKeyer()
	k.fwdLocal = true
	k.pureFieldLoads = true
	evT := p.Named("Event")
	evID := FieldVar(evT, "TransactionID")
	evMsg := FieldVar(evT, "Message")
	evErr := FieldVar(evT, "Error")

	// ---- key
	ky := r.Rule("C12.key", "the callback indexes the client table with the event's TransactionID, completes exactly the entry it found, and removes the entry under the same write-locked section as the lookup", 3)
	{
		fn := m.Callback
		li := computeLocks(fn)
		var lk *ssa.Lookup
		var del *ssa.Call
		for _, a := range sharedAccesses(fn, map[*types.Var]bool{m.Table: true}) {
			switch a.Kind {
			case "mapread":
				lk = a.In.(*ssa.Lookup)
			case "mapdelete":
				del = a.In.(*ssa.Call)
			}
		}
		if lk == nil {
			ky.Violation(fn, fn.Pos(), "no lookup", "the callback does not look the transaction up")
		} else {
			evParam := fn.Params[1]
			want := k.Key(evParam) + "." + evID.Name()
			got := k.Key(lk.Index)
			ky.Instance("lookup key", true, map[string]string{"lookup_key": got})
			if got != want {
				ky.Violation(fn, instrPos(lk), "lookup key "+exprDepth(lk.Index, 0), "the table is not indexed by the event's own transaction ID: the response is delivered to another transaction's handler")
			}
			// handle receiver = found entry
			n := 0
			eachInstr(fn, func(b *ssa.BasicBlock, i int, in ssa.Instruction) {
				c, ok := in.(*ssa.Call)
				if !ok || !callsFn(c, m.Handle) {
					return
				}
				n++
				recv := c.Call.Args[0]
				if e, ok := recv.(*ssa.Extract); !ok || e.Tuple != ssa.Value(lk) || e.Index != 0 {
					ky.Violation(fn, instrPos(c), "handle receiver "+exprDepth(recv, 0), "the completed transaction is not the entry found under the event's ID")
				}
				// the event passed is the callback's event (possibly with its Error replaced)
				if len(c.Call.Args) == 2 {
					if idk, ok := structArgKey(k, c.Call.Args[1], evID.Name()); !ok || idk != want {
						ky.Violation(fn, instrPos(c), "event passed to handle", "the handler does not receive the event (ID) that was looked up")
					}
					if mk, ok := structArgKey(k, c.Call.Args[1], evMsg.Name()); !ok || mk != k.Key(evParam)+"."+evMsg.Name() {
						ky.Violation(fn, instrPos(c), "message passed to handle", "the handler does not receive the message carried by the event")
					}
				}
			})
			ky.Instance("handle calls", true, map[string]int{"handle_calls": n})
			// atomic find-and-delete
			if del == nil {
				ky.Violation(fn, instrPos(lk), "no removal in the callback", "lookup and removal are not one atomic step")
			} else {
				need := lockObjKey(fn.Params[0]) + "." + m.Mux.Name()
				ky.Instance("find-and-delete section", true, map[string]string{"lockset_at_lookup": heldString(li.Held(lk)), "lockset_at_delete": heldString(li.Held(del))})
				if li.Held(lk)[need] != "W" || li.Held(del)[need] != "W" {
					ky.Violation(fn, instrPos(lk), "lookup/removal not under the write lock", "two goroutines (reader and collector) can both find the same transaction: it is completed and re-registered at once, pooled twice, and live entries are lost")
				}
				// no unlock between them
				bad := false
				eachInstr(fn, func(b *ssa.BasicBlock, i int, in ssa.Instruction) {
					if op := lockOpOf(in); op != nil && (op.Kind == "Unlock" || op.Kind == "RUnlock") && op.Obj == need {
						if reachableFrom(lk, in) && reachableFrom(in, del) {
							bad = true
						}
					}
				})
				if bad {
					ky.Violation(fn, instrPos(del), "unlock between lookup and removal", "find-and-delete is not atomic")
				}
				// removal key is the found entry's id or the event's ID
				dk := k.Key(del.Call.Args[1])
				if dk != want && dk != "*&"+k.Key(lk)+"#0."+m.TxID.Name() {
					ky.Violation(fn, instrPos(del), "removal key "+exprDepth(del.Call.Args[1], 0), "the removed key is not the ID that was looked up")
				}
			}
		}
		// Agent.Process builds the event from the message (C13.terminal checks the same on the agent side)
		if pf := p.Meth("Agent", "Process"); pf != nil {
			am, _ := resolveAgent(p)
			r.Analysed(pf)
			if am != nil {
				for _, hc := range handlerCalls(pf, am.Handler) {
					idk, ok1 := structArgKey(k, hc.Call.Args[0], evID.Name())
					mk, ok2 := structArgKey(k, hc.Call.Args[0], evMsg.Name())
					mp := k.Key(pf.Params[1])
					ky.Instance("Agent.Process event", true, map[string]string{"event_id": idk, "event_message": mk})
					if !ok1 || idk != "*&"+mp+".TransactionID" {
						ky.Violation(pf, instrPos(hc), "event ID", "the agent's event does not carry the message's own transaction ID")
					}
					if !ok2 || mk != mp {
						ky.Violation(pf, instrPos(hc), "event message", "the agent's event does not carry the processed message")
					}
				}
			}
		} else {
			ky.Fail("Agent.Process", "not found")
		}
	}
	ky.Done()

	// ---- stale entries (shared path query with C10.removal)
	sl := r.Rule("C12.stale", "a transaction object is completed and returned to the pool only while it is not registered in the client table (otherwise a late response for its old ID reaches whichever transaction recycles the object)", 1)
	checkCallbackPaths(r, sl, m, k)
	sl.Done()

	// ---- no re-entrant completion: a transaction object completed twice is put into the pool twice and
	// then serves two transactions at once (the response for one ID reaches the other's handler)
	re := r.Rule("C12.reenter", "the agent callback calls a handler-invoking agent method only while the transaction is not registered in the client table (shared with C10.reenter): no object is completed and recycled twice", 1)
	checkReenter(r, re, m, k)
	re.Done()

	// ---- reader
	rd := r.Rule("C12.reader", "the reader hands a message to the agent only on the success edge of ReadFrom (read + decode) of that same message; undecodable datagrams are dropped", 1)
	{
		fn := m.Reader
		var rf *ssa.Call
		var procs []*ssa.Call
		readFrom := p.Meth("Message", "ReadFrom")
		eachInstr(fn, func(b *ssa.BasicBlock, i int, in ssa.Instruction) {
			if c, ok := in.(*ssa.Call); ok {
				if callsFn(c, readFrom) {
					rf = c
				}
				if ifaceCallOnField(c, m.Agent, "Process") {
					procs = append(procs, c)
				}
			}
		})
		rd.Instance(fnName(fn), true, map[string]interface{}{"fn": fnName(fn), "process_calls": len(procs)})
		if rf == nil || len(procs) == 0 {
			rd.Violation(fn, fn.Pos(), "reader structure", "the reader does not ReadFrom a message and Process it")
		} else {
			var errV ssa.Value
			for _, u := range *rf.Referrers() {
				if e, ok := u.(*ssa.Extract); ok && e.Index == 1 {
					errV = e
				}
			}
			for _, pc := range procs {
				// same message
				if pc.Call.Args[0] != rf.Call.Args[0] {
					rd.Violation(fn, instrPos(pc), "Process of another message", "the processed message is not the one just read")
				}
				ok := false
				if errV != nil {
					for _, ci := range ifsOn(fn, func(v ssa.Value) bool {
						b, ok := v.(*ssa.BinOp)
						return ok && (b.Op == token.EQL || b.Op == token.NEQ) && ((b.X == errV && isNilConst(b.Y)) || (b.Y == errV && isNilConst(b.X)))
					}) {
						b := ci.Val.(*ssa.BinOp)
						nilEdge := ci.OnTrue
						if b.Op == token.NEQ {
							nilEdge = ci.OnFalse
						}
						if len(nilEdge.Preds) == 1 && blockDominates(nilEdge, pc.Block()) {
							ok = true
						}
					}
				}
				if !ok {
					rd.Violation(fn, instrPos(pc), "Process regardless of the read error", "a datagram that failed to read or decode is delivered (the message still holds the previous datagram's or partial content)")
				}
			}
			// the reader leaves its loop only on the stop signal or when the agent is closed: no return is taken
			// because a datagram failed to read or decode (a runt datagram must not end delivery for everybody)
			if errV != nil {
				var dep func(v ssa.Value, depth int) bool
				dep = func(v ssa.Value, depth int) bool {
					if v == errV {
						return true
					}
					if depth > 8 || v == nil {
						return false
					}
					switch x := v.(type) {
					case *ssa.BinOp:
						return dep(x.X, depth+1) || dep(x.Y, depth+1)
					case *ssa.UnOp:
						return dep(x.X, depth+1)
					case *ssa.Phi:
						for _, e := range x.Edges {
							if dep(e, depth+1) {
								return true
							}
						}
					case *ssa.Call:
						for _, a := range x.Call.Args {
							if dep(a, depth+1) {
								return true
							}
						}
						if x.Call.IsInvoke() {
							return dep(x.Call.Value, depth+1)
						}
					case *ssa.Extract:
						return dep(x.Tuple, depth+1)
					case *ssa.MakeInterface:
						return dep(x.X, depth+1)
					case *ssa.ChangeInterface:
						return dep(x.X, depth+1)
					case *ssa.ChangeType:
						return dep(x.X, depth+1)
					case *ssa.TypeAssert:
						return dep(x.X, depth+1)
					}
					return false
				}
				repRet := map[*ssa.Return]bool{}
				rq := &PathQuery{P: p, Fn: fn}
				rq.AtReturn = func(ret *ssa.Return, _ uint64, pc *PathCtx) {
					if repRet[ret] {
						return
					}
					for _, ec := range pc.PathConds() {
						if !dep(ec.Cond, 0) {
							continue
						}
						// the success edge of the nil test is the one place where the error may be looked at
						cond, val := ec.Cond, ec.Val
						for {
							u, isU := cond.(*ssa.UnOp)
							if !isU || u.Op != token.NOT {
								break
							}
							cond, val = u.X, !val
						}
						if b, isB := cond.(*ssa.BinOp); isB && (b.Op == token.EQL || b.Op == token.NEQ) && (b.X == errV && isNilConst(b.Y) || b.Y == errV && isNilConst(b.X)) && (b.Op == token.EQL) == val {
							continue
						}
						repRet[ret] = true
						rd.ViolationPath(fn, instrPos(ret), "reader stops on a read error", "the reader's goroutine returns depending on the error of ReadFrom: one datagram that fails to read or decode (a runt, garbage) ends the delivery of every later response", pc.Witness(fn, ret))
						break
					}
					if repRet[ret] {
						return
					}
					// and it leaves only for a reason to stop: the stop signal was received, the client is closed, or
					// the agent said it is closed - never after a message that was delivered normally
					reason := false
					for _, ec := range pc.PathConds() {
						cond, val := ec.Cond, ec.Val
						for {
							u, isU := cond.(*ssa.UnOp)
							if !isU || u.Op != token.NOT {
								break
							}
							cond, val = u.X, !val
						}
						switch why, pol, known := stopReasonOf(p, m, cond); {
						case why == "":
						case !known:
							reason = true // depends on a stop source in a shape not modelled: accepted
						case pol == val:
							reason = true
						}
					}
					if !reason {
						repRet[ret] = true
						rd.ViolationPath(fn, instrPos(ret), "reader stops without a reason to stop", "the reader's goroutine returns on a path on which neither the stop signal was received nor the agent (or client) was found closed: after one delivered (or dropped) datagram no later response is read, every later transaction times out", pc.Witness(fn, ret))
					}
				}
				rq.Run()
			}
		}
	}
	rd.Done()

	// ---- fallback
	fb := r.Rule("C12.fallback", "the client's fallback handler is called only on the not-found edge and only when the event is not ErrTransactionStopped", 1)
	{
		fn := m.Callback
		var lk *ssa.Lookup
		for _, a := range sharedAccesses(fn, map[*types.Var]bool{m.Table: true}) {
			if a.Kind == "mapread" {
				lk = a.In.(*ssa.Lookup)
			}
		}
		stopped, _ := p.Stun.Members["ErrTransactionStopped"].(*ssa.Global)
		n := 0
		eachInstr(fn, func(b *ssa.BasicBlock, i int, in ssa.Instruction) {
			c, ok := in.(*ssa.Call)
			if !ok || c.Call.IsInvoke() || c.Call.StaticCallee() != nil || !valueIsLoadOfField(c.Call.Value, m.Handler) {
				return
			}
			n++
			// not-found edge
			okNF, okStop := false, false
			if lk != nil {
				for _, ci := range ifsOn(fn, func(v ssa.Value) bool {
					e, ok := v.(*ssa.Extract)
					return ok && e.Tuple == ssa.Value(lk) && e.Index == 1
				}) {
					if blockDominates(ci.OnFalse, b) && len(ci.OnFalse.Preds) == 1 {
						okNF = true
					}
				}
			}
			for _, ci := range ifsOn(fn, func(v ssa.Value) bool {
				cc, ok := v.(*ssa.Call)
				if !ok || !isPkgFuncCall(cc, "errors", "Is") || len(cc.Call.Args) != 2 {
					return false
				}
				return containsErrorField(cc.Call.Args[0]) && stopped != nil && loadsGlobal(cc.Call.Args[1], stopped)
			}) {
				if blockDominates(ci.OnFalse, b) && len(ci.OnFalse.Preds) == 1 {
					okStop = true
				}
			}
			if !okNF {
				fb.Violation(fn, instrPos(c), "fallback handler for a known transaction", "a response that matches an in-flight transaction also (or instead) goes to the fallback handler")
			}
			if !okStop {
				fb.Violation(fn, instrPos(c), "fallback handler sees stopped events", "internal ErrTransactionStopped events (emitted when the client itself stops a transaction) leak to the fallback handler")
			}
		})
		fb.Instance(fnName(fn), true, map[string]int{"fallback_calls": n})
		_ = evErr
	}
	fb.Done()

	// ---- pool
	pl := r.Rule("C12.pool", "a transaction returned to the pool has its id, raw bytes and attempt counter cleared", 3)
	{
		fn := m.Put
		for _, fv := range []*types.Var{m.TxID, m.TxRaw, m.TxAttempt} {
			ok := false
			for _, a := range fieldAccesses(fn, fv) {
				if a.Kind != "store" {
					continue
				}
				st := a.Instr.(*ssa.Store)
				switch v := st.Val.(type) {
				case *ssa.Const:
					ok = true
				case *ssa.Slice:
					if c, isC := constInt(v.High); isC && c == 0 {
						ok = true
					}
				case *ssa.UnOp:
					// load of a zero-valued local (transactionID{})
					if al, isA := v.X.(*ssa.Alloc); isA && cellValue(al) == nil {
						ok = true
					}
				}
			}
			pl.Instance("put clears "+fv.Name(), true, nil)
			if !ok {
				pl.Violation(fn, fn.Pos(), "field "+fv.Name()+" not cleared", "a pooled object keeps the previous transaction's "+fv.Name())
			}
		}
	}
	// in Start a transaction object goes back to the pool only if it was never published: once it has
	// been in the client table the reader or the collector may already have completed and recycled it
	{
		fn := m.Start
		rep := map[ssa.Instruction]bool{}
		q := &PathQuery{P: p, Fn: fn}
		q.Step = func(in ssa.Instruction, deferred bool, st uint64, c *PathCtx) (uint64, bool) {
			call, ok := in.(*ssa.Call)
			if !ok {
				return st, false
			}
			if callsFn(call, m.Reg) {
				return st | 1, false
			}
			if callsFn(call, m.Put) {
				var reg *ssa.Call
				eachInstr(fn, func(b *ssa.BasicBlock, i int, x ssa.Instruction) {
					if cx, isC := x.(*ssa.Call); isC && callsFn(cx, m.Reg) {
						reg = cx
					}
				})
				if st&1 != 0 && (reg == nil || c.NilState(reg) != -1) && !rep[in] {
					rep[in] = true
					pl.ViolationPath(fn, instrPos(in), "put of a published transaction in Start", "the object was registered in the client table: the reader or collector may complete and recycle it concurrently, so it ends up in the pool twice and two later transactions share it (responses cross-delivered)", c.Witness(fn, in))
				}
			}
			return st, false
		}
		q.Run()
		pl.Instance("Start|put only while unpublished", true, nil)
	}
	pl.Done()

	// ---- ReadFrom rejects nothing that Decode accepts
	if rf, dm := p.Meth("Message", "ReadFrom"), p.buildClosures().DecodeM; rf != nil && dm != nil {
		rr := r.Rule("C12.readfrom", "ReadFrom fails only with the error of the reader's Read or with Decode's own error: every datagram that fits the read buffer and decodes is delivered", 1)
		r.Analysed(rf)
		idx := errorResultIndex(rf)
		rep := map[*ssa.Return]bool{}
		n := 0
		q := &PathQuery{P: p, Fn: rf}
		q.Step = func(in ssa.Instruction, deferred bool, st uint64, c *PathCtx) (uint64, bool) {
			if call, isC := in.(*ssa.Call); isC && callsFn(call, dm) {
				return st | 1, false
			}
			return st, false
		}
		q.AtReturn = func(ret *ssa.Return, st uint64, c *PathCtx) {
			n++
			v := c.Resolve(deref(c.Resolve(ret.Results[idx])))
			ok := isNilConst(v) && st&1 == 1
			if isNilConst(v) && st&1 == 0 && !rep[ret] {
				rep[ret] = true
				rr.ViolationPath(rf, instrPos(ret), "success without Decode", "ReadFrom reports success on a path that never decodes what was read: the client's reader then processes whatever its reused Message still holds from an earlier datagram (delivered a second time, or an undecodable datagram delivered after all)", c.Witness(rf, ret))
				return
			}
			if call, isC := v.(*ssa.Call); isC && callsFn(call, dm) {
				ok = true
			}
			if e, isE := v.(*ssa.Extract); isE {
				if call, isC := e.Tuple.(*ssa.Call); isC && call.Call.IsInvoke() && call.Call.Method.Name() == "Read" {
					ok = true
				}
			}
			if !ok && !rep[ret] {
				rep[ret] = true
				rr.ViolationPath(rf, instrPos(ret), "return "+exprDepth(v, 0), "ReadFrom reports an error of its own: a complete datagram (for example one that exactly fills the read buffer) is dropped by the client's reader although it decodes", c.Witness(rf, ret))
			}
		}
		q.Run()
		rr.Instance(fnName(rf), true, map[string]int{"return_paths": n})
		rr.Done()
	}

	// ---- the message the handler sees is the decode of exactly the received datagram (shared with C08.reset)
	if cl := p.buildClosures(); cl.DecodeM != nil && cl.Message != nil {
		dc := r.Rule("C12.decode", "on every path of Decode (run by the reader on its reused Message) the attribute list is emptied before anything is appended and before every successful return: the event's message carries no attribute of an earlier datagram", 1)
		checkDecodeReset(r, dc, cl.DecodeM, FieldVar(cl.Message, "Attributes"))
		dc.Done()
	}
	// ---- an in-flight transaction stays findable until it is completed
	iw := r.Rule("C12.inflight", "from Start until its completion a transaction is in the client table whenever a message can arrive: the callback takes it out of the table only to complete it (a removal that is followed by a re-registration leaves a window in which a response with its ID finds no transaction)", 1)
	{
		fn := m.Callback
		var del *ssa.Call
		for _, a := range sharedAccesses(fn, map[*types.Var]bool{m.Table: true}) {
			if a.Kind == "mapdelete" {
				del = a.In.(*ssa.Call)
			}
		}
		if del == nil {
			iw.Fail("removal in the callback", "not found")
		} else {
			reported := false
			nPaths := 0
			q := &PathQuery{P: p, Fn: fn, From: del, K: k}
			q.Step = func(in ssa.Instruction, deferred bool, st uint64, c *PathCtx) (uint64, bool) {
				if callsFn(in, m.Handle) {
					return st | 1, false
				}
				if callsFn(in, m.Reg) && st&1 == 0 {
					nPaths++
					if !reported {
						reported = true
						iw.ViolationPath(fn, instrPos(in), "removed while only retransmitting", "for a timeout that merely triggers a retransmission the transaction is removed from the client table and registered again later: a response that arrives in between finds no transaction and goes to the fallback handler (or is dropped); the transaction goes on retransmitting and can end in a timeout although its response was received", c.Witness(fn, in))
					}
				}
				return st, false
			}
			q.Run()
			iw.Instance(fnName(fn), true, map[string]int{"re_registering_paths": nPaths})
		}
	}
	iw.Done()

	// the handler runs after the agent lock is released: a handler that starts a follow-up transaction must not block delivery (shared with C13)
	r.Borrow("C13", map[string]string{"C13.order": "C12.order"})
	// the callback of Do runs inside the event handler, while the reader's reused Message still holds this datagram; Start removes/stops only the transaction it registered (shared with C10)
	r.Borrow("C10", map[string]string{"C10.do": "C12.do", "C10.rollback": "C12.rollback", "C10.putlast": "C12.putlast"})
	// the reader's buffer keeps its capacity from one datagram to the next: a response is never truncated because an
	// earlier one was shorter (shared with C20)
	r.Borrow("C20", map[string]string{"C20.retain": "C12.buffer"})
	// an undecodable datagram is an error, never a panic in the reader's goroutine: the decoder is total (shared with C01)
	r.Borrow("C01", map[string]string{"C01.bounds": "C12.decodebounds", "C01.pad": "C12.decodepad"})
}

// structArgKey: key of field `name` of a struct-typed call argument (a load of a local alloc, or a parameter/value struct).
func structArgKey(k *keyer, arg ssa.Value, name string) (string, bool) {
	if ld, ok := arg.(*ssa.UnOp); ok && ld.Op == token.MUL {
		if a, ok := ld.X.(*ssa.Alloc); ok {
			pt, _ := a.Type().Underlying().(*types.Pointer)
			if st, ok := pt.Elem().Underlying().(*types.Struct); ok {
				for i := 0; i < st.NumFields(); i++ {
					if st.Field(i).Name() == name {
						return k.localFieldKey(a, i, ld, 0)
					}
				}
			}
		}
	}
	return k.Key(arg) + "." + name, true
}

// stopReasonOf classifies a branch condition of the reader: why = "" when it does not depend on a stop source
// (the stop channel, the closed flag, ErrAgentClosed); known = the shape is modelled and pol is the outcome of
// the condition that means "stop".
func stopReasonOf(p *Prog, m *clientModel, cond ssa.Value) (why string, pol bool, known bool) {
	agentClosed, _ := p.Stun.Members["ErrAgentClosed"].(*ssa.Global)
	isAgentClosed := func(v ssa.Value) bool {
		ld, ok := v.(*ssa.UnOp)
		return ok && ld.Op == token.MUL && agentClosed != nil && ld.X == ssa.Value(agentClosed)
	}
	isStopSelect := func(v ssa.Value) (int64, bool) {
		sel, ok := v.(*ssa.Select)
		if !ok {
			return 0, false
		}
		for i, st := range sel.States {
			if st.Dir == types.RecvOnly && valueIsLoadOfField(st.Chan, m.CloseCh) {
				return int64(i), true
			}
		}
		return 0, false
	}
	switch x := cond.(type) {
	case *ssa.BinOp:
		if x.Op == token.EQL || x.Op == token.NEQ {
			if isAgentClosed(x.X) || isAgentClosed(x.Y) {
				return "agent closed", x.Op == token.EQL, true
			}
			if e, ok := x.X.(*ssa.Extract); ok && e.Index == 0 {
				if idx, isSel := isStopSelect(e.Tuple); isSel {
					if c, isC := constInt(x.Y); isC {
						if c == idx {
							return "stop signal", x.Op == token.EQL, true
						}
						return "stop signal", false, false
					}
				}
			}
		}
	case *ssa.Call:
		if sc := x.Call.StaticCallee(); sc != nil && sc.Pkg != nil && sc.Pkg.Pkg.Path() == "errors" && sc.Name() == "Is" && len(x.Call.Args) == 2 {
			if isAgentClosed(x.Call.Args[1]) || isAgentClosed(x.Call.Args[0]) {
				return "agent closed", true, true
			}
		}
	case *ssa.UnOp:
		if x.Op == token.MUL && valueIsLoadOfField(x, m.Closed) {
			return "client closed", true, true
		}
	}
	// any other shape: does it depend on a stop source at all?
	var dep func(v ssa.Value, depth int) bool
	dep = func(v ssa.Value, depth int) bool {
		if v == nil || depth > 8 {
			return false
		}
		if isAgentClosed(v) || valueIsLoadOfField(v, m.Closed) || valueIsLoadOfField(v, m.CloseCh) {
			return true
		}
		switch y := v.(type) {
		case *ssa.BinOp:
			return dep(y.X, depth+1) || dep(y.Y, depth+1)
		case *ssa.UnOp:
			return dep(y.X, depth+1)
		case *ssa.Phi:
			for _, e := range y.Edges {
				if dep(e, depth+1) {
					return true
				}
			}
		case *ssa.Extract:
			return dep(y.Tuple, depth+1)
		case *ssa.Select:
			for _, st := range y.States {
				if dep(st.Chan, depth+1) {
					return true
				}
			}
		case *ssa.Call:
			for _, a := range y.Call.Args {
				if dep(a, depth+1) {
					return true
				}
			}
		}
		return false
	}
	if dep(cond, 0) {
		return "stop source", false, false
	}
	return "", false, false
}
