package main

import (
	"fmt"
	"go/token"
	"go/types"
	"sort"
	"strings"

	"golang.org/x/tools/go/ssa"
)

func init() { register("C18", "other", runC18) }

// keyScheduleFeatures extracts the operations that make up the HMAC key schedule in fn, by field role.
// hm is the *hmac value (receiver or freshly allocated object), key the key parameter.
func keyScheduleFeatures(p *Prog, fn *ssa.Function, T *types.Named, key *ssa.Parameter) []string {
	feats := map[string]bool{}
	fieldName := func(v ssa.Value) string {
		v = stripConvs(v)
		if _, f := loadedField(v); f != nil {
			return f.Name()
		}
		// a value that is stored into exactly one field (inner := h(); hm := &hmac{inner: inner}): that field
		if refs := v.Referrers(); refs != nil {
			name := ""
			for _, u := range *refs {
				st, ok := u.(*ssa.Store)
				if !ok || st.Val != v {
					continue
				}
				fa, ok := st.Addr.(*ssa.FieldAddr)
				if !ok {
					continue
				}
				if f := fieldOfAddr(fa); f != nil {
					if name != "" && name != f.Name() {
						return ""
					}
					name = f.Name()
				}
			}
			return name
		}
		return ""
	}
	keyish := func(v ssa.Value) string {
		// key parameter, or phi(key, outer.Sum(nil))
		v = stripConvs(v)
		if v == ssa.Value(key) {
			return "key"
		}
		if ph, ok := v.(*ssa.Phi); ok {
			var parts []string
			for _, e := range ph.Edges {
				if e == ssa.Value(key) {
					parts = append(parts, "key")
				} else if c, ok := e.(*ssa.Call); ok && c.Call.IsInvoke() && c.Call.Method.Name() == "Sum" {
					arg := "x"
					if isNilConst(c.Call.Args[0]) {
						arg = "nil"
					}
					parts = append(parts, fieldName(c.Call.Value)+".Sum("+arg+")")
				} else {
					parts = append(parts, "?")
				}
			}
			sort.Strings(parts)
			return "phi(" + strings.Join(parts, ",") + ")"
		}
		return "?"
	}
	loops := loopsOf(fn)
	eachInstr(fn, func(b *ssa.BasicBlock, i int, in ssa.Instruction) {
		switch x := in.(type) {
		case *ssa.Call:
			if x.Call.IsInvoke() {
				recv := fieldName(x.Call.Value)
				if recv == "" {
					return
				}
				switch x.Call.Method.Name() {
				case "Write":
					arg := fieldName(x.Call.Args[0])
					if arg == "" {
						arg = keyish(x.Call.Args[0])
					}
					// under the long-key guard?
					guard := ""
					for _, ci := range ifsOn(fn, func(v ssa.Value) bool {
						bo, ok := v.(*ssa.BinOp)
						if !ok || (bo.Op != token.GTR && bo.Op != token.LSS) {
							return false
						}
						return true
					}) {
						if blockDominates(ci.OnTrue, b) && len(ci.OnTrue.Preds) == 1 {
							bo := ci.Val.(*ssa.BinOp)
							guard = " if " + describeKeyGuard(bo, key)
						}
					}
					feats[recv+".Write("+arg+")"+guard] = true
				case "BlockSize":
					feats[recv+".BlockSize()"] = true
				}
			}
			if isBuiltinCall(x, "copy") {
				feats["copy("+fieldName(x.Call.Args[0])+","+keyish(x.Call.Args[1])+")"] = true
			}
		case *ssa.Store:
			// x[i] ^= C in a full range loop over a field slice
			ia, ok := x.Addr.(*ssa.IndexAddr)
			if !ok {
				return
			}
			bo, ok := x.Val.(*ssa.BinOp)
			if !ok || bo.Op != token.XOR {
				return
			}
			c, isC := constInt(bo.Y)
			if !isC {
				return
			}
			fld := fieldName(ia.X)
			lp := inLoop(loops, b)
			full := lp != nil && rangeIndexLoop(lp)
			feats[fmt.Sprintf("xor(%s,%#x,full=%v)", fld, c, full)] = true
		}
	})
	var out []string
	for f := range feats {
		out = append(out, f)
	}
	sort.Strings(out)
	return out
}

func describeKeyGuard(bo *ssa.BinOp, key *ssa.Parameter) string {
	side := func(v ssa.Value) string {
		if c, ok := v.(*ssa.Call); ok {
			if isBuiltinCall(c, "len") && c.Call.Args[0] == ssa.Value(key) {
				return "len(key)"
			}
			if c.Call.IsInvoke() && c.Call.Method.Name() == "BlockSize" {
				return "blocksize"
			}
		}
		return "?"
	}
	x, y := side(bo.X), side(bo.Y)
	if bo.Op == token.LSS {
		x, y = y, x
	}
	return x + ">" + y
}

func runC18(r *Run) {
	p := r.P
	r.Res.Explanation = "structural premises of 'pooled HMAC = RFC 2104 HMAC for every reuse history': resetTo re-initialises every field of the pooled object (field-exhaustive) and performs the same key schedule as the vendored New (sibling agreement of the extracted operation set, pad constants 0x36/0x5c, long-key guard); the marshaled fast path is entered only after both type assertions and both MarshalBinary calls succeeded and is used only under the flag, restoring inner from ipad and outer from opad; Acquire/Put use the pool of their own hash and assert its sizes; the key is only read (never used as an append/Sum destination); newHMAC never uses the object after Put"
	r.NotDecided("digest equality with RFC 2104 for all keys, messages and chunkings (SHA-1/SHA-256 cores are stdlib)")
	r.Assume("crypto/sha1 and crypto/sha256 implement hash.Hash and encoding.BinaryMarshaler", "sync.Pool hands an object to one goroutine at a time")
	hp := p.Hmac.Pkg
	T := namedIn(hp, "hmac")
	an := r.Rule("C18.anchors", "internal/hmac: type hmac, New, resetTo, Sum, Reset, Acquire*/Put* resolve", 8)
	if T == nil {
		an.Fail("type hmac", "not found")
		an.Done()
		return
	}
	newFn := p.Hmac.Func("New")
	resetTo := p.MethodOf(T, "resetTo")
	sumFn, resetFn := p.MethodOf(T, "Sum"), p.MethodOf(T, "Reset")
	fns := map[string]*ssa.Function{"New": newFn, "resetTo": resetTo, "Sum": sumFn, "Reset": resetFn,
		"AcquireSHA1": p.Hmac.Func("AcquireSHA1"), "PutSHA1": p.Hmac.Func("PutSHA1"), "AcquireSHA256": p.Hmac.Func("AcquireSHA256"), "PutSHA256": p.Hmac.Func("PutSHA256")}
	ok := true
	for n, f := range fns {
		if f == nil {
			an.Fail(n, "not found")
			ok = false
		} else {
			an.Instance(n, false, nil)
			r.Analysed(f)
		}
	}
	an.Done()
	if !ok {
		return
	}
	st := T.Underlying().(*types.Struct)

	// ---- rekey
	rk := r.Rule("C18.rekey", "resetTo re-initialises every field of the pooled hmac (hashes Reset, pads rebuilt from zero to the block size, marshaled = false) and performs the same key schedule as New", 6)
	for i := 0; i < st.NumFields(); i++ {
		fv := st.Field(i)
		okf := false
		what := ""
		switch {
		case isNamedType(fv.Type(), "hash", "Hash"):
			what = "Reset()"
			eachInstr(resetTo, func(b *ssa.BasicBlock, j int, in ssa.Instruction) {
				if c, isC := in.(*ssa.Call); isC && c.Call.IsInvoke() && c.Call.Method.Name() == "Reset" && valueIsLoadOfField(c.Call.Value, fv) && b == resetTo.Blocks[0] {
					okf = true
				}
			})
		case isBoolType(fv.Type()):
			what = "= false"
			for _, a := range fieldAccesses(resetTo, fv) {
				if s, isS := a.Instr.(*ssa.Store); isS && a.Kind == "store" {
					if c, isC := s.Val.(*ssa.Const); isC && c.Value != nil && c.Value.String() == "false" {
						// on every path: dominates all returns
						okf = true
						for _, ret := range returnsOf(resetTo) {
							if !instrDominates(s, ret) {
								okf = false
							}
						}
					}
				}
			}
		default:
			what = "rebuilt from zero to block size"
			for _, a := range fieldAccesses(resetTo, fv) {
				if s, isS := a.Instr.(*ssa.Store); isS && a.Kind == "store" {
					// append(x[:0], make([]byte, blocksize)...) or make([]byte, blocksize)
					v := s.Val
					if ap, isAp := v.(*ssa.Call); isAp && isBuiltinCall(ap, "append") && len(ap.Call.Args) == 2 {
						if zeroLenValue(ap.Call.Args[0], 0) {
							if mk, isMk := ap.Call.Args[1].(*ssa.MakeSlice); isMk && isBlockSize(mk.Len) {
								okf = true
							}
						}
					}
					if mk, isMk := v.(*ssa.MakeSlice); isMk && isBlockSize(mk.Len) {
						okf = true
					}
				}
			}
		}
		rk.Instance("resetTo|"+fv.Name(), true, map[string]string{"field": fv.Name(), "re_initialised_by": what})
		if !okf {
			rk.Violation(resetTo, resetTo.Pos(), "field "+fv.Name()+" not re-initialised ("+what+")", "a recycled object carries state of the key/message it served before: the HMAC of the next user is wrong")
		}
	}
	fNew := keyScheduleFeatures(p, newFn, T, newFn.Params[1])
	fRe := keyScheduleFeatures(p, resetTo, T, resetTo.Params[1])
	rk.Instance("key schedule", true, map[string]interface{}{"New": fNew, "resetTo": fRe})
	if strings.Join(fNew, ";") != strings.Join(fRe, ";") {
		rk.Violation(resetTo, resetTo.Pos(), "key schedule differs from New", fmt.Sprintf("resetTo performs %v, the reference New performs %v", fRe, fNew))
	}
	want := []string{"copy(ipad,phi(key,outer.Sum(nil)))", "copy(opad,phi(key,outer.Sum(nil)))", "inner.BlockSize()", "inner.Write(ipad)", "outer.Write(key) if len(key)>blocksize", "xor(ipad,0x36,full=true)", "xor(opad,0x5c,full=true)"}
	for _, w := range want {
		found := false
		for _, f := range fRe {
			if f == w {
				found = true
			}
		}
		if !found {
			rk.Violation(resetTo, resetTo.Pos(), "key schedule step missing: "+w, "RFC 2104: K' = H(K) if len(K) > B else K; ipad = K' xor 0x36.., opad = K' xor 0x5c..; inner starts with ipad")
		}
	}
	rk.Done()

	// ---- key only read
	kr := r.Rule("C18.keyread", "the caller's key slice is only read: never a destination of Sum/append/copy and never stored", 2)
	checkKeyRead(r, kr, []*ssa.Function{newFn, resetTo})
	kr.Done()

	// ---- Sum: RFC 2104 outer hash over exactly the inner digest, whatever prefix the caller passes
	sm := r.Rule("C18.sum", "Sum(in): d = inner.Sum(in); the outer hash is fed d[len(in):] (the inner digest alone, not the caller's prefix) and the result is outer.Sum(d[:len(in)]) (the caller's prefix followed by the MAC)", 3)
	checkSum(r, sm, T, sumFn)
	sm.Done()

	// ---- Reset really resets, and Write feeds everything
	rt := r.Rule("C18.reset", "every path of Reset restores the inner hash to the keyed initial state (UnmarshalBinary of the marshaled ipad state, or Reset followed by Write(ipad)) before it returns; Write hands its whole argument to the inner hash and nothing else", 2)
	{
		innerF := FieldVar(T, "inner")
		rep := map[*ssa.Return]bool{}
		n := 0
		q := &PathQuery{P: p, Fn: resetFn}
		q.Step = func(in ssa.Instruction, deferred bool, st uint64, c *PathCtx) (uint64, bool) {
			call, ok := in.(*ssa.Call)
			if !ok {
				return st, false
			}
			if call.Call.IsInvoke() {
				recvV := call.Call.Value
				if ta, isTA := recvV.(*ssa.TypeAssert); isTA {
					recvV = ta.X
				} else if e, isE := recvV.(*ssa.Extract); isE {
					if ta, isTA := e.Tuple.(*ssa.TypeAssert); isTA {
						recvV = ta.X
					}
				}
				if _, f := loadedField(recvV); f == innerF {
					switch call.Call.Method.Name() {
					case "Reset", "UnmarshalBinary":
						return st | 1, false
					}
				}
			}
			// a restore helper that is handed the inner hash
			if sc := call.Call.StaticCallee(); sc != nil && p.isLibFn(sc) {
				for _, a := range call.Call.Args {
					if _, f := loadedField(a); f == innerF {
						return st | 1, false
					}
				}
			}
			return st, false
		}
		q.AtReturn = func(ret *ssa.Return, st uint64, c *PathCtx) {
			n++
			if st&1 == 0 && !rep[ret] {
				rep[ret] = true
				rt.ViolationPath(resetFn, instrPos(ret), "return without restoring the inner hash", "Reset returns on this path without re-initialising the inner hash: the next MAC is computed over the previous message followed by the next", c.Witness(resetFn, ret))
			}
		}
		q.Run()
		rt.Instance("Reset", true, map[string]int{"return_paths": n})
		// Write = inner.Write(p)
		if wf := p.MethodOf(T, "Write"); wf != nil && len(wf.Params) == 2 {
			r.Analysed(wf)
			okW := false
			nCalls := 0
			eachInstr(wf, func(b *ssa.BasicBlock, i int, in ssa.Instruction) {
				if c, ok := in.(*ssa.Call); ok {
					nCalls++
					if c.Call.IsInvoke() && c.Call.Method.Name() == "Write" {
						if _, f := loadedField(c.Call.Value); f == innerF && len(c.Call.Args) == 1 && c.Call.Args[0] == ssa.Value(wf.Params[1]) {
							okW = true
						}
					}
				}
			})
			stores := 0
			eachInstr(wf, func(b *ssa.BasicBlock, i int, in ssa.Instruction) {
				if s, ok := in.(*ssa.Store); ok {
					if fa, isFA := s.Addr.(*ssa.FieldAddr); isFA && fa.X == ssa.Value(wf.Params[0]) {
						stores++
					}
				}
			})
			rt.Instance("Write", true, map[string]int{"calls": nCalls, "state_stores": stores})
			if !okW || nCalls != 1 || stores != 0 {
				rt.Violation(wf, wf.Pos(), "Write", "Write must be exactly inner.Write(p): extra state kept by Write (flags, counters) makes Sum/Reset depend on how the message was chunked")
			}
		} else {
			rt.Fail("(*hmac).Write", "not found")
		}
	}
	rt.Done()

	// ---- marshaled typestate
	ms := r.Rule("C18.marshaled", "marshaled = true only after both assertions to the marshalable interface and both MarshalBinary calls succeeded; the marshaled pads are used only under the flag; inner is restored from ipad (and stores ipad), outer from opad", 5)
	checkMarshaled(r, ms, T, sumFn, resetFn)
	ms.Done()

	// ---- pools
	shd := r.Rule("C18.shared", "apart from the two sync.Pools (whose Get/Put hand an object to one owner at a time) the functions of internal/hmac use no package-level variable that changes after initialisation, unless one mutex guards every access: no second path by which an HMAC object can reach two users", 1)
	{
		var fns []*ssa.Function
		for _, f := range p.LibFuncs() {
			if f.Pkg == p.Hmac || (f.Parent() != nil && f.Parent().Pkg == p.Hmac) {
				if f.Name() == "init" && f.Parent() == nil {
					continue
				}
				fns = append(fns, f)
			}
		}
		checkSharedState(r, shd, fns)
	}
	shd.Done()

	pl := r.Rule("C18.pool", "AcquireSHA1/PutSHA1 use the SHA-1 pool whose New builds from sha1.New and assert sizes (20,64); the SHA-256 pair likewise with (32,64); Acquire re-keys before returning", 6)
	checkPools(r, pl, T, resetTo)
	if nh := p.Fn("newHMAC"); nh != nil {
		r.Analysed(nh)
		sub := r.Rule("C18.pool.use", "newHMAC: acquire, write, sum; the object is not used after it has been put back", 4)
		checkNewHMAC(r, sub, nh)
		sub.Done()
	}
	pl.Done()
}

func isBlockSize(v ssa.Value) bool {
	c, ok := v.(*ssa.Call)
	return ok && c.Call.IsInvoke() && c.Call.Method.Name() == "BlockSize"
}

func checkMarshaled(r *Run, rc *RuleCtx, T *types.Named, sumFn, resetFn *ssa.Function) {
	mF := FieldVar(T, "marshaled")
	if mF == nil {
		mF = FieldByType(T, isBoolType)
	}
	ipadF, opadF, innerF, outerF := FieldVar(T, "ipad"), FieldVar(T, "opad"), FieldVar(T, "inner"), FieldVar(T, "outer")
	if mF == nil || ipadF == nil || opadF == nil || innerF == nil || outerF == nil {
		rc.Fail("hmac fields", "marshaled/ipad/opad/inner/outer not found")
		return
	}
	// once the saved states are in the pads (marshaled is set on this path) Reset never treats them as key pads
	// again: it does not write a pad into a hash, marshal anew, or store the pads or the flag
	if resetFn != nil {
		p := r.P
		rep := false
		q := &PathQuery{P: p, Fn: resetFn}
		q.Step = func(in ssa.Instruction, deferred bool, st uint64, c *PathCtx) (uint64, bool) {
			if rep {
				return st, false
			}
			// the first-time steps belong to the paths on which the flag was tested and found clear
			on := true
			for _, pc := range c.PathConds() {
				cond, val := pc.Cond, pc.Val
				for {
					u, isU := cond.(*ssa.UnOp)
					if !isU || u.Op != token.NOT {
						break
					}
					cond, val = u.X, !val
				}
				if valueIsLoadOfField(cond, mF) && !val {
					on = false
				}
			}
			if !on {
				return st, false
			}
			bad := ""
			switch x := in.(type) {
			case *ssa.Store:
				if fa, ok := x.Addr.(*ssa.FieldAddr); ok {
					if f := fieldOfAddr(fa); f == ipadF || f == opadF || f == mF {
						bad = "store to " + f.Name()
					}
				}
			case *ssa.Call:
				if x.Call.IsInvoke() {
					switch x.Call.Method.Name() {
					case "MarshalBinary":
						bad = "MarshalBinary"
					case "Write":
						if len(x.Call.Args) == 1 && (valueIsLoadOfField(x.Call.Args[0], ipadF) || valueIsLoadOfField(x.Call.Args[0], opadF)) {
							bad = "Write of a pad"
						}
					}
				}
			}
			if bad != "" {
				rep = true
				rc.ViolationPath(resetFn, instrPos(in), bad+" on a path of Reset on which the marshaled flag is not known clear", "with the flag set the pads hold saved hash states, not key pads: Reset goes on into the first-time path, feeds a state blob to the hash as if it were the pad and saves that as the new state - every MAC after the second Reset is wrong", c.Witness(resetFn, in))
			}
			return st, false
		}
		q.Run()
		rc.Instance("Reset|marshaled path ends at the restore", true, nil)
	}
	hashOf := func(v ssa.Value) *types.Var {
		// typeassert of a load of inner/outer
		if ta, ok := v.(*ssa.TypeAssert); ok {
			_, f := loadedField(ta.X)
			return f
		}
		if e, ok := v.(*ssa.Extract); ok {
			if ta, ok := e.Tuple.(*ssa.TypeAssert); ok {
				_, f := loadedField(ta.X)
				return f
			}
		}
		return nil
	}
	pair := map[*types.Var]*types.Var{innerF: ipadF, outerF: opadF}
	// restore sites: hash.(marshalable).UnmarshalBinary(pad), directly or through a module helper
	// that does exactly that with two of its parameters.
	type rsite struct {
		in  ssa.Instruction
		h   *types.Var
		pad *types.Var
	}
	paramIdx := func(fn *ssa.Function, v ssa.Value) int {
		for i, pa := range fn.Params {
			if v == ssa.Value(pa) {
				return i
			}
		}
		return -1
	}
	helperShape := func(g *ssa.Function) (hi, pi int, ok bool) {
		hi, pi = -1, -1
		if g == nil || g.Blocks == nil {
			return
		}
		eachInstr(g, func(b *ssa.BasicBlock, i int, in ssa.Instruction) {
			c, isC := in.(*ssa.Call)
			if !isC || !c.Call.IsInvoke() || c.Call.Method.Name() != "UnmarshalBinary" {
				return
			}
			var src ssa.Value
			if ta, isTA := c.Call.Value.(*ssa.TypeAssert); isTA {
				src = ta.X
			} else if e, isE := c.Call.Value.(*ssa.Extract); isE {
				if ta, isTA := e.Tuple.(*ssa.TypeAssert); isTA {
					src = ta.X
				}
			}
			if src != nil {
				hi, pi = paramIdx(g, src), paramIdx(g, c.Call.Args[0])
			}
		})
		return hi, pi, hi >= 0 && pi >= 0
	}
	restoreSites := func(fn *ssa.Function) []rsite {
		var out []rsite
		eachInstr(fn, func(b *ssa.BasicBlock, i int, in ssa.Instruction) {
			c, ok := in.(*ssa.Call)
			if !ok {
				return
			}
			if c.Call.IsInvoke() && c.Call.Method.Name() == "UnmarshalBinary" {
				_, pad := loadedField(c.Call.Args[0])
				out = append(out, rsite{in, hashOf(c.Call.Value), pad})
				return
			}
			if sc := c.Call.StaticCallee(); sc != nil && r.P.isLibFn(sc) {
				if hi, pi, ok := helperShape(sc); ok && hi < len(c.Call.Args) && pi < len(c.Call.Args) {
					_, h := loadedField(c.Call.Args[hi])
					_, pad := loadedField(c.Call.Args[pi])
					out = append(out, rsite{in, h, pad})
				}
			}
		})
		return out
	}
	expectHash := map[*ssa.Function]*types.Var{sumFn: outerF, resetFn: innerF}
	for _, fn := range []*ssa.Function{sumFn, resetFn} {
		flagIfs := ifsOn(fn, func(v ssa.Value) bool { return valueIsLoadOfField(v, mF) })
		for _, rs := range restoreSites(fn) {
			rc.Instance(fnName(fn)+"|restore", true, map[string]string{"fn": fnName(fn), "hash": nameOfVar(rs.h), "pad": nameOfVar(rs.pad)})
			under := false
			for _, ci := range flagIfs {
				if blockDominates(ci.OnTrue, rs.in.Block()) && len(ci.OnTrue.Preds) == 1 {
					under = true
				}
			}
			if !under {
				rc.Violation(fn, instrPos(rs.in), "marshaled state used without the flag", "the pad holds the raw key pad, not a marshaled hash state")
			}
			if rs.h == nil || pair[rs.h] != rs.pad {
				rc.Violation(fn, instrPos(rs.in), fmt.Sprintf("%s restored from %s", nameOfVar(rs.h), nameOfVar(rs.pad)), "the inner hash must be restored from the marshaled inner state (ipad) and the outer hash from opad: otherwise every digest after this point is not HMAC")
			}
			if rs.h != expectHash[fn] {
				rc.Violation(fn, instrPos(rs.in), fn.Name()+" restores "+nameOfVar(rs.h), fn.Name()+" must restore the "+expectHash[fn].Name()+" hash")
			}
		}
	}
	// the store marshaled = true
	nTrue := 0
	for _, a := range fieldAccesses(resetFn, mF) {
		s, ok := a.Instr.(*ssa.Store)
		if !ok || a.Kind != "store" {
			continue
		}
		c, isC := s.Val.(*ssa.Const)
		if !isC || c.Value == nil || c.Value.String() != "true" {
			continue
		}
		nTrue++
		// dominated by: two comma-ok assertion successes, two nil errors of MarshalBinary
		okAsserts, okErrs := 0, 0
		var marshals []*ssa.Call
		eachInstr(resetFn, func(b *ssa.BasicBlock, i int, in ssa.Instruction) {
			if ta, ok := in.(*ssa.TypeAssert); ok && ta.CommaOk {
				for _, ci := range ifsOn(resetFn, func(v ssa.Value) bool {
					e, ok := v.(*ssa.Extract)
					return ok && e.Tuple == ssa.Value(ta) && e.Index == 1
				}) {
					if blockDominates(ci.OnTrue, s.Block()) || blockReachOnlyVia(ci, s.Block()) {
						okAsserts++
					}
				}
			}
			if c2, ok := in.(*ssa.Call); ok && c2.Call.IsInvoke() && c2.Call.Method.Name() == "MarshalBinary" {
				marshals = append(marshals, c2)
			}
		})
		for _, mc := range marshals {
			var errV ssa.Value
			for _, u := range *mc.Referrers() {
				if e, ok := u.(*ssa.Extract); ok && e.Index == 1 {
					errV = e
				}
			}
			if errV == nil {
				continue
			}
			for _, ci := range ifsOn(resetFn, func(v ssa.Value) bool {
				b, ok := v.(*ssa.BinOp)
				return ok && (b.Op == token.EQL || b.Op == token.NEQ) && ((b.X == errV && isNilConst(b.Y)) || (b.Y == errV && isNilConst(b.X)))
			}) {
				b := ci.Val.(*ssa.BinOp)
				nilEdge := ci.OnTrue
				if b.Op == token.NEQ {
					nilEdge = ci.OnFalse
				}
				if blockDominates(nilEdge, s.Block()) {
					okErrs++
				}
			}
		}
		rc.Instance("Reset|marshaled=true", true, map[string]int{"assertions_passed": okAsserts, "marshal_errors_checked": okErrs})
		if okAsserts < 2 || okErrs < 2 {
			rc.Violation(resetFn, instrPos(s), "marshaled = true without all preconditions", "the fast path is enabled although a hash is not marshalable or a MarshalBinary failed: Sum/Reset panic or restore garbage")
		}
		// stores of the marshaled pads pair with their hash
		for _, padF := range []*types.Var{ipadF, opadF} {
			for _, a2 := range fieldAccesses(resetFn, padF) {
				s2, ok := a2.Instr.(*ssa.Store)
				if !ok || a2.Kind != "store" {
					continue
				}
				if e, ok := canonPhi(s2.Val).(*ssa.Extract); ok {
					if mc, ok := e.Tuple.(*ssa.Call); ok && mc.Call.IsInvoke() && mc.Call.Method.Name() == "MarshalBinary" {
						h := hashOf(mc.Call.Value)
						rc.Instance("Reset|store "+padF.Name(), true, nil)
						if h == nil || pair[h] != padF {
							rc.Violation(resetFn, instrPos(s2), padF.Name()+" = marshaled "+nameOfVar(h), "the marshaled inner state must be kept in ipad and the outer state in opad")
						}
					}
				}
			}
		}
	}
	if nTrue == 0 {
		rc.Instance("Reset|no fast path", false, nil)
	}
}

// blockReachOnlyVia: conservative helper (dominance is what we require; kept for clarity).
func blockReachOnlyVia(ci condIf, b *ssa.BasicBlock) bool { return false }

func nameOfVar(v *types.Var) string {
	if v == nil {
		return "?"
	}
	return v.Name()
}

func checkPools(r *Run, rc *RuleCtx, T *types.Named, resetTo *ssa.Function) {
	p := r.P
	type spec struct {
		acq, put  string
		ctor      string // package path of the hash constructor
		size, blk int64
	}
	for _, sp := range []spec{{"AcquireSHA1", "PutSHA1", "crypto/sha1", 20, 64}, {"AcquireSHA256", "PutSHA256", "crypto/sha256", 32, 64}} {
		acq, put := p.Hmac.Func(sp.acq), p.Hmac.Func(sp.put)
		poolOf := func(fn *ssa.Function, method string) *ssa.Global {
			var g *ssa.Global
			globalOf := func(v ssa.Value) *ssa.Global {
				// the pool held in a field of a read-only package-level structure: what the initialiser put there
				if rv := p.constGlobalField(v); rv != nil {
					v = rv
				}
				if ld, ok := v.(*ssa.UnOp); ok {
					if gg, ok := ld.X.(*ssa.Global); ok {
						return gg
					}
				}
				return nil
			}
			eachInstr(fn, func(b *ssa.BasicBlock, i int, in ssa.Instruction) {
				if isMethodCall(in, "sync", "Pool", method) {
					if gg := globalOf(callArgs(in)[0]); gg != nil {
						g = gg
					}
					return
				}
				// one-level helper that receives the pool and calls pool.<method> on that parameter
				if c, ok := in.(*ssa.Call); ok {
					if sc := c.Call.StaticCallee(); sc != nil && p.isLibFn(sc) {
						for ai, a := range c.Call.Args {
							gg := globalOf(a)
							if gg == nil || ai >= len(sc.Params) {
								continue
							}
							eachInstr(sc, func(bb *ssa.BasicBlock, j int, x ssa.Instruction) {
								if isMethodCall(x, "sync", "Pool", method) && callArgs(x)[0] == ssa.Value(sc.Params[ai]) {
									g = gg
								}
							})
						}
					}
				}
			})
			return g
		}
		// helper the Acquire function delegates to (receives the pool and the key)
		var acqHelper *ssa.Function
		var acqHelperKeyIdx = -1
		eachInstr(acq, func(b *ssa.BasicBlock, i int, in ssa.Instruction) {
			if c, ok := in.(*ssa.Call); ok {
				if sc := c.Call.StaticCallee(); sc != nil && p.isLibFn(sc) && sc != resetTo {
					for ai, a := range c.Call.Args {
						if a == ssa.Value(acq.Params[0]) && ai < len(sc.Params) {
							acqHelper, acqHelperKeyIdx = sc, ai
						}
					}
				}
			}
		})
		ga, gp := poolOf(acq, "Get"), poolOf(put, "Put")
		rc.Instance(sp.acq+"/"+sp.put, true, map[string]string{"acquire_pool": globalName(ga), "put_pool": globalName(gp)})
		if ga == nil || gp == nil || ga != gp {
			rc.Violation(put, put.Pos(), sp.put+" puts into "+globalName(gp), sp.acq+" takes from "+globalName(ga)+": an object built for another hash would be handed out")
		}
		// asserts with the right sizes
		for _, fn := range []*ssa.Function{acq, put} {
			okAssert := false
			eachInstr(fn, func(b *ssa.BasicBlock, i int, in ssa.Instruction) {
				if c, ok := in.(*ssa.Call); ok {
					if sc := c.Call.StaticCallee(); sc != nil && p.isLibFn(sc) {
						// the (size, blocksize) pair is passed as two consecutive constant arguments,
						// to the assertion itself or to a helper that forwards them to it
						for ai := 0; ai+1 < len(c.Call.Args); ai++ {
							constR := func(v ssa.Value) (int64, bool) {
								if cv, okC := constInt(v); okC {
									return cv, true
								}
								if rv := p.constGlobalField(v); rv != nil {
									return constInt(rv)
								}
								return 0, false
							}
							s, ok1 := constR(c.Call.Args[ai])
							bl, ok2 := constR(c.Call.Args[ai+1])
							if ok1 && ok2 && s == sp.size && bl == sp.blk {
								if len(c.Call.Args) == 3 || forwardsToAssert(p, sc, ai) {
									okAssert = true
								}
							}
						}
					}
				}
			})
			rc.Instance(fnName(fn)+"|size assertion", true, nil)
			if !okAssert {
				rc.Violation(fn, fn.Pos(), "size assertion", fmt.Sprintf("%s must assert Size()=%d and BlockSize()=%d of the pooled object", fn.Name(), sp.size, sp.blk))
			}
		}
		// Put is the last use: once the object is back in the pool another goroutine may own it
		{
			var putCall ssa.Instruction
			var obj ssa.Value
			eachInstr(put, func(b *ssa.BasicBlock, i int, in ssa.Instruction) {
				if isMethodCall(in, "sync", "Pool", "Put") {
					putCall = in
					if mi, ok := callArgs(in)[1].(*ssa.MakeInterface); ok {
						obj = mi.X
					} else {
						obj = callArgs(in)[1]
					}
				}
			})
			if putCall != nil && obj != nil {
				rooted := func(v ssa.Value) bool {
					for i := 0; i < 8 && v != nil; i++ {
						if v == obj {
							return true
						}
						switch x := v.(type) {
						case *ssa.FieldAddr:
							v = x.X
						case *ssa.IndexAddr:
							v = x.X
						case *ssa.UnOp:
							v = x.X
						case *ssa.MakeInterface:
							v = x.X
						case *ssa.ChangeType:
							v = x.X
						case *ssa.Slice:
							v = x.X
						default:
							return false
						}
					}
					return false
				}
				nAfter := 0
				eachInstr(put, func(b *ssa.BasicBlock, i int, in ssa.Instruction) {
					if in == putCall || !reachableFrom(putCall, in) {
						return
					}
					if _, isDbg := in.(*ssa.DebugRef); isDbg {
						return
					}
					nAfter++
					for _, op := range in.Operands(nil) {
						if *op != nil && rooted(*op) {
							rc.Violation(put, instrPos(in), sp.put+" uses the object after Pool.Put", "once the object is back in the pool another goroutine can take, re-key and use it: touching it afterwards ("+shortInstr(in)+") corrupts that goroutine's HMAC")
							return
						}
					}
				})
				rc.Instance(fnName(put)+"|Put is the last use", true, map[string]int{"instructions_after_put": nAfter})
			}
		}
		// Acquire re-keys with its key parameter before returning
		okRekey := false
		eachInstr(acq, func(b *ssa.BasicBlock, i int, in ssa.Instruction) {
			if c, ok := in.(*ssa.Call); ok && callsFn(c, resetTo) && c.Call.Args[1] == ssa.Value(acq.Params[0]) {
				okRekey = true
				for _, ret := range returnsOf(acq) {
					if !instrDominates(c, ret) {
						okRekey = false
					}
				}
			}
		})
		if !okRekey && acqHelper != nil {
			// the helper re-keys with the forwarded key on every path, and Acquire returns the helper's result
			eachInstr(acqHelper, func(b *ssa.BasicBlock, i int, in ssa.Instruction) {
				if c, ok := in.(*ssa.Call); ok && callsFn(c, resetTo) && c.Call.Args[1] == ssa.Value(acqHelper.Params[acqHelperKeyIdx]) {
					okRekey = true
					for _, ret := range returnsOf(acqHelper) {
						if !instrDominates(c, ret) {
							okRekey = false
						}
					}
				}
			})
			if okRekey {
				r.Analysed(acqHelper)
				for _, ret := range returnsOf(acq) {
					v := ret.Results[0]
					if mi, ok := v.(*ssa.MakeInterface); ok {
						v = mi.X
					}
					if c, ok := v.(*ssa.Call); !ok || !callsFn(c, acqHelper) {
						okRekey = false
					}
				}
			}
		}
		rc.Instance(sp.acq+"|rekey", true, nil)
		if !okRekey {
			rc.Violation(acq, acq.Pos(), "no re-key", sp.acq+" must call resetTo(key) on every path before returning the pooled object")
		}
		// the pool's New builds with the right hash
		if ga != nil {
			okCtor := false
			for _, f := range p.LibFuncs() {
				if f.Parent() == nil && f.Pkg != p.Hmac || f.Parent() != nil && f.Pkg != p.Hmac && f.Parent().Pkg != p.Hmac {
					continue
				}
				// pool New closures live in the package init
				eachInstr(f, func(b *ssa.BasicBlock, i int, in ssa.Instruction) {
					if c, ok := in.(*ssa.Call); ok && c.Call.StaticCallee() != nil && c.Call.StaticCallee().Name() == "New" && len(c.Call.Args) == 2 {
						if fv, ok := c.Call.Args[0].(*ssa.Function); ok && fv.Pkg != nil && fv.Pkg.Pkg.Path() == sp.ctor {
							// is this closure the New of pool ga? find the composite literal storing it
							if poolNewOf(p, f) == ga {
								okCtor = true
							}
						}
					}
				})
			}
			rc.Instance(globalName(ga)+"|New", true, nil)
			if !okCtor {
				rc.Violation(acq, acq.Pos(), "pool constructor", "the pool "+globalName(ga)+" must build its objects from "+sp.ctor+".New")
			}
		}
	}
}

func globalName(g *ssa.Global) string {
	if g == nil {
		return "?"
	}
	return g.Name()
}

// poolNewOf: the pool global whose New field is the anonymous function f.
func poolNewOf(p *Prog, f *ssa.Function) *ssa.Global {
	init := f.Parent()
	if init == nil {
		// a named function used as the pool's New: the pool literal is built by the package initialiser
		if f.Pkg == nil {
			return nil
		}
		init = f.Pkg.Func("init")
		if init == nil {
			return nil
		}
	}
	var res *ssa.Global
	eachInstr(init, func(b *ssa.BasicBlock, i int, in ssa.Instruction) {
		st, ok := in.(*ssa.Store)
		if !ok {
			return
		}
		// store of closure into &pool.New
		fn, isFn := st.Val.(*ssa.Function)
		if mc, isMC := st.Val.(*ssa.MakeClosure); isMC {
			fn, isFn = mc.Fn.(*ssa.Function)
		}
		if !isFn || fn != f {
			return
		}
		fa, ok := st.Addr.(*ssa.FieldAddr)
		if !ok {
			return
		}
		// the struct alloc is later stored into a global
		if al, ok := fa.X.(*ssa.Alloc); ok {
			for _, u := range *al.Referrers() {
				if s2, ok := u.(*ssa.Store); ok && s2.Val == ssa.Value(al) {
					if g, ok := s2.Addr.(*ssa.Global); ok {
						res = g
					}
				}
			}
		}
		if g, ok := fa.X.(*ssa.Global); ok {
			res = g
		}
	})
	return res
}

// forwardsToAssert: helper g passes its parameters ai, ai+1 (size, blocksize) on to a module
// function of three arguments (the size assertion).
func forwardsToAssert(p *Prog, g *ssa.Function, ai int) bool {
	if g == nil || g.Blocks == nil || ai+1 >= len(g.Params) {
		return false
	}
	ok := false
	eachInstr(g, func(b *ssa.BasicBlock, i int, in ssa.Instruction) {
		if c, isC := in.(*ssa.Call); isC {
			if sc := c.Call.StaticCallee(); sc != nil && p.isLibFn(sc) && len(c.Call.Args) == 3 {
				if c.Call.Args[1] == ssa.Value(g.Params[ai]) && c.Call.Args[2] == ssa.Value(g.Params[ai+1]) {
					ok = true
				}
			}
		}
	})
	return ok
}

// checkKeyRead: the key parameter (second parameter) of the given functions is only read.
func checkKeyRead(r *Run, kr *RuleCtx, fns []*ssa.Function) {
	for _, fn := range fns {
		if fn == nil || len(fn.Params) < 2 {
			kr.Fail("key-taking function", "not found")
			continue
		}
		r.Analysed(fn)
		key := fn.Params[1]
		kr.Instance(fnName(fn), true, nil)
		eachInstr(fn, func(b *ssa.BasicBlock, i int, in ssa.Instruction) {
			switch x := in.(type) {
			case *ssa.Call:
				if x.Call.IsInvoke() && x.Call.Method.Name() == "Sum" && aliasOf(x.Call.Args[0], key, 0) {
					kr.Violation(fn, instrPos(in), "Sum into the key slice", "the digest of a long key is appended into the caller's key storage: the caller's credential is overwritten and every later use of it computes a different HMAC")
				}
				if isBuiltinCall(x, "append") && aliasOf(x.Call.Args[0], key, 0) {
					kr.Violation(fn, instrPos(in), "append onto the key slice", "the caller's key storage is written")
				}
				if isBuiltinCall(x, "copy") && aliasOf(x.Call.Args[0], key, 0) {
					kr.Violation(fn, instrPos(in), "copy into the key slice", "the caller's key storage is written")
				}
			case *ssa.Store:
				if ia, isIA := x.Addr.(*ssa.IndexAddr); isIA && aliasOf(ia.X, key, 0) {
					kr.Violation(fn, instrPos(in), "store into the key slice", "the caller's key storage is written")
				}
				if aliasOf(x.Val, key, 0) {
					kr.Violation(fn, instrPos(in), "key slice retained", "the object keeps a reference to the caller's key")
				}
			}
		})
	}
}

// checkSum: the data flow of (*hmac).Sum.
func checkSum(r *Run, rc *RuleCtx, T *types.Named, sumFn *ssa.Function) {
	if sumFn == nil || len(sumFn.Params) != 2 {
		rc.Fail("(*hmac).Sum", "not found")
		return
	}
	innerF, outerF := FieldVar(T, "inner"), FieldVar(T, "outer")
	in := sumFn.Params[1]
	isLenIn := func(v ssa.Value) bool {
		c, ok := stripConvs(v).(*ssa.Call)
		return ok && isBuiltinCall(c, "len") && c.Call.Args[0] == ssa.Value(in)
	}
	var innerSum *ssa.Call
	var outerWrites []*ssa.Call
	eachInstr(sumFn, func(b *ssa.BasicBlock, i int, x ssa.Instruction) {
		c, ok := x.(*ssa.Call)
		if !ok || !c.Call.IsInvoke() {
			return
		}
		_, f := loadedField(c.Call.Value)
		switch {
		case c.Call.Method.Name() == "Sum" && f == innerF:
			innerSum = c
		case c.Call.Method.Name() == "Write" && f == outerF:
			outerWrites = append(outerWrites, c)
		}
	})
	rc.Instance("Sum|inner digest", true, nil)
	if innerSum == nil || innerSum.Call.Args[0] != ssa.Value(in) {
		rc.Violation(sumFn, sumFn.Pos(), "inner.Sum(in)", "the inner digest is not appended to the caller's slice")
		return
	}
	// exactly one outer.Write of the digest part
	nDigest := 0
	for _, w := range outerWrites {
		arg := w.Call.Args[0]
		if _, f := loadedField(arg); f != nil {
			continue // outer.Write(h.opad): the key pad
		}
		nDigest++
		sl, ok := arg.(*ssa.Slice)
		rc.Instance("Sum|outer input", true, map[string]string{"outer_write": exprDepth(arg, 0)})
		if !ok || sl.X != ssa.Value(innerSum) || sl.High != nil || sl.Low == nil || !isLenIn(sl.Low) {
			rc.Violation(sumFn, instrPos(w), "outer.Write("+exprDepth(arg, 0)+")", "the outer hash must be fed exactly the inner digest, inner.Sum(in)[len(in):]; feeding the caller's prefix as well makes the MAC depend on the destination slice")
		}
	}
	if nDigest != 1 {
		rc.Violation(sumFn, sumFn.Pos(), fmt.Sprintf("%d writes of the inner digest into the outer hash", nDigest), "exactly one is required (RFC 2104: H(K xor opad, H(K xor ipad, text)))")
	}
	for _, ret := range returnsOf(sumFn) {
		v := deref(ret.Results[0])
		c, ok := v.(*ssa.Call)
		rc.Instance("Sum|result", true, map[string]string{"result": exprDepth(v, 0)})
		okRes := false
		if ok && c.Call.IsInvoke() && c.Call.Method.Name() == "Sum" {
			if _, f := loadedField(c.Call.Value); f == outerF {
				arg := c.Call.Args[0]
				if sl, isSl := arg.(*ssa.Slice); isSl && sl.X == ssa.Value(innerSum) && sl.Low == nil && sl.High != nil && isLenIn(sl.High) {
					okRes = true
				}
				if arg == ssa.Value(in) {
					okRes = true // appending to the caller's original slice is the same prefix
				}
			}
		}
		if !okRes {
			rc.Violation(sumFn, instrPos(ret), "result "+exprDepth(v, 0), "Sum must return outer.Sum(<caller's prefix>): the prefix followed by the MAC")
		}
	}
}
