package main

import (
	"fmt"
	"go/token"
	"go/types"
	"math"
	"sort"
	"strings"

	"golang.org/x/tools/go/ssa"
)

// PROVE engine: difference-bound + congruence reasoning over SSA integer values.
// A fact is  A - B <= C  over terms (term "0" is the constant zero).
// Facts come from (F1) branch edges dominating the program point, (F2) definitions of
// values that dominate the point, (F3) monotone-induction phis, (F4) callee summaries.
// A fact is only taken from an instruction that strictly dominates the program point.

const zeroTerm = "0"

type fact struct {
	A, B string
	C    int64
	Why  string
}

// windowFact: len(own) ≡ len(l0) modulo step (a consuming window phi(S0, phi[step:])).
type windowFact struct {
	own  string
	l0   lin
	step int64
}

type congruence struct {
	M, R int64 // value ≡ R (mod M); M == 0: value == R exactly; M == 1: unknown
}

type Prover struct {
	P   *Prog
	Fn  *ssa.Function
	K   *keyer
	Sum func(callee *ssa.Function) *IntSummary // value summaries of module functions (may be nil)
	// intBits is the width of int on the target (GOARCH).
	intBits int
	canon   map[*ssa.UnOp]*ssa.UnOp
	nilSum  func(callee *ssa.Function) []paramCond // nil-return conditions of module functions
	// atBlock: the block of the instruction the current facts are collected for (phis of dispatch
	// blocks are read as the value they have there)
	atBlock *ssa.BasicBlock
	// AssumeFits: integer conversions taken as value preserving on a stated assumption of the rule (may be nil)
	AssumeFits func(c *ssa.Convert) bool
}

// phiHere resolves a dispatch-block phi to the value it has at the current proof site.
func (pr *Prover) phiHere(v ssa.Value) ssa.Value {
	for i := 0; i < 4; i++ {
		ph, ok := v.(*ssa.Phi)
		if !ok {
			return v
		}
		if cv := canonPhi(ph); cv != ssa.Value(ph) {
			v = cv
			continue
		}
		if pr.atBlock != nil {
			if w := phiValueIn(ph, pr.atBlock); w != nil {
				v = w
				continue
			}
		}
		return v
	}
	return v
}

func newProver(p *Prog, fn *ssa.Function) *Prover {
	k := newKeyer()
	k.fwdLocal = true
	pr := &Prover{P: p, Fn: fn, K: k, intBits: 64, canon: map[*ssa.UnOp]*ssa.UnOp{}}
	pr.nilSum = func(f *ssa.Function) []paramCond { return nilReturnConds(p, f) }
	if p.Cfg.GOARCH == "386" {
		pr.intBits = 32
	}
	k.loadKey = func(ld *ssa.UnOp, addrKey string) string {
		c := pr.canonLoad(ld)
		return fmt.Sprintf("ld(%s)@%s", addrKey, c.Name())
	}
	return pr
}

// ---------------------------------------------------------------------------
// linearisation

type lin struct {
	T   string // term key ("0" for constants)
	Off int64
}

func (l lin) String() string {
	if l.T == zeroTerm {
		return fmt.Sprint(l.Off)
	}
	if l.Off == 0 {
		return l.T
	}
	return fmt.Sprintf("%s%+d", l.T, l.Off)
}

func isIntType(t types.Type) bool {
	b, ok := t.Underlying().(*types.Basic)
	return ok && b.Info()&types.IsInteger != 0
}

func (pr *Prover) typeRange(t types.Type) (lo, hi int64, ok bool) {
	b, isb := t.Underlying().(*types.Basic)
	if !isb {
		return 0, 0, false
	}
	switch b.Kind() {
	case types.Uint8:
		return 0, 255, true
	case types.Uint16:
		return 0, 65535, true
	case types.Uint32:
		return 0, math.MaxUint32, true
	case types.Int8:
		return -128, 127, true
	case types.Int16:
		return -32768, 32767, true
	case types.Int32:
		return math.MinInt32, math.MaxInt32, true
	case types.Int:
		if pr.intBits == 32 {
			return math.MinInt32, math.MaxInt32, true
		}
		return math.MinInt64, math.MaxInt64, true
	case types.Int64:
		return math.MinInt64, math.MaxInt64, true
	case types.Uint, types.Uintptr:
		if pr.intBits == 32 {
			return 0, math.MaxUint32, true
		}
		return 0, math.MaxInt64, true // upper bound not representable; only the lower bound is used
	case types.Uint64:
		return 0, math.MaxInt64, true
	}
	return 0, 0, false
}

// lin expresses v as term+offset. Value-preserving conversions are transparent.
func (pr *Prover) lin(v ssa.Value) lin {
	if cv := canonPhi(v); cv != v {
		return pr.lin(cv)
	}
	switch x := v.(type) {
	case *ssa.Const:
		if c, ok := constInt(x); ok {
			return lin{zeroTerm, c}
		}
	case *ssa.BinOp:
		if isIntType(x.Type()) {
			switch x.Op {
			case token.ADD:
				if c, ok := constInt(x.Y); ok {
					l := pr.lin(x.X)
					return lin{l.T, l.Off + c}
				}
				if c, ok := constInt(x.X); ok {
					l := pr.lin(x.Y)
					return lin{l.T, l.Off + c}
				}
			case token.SUB:
				if c, ok := constInt(x.Y); ok {
					l := pr.lin(x.X)
					return lin{l.T, l.Off - c}
				}
			}
		}
	case *ssa.ChangeType:
		return pr.lin(x.X)
	case *ssa.Convert:
		if isIntType(x.Type()) && isIntType(x.X.Type()) {
			slo, shi, ok1 := pr.typeRange(x.X.Type())
			dlo, dhi, ok2 := pr.typeRange(x.Type())
			if ok1 && ok2 && dlo <= slo && shi <= dhi {
				return pr.lin(x.X) // widening: value preserved
			}
		}
	case *ssa.UnOp:
		if x.Op == token.MUL {
			if d := deref(x); d != ssa.Value(x) {
				return pr.lin(d)
			}
			if fa, ok := x.X.(*ssa.FieldAddr); ok {
				if a, ok := fa.X.(*ssa.Alloc); ok {
					if fv, _ := localFieldValue(a, fa.Field, x, 0); fv != nil {
						return pr.lin(fv)
					}
				}
			}
		}
	case *ssa.Call:
		if isBuiltinCall(x, "len") {
			return pr.linLen(x.Call.Args[0], "len")
		}
		if isBuiltinCall(x, "cap") {
			return lin{"cap(" + pr.K.Key(x.Call.Args[0]) + ")", 0}
		}
	}
	return lin{pr.K.Key(v), 0}
}

// linLen: len of a slice value, with constant-offset slicing folded.
func (pr *Prover) linLen(s ssa.Value, what string) lin {
	switch x := s.(type) {
	case *ssa.Slice:
		loOff, loConst := int64(0), true
		if x.Low != nil {
			loOff, loConst = constInt(x.Low)
		}
		if loConst {
			var hi lin
			if x.High != nil {
				hi = pr.lin(x.High)
			} else {
				hi = pr.lenOfOperand(x.X)
			}
			return lin{hi.T, hi.Off - loOff}
		}
		if x.High != nil {
			hi, lo := pr.lin(x.High), pr.lin(x.Low)
			if hi.T == lo.T {
				return lin{zeroTerm, hi.Off - lo.Off}
			}
		}
	case *ssa.MakeSlice:
		return pr.lin(x.Len)
	case *ssa.ChangeType:
		return pr.linLen(x.X, what)
	case *ssa.Const:
		if x.Value != nil && x.Value.Kind().String() == "String" {
			if sv, ok := constString(x); ok {
				return lin{zeroTerm, int64(len(sv))}
			}
		}
		if x.Value == nil {
			return lin{zeroTerm, 0}
		}
	case *ssa.UnOp:
		if x.Op == token.MUL {
			if fa, ok := x.X.(*ssa.FieldAddr); ok {
				if a, ok := fa.X.(*ssa.Alloc); ok {
					if fv, _ := localFieldValue(a, fa.Field, x, 0); fv != nil {
						return pr.linLen(fv, what)
					}
				}
			}
			if d := deref(x); d != ssa.Value(x) {
				return pr.linLen(d, what)
			}
		}
	}
	return lin{"len(" + pr.K.Key(s) + ")", 0}
}

// lenOfOperand: length of the operand of a Slice/Index instruction (slice, string, *array, array).
func (pr *Prover) lenOfOperand(x ssa.Value) lin {
	t := x.Type().Underlying()
	if pt, ok := t.(*types.Pointer); ok {
		if at, ok := pt.Elem().Underlying().(*types.Array); ok {
			return lin{zeroTerm, at.Len()}
		}
	}
	if at, ok := t.(*types.Array); ok {
		return lin{zeroTerm, at.Len()}
	}
	return pr.linLen(x, "len")
}

// ---------------------------------------------------------------------------
// fact collection

type factSet struct {
	facts         []fact
	cong          map[string]congruence
	windows       []windowFact
	seen          map[string]bool
	sums          [][3]lin // s[0] = s[1] + s[2]
	narrow        []narrowing
	pendingNonNeg [][2]lin // (x, x%m): x%m >= 0 when x >= 0
	summaries     []summaryUse
}

func (fs *factSet) add(a, b string, c int64, why string) {
	if a == b {
		return
	}
	fs.facts = append(fs.facts, fact{a, b, c, why})
}

// le adds  x <= y + c  i.e. (x.T+x.Off) - (y.T+y.Off) <= c
func (fs *factSet) le(x, y lin, c int64, why string) {
	fs.add(x.T, y.T, c-x.Off+y.Off, why)
}

func (pr *Prover) condFacts(fs *factSet, cond ssa.Value, pol bool, why string) {
	for {
		if u, ok := cond.(*ssa.UnOp); ok && u.Op == token.NOT {
			pol = !pol
			cond = u.X
			continue
		}
		break
	}
	b, ok := cond.(*ssa.BinOp)
	if !ok {
		return
	}
	if !isIntType(b.X.Type()) {
		return
	}
	op := b.Op
	if !pol {
		switch op {
		case token.LSS:
			op = token.GEQ
		case token.LEQ:
			op = token.GTR
		case token.GTR:
			op = token.LEQ
		case token.GEQ:
			op = token.LSS
		case token.EQL:
			op = token.NEQ
		case token.NEQ:
			op = token.EQL
		default:
			return
		}
	}
	x, y := pr.lin(b.X), pr.lin(b.Y)
	pr.defFacts(fs, b.X, 0)
	pr.defFacts(fs, b.Y, 0)
	switch op {
	case token.LSS:
		fs.le(x, y, -1, why)
	case token.LEQ:
		fs.le(x, y, 0, why)
	case token.GTR:
		fs.le(y, x, -1, why)
	case token.GEQ:
		fs.le(y, x, 0, why)
	case token.EQL:
		fs.le(x, y, 0, why)
		fs.le(y, x, 0, why)
		// congruence from  v % m == r
		pr.remFact(fs, b.X, b.Y)
		pr.remFact(fs, b.Y, b.X)
	case token.NEQ:
		// x != c with known one-sided bound is handled by the solver's caller; nothing here
	}
}

func (pr *Prover) remFact(fs *factSet, remSide, constSide ssa.Value) {
	r, ok := constInt(constSide)
	if !ok {
		return
	}
	rb, ok := remSide.(*ssa.BinOp)
	if !ok || rb.Op != token.REM {
		return
	}
	m, ok := constInt(rb.Y)
	if !ok || m <= 0 {
		return
	}
	l := pr.lin(rb.X)
	// (T + off) ≡ r (mod m)  =>  T ≡ r-off
	rr := ((r-l.Off)%m + m) % m
	fs.cong[l.T] = congruence{m, rr}
}

// defFacts adds definitional facts of v and (transitively) of the values it is built from.
func (pr *Prover) defFacts(fs *factSet, v ssa.Value, depth int) {
	if v == nil || depth > 12 {
		return
	}
	if cv := canonPhi(v); cv != v {
		pr.defFacts(fs, cv, depth+1)
		return
	}
	key := fmt.Sprintf("%p", v)
	if fs.seen[key] {
		return
	}
	fs.seen[key] = true
	l := pr.lin(v)
	// type range of integer values
	if isIntType(v.Type()) && l.T != zeroTerm {
		if lo, _, ok := pr.typeRange(v.Type()); ok && lo == 0 {
			fs.le(lin{zeroTerm, 0}, lin{pr.K.Key(v), 0}, 0, "unsigned")
		}
	}
	switch x := v.(type) {
	case *ssa.BinOp:
		pr.defFacts(fs, x.X, depth+1)
		pr.defFacts(fs, x.Y, depth+1)
		self := lin{pr.K.Key(v), 0}
		if !isIntType(x.Type()) {
			return
		}
		switch x.Op {
		case token.REM:
			if m, ok := constInt(x.Y); ok && m > 0 {
				fs.le(self, lin{zeroTerm, m - 1}, 0, "x%m <= m-1")
				fs.le(lin{zeroTerm, -(m - 1)}, self, 0, "x%m >= -(m-1)")
				fs.pendingNonNeg = append(fs.pendingNonNeg, [2]lin{pr.lin(x.X), self})
			}
		case token.AND:
			for _, side := range []ssa.Value{x.X, x.Y} {
				if m, ok := constInt(side); ok && m >= 0 {
					fs.le(self, lin{zeroTerm, m}, 0, "x&m <= m")
					fs.le(lin{zeroTerm, 0}, self, 0, "x&m >= 0")
				}
			}
		case token.ADD:
			// three-variable sum: record for the second pass
			if _, ok := constInt(x.Y); !ok {
				if _, ok2 := constInt(x.X); !ok2 {
					fs.sums = append(fs.sums, [3]lin{self, pr.lin(x.X), pr.lin(x.Y)})
				}
			}
		case token.SUB:
			if _, ok := constInt(x.Y); !ok {
				// v = a - b  =>  a = v + b
				fs.sums = append(fs.sums, [3]lin{pr.lin(x.X), self, pr.lin(x.Y)})
			}
		case token.SHR:
			if s, ok := constInt(x.Y); ok && s >= 0 {
				if lo, _, ok := pr.typeRange(x.X.Type()); ok && lo == 0 {
					fs.le(self, pr.lin(x.X), 0, "x>>k <= x")
					fs.le(lin{zeroTerm, 0}, self, 0, "x>>k >= 0")
				}
			}
		}
	case *ssa.Convert:
		pr.defFacts(fs, x.X, depth+1)
		self := lin{pr.K.Key(v), 0}
		if isIntType(x.Type()) && isIntType(x.X.Type()) && pr.lin(v).T == self.T {
			// non value-preserving conversion: only the destination type range is known (+ equality when the source range fits, proved later)
			if lo, hi, ok := pr.typeRange(x.Type()); ok {
				if lo > math.MinInt64 {
					fs.le(lin{zeroTerm, lo}, self, 0, "type range")
				}
				if hi < math.MaxInt64 {
					fs.le(self, lin{zeroTerm, hi}, 0, "type range")
				}
			}
			fs.narrow = append(fs.narrow, narrowing{self, pr.lin(x.X), x})
			if pr.AssumeFits != nil && pr.AssumeFits(x) {
				fs.le(self, pr.lin(x.X), 0, "assumed to fit")
				fs.le(pr.lin(x.X), self, 0, "assumed to fit")
			}
		}
	case *ssa.ChangeType:
		pr.defFacts(fs, x.X, depth+1)
	case *ssa.Call:
		if isBuiltinCall(x, "len") || isBuiltinCall(x, "cap") {
			pr.lenFacts(fs, x.Call.Args[0], depth+1)
			return
		}
		// results of fixed-width readers are bounded by their type (handled by type range below)
		if sc := x.Call.StaticCallee(); sc != nil && pr.Sum != nil && isIntType(x.Type()) {
			if s := pr.Sum(sc); s != nil && len(x.Call.Args) == 1 {
				arg := pr.lin(x.Call.Args[0])
				pr.defFacts(fs, x.Call.Args[0], depth+1)
				self := lin{pr.K.Key(v), 0}
				fs.summaries = append(fs.summaries, summaryUse{self, arg, s, sc})
			}
		}
		for _, a := range x.Call.Args {
			if isIntType(a.Type()) {
				pr.defFacts(fs, a, depth+1)
			}
		}
	case *ssa.Parameter:
		// an unexported helper's integer parameter takes only the values its library callers pass
		if isIntType(x.Type()) {
			if args, known := callerArgsOf(x); known {
				lo, hi, ok := int64(0), int64(0), true
				first := true
				for _, a := range args {
					cs := constSetOf(a, 0)
					if cs == nil {
						ok = false
						break
					}
					for c := range cs {
						if first || c < lo {
							lo = c
						}
						if first || c > hi {
							hi = c
						}
						first = false
					}
				}
				if ok && !first {
					self := lin{pr.K.Key(v), 0}
					fs.le(lin{zeroTerm, lo}, self, 0, "values passed by the library callers")
					fs.le(self, lin{zeroTerm, hi}, 0, "values passed by the library callers")
				}
			}
		}
	case *ssa.Phi:
		pr.phiFacts(fs, x)
	case *ssa.UnOp:
		if x.Op == token.MUL {
			if d := deref(x); d != ssa.Value(x) {
				pr.defFacts(fs, d, depth+1)
				return
			}
			if fa, ok := x.X.(*ssa.FieldAddr); ok {
				if a, ok := fa.X.(*ssa.Alloc); ok {
					if fv, _ := localFieldValue(a, fa.Field, x, 0); fv != nil {
						pr.defFacts(fs, fv, depth+1)
					}
				}
			}
		}
	case *ssa.Extract:
		// io.Reader.Read contract: 0 <= n <= len(p)
		if c, ok := x.Tuple.(*ssa.Call); ok && x.Index == 0 && c.Call.IsInvoke() && c.Call.Method.Name() == "Read" && len(c.Call.Args) == 1 {
			self := lin{pr.K.Key(v), 0}
			fs.le(lin{zeroTerm, 0}, self, 0, "EXT io.Reader.Read: n >= 0")
			fs.le(self, pr.linLen(c.Call.Args[0], "len"), 0, "EXT io.Reader.Read: n <= len(p)")
			pr.lenFacts(fs, c.Call.Args[0], depth+1)
		}
	}
	if isIntType(v.Type()) {
		if lo, hi, ok := pr.typeRange(v.Type()); ok && l.T != zeroTerm {
			self := lin{pr.K.Key(v), 0}
			if pr.lin(v).T == self.T {
				if lo > math.MinInt64 && lo >= -(1<<40) {
					fs.le(lin{zeroTerm, lo}, self, 0, "type range")
				}
				if hi < math.MaxInt64 && hi <= (1<<40) {
					fs.le(self, lin{zeroTerm, hi}, 0, "type range")
				}
			}
		}
	}
}

// lenFacts: facts about len(s)/cap(s) of slice value s.
func (pr *Prover) lenFacts(fs *factSet, s ssa.Value, depth int) {
	if depth > 12 {
		return
	}
	if cv := canonPhi(s); cv != s {
		pr.lenFacts(fs, cv, depth+1)
		return
	}
	key := fmt.Sprintf("len%p", s)
	if fs.seen[key] {
		return
	}
	fs.seen[key] = true
	ll := pr.linLen(s, "len")
	if ll.T != zeroTerm {
		fs.le(lin{zeroTerm, 0}, ll, 0, "len >= 0")
	}
	if _, isStr := s.Type().Underlying().(*types.Basic); !isStr {
		if _, isSl := s.Type().Underlying().(*types.Slice); isSl {
			fs.le(lin{"len(" + pr.K.Key(s) + ")", 0}, lin{"cap(" + pr.K.Key(s) + ")", 0}, 0, "len <= cap")
		}
	}
	switch x := s.(type) {
	case *ssa.Slice:
		// len(x[lo:hi]) = hi - lo; if not folded by linLen, relate what we can
		own := lin{"len(" + pr.K.Key(s) + ")", 0}
		if ll.T != own.T || ll.Off != 0 {
			// folded: own term equals ll
			fs.le(own, ll, 0, "len of slice expr")
			fs.le(ll, own, 0, "len of slice expr")
		} else if x.Low != nil {
			// lo is not constant: len(s') = hi - lo <= hi  (lo >= 0 since the slice expression succeeded)
			var hi lin
			if x.High != nil {
				hi = pr.lin(x.High)
			} else {
				hi = pr.lenOfOperand(x.X)
			}
			fs.sums = append(fs.sums, [3]lin{hi, own, pr.lin(x.Low)})
		}
		if x.Low != nil {
			pr.defFacts(fs, x.Low, depth+1)
		}
		if x.High != nil {
			pr.defFacts(fs, x.High, depth+1)
		}
		pr.lenFacts(fs, x.X, depth+1)
		// the slice expression has executed (it dominates the point): 0 <= lo <= hi <= cap(x) held
		// -> these facts are only sound after the instruction; callers collect defFacts only for dominating values.
		lo := lin{zeroTerm, 0}
		if x.Low != nil {
			lo = pr.lin(x.Low)
		}
		fs.le(lin{zeroTerm, 0}, lo, 0, "slice succeeded: lo >= 0")
		if x.High != nil {
			fs.le(lo, pr.lin(x.High), 0, "slice succeeded: lo <= hi")
		}
	case *ssa.MakeSlice:
		pr.defFacts(fs, x.Len, depth+1)
		fs.le(lin{"cap(" + pr.K.Key(s) + ")", 0}, pr.lin(x.Cap), 0, "cap(make)")
		fs.le(pr.lin(x.Cap), lin{"cap(" + pr.K.Key(s) + ")", 0}, 0, "cap(make)")
	case *ssa.ChangeType:
		pr.lenFacts(fs, x.X, depth+1)
		a, b := lin{"len(" + pr.K.Key(s) + ")", 0}, pr.linLen(x.X, "len")
		fs.le(a, b, 0, "changetype")
		fs.le(b, a, 0, "changetype")
	case *ssa.Phi:
		// len(phi) <= max over edges is not expressible in general. A consuming window - phi(S0, phi[k:]) with a
		// constant k > 0 - never grows and keeps its length modulo k: len(phi) <= len(S0), len(phi) ≡ len(S0) (mod k)
		{
			var init ssa.Value
			step := int64(0)
			okW := len(x.Edges) >= 2
			for _, e := range x.Edges {
				if sl, isSl := e.(*ssa.Slice); isSl && sl.X == ssa.Value(x) && sl.High == nil && sl.Max == nil && sl.Low != nil {
					if k, isC := constInt(sl.Low); isC && k > 0 && (step == 0 || step == k) {
						step = k
						continue
					}
				}
				if init != nil && init != e {
					okW = false
				}
				init = e
			}
			if okW && init != nil && step > 0 {
				own := lin{"len(" + pr.K.Key(s) + ")", 0}
				l0 := pr.linLen(init, "len")
				fs.le(own, l0, 0, "consuming window never grows")
				pr.lenFacts(fs, init, depth+1)
				// the congruence of len(S0) may only become known later (facts are collected in no particular order):
				// remembered, and derived in the second pass
				fs.windows = append(fs.windows, windowFact{own.T, l0, step})
			}
		}
	case *ssa.UnOp:
		if x.Op == token.MUL {
			if fa, ok := x.X.(*ssa.FieldAddr); ok {
				if a, ok := fa.X.(*ssa.Alloc); ok {
					if fv, _ := localFieldValue(a, fa.Field, x, 0); fv != nil {
						pr.lenFacts(fs, fv, depth+1)
					}
				} else if n := reachingGrow(pr.P, x); n != nil {
					// m.grow(n) dominates the load and nothing but grow can have changed the field since
					fs.le(pr.lin(n), lin{"len(" + pr.K.Key(s) + ")", 0}, 0, "grow(n) leaves len >= n (C03.grow)")
					pr.defFacts(fs, n, depth+1)
				} else if st := reachingFieldStore(pr.P, x); st != nil {
					// a field of a heap object read back with no possible write in between: the stored slice
					a, b := lin{"len(" + pr.K.Key(s) + ")", 0}, pr.linLen(st.Val, "len")
					fs.le(a, b, 0, "field holds the stored slice")
					fs.le(b, a, 0, "field holds the stored slice")
					pr.lenFacts(fs, st.Val, depth+1)
				}
			}
		}
	case *ssa.Call:
		// append(x, y...): len(result) = len(x) + len(y)
		if isBuiltinCall(x, "append") && len(x.Call.Args) == 2 {
			if _, isSl := x.Call.Args[1].Type().Underlying().(*types.Slice); isSl {
				fs.sums = append(fs.sums, [3]lin{{"len(" + pr.K.Key(s) + ")", 0}, pr.linLen(x.Call.Args[0], "len"), pr.linLen(x.Call.Args[1], "len")})
				pr.lenFacts(fs, x.Call.Args[1], depth+1)
			}
		}
		// EXT hash.Hash.Sum(b) appends to b: len(result) >= len(b)
		if x.Call.IsInvoke() && x.Call.Method.Name() == "Sum" && len(x.Call.Args) == 1 {
			fs.le(pr.linLen(x.Call.Args[0], "len"), lin{"len(" + pr.K.Key(s) + ")", 0}, 0, "EXT hash.Hash.Sum appends")
			pr.lenFacts(fs, x.Call.Args[0], depth+1)
		}
		// append(x, ...) : len(result) >= len(x)
		if isBuiltinCall(x, "append") && len(x.Call.Args) >= 1 {
			fs.le(pr.linLen(x.Call.Args[0], "len"), lin{"len(" + pr.K.Key(s) + ")", 0}, 0, "append grows")
			pr.lenFacts(fs, x.Call.Args[0], depth+1)
		}
	}
}

// phiFacts: monotone induction  p = phi(c0, p+k)  =>  p >= c0 (k>0) / p <= c0 (k<0); congruence by gcd.
func (pr *Prover) phiFacts(fs *factSet, ph *ssa.Phi) {
	self := lin{pr.K.Key(ph), 0}
	var inits []lin
	var steps []int64
	okShape := true
	for _, e := range ph.Edges {
		le := pr.lin(e)
		if le.T == self.T {
			steps = append(steps, le.Off)
			continue
		}
		// e may be (phi + c) + d chain through another value; accept lin form only
		inits = append(inits, le)
		if le.T != zeroTerm {
			okShape = false
		}
	}
	if !okShape || len(inits) == 0 {
		// non-constant init with monotone steps: p >= init if all steps >= 0 and single init term
		if len(inits) == 1 && len(steps) > 0 {
			allUp, allDown := true, true
			for _, s := range steps {
				if s < 0 {
					allUp = false
				}
				if s > 0 {
					allDown = false
				}
			}
			if allUp {
				fs.le(inits[0], self, 0, "monotone induction")
			}
			if allDown {
				fs.le(self, inits[0], 0, "monotone induction")
			}
			// what is known about the initial value (itself often an induction variable of an earlier loop)
			for _, e := range ph.Edges {
				if le := pr.lin(e); le.T != self.T && le.T != zeroTerm {
					pr.defFacts(fs, e, 8)
				}
			}
		}
		return
	}
	lo, hi := inits[0].Off, inits[0].Off
	for _, i := range inits {
		if i.Off < lo {
			lo = i.Off
		}
		if i.Off > hi {
			hi = i.Off
		}
	}
	allUp, allDown := true, true
	var g int64
	for _, s := range steps {
		if s < 0 {
			allUp = false
		}
		if s > 0 {
			allDown = false
		}
		g = gcd(g, abs64(s))
	}
	if allUp {
		fs.le(lin{zeroTerm, lo}, self, 0, "monotone induction")
	}
	if allDown {
		fs.le(self, lin{zeroTerm, hi}, 0, "monotone induction")
	}
	for _, i := range inits {
		g = gcd(g, abs64(i.Off-inits[0].Off))
	}
	if g > 1 && len(steps) > 0 {
		fs.cong[self.T] = congruence{g, ((inits[0].Off % g) + g) % g}
	} else if len(steps) == 0 && lo == hi {
		fs.cong[self.T] = congruence{0, lo}
	}
}

func gcd(a, b int64) int64 {
	for b != 0 {
		a, b = b, a%b
	}
	return a
}
func abs64(a int64) int64 {
	if a < 0 {
		return -a
	}
	return a
}

type narrowing struct {
	self, src lin
	conv      *ssa.Convert
}

type summaryUse struct {
	self, arg lin
	s         *IntSummary
	callee    *ssa.Function
}

// collect gathers the facts valid at instruction `at` (before it executes).
func (pr *Prover) collect(at ssa.Instruction, operands ...ssa.Value) *factSet {
	fs := &factSet{cong: map[string]congruence{}, seen: map[string]bool{}}
	// F1: dominating branch edges
	b := at.Block()
	pr.atBlock = b
	for _, ec := range allEntryConds(b) {
		pr.condFacts(fs, ec.Cond, ec.Val, "branch "+pr.P.pos(ec.Cond.Pos()))
		pr.nilEdgeFacts(fs, ec.Cond, ec.Val)
	}
	// F2: definitions of the operands
	for _, o := range operands {
		if o == nil {
			continue
		}
		if isIntType(o.Type()) {
			pr.defFacts(fs, o, 0)
		} else {
			pr.lenFacts(fs, o, 0)
		}
	}
	// executed slice/index instructions that dominate `at` contribute their success facts
	for x := b; x != nil; x = tIdomOf(x) {
		for _, in := range x.Instrs {
			if x == b && !instrDominates(in, at) {
				break
			}
			switch y := in.(type) {
			case *ssa.Slice:
				pr.lenFacts(fs, y, 0)
			}
		}
	}
	pr.secondPass(fs)
	return fs
}

// secondPass: uses bounds derived so far for three-variable sums, narrowing conversions,
// remainders of non-negative values, callee summaries and congruence strengthening.
func (pr *Prover) secondPass(fs *factSet) {
	for _, w := range fs.windows {
		if c0, have := fs.cong[w.l0.T]; have && c0.M > 1 && w.step%c0.M == 0 {
			fs.cong[w.own] = congruence{c0.M, ((c0.R+w.l0.Off)%c0.M + c0.M) % c0.M}
		}
	}
	for round := 0; round < 3; round++ {
		n := len(fs.facts)
		g := newGraph(fs.facts)
		lower := func(t lin) (int64, bool) { // 0 - t <= d  => t >= -d
			if t.T == zeroTerm {
				return t.Off, true
			}
			d, ok := g.dist(zeroTerm, t.T)
			if !ok {
				return 0, false
			}
			return -d + t.Off, true
		}
		upper := func(t lin) (int64, bool) { // t - 0 <= d
			if t.T == zeroTerm {
				return t.Off, true
			}
			d, ok := g.dist(t.T, zeroTerm)
			if !ok {
				return 0, false
			}
			return d + t.Off, true
		}
		for _, s := range fs.sums { // s[0] = s[1] + s[2]
			if lb, ok := lower(s[2]); ok {
				fs.le(lin{s[1].T, s[1].Off + lb}, s[0], 0, "sum: addend lower bound")
			}
			if lb, ok := lower(s[1]); ok {
				fs.le(lin{s[2].T, s[2].Off + lb}, s[0], 0, "sum: addend lower bound")
			}
			if ub, ok := upper(s[2]); ok {
				fs.le(s[0], lin{s[1].T, s[1].Off + ub}, 0, "sum: addend upper bound")
			}
			if ub, ok := upper(s[1]); ok {
				fs.le(s[0], lin{s[2].T, s[2].Off + ub}, 0, "sum: addend upper bound")
			}
		}
		for _, nw := range fs.narrow {
			lo, hi, ok := pr.typeRange(nw.conv.Type())
			if !ok {
				continue
			}
			l, ok1 := lower(nw.src)
			u, ok2 := upper(nw.src)
			if ok1 && ok2 && l >= lo && u <= hi {
				fs.le(nw.self, nw.src, 0, "conversion preserves value")
				fs.le(nw.src, nw.self, 0, "conversion preserves value")
			}
		}
		for _, pn := range fs.pendingNonNeg {
			if l, ok := lower(pn[0]); ok && l >= 0 {
				fs.le(lin{zeroTerm, 0}, pn[1], 0, "x%m >= 0 for x >= 0")
			}
		}
		for _, su := range fs.summaries {
			if l, ok := lower(su.arg); ok && l >= su.s.ArgMin {
				fs.le(lin{su.arg.T, su.arg.Off + su.s.RelLo}, su.self, 0, "summary of "+fnName(su.callee))
				fs.le(su.self, lin{su.arg.T, su.arg.Off + su.s.RelHi}, 0, "summary of "+fnName(su.callee))
				if su.s.Mod > 1 {
					fs.cong[su.self.T] = congruence{su.s.Mod, su.s.Rem}
				}
			}
		}
		// congruence strengthening:  x ≡ y (mod m), x < y  =>  x + m <= y
		for _, f := range fs.facts[:n] {
			if f.C >= 0 {
				continue
			}
			ca, okA := fs.cong[f.A]
			cb, okB := fs.cong[f.B]
			if f.B == zeroTerm {
				cb, okB = congruence{0, 0}, true
			}
			if f.A == zeroTerm {
				ca, okA = congruence{0, 0}, true
			}
			if !okA || !okB {
				continue
			}
			m := gcd(ca.M, cb.M)
			if ca.M == 0 && cb.M == 0 {
				continue
			}
			if m <= 1 {
				continue
			}
			// A - B <= C ; (A - B) ≡ ra - rb (mod m) ; tighten C down to the largest value <= C with that residue
			d := ((ca.R-cb.R)%m + m) % m
			c := f.C
			r := ((c % m) + m) % m
			delta := (r - d + m) % m
			if delta != 0 {
				fs.add(f.A, f.B, c-delta, "congruence mod "+fmt.Sprint(m))
			}
		}
		if len(fs.facts) == n {
			break
		}
	}
}

// ---------------------------------------------------------------------------
// difference-constraint solver

type graph struct {
	nodes map[string]int
	edges [][3]int64 // from, to, w   (constraint to - from <= w)
	names []string
}

func newGraph(fs []fact) *graph {
	g := &graph{nodes: map[string]int{}}
	id := func(s string) int {
		if i, ok := g.nodes[s]; ok {
			return i
		}
		g.nodes[s] = len(g.names)
		g.names = append(g.names, s)
		return len(g.names) - 1
	}
	id(zeroTerm)
	for _, f := range fs {
		// A - B <= C : edge B -> A weight C
		g.edges = append(g.edges, [3]int64{int64(id(f.B)), int64(id(f.A)), f.C})
	}
	return g
}

// dist returns the tightest derivable c with  to - from <= c.
func (g *graph) dist(to, from string) (int64, bool) {
	if to == from {
		return 0, true
	}
	s, ok1 := g.nodes[from]
	t, ok2 := g.nodes[to]
	if !ok1 || !ok2 {
		return 0, false
	}
	const inf = math.MaxInt64 / 4
	d := make([]int64, len(g.names))
	for i := range d {
		d[i] = inf
	}
	d[s] = 0
	for it := 0; it < len(g.names)+1; it++ {
		ch := false
		for _, e := range g.edges {
			if d[e[0]] < inf && d[e[0]]+e[2] < d[e[1]] {
				d[e[1]] = d[e[0]] + e[2]
				ch = true
			}
		}
		if !ch {
			break
		}
		if it == len(g.names) {
			// negative cycle: the facts are contradictory (dead code): everything holds
			return -inf, true
		}
	}
	if d[t] >= inf {
		return 0, false
	}
	return d[t], true
}

// Goal: x <= y + c at instruction `at`.
type Goal struct {
	X, Y  ssa.Value // nil = constant zero
	XL    *lin      // explicit lin overrides X
	YL    *lin
	C     int64
	Desc  string
	extra []ssa.Value // further values whose definitions are relevant
	// edgeCond: an additional branch condition known to hold (the condition of the CFG edge over
	// which a phi's incoming value arrives)
	edgeCond ssa.Value
	edgePol  bool
	// assume: branch conditions known on the path along which the goal is asked (PATH engine)
	assume []PathCond
}

type ProofResult struct {
	OK      bool
	Trivial bool // constants only
	Facts   []string
	Goal    string
}

// Prove decides the goal; when it fails and the goal mentions the length of a phi-merged slice, it
// is proved separately for every incoming value at the end of the corresponding predecessor
// (the phi equals that value whenever control arrives over that edge).
func (pr *Prover) Prove(at ssa.Instruction, g Goal) ProofResult {
	res := pr.prove1(at, g)
	if res.OK || g.YL == nil {
		return res
	}
	// find a phi whose len is the right-hand term
	for _, ex := range g.extra {
		ph, ok := ex.(*ssa.Phi)
		if !ok || !instrDominates(ph, at) && ph.Block() != at.Block() {
			continue
		}
		if pr.linLen(ph, "len").T != g.YL.T {
			continue
		}
		all := len(ph.Edges) > 0
		for i, e := range ph.Edges {
			pred := ph.Block().Preds[i]
			l := pr.linLen(e, "len")
			l.Off += g.YL.Off
			sub := Goal{X: g.X, XL: g.XL, YL: &l, C: g.C, extra: []ssa.Value{e}}
			if iff, isIf := pred.Instrs[len(pred.Instrs)-1].(*ssa.If); isIf && pred.Succs[0] != pred.Succs[1] {
				sub.edgeCond, sub.edgePol = iff.Cond, pred.Succs[0] == ph.Block()
			}
			// the left-hand value must be available at the predecessor's end
			if xv, isInstr := g.X.(ssa.Instruction); isInstr && g.XL == nil {
				if !instrDominates(xv, pred.Instrs[len(pred.Instrs)-1]) {
					all = false
					break
				}
			}
			if r := pr.prove1(pred.Instrs[len(pred.Instrs)-1], sub); !r.OK {
				all = false
				break
			}
		}
		if all {
			res.OK = true
			res.Facts = append(res.Facts, "proved for every incoming value of the merged slice")
			return res
		}
	}
	// the same when the length of a merged slice is on the left-hand side (len(phi) + k <= c)
	var x lin
	if g.XL != nil {
		x = *g.XL
	} else if g.X != nil {
		x = pr.lin(g.X)
	} else {
		return res
	}
	for _, ex := range g.extra {
		ph, ok := ex.(*ssa.Phi)
		if !ok || !instrDominates(ph, at) && ph.Block() != at.Block() {
			continue
		}
		if pr.linLen(ph, "len").T != x.T {
			continue
		}
		all := len(ph.Edges) > 0
		for i, e := range ph.Edges {
			pred := ph.Block().Preds[i]
			l := pr.linLen(e, "len")
			l.Off += x.Off
			sub := Goal{XL: &l, Y: g.Y, YL: g.YL, C: g.C, extra: []ssa.Value{e}}
			if iff, isIf := pred.Instrs[len(pred.Instrs)-1].(*ssa.If); isIf && pred.Succs[0] != pred.Succs[1] {
				sub.edgeCond, sub.edgePol = iff.Cond, pred.Succs[0] == ph.Block()
			}
			if r := pr.prove1(pred.Instrs[len(pred.Instrs)-1], sub); !r.OK {
				all = false
				break
			}
		}
		if all {
			res.OK = true
			res.Facts = append(res.Facts, "proved for every incoming value of the merged slice")
			return res
		}
	}
	return res
}

func (pr *Prover) prove1(at ssa.Instruction, g Goal) ProofResult {
	var x, y lin
	var ops []ssa.Value
	if g.XL != nil {
		x = *g.XL
	} else if g.X != nil {
		x = pr.lin(g.X)
		ops = append(ops, g.X)
	} else {
		x = lin{zeroTerm, 0}
	}
	if g.YL != nil {
		y = *g.YL
	} else if g.Y != nil {
		y = pr.lin(g.Y)
		ops = append(ops, g.Y)
	} else {
		y = lin{zeroTerm, 0}
	}
	res := ProofResult{Goal: fmt.Sprintf("%s <= %s", x, lin{y.T, y.Off + g.C})}
	need := g.C - x.Off + y.Off // x.T - y.T <= need
	if x.T == y.T {
		res.OK = need >= 0
		res.Trivial = true
		return res
	}
	fs := pr.collect(at, append(ops, g.extra...)...)
	if g.edgeCond != nil {
		pr.condFacts(fs, g.edgeCond, g.edgePol, "edge condition")
		pr.nilEdgeFacts(fs, g.edgeCond, g.edgePol)
		pr.secondPass(fs)
	}
	if len(g.assume) > 0 {
		for _, pc := range g.assume {
			pr.condFacts(fs, pc.Cond, pc.Val, "path condition")
			pr.nilEdgeFacts(fs, pc.Cond, pc.Val)
		}
		pr.secondPass(fs)
	}
	gr := newGraph(fs.facts)
	d, ok := gr.dist(x.T, y.T)
	if ok && d <= need {
		res.OK = true
		// report the facts that mention the goal terms (for evidence samples)
		for _, f := range fs.facts {
			if f.A == x.T || f.B == y.T || f.A == y.T || f.B == x.T {
				if len(res.Facts) < 6 && !strings.HasPrefix(f.Why, "len >=") {
					res.Facts = append(res.Facts, fmt.Sprintf("%s - %s <= %d [%s]", short(f.A), short(f.B), f.C, f.Why))
				}
			}
		}
		sort.Strings(res.Facts)
		return res
	}
	return res
}

func short(s string) string {
	if len(s) > 60 {
		return s[:57] + "..."
	}
	return s
}

// ---------------------------------------------------------------------------
// canonical loads: two loads of the same address yield the same value when the
// earlier dominates the later and nothing that can write that location lies between.

func (pr *Prover) killsLoad(in ssa.Instruction, ld *ssa.UnOp) bool {
	switch x := in.(type) {
	case *ssa.Store:
		switch ad := ld.X.(type) {
		case *ssa.FieldAddr:
			fv := fieldOfAddr(ad)
			if sa, ok := x.Addr.(*ssa.FieldAddr); ok {
				return fieldOfAddr(sa) == fv
			}
			// whole-struct store through a pointer of the struct type
			if pt, ok := x.Addr.Type().Underlying().(*types.Pointer); ok {
				if apt, ok := ad.X.Type().Underlying().(*types.Pointer); ok && types.Identical(pt.Elem(), apt.Elem()) {
					return true
				}
				// store through a pointer to the field's own type (e.g. *a = ... with a *UnknownAttributes)
				if types.Identical(pt.Elem(), fv.Type()) {
					return true
				}
			}
			return false
		case *ssa.Alloc:
			return x.Addr == ssa.Value(ad)
		default:
			// unknown address shape: any store of a value of the same type kills
			if pt, ok := x.Addr.Type().Underlying().(*types.Pointer); ok {
				return types.Identical(pt.Elem(), ld.Type())
			}
			return true
		}
	case *ssa.Call:
		return pr.callKills(x.Common(), ld)
	case *ssa.Defer, *ssa.RunDefers:
		return true
	case *ssa.Go:
		return true
	}
	return false
}

func (pr *Prover) callKills(cc *ssa.CallCommon, ld *ssa.UnOp) bool {
	if _, isB := cc.Value.(*ssa.Builtin); isB {
		return false // builtins write bytes/maps, never struct fields or locals
	}
	if a, ok := ld.X.(*ssa.Alloc); ok {
		// a local cell is only written by this function or by closures capturing it
		captured := false
		for _, r := range *a.Referrers() {
			if mc, ok := r.(*ssa.MakeClosure); ok {
				fn := mc.Fn.(*ssa.Function)
				for i, b := range mc.Bindings {
					if b == ssa.Value(a) && closureWritesFreeVar(fn, i) {
						captured = true
					}
				}
			}
		}
		return captured
	}
	if cc.IsInvoke() {
		// hash.Hash / io interfaces write bytes only
		if n, ok := cc.Value.Type().(*types.Named); ok && n.Obj().Pkg() != nil {
			switch n.Obj().Pkg().Path() {
			case "hash", "io":
				return false
			}
		}
		return true
	}
	sc := cc.StaticCallee()
	if sc == nil {
		return true
	}
	if pr.P.isModuleFn(sc) {
		fa, ok := ld.X.(*ssa.FieldAddr)
		if !ok {
			return true
		}
		mod, unknown := modFields(pr.P, sc, map[*ssa.Function]bool{})
		if unknown {
			return true
		}
		return mod[fieldOfAddr(fa)]
	}
	return !extAllowed(sc) // EXT functions touch bytes and their own state only
}

func closureWritesFreeVar(fn *ssa.Function, idx int) bool {
	if idx >= len(fn.FreeVars) {
		return true
	}
	fv := fn.FreeVars[idx]
	w := false
	for _, r := range *fv.Referrers() {
		if st, ok := r.(*ssa.Store); ok && st.Addr == ssa.Value(fv) {
			w = true
		}
	}
	return w
}

func (pr *Prover) canonLoad(ld *ssa.UnOp) *ssa.UnOp {
	if c, ok := pr.canon[ld]; ok {
		return c
	}
	pr.canon[ld] = ld
	addr := pr.K.Key(ld.X)
	best := ld
	for _, b := range pr.Fn.Blocks {
		for _, in := range b.Instrs {
			o, ok := in.(*ssa.UnOp)
			if !ok || o == ld || o.Op != token.MUL || !instrDominates(o, ld) {
				continue
			}
			if pr.K.Key(o.X) != addr {
				continue
			}
			// any killer between o and ld?
			killed := false
			for _, kb := range pr.Fn.Blocks {
				for _, kin := range kb.Instrs {
					if kin == ssa.Instruction(o) || kin == ssa.Instruction(ld) {
						continue
					}
					if !pr.killsLoad(kin, ld) {
						continue
					}
					if reachableFrom(o, kin) && reachableAvoid(kin, ld, o) {
						killed = true
					}
				}
			}
			if !killed {
				c := pr.canonLoad(o)
				if instrDominates(c, best) || best == ld {
					best = c
				}
			}
		}
	}
	pr.canon[ld] = best
	return best
}

// ---------------------------------------------------------------------------
// F4: nil-return conditions of module functions returning error

type paramCond struct {
	A, B   int   // parameter indices; -1 = constant
	CA, CB int64 // constants when index is -1
	Op     token.Token
}

var nilCondCache = map[*ssa.Function][]paramCond{}

// nilReturnConds: conditions over integer parameters that hold whenever fn returns a nil error.
func nilReturnConds(p *Prog, fn *ssa.Function) []paramCond {
	if fn == nil || fn.Blocks == nil || !p.isModuleFn(fn) {
		return nil
	}
	if c, ok := nilCondCache[fn]; ok {
		return c
	}
	nilCondCache[fn] = nil
	idx := errorResultIndex(fn)
	if idx < 0 || fn.Signature.Results().Len() != 1 {
		return nil
	}
	var nilRets []*ssa.Return
	// nil merged into a single return (result of a normalised helper, named result): the edge of the phi
	// that carries nil plays the part of the returning block
	var nilEdgeFrom *ssa.BasicBlock
	var nilEdgeTo *ssa.BasicBlock
	nNilEdges := 0
	for _, ret := range returnsOf(fn) {
		v := deref(ret.Results[idx])
		if isNilConst(v) {
			nilRets = append(nilRets, ret)
			continue
		}
		if ph, isPhi := v.(*ssa.Phi); isPhi {
			okPhi := true
			for i, e := range ph.Edges {
				if isNilConst(e) {
					nNilEdges++
					nilEdgeFrom, nilEdgeTo = ph.Block().Preds[i], ph.Block()
					continue
				}
				c := &PathCtx{K: newKeyer(), assign: map[string]bool{}, phiSel: map[*ssa.Phi]ssa.Value{}, P: p}
				if c.NilState(e) != -1 {
					okPhi = false
				}
			}
			if okPhi {
				continue
			}
			return nil
		}
		c := &PathCtx{K: newKeyer(), assign: map[string]bool{}, phiSel: map[*ssa.Phi]ssa.Value{}, P: p}
		if c.NilState(v) != -1 {
			return nil // a return whose nilness is unknown
		}
	}
	if len(nilRets)+nNilEdges != 1 {
		return nil
	}
	paramIdx := func(v ssa.Value) (int, int64, bool) {
		if c, ok := constInt(v); ok {
			return -1, c, true
		}
		for i, pa := range fn.Params {
			if v == ssa.Value(pa) {
				return i, 0, true
			}
		}
		return 0, 0, false
	}
	var out []paramCond
	var startBlock *ssa.BasicBlock
	type edge struct{ from, to *ssa.BasicBlock }
	var chain []edge
	if len(nilRets) == 1 {
		startBlock = nilRets[0].Block()
	} else {
		// the nil edge itself, then what dominates its source
		chain = append(chain, edge{nilEdgeFrom, nilEdgeTo})
		startBlock = nilEdgeFrom
	}
	for x := startBlock; x != nil; x = x.Idom() {
		if len(x.Preds) != 1 {
			continue
		}
		chain = append(chain, edge{x.Preds[0], x})
	}
	for _, ed := range chain {
		pp, x := ed.from, ed.to
		iff, ok := pp.Instrs[len(pp.Instrs)-1].(*ssa.If)
		if !ok || pp.Succs[0] == pp.Succs[1] {
			continue
		}
		pol := pp.Succs[0] == x
		cond := iff.Cond
		for {
			if u, ok := cond.(*ssa.UnOp); ok && u.Op == token.NOT {
				pol = !pol
				cond = u.X
				continue
			}
			break
		}
		b, ok := cond.(*ssa.BinOp)
		if !ok || !isIntType(b.X.Type()) {
			continue
		}
		ai, ca, ok1 := paramIdx(b.X)
		bi, cb, ok2 := paramIdx(b.Y)
		if !ok1 || !ok2 {
			continue
		}
		op := b.Op
		if !pol {
			switch op {
			case token.LSS:
				op = token.GEQ
			case token.LEQ:
				op = token.GTR
			case token.GTR:
				op = token.LEQ
			case token.GEQ:
				op = token.LSS
			case token.EQL:
				op = token.NEQ
			case token.NEQ:
				op = token.EQL
			}
		}
		out = append(out, paramCond{ai, bi, ca, cb, op})
	}
	nilCondCache[fn] = out
	return out
}

// nilEdgeFacts: the edge condition is `r == nil` / `r != nil` for the error result r of a
// module call; on the nil edge the callee's nil-return conditions hold for the actual arguments.
func (pr *Prover) nilEdgeFacts(fs *factSet, cond ssa.Value, pol bool) {
	for {
		if u, ok := cond.(*ssa.UnOp); ok && u.Op == token.NOT {
			pol = !pol
			cond = u.X
			continue
		}
		break
	}
	b, ok := cond.(*ssa.BinOp)
	if !ok || (b.Op != token.EQL && b.Op != token.NEQ) {
		return
	}
	var r ssa.Value
	if isNilConst(b.Y) {
		r = b.X
	} else if isNilConst(b.X) {
		r = b.Y
	} else {
		return
	}
	isNil := (b.Op == token.EQL) == pol
	if !isNil {
		return
	}
	call, ok := deref(pr.phiHere(r)).(*ssa.Call)
	if !ok {
		return
	}
	sc := call.Call.StaticCallee()
	if sc == nil || pr.nilSum == nil {
		return
	}
	conds := pr.nilSum(sc)
	args := call.Call.Args
	for _, c := range conds {
		get := func(i int, cst int64) (lin, bool) {
			if i < 0 {
				return lin{zeroTerm, cst}, true
			}
			if i >= len(args) {
				return lin{}, false
			}
			pr.defFacts(fs, args[i], 0)
			return pr.lin(args[i]), true
		}
		x, ok1 := get(c.A, c.CA)
		y, ok2 := get(c.B, c.CB)
		if !ok1 || !ok2 {
			continue
		}
		why := "nil-return condition of " + fnName(sc)
		switch c.Op {
		case token.LSS:
			fs.le(x, y, -1, why)
		case token.LEQ:
			fs.le(x, y, 0, why)
		case token.GTR:
			fs.le(y, x, -1, why)
		case token.GEQ:
			fs.le(y, x, 0, why)
		case token.EQL:
			fs.le(x, y, 0, why)
			fs.le(y, x, 0, why)
		}
	}
}

// modFields: struct fields that fn (transitively, module functions) may store to.
// unknown is true when the closure contains a call whose effects are not known
// (dynamic calls, interface calls into the module's own types excepted, non-EXT externals).
var modCache = map[*ssa.Function]map[*types.Var]bool{}
var modUnknown = map[*ssa.Function]bool{}

func modFields(p *Prog, fn *ssa.Function, onStack map[*ssa.Function]bool) (map[*types.Var]bool, bool) {
	if m, ok := modCache[fn]; ok {
		return m, modUnknown[fn]
	}
	if onStack[fn] {
		return map[*types.Var]bool{}, false
	}
	onStack[fn] = true
	defer delete(onStack, fn)
	out := map[*types.Var]bool{}
	unknown := false
	if fn.Blocks == nil {
		return out, true
	}
	for _, cs := range p.CG().Sites[fn] {
		cc := cs.Instr.Common()
		if _, isB := cc.Value.(*ssa.Builtin); isB {
			continue
		}
		if cs.Dynamic {
			unknown = true
			continue
		}
		if cc.IsInvoke() {
			if n, ok := cc.Value.Type().(*types.Named); ok && n.Obj().Pkg() != nil {
				switch n.Obj().Pkg().Path() {
				case "hash", "io":
					continue
				}
			}
			// EXT: Error() of an error value and String() of a fmt.Stringer are observers (they write no field of
			// the library's structures); the module's own implementations are still followed through Callees
			if (cc.Method.Name() == "Error" || cc.Method.Name() == "String") && cc.Method.Type().(*types.Signature).Params().Len() == 0 {
				for _, g := range cs.Callees {
					m, u := modFields(p, g, onStack)
					for k := range m {
						out[k] = true
					}
					if u {
						unknown = true
					}
				}
				continue
			}
			if cs.ExtIface != "" {
				unknown = true
			}
		}
		for _, ext := range cs.External {
			if !extAllowed(ext) {
				unknown = true
			}
		}
		for _, g := range cs.Callees {
			m, u := modFields(p, g, onStack)
			for k := range m {
				out[k] = true
			}
			if u {
				unknown = true
			}
		}
	}
	eachInstr(fn, func(b *ssa.BasicBlock, i int, in ssa.Instruction) {
		if st, ok := in.(*ssa.Store); ok {
			if fa, ok := st.Addr.(*ssa.FieldAddr); ok {
				out[fieldOfAddr(fa)] = true
			} else if _, isAlloc := st.Addr.(*ssa.Alloc); !isAlloc {
				if _, isIdx := st.Addr.(*ssa.IndexAddr); !isIdx {
					// store through an arbitrary pointer (parameter, free variable): could be a field
					if pt, ok := st.Addr.Type().Underlying().(*types.Pointer); ok {
						if _, isStruct := pt.Elem().Underlying().(*types.Struct); isStruct {
							unknown = true
						} else {
							// pointer to a named non-struct (e.g. *UnknownAttributes): fields of that type
							out[nil] = true
							unknown = unknown || false
							_ = pt
						}
					}
				}
			}
		}
	})
	modCache[fn] = out
	modUnknown[fn] = unknown
	return out, unknown
}
