package main

import (
	"fmt"
	"go/token"
	"go/types"
	"sort"
	"strings"

	"golang.org/x/tools/go/ssa"
)

// Linear expressions over SSA integer values: sum of coef*atom + const. Conversions are
// transparent (the properties that use this engine carry the precondition that sizes fit the
// 16/32-bit fields). Loads of struct fields through pointers are forwarded to the reaching store
// of the same address when no intervening write is possible (reachingFieldStore).

type linExpr struct {
	C     int64
	Terms map[string]int64
}

func (e linExpr) String() string {
	var ks []string
	for k, v := range e.Terms {
		if v != 0 {
			ks = append(ks, fmt.Sprintf("%+d*%s", v, k))
		}
	}
	sort.Strings(ks)
	return fmt.Sprintf("%d%s", e.C, strings.Join(ks, ""))
}

func (e linExpr) add(o linExpr, sign int64) linExpr {
	r := linExpr{C: e.C + sign*o.C, Terms: map[string]int64{}}
	for k, v := range e.Terms {
		r.Terms[k] += v
	}
	for k, v := range o.Terms {
		r.Terms[k] += sign * v
	}
	for k, v := range r.Terms {
		if v == 0 {
			delete(r.Terms, k)
		}
	}
	return r
}

func (e linExpr) isConst() (int64, bool) {
	return e.C, len(e.Terms) == 0
}

func (e linExpr) equal(o linExpr) bool {
	d := e.add(o, -1)
	c, ok := d.isConst()
	return ok && c == 0
}

type linEval struct {
	p    *Prog
	k    *keyer
	memo map[ssa.Value]linExpr
}

func newLinEval(p *Prog) *linEval {
	k := newKeyer()
	k.fwdLocal = true
	k.pureFieldLoads = true
	return &linEval{p: p, k: k, memo: map[ssa.Value]linExpr{}}
}

func atom(s string) linExpr { return linExpr{Terms: map[string]int64{s: 1}} }

func (le *linEval) Eval(v ssa.Value) linExpr {
	if r, ok := le.memo[v]; ok {
		return r
	}
	le.memo[v] = atom("cyc:" + v.Name())
	r := le.eval(v)
	le.memo[v] = r
	return r
}

func (le *linEval) eval(v ssa.Value) linExpr {
	if cv := canonPhi(v); cv != v {
		return le.Eval(cv)
	}
	switch x := v.(type) {
	case *ssa.Const:
		if c, ok := constInt(x); ok {
			return linExpr{C: c, Terms: map[string]int64{}}
		}
	case *ssa.Convert:
		if isIntType(x.Type()) && isIntType(x.X.Type()) {
			return le.Eval(x.X)
		}
	case *ssa.ChangeType:
		return le.Eval(x.X)
	case *ssa.BinOp:
		switch x.Op {
		case token.ADD:
			if isIntType(x.Type()) {
				return le.Eval(x.X).add(le.Eval(x.Y), 1)
			}
		case token.SUB:
			return le.Eval(x.X).add(le.Eval(x.Y), -1)
		case token.MUL:
			if c, ok := constInt(x.Y); ok {
				e := le.Eval(x.X)
				r := linExpr{C: e.C * c, Terms: map[string]int64{}}
				for k, v := range e.Terms {
					r.Terms[k] = v * c
				}
				return r
			}
			if c, ok := constInt(x.X); ok {
				e := le.Eval(x.Y)
				r := linExpr{C: e.C * c, Terms: map[string]int64{}}
				for k, v := range e.Terms {
					r.Terms[k] = v * c
				}
				return r
			}
		}
	case *ssa.UnOp:
		if x.Op == token.MUL {
			if d := deref(x); d != ssa.Value(x) {
				return le.Eval(d)
			}
			if fa, ok := x.X.(*ssa.FieldAddr); ok {
				if a, ok := fa.X.(*ssa.Alloc); ok {
					if fv, _ := localFieldValue(a, fa.Field, x, 0); fv != nil {
						return le.Eval(fv)
					}
				} else if st := reachingFieldStore(le.p, x); st != nil {
					return le.Eval(st.Val)
				}
			}
			// entry value of a field: name by address shape (only when nothing can have written it yet)
			if _, isFA := x.X.(*ssa.FieldAddr); isFA && fieldEntryValue(le.p, x) {
				return atom("in:" + le.k.Key(x.X))
			}
			return atom("ld#" + x.Name() + ":" + le.k.Key(x.X))
		}
	case *ssa.Call:
		if isBuiltinCall(x, "len") {
			return le.lenOf(x.Call.Args[0])
		}
		if sc := x.Call.StaticCallee(); sc != nil && le.p.isModuleFn(sc) && len(x.Call.Args) == 1 {
			// pure module function of one argument: uninterpreted f(arg)
			return atom(fnName(sc) + "(" + le.Eval(x.Call.Args[0]).String() + ")")
		}
	}
	return atom(le.k.Key(v))
}

// lenOf: length of a slice value as a linear expression.
func (le *linEval) lenOf(s ssa.Value) linExpr {
	switch x := s.(type) {
	case *ssa.Slice:
		var hi, lo linExpr
		if x.High != nil {
			hi = le.Eval(x.High)
		} else {
			hi = le.lenOf(x.X)
		}
		if x.Low != nil {
			lo = le.Eval(x.Low)
		} else {
			lo = linExpr{Terms: map[string]int64{}}
		}
		return hi.add(lo, -1)
	case *ssa.MakeSlice:
		return le.Eval(x.Len)
	case *ssa.ChangeType:
		return le.lenOf(x.X)
	case *ssa.UnOp:
		if x.Op == token.MUL {
			if fa, ok := x.X.(*ssa.FieldAddr); ok {
				if a, ok := fa.X.(*ssa.Alloc); ok {
					if fv, _ := localFieldValue(a, fa.Field, x, 0); fv != nil {
						return le.lenOf(fv)
					}
				} else if st := reachingFieldStore(le.p, x); st != nil {
					return le.lenOf(st.Val)
				}
			}
			if _, isFA := x.X.(*ssa.FieldAddr); isFA && fieldEntryValue(le.p, x) {
				return atom("len(in:" + le.k.Key(x.X) + ")")
			}
			return atom("len(ld#" + x.Name() + ")")
		}
	case *ssa.Call:
		if isBuiltinCall(x, "append") && len(x.Call.Args) == 2 {
			// append(a, b...) : len = len(a) + len(b)
			return le.lenOf(x.Call.Args[0]).add(le.lenOf(x.Call.Args[1]), 1)
		}
	case *ssa.Parameter:
		return atom("len(p:" + x.Name() + ")")
	case *ssa.Alloc:
		if pt, ok := x.Type().Underlying().(*types.Pointer); ok {
			if at, ok := pt.Elem().Underlying().(*types.Array); ok {
				return linExpr{C: at.Len(), Terms: map[string]int64{}}
			}
		}
	}
	return atom("len(" + le.k.Key(s) + ")")
}
