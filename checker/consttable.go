package main

import (
	"fmt"
	"go/constant"
	"go/token"
	"go/types"
	"sort"
	"strconv"
	"strings"

	"golang.org/x/tools/go/ssa"
)

// CONSTTABLE: evaluation of a small pure library function of one scalar parameter for each value of a
// finite domain. It understands comparisons of the parameter with constants, integer arithmetic on it,
// and lookups in package-level maps and arrays that are written only by the package initialiser (their
// contents are read from the initialiser). Anything else makes the evaluation undecided.

// globalTable is the content of a package-level map or array as established by the package initialiser.
type globalTable struct {
	g       *ssa.Global
	entries map[string]constant.Value // key: ExactString of the key constant / decimal index
	length  int64                     // arrays: length; maps: -1
	zero    constant.Value
}

// readOnlyGlobalTables returns the tables of the stun package that no function other than the
// initialiser writes (stores through the global, map updates and deletes of the loaded map, address or
// map value escaping into calls all disqualify).
func (p *Prog) readOnlyGlobalTables() map[*ssa.Global]*globalTable {
	if p.globalTables != nil {
		return p.globalTables
	}
	out := map[*ssa.Global]*globalTable{}
	p.globalTables = out
	initFn := p.Stun.Func("init")
	if initFn == nil {
		return out
	}
	zeroOf := func(t types.Type) constant.Value {
		switch b := t.Underlying().(type) {
		case *types.Basic:
			switch {
			case b.Info()&types.IsString != 0:
				return constant.MakeString("")
			case b.Info()&types.IsInteger != 0:
				return constant.MakeInt64(0)
			case b.Info()&types.IsBoolean != 0:
				return constant.MakeBool(false)
			}
		}
		return nil
	}
	cand := map[*ssa.Global]*globalTable{}
	for _, m := range p.Stun.Members {
		g, ok := m.(*ssa.Global)
		if !ok {
			continue
		}
		et := g.Type().(*types.Pointer).Elem()
		switch t := et.Underlying().(type) {
		case *types.Map:
			if z := zeroOf(t.Elem()); z != nil {
				cand[g] = &globalTable{g: g, entries: map[string]constant.Value{}, length: -1, zero: z}
			}
		case *types.Array:
			if z := zeroOf(t.Elem()); z != nil {
				cand[g] = &globalTable{g: g, entries: map[string]constant.Value{}, length: t.Len(), zero: z}
			}
		}
	}
	bad := map[*ssa.Global]bool{}
	// the initialiser: straight-line construction only
	// maps: t = make(map); t[k] = v ...; *g = t        arrays: *(&g[i]) = v, or through a literal copy
	mapOf := map[ssa.Value]*ssa.Global{}   // MakeMap value -> global
	allocOf := map[ssa.Value]*ssa.Global{} // array literal temporary -> global
	eachInstr(initFn, func(b *ssa.BasicBlock, i int, in ssa.Instruction) {
		st, ok := in.(*ssa.Store)
		if !ok {
			return
		}
		g, isG := st.Addr.(*ssa.Global)
		if !isG || cand[g] == nil {
			return
		}
		switch v := st.Val.(type) {
		case *ssa.MakeMap:
			mapOf[v] = g
		case *ssa.UnOp:
			if al, isA := v.X.(*ssa.Alloc); isA && v.Op == token.MUL {
				allocOf[al] = g
			} else {
				bad[g] = true
			}
		default:
			bad[g] = true
		}
	})
	key := func(c *ssa.Const) string { return c.Value.ExactString() }
	eachInstr(initFn, func(b *ssa.BasicBlock, i int, in ssa.Instruction) {
		switch x := in.(type) {
		case *ssa.MapUpdate:
			g := mapOf[x.Map]
			if g == nil {
				return
			}
			k, ok1 := x.Key.(*ssa.Const)
			v, ok2 := x.Value.(*ssa.Const)
			if !ok1 || !ok2 || k.Value == nil || v.Value == nil || len(b.Preds) > 1 {
				bad[g] = true
				return
			}
			cand[g].entries[key(k)] = v.Value
		case *ssa.Store:
			ia, ok := x.Addr.(*ssa.IndexAddr)
			if !ok {
				return
			}
			var g *ssa.Global
			if gg, isG := ia.X.(*ssa.Global); isG {
				g = gg
			} else {
				g = allocOf[ia.X]
			}
			if g == nil || cand[g] == nil {
				return
			}
			k, ok1 := ia.Index.(*ssa.Const)
			v, ok2 := x.Val.(*ssa.Const)
			if !ok1 || !ok2 || k.Value == nil || v.Value == nil {
				bad[g] = true
				return
			}
			cand[g].entries[key(k)] = v.Value
		}
	})
	// every other use in the package must be a read
	readOnlyUse := func(v ssa.Value) bool {
		refs := v.Referrers()
		if refs == nil {
			return false
		}
		for _, u := range *refs {
			switch y := u.(type) {
			case *ssa.Lookup:
				if y.X != v {
					return false
				}
			case *ssa.Call:
				if !(isBuiltinCall(y, "len") && y.Call.Args[0] == v) {
					return false
				}
			case *ssa.Range, *ssa.DebugRef:
			default:
				return false
			}
		}
		return true
	}
	for _, fn := range p.LibFuncs() {
		isInit := fn == initFn
		eachInstr(fn, func(b *ssa.BasicBlock, i int, in ssa.Instruction) {
			for _, op := range in.Operands(nil) {
				g, isG := (*op).(*ssa.Global)
				if !isG || cand[g] == nil {
					continue
				}
				switch x := in.(type) {
				case *ssa.UnOp:
					// whole-value load: maps must only be looked up; arrays copied by value are harmless
					if x.Op != token.MUL {
						bad[g] = true
					} else if cand[g].length < 0 && !readOnlyUse(x) {
						bad[g] = true
					}
				case *ssa.IndexAddr:
					refs := x.Referrers()
					for _, u := range *refs {
						switch y := u.(type) {
						case *ssa.UnOp:
						case *ssa.Store:
							if !(isInit && y.Addr == ssa.Value(x)) {
								bad[g] = true
							}
						case *ssa.DebugRef:
						default:
							bad[g] = true
						}
					}
				case *ssa.Store:
					if !(isInit && x.Addr == ssa.Value(g)) {
						bad[g] = true
					}
				case *ssa.DebugRef:
				default:
					bad[g] = true
				}
			}
		})
	}
	for g, t := range cand {
		if !bad[g] && len(t.entries) > 0 {
			out[g] = t
		}
	}
	return out
}

// constFnEval evaluates fn(k) for a constant k of its last parameter by interpreting the function's SSA
// form concretely: integer/string/boolean constants, conversions, comparisons, + and -, phis, loops,
// and reads of read-only package-level tables. The result is the ExactString of the returned constant,
// "identity" when the parameter itself is returned, "?<expr>" when the returned value is outside the
// interpreter's domain; ok=false when a branch condition cannot be evaluated, the step limit is hit or
// an index is out of range (a panic, not a value).
var constEvalDepth int

func constFnEval(p *Prog, fn *ssa.Function, k constant.Value) (string, bool) {
	if len(fn.Params) < 1 || fn.Blocks == nil {
		return "", false
	}
	pa := fn.Params[len(fn.Params)-1]
	tabs := p.readOnlyGlobalTables()
	type addr struct {
		t   *globalTable
		idx int64
	}
	env := map[ssa.Value]interface{}{} // constant.Value, addr, *globalTable (a loaded map)
	var val func(v ssa.Value) interface{}
	val = func(v ssa.Value) interface{} {
		switch x := v.(type) {
		case *ssa.Const:
			if x.Value == nil {
				return nil
			}
			return x.Value
		case *ssa.Parameter:
			if x == pa {
				return k
			}
			return nil
		case *ssa.Global:
			if t := tabs[x]; t != nil {
				return t
			}
			return nil
		}
		return env[v]
	}
	zeroOfTable := func(t *globalTable) constant.Value { return t.zero }
	exec := func(in ssa.Instruction) bool { // false: outside the domain (value stays unknown)
		switch x := in.(type) {
		case *ssa.ChangeType:
			env[x] = val(x.X)
		case *ssa.Convert:
			c, ok := val(x.X).(constant.Value)
			if !ok || c == nil {
				return true
			}
			if b, isB := x.Type().Underlying().(*types.Basic); isB && b.Info()&types.IsInteger != 0 && c.Kind() == constant.Int {
				if w, signed, ok2 := intWidth(x.Type()); ok2 {
					iv, exact := constant.Int64Val(c)
					if !exact {
						return true
					}
					if !signed {
						if w < 64 {
							iv &= (1 << uint(w)) - 1
						} else if iv < 0 {
							return true
						}
					} else if w < 64 {
						sh := uint(64 - w)
						iv = iv << sh >> sh
					}
					env[x] = constant.MakeInt64(iv)
				}
			}
		case *ssa.BinOp:
			a, ok1 := val(x.X).(constant.Value)
			b, ok2 := val(x.Y).(constant.Value)
			if !ok1 || !ok2 || a == nil || b == nil {
				return true
			}
			switch x.Op {
			case token.EQL, token.NEQ, token.LSS, token.LEQ, token.GTR, token.GEQ:
				if a.Kind() == b.Kind() {
					env[x] = constant.MakeBool(constant.Compare(a, x.Op, b))
				}
			case token.ADD, token.SUB:
				if a.Kind() == constant.Int && b.Kind() == constant.Int {
					env[x] = constant.BinaryOp(a, x.Op, b)
				}
			}
		case *ssa.UnOp:
			switch x.Op {
			case token.NOT:
				if a, ok := val(x.X).(constant.Value); ok && a != nil && a.Kind() == constant.Bool {
					env[x] = constant.MakeBool(!constant.BoolVal(a))
				}
			case token.MUL:
				switch a := val(x.X).(type) {
				case addr:
					if e, have := a.t.entries[constant.MakeInt64(a.idx).ExactString()]; have {
						env[x] = e
					} else {
						env[x] = zeroOfTable(a.t)
					}
				case *globalTable:
					env[x] = a // the loaded map (or array value)
				}
			}
		case *ssa.IndexAddr:
			t, ok := val(x.X).(*globalTable)
			idx, ok2 := val(x.Index).(constant.Value)
			if !ok || !ok2 || idx == nil || t.length < 0 {
				return true
			}
			iv, exact := constant.Int64Val(idx)
			if !exact || iv < 0 || iv >= t.length {
				return false // out of range: a panic
			}
			env[x] = addr{t, iv}
		case *ssa.Lookup:
			t, ok := val(x.X).(*globalTable)
			kk, ok2 := val(x.Index).(constant.Value)
			if !ok || !ok2 || kk == nil || t.length >= 0 {
				return true
			}
			e, have := t.entries[kk.ExactString()]
			if !x.CommaOk {
				if have {
					env[x] = e
				} else {
					env[x] = t.zero
				}
			} else {
				if !have {
					e = t.zero
				}
				env[x] = [2]constant.Value{e, constant.MakeBool(have)}
			}
		case *ssa.Extract:
			if tup, ok := val(x.Tuple).([2]constant.Value); ok {
				env[x] = tup[x.Index]
			}
		case *ssa.Call:
			// a module function of one scalar argument applied to a known constant (t.String() in a search over the
			// values of an enumeration): evaluated the same way
			sc := x.Call.StaticCallee()
			if sc == nil || sc.Blocks == nil || !p.isLibFn(sc) || len(x.Call.Args) != 1 || len(sc.Params) != 1 || constEvalDepth > 3 {
				return true
			}
			a, ok := val(x.Call.Args[0]).(constant.Value)
			if !ok || a == nil {
				return true
			}
			constEvalDepth++
			res, okR := constFnEval(p, sc, a)
			constEvalDepth--
			if !okR {
				return false
			}
			switch {
			case strings.HasPrefix(res, "\""):
				if sv, err := strconv.Unquote(res); err == nil {
					env[x] = constant.MakeString(sv)
				}
			case res == "true" || res == "false":
				env[x] = constant.MakeBool(res == "true")
			default:
				if cv := constant.MakeFromLiteral(res, token.INT, 0); cv.Kind() == constant.Int {
					env[x] = cv
				}
			}
		}
		return true
	}
	b := fn.Blocks[0]
	var prev *ssa.BasicBlock
	for steps := 0; steps < 20000; steps++ {
		// phis first, simultaneously
		pi := -1
		for i, pr := range b.Preds {
			if pr == prev {
				pi = i
			}
		}
		newVals := map[ssa.Value]interface{}{}
		for _, in := range b.Instrs {
			ph, isPhi := in.(*ssa.Phi)
			if !isPhi {
				break
			}
			if pi >= 0 {
				newVals[ph] = val(ph.Edges[pi])
			}
		}
		for kk, v := range newVals {
			env[kk] = v
		}
		for _, in := range b.Instrs {
			switch x := in.(type) {
			case *ssa.Phi, *ssa.DebugRef:
				continue
			case *ssa.If:
				c, ok := val(x.Cond).(constant.Value)
				if !ok || c == nil || c.Kind() != constant.Bool {
					return "", false
				}
				prev = b
				if constant.BoolVal(c) {
					b = b.Succs[0]
				} else {
					b = b.Succs[1]
				}
			case *ssa.Jump:
				prev = b
				b = b.Succs[0]
			case *ssa.Return:
				if len(x.Results) != 1 {
					return "", false
				}
				if c, ok := val(x.Results[0]).(constant.Value); ok && c != nil {
					return c.ExactString(), true
				}
				if stripConvs(x.Results[0]) == ssa.Value(pa) {
					return "identity", true
				}
				return "?" + exprDepth(x.Results[0], 0), true
			case *ssa.Panic:
				return "", false
			default:
				if !exec(in) {
					return "", false
				}
			}
		}
	}
	return "", false
}

func lookupTable(tabs map[*ssa.Global]*globalTable, m ssa.Value) *globalTable {
	u, ok := m.(*ssa.UnOp)
	if !ok || u.Op != token.MUL {
		return nil
	}
	g, isG := u.X.(*ssa.Global)
	if !isG {
		return nil
	}
	t := tabs[g]
	if t == nil || t.length >= 0 {
		return nil
	}
	return t
}

// constFnTable: the decision table of fn over a domain made of the constants the function itself
// compares its parameter with, the keys/indices of the read-only tables it consults, the extra values
// given, and one value outside all of these (the default). Same shape as switchTable.
func constFnTable(p *Prog, fn *ssa.Function, extra []constant.Value) (map[string]string, string, bool) {
	if len(fn.Params) < 1 || fn.Blocks == nil {
		return nil, "", false
	}
	pa := fn.Params[len(fn.Params)-1]
	b, isB := pa.Type().Underlying().(*types.Basic)
	if !isB {
		return nil, "", false
	}
	isStr := b.Info()&types.IsString != 0
	isInt := b.Info()&types.IsInteger != 0
	if !isStr && !isInt {
		return nil, "", false
	}
	dom := map[string]constant.Value{}
	add := func(v constant.Value) {
		if v == nil {
			return
		}
		if isStr && v.Kind() == constant.String || isInt && v.Kind() == constant.Int {
			dom[v.ExactString()] = v
		}
	}
	for _, e := range extra {
		add(e)
	}
	tabs := p.readOnlyGlobalTables()
	eachInstr(fn, func(_ *ssa.BasicBlock, _ int, in ssa.Instruction) {
		for _, op := range in.Operands(nil) {
			if c, ok := (*op).(*ssa.Const); ok && c.Value != nil {
				add(c.Value)
			}
			if g, ok := (*op).(*ssa.Global); ok && tabs[g] != nil {
				t := tabs[g]
				// the table's values too: a function may scan the table for its argument
				for _, ev := range t.entries {
					add(ev)
				}
				add(t.zero)
				if t.length >= 0 {
					for i := int64(0); i <= t.length; i++ {
						add(constant.MakeInt64(i))
					}
				} else {
					kt := g.Type().(*types.Pointer).Elem().Underlying().(*types.Map).Key()
					for ks := range t.entries {
						if kb, ok := kt.Underlying().(*types.Basic); ok && kb.Info()&types.IsString != 0 {
							add(constant.MakeFromLiteral(ks, token.STRING, 0))
						} else {
							add(constant.MakeFromLiteral(ks, token.INT, 0))
						}
					}
				}
			}
		}
	})
	// the default: a value outside the domain
	var fresh constant.Value
	if isStr {
		fresh = constant.MakeString("\x00none of the names\x00")
	} else {
		mx := int64(0)
		for _, v := range dom {
			if iv, ok := constant.Int64Val(v); ok && iv > mx {
				mx = iv
			}
		}
		w, _, _ := intWidth(pa.Type())
		fresh = constant.MakeInt64(mx + 1)
		if w > 0 && w < 63 && mx+1 >= 1<<uint(w) {
			return nil, "", false
		}
		// neighbours of every constant (ranges are decided by comparisons)
		for _, v := range dom {
			if iv, ok := constant.Int64Val(v); ok {
				if iv > 0 {
					add(constant.MakeInt64(iv - 1))
				}
			}
		}
	}
	def, ok := constFnEval(p, fn, fresh)
	if !ok {
		return nil, "", false
	}
	tab := map[string]string{}
	keys := make([]string, 0, len(dom))
	for s := range dom {
		keys = append(keys, s)
	}
	sort.Strings(keys)
	for _, s := range keys {
		out, ok := constFnEval(p, fn, dom[s])
		if !ok {
			return nil, fmt.Sprintf("undecided for %s", s), false
		}
		if out != def {
			tab[s] = out
		}
	}
	if len(tab) == 0 {
		return nil, "no value of the domain is distinguished (table not understood)", false
	}
	return tab, def, true
}

func debugTables(p *Prog) {
	for g, t := range p.readOnlyGlobalTables() {
		fmt.Println("TABLE", g.Name(), t.entries, t.length)
	}
}

// constGlobalField: v is a load of a field of a package-level struct (or of the struct a package-level pointer
// was initialised with) that only the package initialiser writes, and whose address never leaves field
// selections: the value the initialiser stored there (a constant, or e.g. the load of another global). nil when
// v is not of that shape or the structure is not read-only.
func (p *Prog) constGlobalField(v ssa.Value) ssa.Value {
	ld, ok := v.(*ssa.UnOp)
	if !ok || ld.Op != token.MUL {
		return nil
	}
	fa, ok := ld.X.(*ssa.FieldAddr)
	if !ok {
		return nil
	}
	var g *ssa.Global
	viaPtr := false
	switch b := fa.X.(type) {
	case *ssa.Global:
		g = b
	case *ssa.UnOp:
		if gg, isG := b.X.(*ssa.Global); isG && b.Op == token.MUL {
			g, viaPtr = gg, true
		}
	}
	if g == nil || g.Pkg == nil {
		return nil
	}
	initFn := g.Pkg.Func("init")
	if initFn == nil {
		return nil
	}
	// the structure's storage as the initialiser sees it
	var base ssa.Value = g
	if viaPtr {
		var stored ssa.Value
		n := 0
		eachInstr(initFn, func(b *ssa.BasicBlock, i int, in ssa.Instruction) {
			if st, isSt := in.(*ssa.Store); isSt && st.Addr == ssa.Value(g) {
				stored = st.Val
				n++
			}
		})
		al, isAl := stored.(*ssa.Alloc)
		if n != 1 || !isAl {
			return nil
		}
		base = al
	}
	var val ssa.Value
	n := 0
	eachInstr(initFn, func(b *ssa.BasicBlock, i int, in ssa.Instruction) {
		st, isSt := in.(*ssa.Store)
		if !isSt {
			return
		}
		if f2, isFA := st.Addr.(*ssa.FieldAddr); isFA && f2.X == base && f2.Field == fa.Field {
			val = st.Val
			n++
		}
	})
	if n > 1 {
		return nil
	}
	// read-only everywhere else: the global is not stored, no field is stored through it, and the pointer /
	// address is used for field selection only
	okRO := true
	for _, pk := range p.SSA.AllPackages() {
		if !p.isLibPkg(pk.Pkg) {
			continue
		}
		for _, m := range pk.Members {
			fn, isFn := m.(*ssa.Function)
			if !isFn {
				continue
			}
			fns := append([]*ssa.Function{fn}, fn.AnonFuncs...)
			for _, f := range fns {
				if f == initFn {
					continue
				}
				eachInstr(f, func(b *ssa.BasicBlock, i int, in ssa.Instruction) {
					if st, isSt := in.(*ssa.Store); isSt && st.Addr == ssa.Value(g) {
						okRO = false
					}
					var ref ssa.Value
					if viaPtr {
						if l2, isL := in.(*ssa.UnOp); isL && l2.Op == token.MUL && l2.X == ssa.Value(g) {
							ref = l2
						}
					} else if in == ssa.Instruction(nil) {
						return
					}
					if ref == nil {
						return
					}
					for _, u := range *ref.Referrers() {
						f3, isFA := u.(*ssa.FieldAddr)
						if !isFA || f3.X != ref {
							if _, isDbg := u.(*ssa.DebugRef); !isDbg {
								okRO = false
							}
							continue
						}
						for _, u2 := range *f3.Referrers() {
							if l3, isL := u2.(*ssa.UnOp); !isL || l3.Op != token.MUL {
								if _, isDbg := u2.(*ssa.DebugRef); !isDbg {
									okRO = false
								}
							}
						}
					}
				})
			}
		}
	}
	if !viaPtr {
		// a struct-valued global: every use of a field address of g outside init must be a load
		for _, u := range *g.Referrers() {
			f3, isFA := u.(*ssa.FieldAddr)
			if !isFA {
				continue
			}
			if ui, isI := u.(ssa.Instruction); isI && ui.Parent() == initFn {
				continue
			}
			for _, u2 := range *f3.Referrers() {
				if l3, isL := u2.(*ssa.UnOp); !isL || l3.Op != token.MUL {
					if _, isDbg := u2.(*ssa.DebugRef); !isDbg {
						okRO = false
					}
				}
			}
		}
	}
	if !okRO {
		return nil
	}
	if n == 0 {
		return nil // zero value: not needed by the callers
	}
	return val
}
