package main

import (
	"fmt"
	"go/constant"
	"go/token"
	"go/types"
	"sort"

	"golang.org/x/tools/go/ssa"
)

// CONSTTABLE: evaluation of a small pure library function of one scalar parameter for each value of a
// finite domain. It understands comparisons of the parameter with constants, integer arithmetic on it,
// and lookups in package-level maps and arrays that are written only by the package initialiser (their
// contents are read from the initialiser). Anything else makes the evaluation undecided.

// globalTable is the content of a package-level map or array as established by the package initialiser.
type globalTable struct {
	g       *ssa.Global
	entries map[string]constant.Value // key: ExactString of the key constant / decimal index
	length  int64                     // arrays: length; maps: -1
	zero    constant.Value
}

// readOnlyGlobalTables returns the tables of the stun package that no function other than the
// initialiser writes (stores through the global, map updates and deletes of the loaded map, address or
// map value escaping into calls all disqualify).
func (p *Prog) readOnlyGlobalTables() map[*ssa.Global]*globalTable {
	if p.globalTables != nil {
		return p.globalTables
	}
	out := map[*ssa.Global]*globalTable{}
	p.globalTables = out
	initFn := p.Stun.Func("init")
	if initFn == nil {
		return out
	}
	zeroOf := func(t types.Type) constant.Value {
		switch b := t.Underlying().(type) {
		case *types.Basic:
			switch {
			case b.Info()&types.IsString != 0:
				return constant.MakeString("")
			case b.Info()&types.IsInteger != 0:
				return constant.MakeInt64(0)
			case b.Info()&types.IsBoolean != 0:
				return constant.MakeBool(false)
			}
		}
		return nil
	}
	cand := map[*ssa.Global]*globalTable{}
	for _, m := range p.Stun.Members {
		g, ok := m.(*ssa.Global)
		if !ok {
			continue
		}
		et := g.Type().(*types.Pointer).Elem()
		switch t := et.Underlying().(type) {
		case *types.Map:
			if z := zeroOf(t.Elem()); z != nil {
				cand[g] = &globalTable{g: g, entries: map[string]constant.Value{}, length: -1, zero: z}
			}
		case *types.Array:
			if z := zeroOf(t.Elem()); z != nil {
				cand[g] = &globalTable{g: g, entries: map[string]constant.Value{}, length: t.Len(), zero: z}
			}
		}
	}
	bad := map[*ssa.Global]bool{}
	// the initialiser: straight-line construction only
	// maps: t = make(map); t[k] = v ...; *g = t        arrays: *(&g[i]) = v, or through a literal copy
	mapOf := map[ssa.Value]*ssa.Global{}   // MakeMap value -> global
	allocOf := map[ssa.Value]*ssa.Global{} // array literal temporary -> global
	eachInstr(initFn, func(b *ssa.BasicBlock, i int, in ssa.Instruction) {
		st, ok := in.(*ssa.Store)
		if !ok {
			return
		}
		g, isG := st.Addr.(*ssa.Global)
		if !isG || cand[g] == nil {
			return
		}
		switch v := st.Val.(type) {
		case *ssa.MakeMap:
			mapOf[v] = g
		case *ssa.UnOp:
			if al, isA := v.X.(*ssa.Alloc); isA && v.Op == token.MUL {
				allocOf[al] = g
			} else {
				bad[g] = true
			}
		default:
			bad[g] = true
		}
	})
	key := func(c *ssa.Const) string { return c.Value.ExactString() }
	eachInstr(initFn, func(b *ssa.BasicBlock, i int, in ssa.Instruction) {
		switch x := in.(type) {
		case *ssa.MapUpdate:
			g := mapOf[x.Map]
			if g == nil {
				return
			}
			k, ok1 := x.Key.(*ssa.Const)
			v, ok2 := x.Value.(*ssa.Const)
			if !ok1 || !ok2 || k.Value == nil || v.Value == nil || len(b.Preds) > 1 {
				bad[g] = true
				return
			}
			cand[g].entries[key(k)] = v.Value
		case *ssa.Store:
			ia, ok := x.Addr.(*ssa.IndexAddr)
			if !ok {
				return
			}
			var g *ssa.Global
			if gg, isG := ia.X.(*ssa.Global); isG {
				g = gg
			} else {
				g = allocOf[ia.X]
			}
			if g == nil || cand[g] == nil {
				return
			}
			k, ok1 := ia.Index.(*ssa.Const)
			v, ok2 := x.Val.(*ssa.Const)
			if !ok1 || !ok2 || k.Value == nil || v.Value == nil {
				bad[g] = true
				return
			}
			cand[g].entries[key(k)] = v.Value
		}
	})
	// every other use in the package must be a read
	readOnlyUse := func(v ssa.Value) bool {
		refs := v.Referrers()
		if refs == nil {
			return false
		}
		for _, u := range *refs {
			switch y := u.(type) {
			case *ssa.Lookup:
				if y.X != v {
					return false
				}
			case *ssa.Call:
				if !(isBuiltinCall(y, "len") && y.Call.Args[0] == v) {
					return false
				}
			case *ssa.Range, *ssa.DebugRef:
			default:
				return false
			}
		}
		return true
	}
	for _, fn := range p.LibFuncs() {
		isInit := fn == initFn
		eachInstr(fn, func(b *ssa.BasicBlock, i int, in ssa.Instruction) {
			for _, op := range in.Operands(nil) {
				g, isG := (*op).(*ssa.Global)
				if !isG || cand[g] == nil {
					continue
				}
				switch x := in.(type) {
				case *ssa.UnOp:
					// whole-value load: maps must only be looked up; arrays copied by value are harmless
					if x.Op != token.MUL {
						bad[g] = true
					} else if cand[g].length < 0 && !readOnlyUse(x) {
						bad[g] = true
					}
				case *ssa.IndexAddr:
					refs := x.Referrers()
					for _, u := range *refs {
						switch y := u.(type) {
						case *ssa.UnOp:
						case *ssa.Store:
							if !(isInit && y.Addr == ssa.Value(x)) {
								bad[g] = true
							}
						case *ssa.DebugRef:
						default:
							bad[g] = true
						}
					}
				case *ssa.Store:
					if !(isInit && x.Addr == ssa.Value(g)) {
						bad[g] = true
					}
				case *ssa.DebugRef:
				default:
					bad[g] = true
				}
			}
		})
	}
	for g, t := range cand {
		if !bad[g] && len(t.entries) > 0 {
			out[g] = t
		}
	}
	return out
}

// constFnEval evaluates fn(k) for a constant k of its last parameter. The result is the ExactString of
// the returned constant, "?<expr>" when the path returns a non-constant, or ok=false when a branch could
// not be decided.
func constFnEval(p *Prog, fn *ssa.Function, k constant.Value) (string, bool) {
	if len(fn.Params) < 1 || fn.Blocks == nil {
		return "", false
	}
	pa := fn.Params[len(fn.Params)-1]
	tabs := p.readOnlyGlobalTables()
	var eval func(v ssa.Value, c *PathCtx, depth int) constant.Value
	eval = func(v ssa.Value, c *PathCtx, depth int) constant.Value {
		if depth > 12 {
			return nil
		}
		if c != nil {
			v = c.Resolve(v)
		}
		switch x := v.(type) {
		case *ssa.Const:
			return x.Value
		case *ssa.Parameter:
			if x == pa {
				return k
			}
		case *ssa.ChangeType:
			return eval(x.X, c, depth+1)
		case *ssa.Convert:
			in := eval(x.X, c, depth+1)
			if in == nil {
				return nil
			}
			if b, ok := x.Type().Underlying().(*types.Basic); ok && b.Info()&types.IsInteger != 0 && in.Kind() == constant.Int {
				if w, signed, ok2 := intWidth(x.Type()); ok2 {
					iv, exact := constant.Int64Val(in)
					if !exact {
						return nil
					}
					if !signed {
						if w < 64 {
							iv &= (1 << uint(w)) - 1
						} else if iv < 0 {
							return nil
						}
					} else if w < 64 {
						sh := uint(64 - w)
						iv = iv << sh >> sh
					}
					return constant.MakeInt64(iv)
				}
			}
			return nil
		case *ssa.BinOp:
			a, b := eval(x.X, c, depth+1), eval(x.Y, c, depth+1)
			if a == nil || b == nil {
				return nil
			}
			switch x.Op {
			case token.EQL, token.NEQ, token.LSS, token.LEQ, token.GTR, token.GEQ:
				if a.Kind() != b.Kind() {
					return nil
				}
				return constant.MakeBool(constant.Compare(a, x.Op, b))
			case token.ADD, token.SUB:
				if a.Kind() == constant.Int && b.Kind() == constant.Int {
					return constant.BinaryOp(a, x.Op, b)
				}
			}
			return nil
		case *ssa.UnOp:
			switch x.Op {
			case token.NOT:
				a := eval(x.X, c, depth+1)
				if a == nil || a.Kind() != constant.Bool {
					return nil
				}
				return constant.MakeBool(!constant.BoolVal(a))
			case token.MUL:
				ia, ok := x.X.(*ssa.IndexAddr)
				if !ok {
					return nil
				}
				g, isG := ia.X.(*ssa.Global)
				t := tabs[g]
				if !isG || t == nil || t.length < 0 {
					return nil
				}
				idx := eval(ia.Index, c, depth+1)
				if idx == nil || idx.Kind() != constant.Int {
					return nil
				}
				iv, exact := constant.Int64Val(idx)
				if !exact || iv < 0 || iv >= t.length {
					return nil // out of range: a panic, not a value
				}
				if e, have := t.entries[idx.ExactString()]; have {
					return e
				}
				return t.zero
			}
		case *ssa.Lookup:
			if x.CommaOk {
				return nil
			}
			t := lookupTable(tabs, x.X)
			if t == nil {
				return nil
			}
			kk := eval(x.Index, c, depth+1)
			if kk == nil {
				return nil
			}
			if e, have := t.entries[kk.ExactString()]; have {
				return e
			}
			return t.zero
		case *ssa.Extract:
			lk, ok := x.Tuple.(*ssa.Lookup)
			if !ok || !lk.CommaOk {
				return nil
			}
			t := lookupTable(tabs, lk.X)
			if t == nil {
				return nil
			}
			kk := eval(lk.Index, c, depth+1)
			if kk == nil {
				return nil
			}
			e, have := t.entries[kk.ExactString()]
			if x.Index == 1 {
				return constant.MakeBool(have)
			}
			if have {
				return e
			}
			return t.zero
		}
		return nil
	}
	results := map[string]bool{}
	undecided := false
	q := &PathQuery{P: p, Fn: fn}
	q.Fold = func(cond ssa.Value, c *PathCtx) (bool, bool) {
		v := eval(cond, c, 0)
		if v == nil || v.Kind() != constant.Bool {
			undecided = true
			return false, false
		}
		return constant.BoolVal(v), true
	}
	q.AtReturn = func(ret *ssa.Return, _ uint64, c *PathCtx) {
		if len(ret.Results) != 1 {
			undecided = true
			return
		}
		if v := eval(ret.Results[0], c, 0); v != nil {
			results[v.ExactString()] = true
			return
		}
		rv := c.Resolve(ret.Results[0])
		if stripConvs(rv) == ssa.Value(pa) {
			results["identity"] = true
			return
		}
		results["?"+exprDepth(rv, 0)] = true
	}
	q.Run()
	if undecided || len(results) != 1 {
		return "", false
	}
	for s := range results {
		return s, true
	}
	return "", false
}

func lookupTable(tabs map[*ssa.Global]*globalTable, m ssa.Value) *globalTable {
	u, ok := m.(*ssa.UnOp)
	if !ok || u.Op != token.MUL {
		return nil
	}
	g, isG := u.X.(*ssa.Global)
	if !isG {
		return nil
	}
	t := tabs[g]
	if t == nil || t.length >= 0 {
		return nil
	}
	return t
}

// constFnTable: the decision table of fn over a domain made of the constants the function itself
// compares its parameter with, the keys/indices of the read-only tables it consults, the extra values
// given, and one value outside all of these (the default). Same shape as switchTable.
func constFnTable(p *Prog, fn *ssa.Function, extra []constant.Value) (map[string]string, string, bool) {
	if len(fn.Params) < 1 || fn.Blocks == nil {
		return nil, "", false
	}
	pa := fn.Params[len(fn.Params)-1]
	b, isB := pa.Type().Underlying().(*types.Basic)
	if !isB {
		return nil, "", false
	}
	isStr := b.Info()&types.IsString != 0
	isInt := b.Info()&types.IsInteger != 0
	if !isStr && !isInt {
		return nil, "", false
	}
	dom := map[string]constant.Value{}
	add := func(v constant.Value) {
		if v == nil {
			return
		}
		if isStr && v.Kind() == constant.String || isInt && v.Kind() == constant.Int {
			dom[v.ExactString()] = v
		}
	}
	for _, e := range extra {
		add(e)
	}
	tabs := p.readOnlyGlobalTables()
	eachInstr(fn, func(_ *ssa.BasicBlock, _ int, in ssa.Instruction) {
		for _, op := range in.Operands(nil) {
			if c, ok := (*op).(*ssa.Const); ok && c.Value != nil {
				add(c.Value)
			}
			if g, ok := (*op).(*ssa.Global); ok && tabs[g] != nil {
				t := tabs[g]
				if t.length >= 0 {
					for i := int64(0); i <= t.length; i++ {
						add(constant.MakeInt64(i))
					}
				} else {
					kt := g.Type().(*types.Pointer).Elem().Underlying().(*types.Map).Key()
					for ks := range t.entries {
						if kb, ok := kt.Underlying().(*types.Basic); ok && kb.Info()&types.IsString != 0 {
							add(constant.MakeFromLiteral(ks, token.STRING, 0))
						} else {
							add(constant.MakeFromLiteral(ks, token.INT, 0))
						}
					}
				}
			}
		}
	})
	// the default: a value outside the domain
	var fresh constant.Value
	if isStr {
		fresh = constant.MakeString("\x00none of the names\x00")
	} else {
		mx := int64(0)
		for _, v := range dom {
			if iv, ok := constant.Int64Val(v); ok && iv > mx {
				mx = iv
			}
		}
		w, _, _ := intWidth(pa.Type())
		fresh = constant.MakeInt64(mx + 1)
		if w > 0 && w < 63 && mx+1 >= 1<<uint(w) {
			return nil, "", false
		}
		// neighbours of every constant (ranges are decided by comparisons)
		for _, v := range dom {
			if iv, ok := constant.Int64Val(v); ok {
				if iv > 0 {
					add(constant.MakeInt64(iv - 1))
				}
			}
		}
	}
	def, ok := constFnEval(p, fn, fresh)
	if !ok {
		return nil, "", false
	}
	tab := map[string]string{}
	keys := make([]string, 0, len(dom))
	for s := range dom {
		keys = append(keys, s)
	}
	sort.Strings(keys)
	for _, s := range keys {
		out, ok := constFnEval(p, fn, dom[s])
		if !ok {
			return nil, fmt.Sprintf("undecided for %s", s), false
		}
		if out != def {
			tab[s] = out
		}
	}
	if len(tab) == 0 {
		return nil, "no value of the domain is distinguished (table not understood)", false
	}
	return tab, def, true
}

func debugTables(p *Prog) {
	for g, t := range p.readOnlyGlobalTables() {
		fmt.Println("TABLE", g.Name(), t.entries, t.length)
	}
}
