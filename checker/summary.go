package main

import (
	"go/token"

	"golang.org/x/tools/go/ssa"
)

// SUMMARY engine (value summaries): abstract interpretation of a pure integer function of
// one integer parameter l in the domain "l + [lo,hi] with congruence (m,r)" or an absolute
// interval. Supports: const, + - with constants, * / % &^ & with constants, comparisons with
// the parameter (branch refinement) and phi. Identities used: c*(x/c) = x - x%c and
// x &^ (c-1) = x - x%c for power-of-two c, valid for x >= 0; likewise x - x%c.

type IntSummary struct {
	ArgMin int64 // precondition: argument >= ArgMin
	RelLo  int64 // result >= arg + RelLo
	RelHi  int64 // result <= arg + RelHi
	Mod    int64 // result ≡ Rem (mod Mod); Mod <= 1: unknown
	Rem    int64
	Blocks int
}

type aval struct {
	known  bool // false = top
	rel    bool // relative to the parameter
	lo, hi int64
	m, r   int64 // congruence of the whole value (only tracked when meaningful); m<=1 unknown
	// quotient form: value == (param + qoff) / qdiv  (for c*(x/c))
	isQuot bool
	qdiv   int64
	qoff   int64
	bottom bool
}

func top() aval { return aval{} }

func joinA(a, b aval) aval {
	if a.bottom {
		return b
	}
	if b.bottom {
		return a
	}
	if !a.known || !b.known || a.rel != b.rel {
		return top()
	}
	o := aval{known: true, rel: a.rel, lo: min64(a.lo, b.lo), hi: max64(a.hi, b.hi)}
	if a.m > 1 && b.m > 1 {
		g := gcd(a.m, b.m)
		g = gcd(g, abs64(a.r-b.r))
		if g > 1 {
			o.m, o.r = g, ((a.r%g)+g)%g
		}
	}
	return o
}

func min64(a, b int64) int64 {
	if a < b {
		return a
	}
	return b
}
func max64(a, b int64) int64 {
	if a > b {
		return a
	}
	return b
}

func isPow2(c int64) bool { return c > 0 && c&(c-1) == 0 }

// summarizeIntFunc returns nil when fn is not a supported pure int->int function.
func summarizeIntFunc(fn *ssa.Function) *IntSummary {
	if fn == nil || len(fn.Params) != 1 || fn.Signature.Results().Len() != 1 || fn.Blocks == nil {
		return nil
	}
	if !isIntType(fn.Params[0].Type()) || !isIntType(fn.Signature.Results().At(0).Type()) {
		return nil
	}
	param := fn.Params[0]
	// purity: only BinOp/UnOp/Phi/If/Jump/Return/Convert
	for _, b := range fn.Blocks {
		for _, in := range b.Instrs {
			switch in.(type) {
			case *ssa.BinOp, *ssa.Phi, *ssa.If, *ssa.Jump, *ssa.Return, *ssa.DebugRef:
			default:
				return nil
			}
		}
	}
	// no loops
	for _, b := range fn.Blocks {
		for _, s := range b.Succs {
			if s.Dominates(b) {
				return nil
			}
		}
	}
	// edge-sensitive evaluation: value of v as seen in block b (refined by dominating branch conditions on v vs param)
	type ek struct {
		v ssa.Value
		b *ssa.BasicBlock
	}
	memo := map[ek]aval{}
	var evalIn func(v ssa.Value, b *ssa.BasicBlock) aval
	var base func(v ssa.Value) aval
	base = func(v ssa.Value) aval {
		switch x := v.(type) {
		case *ssa.Parameter:
			if x == param {
				return aval{known: true, rel: true}
			}
		case *ssa.Const:
			if c, ok := constInt(x); ok {
				return aval{known: true, lo: c, hi: c, m: 0, r: c}
			}
		case *ssa.BinOp:
			a := evalIn(x.X, x.Block())
			c, cok := constInt(x.Y)
			switch x.Op {
			case token.ADD, token.SUB:
				if cok && a.known {
					if x.Op == token.SUB {
						c = -c
					}
					o := a
					o.lo, o.hi = a.lo+c, a.hi+c
					o.isQuot = false
					if a.m > 1 {
						o.r = ((a.r+c)%a.m + a.m) % a.m
					}
					return o
				}
				// x - x%c = c*(x/c)  for x >= 0
				if x.Op == token.SUB && a.known && a.rel {
					if rem, ok := x.Y.(*ssa.BinOp); ok && rem.Op == token.REM && rem.X == x.X {
						if cc, ok := constInt(rem.Y); ok && cc > 0 {
							return aval{known: true, rel: true, lo: a.lo - (cc - 1), hi: a.hi, m: cc, r: 0}
						}
					}
				}
			case token.QUO:
				if cok && c > 0 && a.known && a.rel && a.lo == a.hi {
					return aval{known: true, isQuot: true, qdiv: c, qoff: a.lo, rel: false, lo: 0, hi: 0}
				}
			case token.MUL:
				var q aval
				var cc int64
				var ok bool
				if cc, ok = constInt(x.Y); ok {
					q = evalIn(x.X, x.Block())
				} else if cc, ok = constInt(x.X); ok {
					q = evalIn(x.Y, x.Block())
				}
				if ok && q.isQuot && q.qdiv == cc {
					// c*((l+off)/c) = (l+off) - (l+off)%c  in  l+off+[-(c-1),0]  for l+off >= 0
					return aval{known: true, rel: true, lo: q.qoff - (cc - 1), hi: q.qoff, m: cc, r: 0}
				}
			case token.AND_NOT:
				if cok && isPow2(c+1) && a.known && a.rel {
					cc := c + 1
					return aval{known: true, rel: true, lo: a.lo - (cc - 1), hi: a.hi, m: cc, r: 0}
				}
			case token.AND:
				// x & ^(c-1) written as a negative constant mask (…11100)
				if cok && c < 0 && isPow2(-c) && a.known && a.rel {
					cc := -c
					return aval{known: true, rel: true, lo: a.lo - (cc - 1), hi: a.hi, m: cc, r: 0}
				}
				if cok && c >= 0 {
					return aval{known: true, lo: 0, hi: c}
				}
			case token.REM:
				if cok && c > 0 {
					return aval{known: true, lo: 0, hi: c - 1}
				}
			}
		case *ssa.Phi:
			acc := aval{bottom: true}
			for i, e := range x.Edges {
				pred := x.Block().Preds[i]
				ev := evalIn(e, pred)
				// refine by the edge pred -> phi block
				ev = refineEdge(ev, e, pred, x.Block(), param, evalIn)
				acc = joinA(acc, ev)
			}
			return acc
		}
		return top()
	}
	evalIn = func(v ssa.Value, b *ssa.BasicBlock) aval {
		k := ek{v, b}
		if r, ok := memo[k]; ok {
			return r
		}
		memo[k] = top()
		r := base(v)
		// refine by dominating single-predecessor branch edges
		for x := b; x != nil && x.Idom() != nil; x = x.Idom() {
			if len(x.Preds) == 1 {
				r = refineEdge(r, v, x.Preds[0], x, param, evalIn)
			}
		}
		memo[k] = r
		return r
	}
	res := aval{bottom: true}
	for _, ret := range returnsOf(fn) {
		res = joinA(res, evalIn(ret.Results[0], ret.Block()))
	}
	if res.bottom || !res.known || !res.rel {
		return nil
	}
	return &IntSummary{ArgMin: 0, RelLo: res.lo, RelHi: res.hi, Mod: res.m, Rem: res.r, Blocks: len(fn.Blocks)}
}

// refineEdge narrows a relative value v by the condition of the edge pred->succ when that
// condition compares v with the parameter.
func refineEdge(a aval, v ssa.Value, pred, succ *ssa.BasicBlock, param *ssa.Parameter, evalIn func(ssa.Value, *ssa.BasicBlock) aval) aval {
	if a.bottom || !a.known || !a.rel {
		return a
	}
	iff, ok := pred.Instrs[len(pred.Instrs)-1].(*ssa.If)
	if !ok || pred.Succs[0] == pred.Succs[1] {
		return a
	}
	pol := pred.Succs[0] == succ
	b, ok := iff.Cond.(*ssa.BinOp)
	if !ok {
		return a
	}
	op := b.Op
	var other ssa.Value
	if b.X == v {
		other = b.Y
	} else if b.Y == v {
		other = b.X
		switch op {
		case token.LSS:
			op = token.GTR
		case token.LEQ:
			op = token.GEQ
		case token.GTR:
			op = token.LSS
		case token.GEQ:
			op = token.LEQ
		}
	} else {
		return a
	}
	if other != ssa.Value(param) {
		return a
	}
	if !pol {
		switch op {
		case token.LSS:
			op = token.GEQ
		case token.LEQ:
			op = token.GTR
		case token.GTR:
			op = token.LEQ
		case token.GEQ:
			op = token.LSS
		case token.EQL:
			op = token.NEQ
		case token.NEQ:
			op = token.EQL
		}
	}
	// v = l + [lo,hi];  v op l
	o := a
	switch op {
	case token.LSS:
		o.hi = min64(o.hi, -1)
	case token.LEQ:
		o.hi = min64(o.hi, 0)
	case token.GTR:
		o.lo = max64(o.lo, 1)
	case token.GEQ:
		o.lo = max64(o.lo, 0)
	case token.EQL:
		o.lo, o.hi = max64(o.lo, 0), min64(o.hi, 0)
	}
	if o.lo > o.hi {
		return aval{bottom: true}
	}
	// with a congruence relative to... (not tracked relative to l): keep
	return o
}
