// stunlint: repository-specific static analysis of pion/stun for the properties
// in /verif/properties.jsonl. See /verif/DESIGN.md.
package main

import (
	"bytes"
	"encoding/json"
	"flag"
	"fmt"
	"os"
	"os/exec"
	"path/filepath"
	"runtime"
	"runtime/debug"
	"sort"
	"strconv"
	"strings"
	"sync"
	"time"
)

type propDef struct {
	Level string
	Run   func(r *Run)
	// Post runs once in the parent over all per-config results (sibling agreement
	// between build configurations, compiler oracles).
	Post func(verif, repo, tier string, results []*PropResult) []Finding
}

var registry = map[string]propDef{}

func register(id, level string, run func(r *Run)) {
	registry[id] = propDef{Level: level, Run: run}
}

func configsFor(tier string) []Config {
	cs := []Config{{"", "amd64"}, {"debug", "amd64"}}
	if tier == "thorough" {
		cs = append(cs, Config{"", "386"}, Config{"debug", "386"})
	}
	return cs
}

func main() {
	var (
		prop    = flag.String("prop", "", "property id (C01..C20), comma list, or all")
		tier    = flag.String("tier", "", "quick or thorough (default: $VERIF_TIER or quick)")
		repo    = flag.String("repo", "/repo", "repository to analyse")
		verif   = flag.String("verif", "", "verification directory (default: parent of the binary's directory)")
		worker  = flag.String("worker", "", "internal: run as worker for config GOARCH/tags")
		explain = flag.String("explain", "", "re-evaluate the instance recorded in a replay file")
		noEv    = flag.Bool("no-evidence", false, "do not write evidence/replay files (used by self tests on scratch copies)")
	)
	flag.Parse()
	if *tier == "" {
		*tier = os.Getenv("VERIF_TIER")
	}
	if *tier != "thorough" {
		*tier = "quick"
	}
	if *verif == "" {
		exe, err := os.Executable()
		if err == nil {
			*verif = filepath.Dir(filepath.Dir(exe))
		} else {
			*verif = "/verif"
		}
	}
	if *worker != "" {
		os.Exit(runWorker(*repo, *worker, *prop, *tier))
	}
	if *explain != "" {
		os.Exit(runExplain(*verif, *explain))
	}
	if *prop == "" {
		fmt.Fprintln(os.Stderr, "usage: stunlint -prop Cxx [-tier quick|thorough] [-repo dir]")
		os.Exit(2)
	}
	var ids []string
	if *prop == "all" {
		for id := range registry {
			ids = append(ids, id)
		}
		sort.Strings(ids)
	} else {
		ids = strings.Split(*prop, ",")
	}
	for _, id := range ids {
		if _, ok := registry[id]; !ok {
			fmt.Fprintf(os.Stderr, "unknown or unbuilt property %q\n", id)
			os.Exit(2)
		}
	}
	os.Exit(runParent(*verif, *repo, ids, *tier, !*noEv))
}

// ---------------------------------------------------------------------------

type workerOut struct {
	Config  string        `json:"config"`
	Error   string        `json:"error,omitempty"`
	Results []*PropResult `json:"results"`
}

func runWorker(repo, cfgs, props, tier string) (code int) {
	parts := strings.SplitN(cfgs, "/", 2)
	cfg := Config{GOARCH: parts[0]}
	if len(parts) > 1 {
		cfg.Tags = parts[1]
	}
	out := workerOut{Config: cfg.String()}
	emit := func() {
		b, _ := json.Marshal(out)
		os.Stdout.Write(b)
		os.Stdout.Write([]byte("\n"))
	}
	defer func() {
		if e := recover(); e != nil {
			out.Error = fmt.Sprintf("analysis panic: %v\n%s", e, debug.Stack())
			emit()
			code = 3
		}
	}()
	p, err := loadProg(repo, cfg)
	if err != nil {
		out.Error = err.Error()
		emit()
		return 3
	}
	for _, id := range strings.Split(props, ",") {
		def := registry[id]
		r := newRun(p, id, tier)
		func() {
			defer func() {
				if e := recover(); e != nil {
					rc := r.Rule(id+".internal", "analysis completed without internal error", 0)
					rc.Fail("panic", fmt.Sprintf("analysis panic (cannot show the property holds): %v\n%s", e, debug.Stack()))
					rc.Done()
				}
			}()
			def.Run(r)
		}()
		out.Results = append(out.Results, r.Res)
	}
	emit()
	return 0
}

func runParent(verif, repo string, ids []string, tier string, writeEv bool) int {
	start := time.Now()
	seed, _ := strconv.Atoi(os.Getenv("VERIF_SEED"))
	self, err := os.Executable()
	if err != nil {
		fmt.Fprintln(os.Stderr, err)
		return 2
	}
	cfgs := configsFor(tier)
	outs := make([]workerOut, len(cfgs))
	var wg sync.WaitGroup
	for i, c := range cfgs {
		wg.Add(1)
		go func(i int, c Config) {
			defer wg.Done()
			cmd := exec.Command(self, "-worker", c.String(), "-prop", strings.Join(ids, ","), "-tier", tier, "-repo", repo, "-verif", verif)
			var so, se bytes.Buffer
			cmd.Stdout = &so
			cmd.Stderr = &se
			if os.Getenv("GOMAXPROCS") == "" {
				// the workers run side by side: split the cores between them (16 spinning Ps per
				// worker on a busy host cost more in scheduler time than they gain)
				n := runtime.NumCPU() / len(cfgs)
				if n < 2 {
					n = 2
				}
				cmd.Env = append(os.Environ(), fmt.Sprintf("GOMAXPROCS=%d", n))
			}
			err := cmd.Run()
			var wo workerOut
			if jerr := json.Unmarshal(bytes.TrimSpace(so.Bytes()), &wo); jerr != nil {
				wo = workerOut{Config: c.String(), Error: fmt.Sprintf("worker failed: %v; stderr: %s; stdout: %.300s", err, se.String(), so.String())}
			}
			outs[i] = wo
		}(i, c)
	}
	wg.Wait()
	known, kerr := loadKnown(verif)
	if kerr != nil {
		fmt.Fprintln(os.Stderr, "known_findings.txt:", kerr)
	}
	exit := 0
	for _, id := range ids {
		def := registry[id]
		var results []*PropResult
		var findings []Finding
		for _, wo := range outs {
			if wo.Error != "" {
				findings = append(findings, Finding{Prop: id, Rule: id + ".load", Config: wo.Config, Func: "-", Pos: "-", Construct: "configuration",
					Msg: "configuration could not be analysed, so the property cannot be shown to hold there: " + wo.Error})
				continue
			}
			for _, pr := range wo.Results {
				if pr.Prop == id {
					results = append(results, pr)
					findings = append(findings, pr.Findings...)
				}
			}
		}
		if def.Post != nil {
			findings = append(findings, def.Post(verif, repo, tier, results)...)
		}
		sort.SliceStable(findings, func(i, j int) bool {
			a, b := findings[i], findings[j]
			if a.Rule != b.Rule {
				return a.Rule < b.Rule
			}
			if a.Func != b.Func {
				return a.Func < b.Func
			}
			if a.Construct != b.Construct {
				return a.Construct < b.Construct
			}
			return a.Config < b.Config
		})
		nviol, nknown := 0, 0
		if writeEv {
			os.RemoveAll(filepath.Join(verif, "evidence", "replay", id))
		}
		printedKnown := map[string]bool{}
		seenSite := map[string]int{}
		for _, f := range findings {
			if k := matchKnown(known, f); k != nil {
				nknown++
				key := f.Rule + "|" + f.Site()
				if !printedKnown[key] {
					printedKnown[key] = true
					fmt.Printf("KNOWN-FINDING: property=%s rule=%s site=%s %s\n", id, f.Rule, f.Site(), k.Text)
				}
				continue
			}
			nviol++
			key := f.Rule + "|" + f.Site()
			seenSite[key]++
			if seenSite[key] > 1 {
				// same construct in another configuration: one VIOLATION line per construct, all configs in the text
				fmt.Printf("  (also in configuration %s)\n", f.Config)
				continue
			}
			replay := filepath.Join(verif, "evidence", "replay", id, fmt.Sprintf("%s-%d.json", f.Rule, nviol))
			if writeEv {
				os.MkdirAll(filepath.Dir(replay), 0o755)
				rb, _ := json.MarshalIndent(map[string]interface{}{"finding": f, "tier": tier, "repo": repo}, "", " ")
				os.WriteFile(replay, rb, 0o644)
			}
			fmt.Printf("%s: [%s] %s in %s (config %s): %s -- %s\n", f.Pos, f.Rule, f.Construct, f.Func, f.Config, f.Msg, f.Path)
			fmt.Printf("VIOLATION property=%s replay=%s\n", id, replay)
		}
		if nviol > 0 {
			exit = 1
		}
		wall := time.Since(start).Seconds()
		if writeEv {
			if err := writeEvidence(verif, id, tier, def.Level, seed, wall, results, nviol, nknown, nil); err != nil {
				fmt.Fprintln(os.Stderr, "evidence:", err)
				exit = 2
			}
		}
		nin, nfun := 0, map[string]bool{}
		for _, pr := range results {
			for _, rr := range pr.Rules {
				nin += rr.Instances
			}
			for _, f := range pr.Funcs {
				nfun[f] = true
			}
		}
		fmt.Printf("%s %s: %d configuration(s), %d function(s), %d rule instance(s), %d violation(s), %d known finding(s), %.1fs\n",
			id, tier, len(results), len(nfun), nin, nviol, nknown, wall)
	}
	return exit
}

func runExplain(verif, path string) int {
	b, err := os.ReadFile(path)
	if err != nil {
		fmt.Fprintln(os.Stderr, err)
		return 2
	}
	var rp struct {
		Finding Finding `json:"finding"`
		Tier    string  `json:"tier"`
		Repo    string  `json:"repo"`
	}
	if err := json.Unmarshal(b, &rp); err != nil {
		fmt.Fprintln(os.Stderr, err)
		return 2
	}
	self, _ := os.Executable()
	cmd := exec.Command(self, "-worker", rp.Finding.Config, "-prop", rp.Finding.Prop, "-tier", rp.Tier, "-repo", rp.Repo, "-verif", verif)
	var so bytes.Buffer
	cmd.Stdout = &so
	cmd.Stderr = os.Stderr
	cmd.Run()
	var wo workerOut
	if err := json.Unmarshal(bytes.TrimSpace(so.Bytes()), &wo); err != nil {
		fmt.Fprintln(os.Stderr, "worker:", err)
		return 2
	}
	if wo.Error != "" {
		fmt.Println("configuration error:", wo.Error)
		fmt.Printf("VIOLATION property=%s replay=%s\n", rp.Finding.Prop, path)
		return 1
	}
	hit := false
	for _, pr := range wo.Results {
		for _, f := range pr.Findings {
			if f.Rule == rp.Finding.Rule && f.Site() == rp.Finding.Site() {
				hit = true
				fmt.Printf("%s: [%s] %s in %s (config %s): %s -- %s\n", f.Pos, f.Rule, f.Construct, f.Func, f.Config, f.Msg, f.Path)
			}
		}
	}
	if hit {
		fmt.Printf("VIOLATION property=%s replay=%s\n", rp.Finding.Prop, path)
		return 1
	}
	fmt.Println("instance no longer reported on the current tree")
	return 0
}
