package main

import (
	"fmt"
	"go/constant"
	"go/token"
	"go/types"

	"golang.org/x/tools/go/ssa"
)

// BITS engine: abstract interpretation of integer SSA code in the bit-provenance
// domain. Every bit of every value is one of: constant 0, constant 1, "bit k of
// input S" or unknown (top).

type bitKind uint8

const (
	bTop bitKind = iota
	bZero
	bOne
	bIn
)

type abit struct {
	K   bitKind
	Src string // input name for bIn
	N   int    // input bit number for bIn
}

func (b abit) String() string {
	switch b.K {
	case bZero:
		return "0"
	case bOne:
		return "1"
	case bIn:
		return fmt.Sprintf("%s[%d]", b.Src, b.N)
	}
	return "?"
}

type bitvec []abit // index 0 = least significant bit

func topVec(w int) bitvec { return make(bitvec, w) }

func constVec(w int, v uint64) bitvec {
	out := make(bitvec, w)
	for i := range out {
		if i < 64 && v>>uint(i)&1 == 1 {
			out[i] = abit{K: bOne}
		} else {
			out[i] = abit{K: bZero}
		}
	}
	return out
}

func inputVec(w int, src string) bitvec {
	out := make(bitvec, w)
	for i := range out {
		out[i] = abit{K: bIn, Src: src, N: i}
	}
	return out
}

func intWidth(t types.Type) (w int, signed bool, ok bool) {
	b, isb := t.Underlying().(*types.Basic)
	if !isb {
		return 0, false, false
	}
	switch b.Kind() {
	case types.Uint8:
		return 8, false, true
	case types.Uint16:
		return 16, false, true
	case types.Uint32:
		return 32, false, true
	case types.Uint64, types.Uint, types.Uintptr:
		return 64, false, true
	case types.Int8:
		return 8, true, true
	case types.Int16:
		return 16, true, true
	case types.Int32:
		return 32, true, true
	case types.Int64, types.Int:
		return 64, true, true
	}
	return 0, false, false
}

func bAnd(a, b abit) abit {
	if a.K == bZero || b.K == bZero {
		return abit{K: bZero}
	}
	if a.K == bOne {
		return b
	}
	if b.K == bOne {
		return a
	}
	if a.K == bIn && a == b {
		return a
	}
	return abit{}
}

func bOr(a, b abit) abit {
	if a.K == bOne || b.K == bOne {
		return abit{K: bOne}
	}
	if a.K == bZero {
		return b
	}
	if b.K == bZero {
		return a
	}
	if a.K == bIn && a == b {
		return a
	}
	return abit{}
}

func bXor(a, b abit) abit {
	if a.K == bZero {
		return b
	}
	if b.K == bZero {
		return a
	}
	if a.K == bOne && b.K == bOne {
		return abit{K: bZero}
	}
	if a.K == bIn && a == b {
		return abit{K: bZero}
	}
	return abit{}
}

func bNot(a abit) abit {
	switch a.K {
	case bZero:
		return abit{K: bOne}
	case bOne:
		return abit{K: bZero}
	}
	return abit{}
}

// BitEval evaluates the values of one function.
type BitEval struct {
	fn    *ssa.Function
	memo  map[ssa.Value]bitvec
	Input func(v ssa.Value) (string, bool) // classifies a value as a named input
}

func (e *BitEval) constShift(v ssa.Value) (uint64, bool) {
	c, ok := v.(*ssa.Const)
	if !ok || c.Value == nil || c.Value.Kind() != constant.Int {
		return 0, false
	}
	return c.Uint64(), true
}

func resize(v bitvec, w int, signed bool) bitvec {
	out := make(bitvec, w)
	for i := 0; i < w; i++ {
		if i < len(v) {
			out[i] = v[i]
		} else if !signed {
			out[i] = abit{K: bZero}
		} else if len(v) > 0 && v[len(v)-1].K == bZero {
			out[i] = abit{K: bZero}
		} else {
			out[i] = abit{}
		}
	}
	return out
}

func (e *BitEval) Eval(v ssa.Value) bitvec {
	if r, ok := e.memo[v]; ok {
		return r
	}
	w, _, ok := intWidth(v.Type())
	if !ok {
		return nil
	}
	e.memo[v] = topVec(w) // cycle guard (phi loops evaluate to top)
	r := e.eval(v, w)
	if len(r) != w {
		r = topVec(w)
	}
	e.memo[v] = r
	return r
}

func (e *BitEval) eval(v ssa.Value, w int) bitvec {
	if e.Input != nil {
		if name, ok := e.Input(v); ok {
			return inputVec(w, name)
		}
	}
	switch x := v.(type) {
	case *ssa.Const:
		if x.Value == nil || x.Value.Kind() != constant.Int {
			return topVec(w)
		}
		u, _ := constant.Uint64Val(x.Value)
		if constant.Sign(x.Value) < 0 {
			i, _ := constant.Int64Val(x.Value)
			u = uint64(i)
		}
		return constVec(w, u)
	case *ssa.ChangeType:
		in := e.Eval(x.X)
		if in == nil {
			return topVec(w)
		}
		return resize(in, w, false)
	case *ssa.Convert:
		in := e.Eval(x.X)
		if in == nil {
			return topVec(w)
		}
		_, sgn, _ := intWidth(x.X.Type())
		return resize(in, w, sgn)
	case *ssa.UnOp:
		if x.Op == token.XOR {
			in := e.Eval(x.X)
			out := make(bitvec, w)
			for i := range out {
				out[i] = bNot(in[i])
			}
			return out
		}
		return topVec(w)
	case *ssa.Phi:
		if cv := canonPhi(x); cv != ssa.Value(x) {
			return e.Eval(cv)
		}
		var acc bitvec
		for _, ed := range x.Edges {
			ev := e.Eval(ed)
			if ev == nil {
				return topVec(w)
			}
			if acc == nil {
				acc = append(bitvec{}, ev...)
				continue
			}
			for i := range acc {
				if acc[i] != ev[i] {
					acc[i] = abit{}
				}
			}
		}
		if acc == nil {
			return topVec(w)
		}
		return acc
	case *ssa.BinOp:
		a := e.Eval(x.X)
		out := make(bitvec, w)
		switch x.Op {
		case token.SHL, token.SHR:
			s, ok := e.constShift(x.Y)
			if !ok || a == nil {
				return topVec(w)
			}
			_, sgn, _ := intWidth(x.X.Type())
			for i := 0; i < w; i++ {
				var src int
				if x.Op == token.SHL {
					src = i - int(s)
				} else {
					src = i + int(s)
				}
				switch {
				case src < 0:
					out[i] = abit{K: bZero}
				case src >= w:
					if sgn && a[w-1].K != bZero {
						out[i] = abit{}
					} else {
						out[i] = abit{K: bZero}
					}
				default:
					out[i] = a[src]
				}
			}
			return out
		}
		b := e.Eval(x.Y)
		if a == nil || b == nil || len(a) != w || len(b) != w {
			return topVec(w)
		}
		switch x.Op {
		case token.AND:
			for i := range out {
				out[i] = bAnd(a[i], b[i])
			}
		case token.OR:
			for i := range out {
				out[i] = bOr(a[i], b[i])
			}
		case token.XOR:
			for i := range out {
				out[i] = bXor(a[i], b[i])
			}
		case token.AND_NOT:
			for i := range out {
				out[i] = bAnd(a[i], bNot(b[i]))
			}
		case token.ADD:
			// a+b == a|b below the lowest position where both may be 1 (no carry is generated there)
			carry := false
			for i := range out {
				if carry {
					out[i] = abit{}
					continue
				}
				if a[i].K != bZero && b[i].K != bZero {
					// both may be set: a carry may be generated; this bit is xor, the rest unknown
					out[i] = bXor(a[i], b[i])
					if a[i].K == bIn && a[i] == b[i] {
						out[i] = abit{K: bZero}
					}
					carry = true
					continue
				}
				out[i] = bOr(a[i], b[i])
			}
		default:
			return topVec(w)
		}
		return out
	}
	return topVec(w)
}
