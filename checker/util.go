package main

import (
	"fmt"
	"go/constant"
	"go/token"
	"go/types"
	"sort"
	"strings"

	"golang.org/x/tools/go/ssa"
)

// ---------------------------------------------------------------------------
// instruction iteration

type instrRef struct {
	B *ssa.BasicBlock
	I int
}

func (r instrRef) Instr() ssa.Instruction { return r.B.Instrs[r.I] }

func eachInstr(fn *ssa.Function, f func(b *ssa.BasicBlock, i int, in ssa.Instruction)) {
	for _, b := range fn.Blocks {
		for i, in := range b.Instrs {
			f(b, i, in)
		}
	}
}

func indexInBlock(in ssa.Instruction) int {
	b := in.Block()
	for i, x := range b.Instrs {
		if x == in {
			return i
		}
	}
	return -1
}

// instrDominates reports whether a executes before b on every path to b (strictly).
func instrDominates(a, b ssa.Instruction) bool {
	if a == b {
		return false
	}
	ba, bb := a.Block(), b.Block()
	if ba == bb {
		return indexInBlock(a) < indexInBlock(b)
	}
	return blockDominates(ba, bb)
}

// ---------------------------------------------------------------------------
// callee helpers

func staticCallee(in ssa.Instruction) *ssa.Function {
	ci, ok := in.(ssa.CallInstruction)
	if !ok {
		return nil
	}
	return ci.Common().StaticCallee()
}

// calleeFullName returns "pkgpath.Name" or "(pkgpath.T).Name" / "(*pkgpath.T).Name" for static
// callees, and "iface:pkg.Type.Method" for interface calls. Builtins: "builtin:name".
func calleeFullName(in ssa.Instruction) string {
	ci, ok := in.(ssa.CallInstruction)
	if !ok {
		return ""
	}
	cc := ci.Common()
	if cc.IsInvoke() {
		t := cc.Value.Type().String()
		return "iface:" + t + "." + cc.Method.Name()
	}
	if b, ok := cc.Value.(*ssa.Builtin); ok {
		return "builtin:" + b.Name()
	}
	if f := cc.StaticCallee(); f != nil {
		return f.String()
	}
	return ""
}

func isBuiltinCall(in ssa.Instruction, name string) bool {
	return calleeFullName(in) == "builtin:"+name
}

// callArgs returns the actual arguments including the receiver for static method calls
// (go/ssa puts the receiver in Args[0] for non-invoke calls) .
func callArgs(in ssa.Instruction) []ssa.Value {
	ci, ok := in.(ssa.CallInstruction)
	if !ok {
		return nil
	}
	return ci.Common().Args
}

// callsFn: the instruction is a call/defer/go whose static callee is fn.
func callsFn(in ssa.Instruction, fn *ssa.Function) bool {
	if fn == nil {
		return false
	}
	sc := staticCallee(in)
	if sc == nil {
		return false
	}
	if sc == fn {
		return true
	}
	// wrappers / bound thunks
	if sc.Object() != nil && fn.Object() != nil && sc.Object() == fn.Object() {
		return true
	}
	return false
}

// methodCallOn: static call of method `name` declared on named type (pkgPath, typeName), any receiver kind.
func isMethodCall(in ssa.Instruction, pkgPath, typeName, name string) bool {
	sc := staticCallee(in)
	if sc == nil || sc.Signature.Recv() == nil || sc.Name() != name {
		return false
	}
	rt := sc.Signature.Recv().Type()
	if pt, ok := rt.(*types.Pointer); ok {
		rt = pt.Elem()
	}
	n, ok := rt.(*types.Named)
	if !ok || n.Obj().Pkg() == nil {
		return false
	}
	return n.Obj().Pkg().Path() == pkgPath && n.Obj().Name() == typeName
}

func isPkgFuncCall(in ssa.Instruction, pkgPath, name string) bool {
	sc := staticCallee(in)
	if sc == nil || sc.Signature.Recv() != nil || sc.Pkg == nil {
		return false
	}
	return sc.Pkg.Pkg.Path() == pkgPath && sc.Name() == name
}

// ---------------------------------------------------------------------------
// field helpers

// addrField: if v is &x.f returns (x, field var).
func addrField(v ssa.Value) (ssa.Value, *types.Var) {
	fa, ok := v.(*ssa.FieldAddr)
	if !ok {
		return nil, nil
	}
	fv := fieldOfAddr(fa)
	return fa.X, fv
}

// loadedField: if v is a load *(&x.f) or a Field(x, f) returns (x, f).
func loadedField(v ssa.Value) (ssa.Value, *types.Var) {
	switch x := v.(type) {
	case *ssa.UnOp:
		if x.Op == token.MUL {
			return addrField(x.X)
		}
	case *ssa.Field:
		if st, ok := x.X.Type().Underlying().(*types.Struct); ok {
			return x.X, st.Field(x.Field)
		}
	}
	return nil, nil
}

// FieldAccess is one syntactic access to a struct field.
type FieldAccess struct {
	Fn    *ssa.Function
	Instr ssa.Instruction // the Store, load (UnOp), or user of the address
	Addr  *ssa.FieldAddr  // nil for Field (value) reads
	Kind  string          // "load", "store", "addr" (address escapes to a call/other use)
}

// fieldAccesses lists every access to field fv in fn.
func fieldAccesses(fn *ssa.Function, fv *types.Var) []FieldAccess {
	var out []FieldAccess
	eachInstr(fn, func(b *ssa.BasicBlock, i int, in ssa.Instruction) {
		switch x := in.(type) {
		case *ssa.FieldAddr:
			if fieldOfAddr(x) != fv {
				return
			}
			refs := x.Referrers()
			if refs == nil {
				return
			}
			for _, u := range *refs {
				switch y := u.(type) {
				case *ssa.Store:
					if y.Addr == x {
						out = append(out, FieldAccess{fn, y, x, "store"})
					} else {
						out = append(out, FieldAccess{fn, y, x, "addr"})
					}
				case *ssa.UnOp:
					if y.Op == token.MUL {
						out = append(out, FieldAccess{fn, y, x, "load"})
					} else {
						out = append(out, FieldAccess{fn, y, x, "addr"})
					}
				case *ssa.DebugRef:
				case *ssa.Slice:
					// &x.f[:] of an array field: a view; writes through it are byte writes
					kind := "slice"
					if y.Referrers() != nil {
						for _, w := range *y.Referrers() {
							if dst := byteWriteDst(w); dst == ssa.Value(y) {
								kind = "store"
							}
						}
					}
					out = append(out, FieldAccess{fn, y, x, kind})
				case *ssa.IndexAddr:
					kind := "load"
					if y.Referrers() != nil {
						for _, w := range *y.Referrers() {
							if st, ok := w.(*ssa.Store); ok && st.Addr == ssa.Value(y) {
								kind = "store"
							}
						}
					}
					out = append(out, FieldAccess{fn, y, x, kind})
				default:
					out = append(out, FieldAccess{fn, u, x, "addr"})
				}
			}
		case *ssa.Field:
			if st, ok := x.X.Type().Underlying().(*types.Struct); ok && st.Field(x.Field) == fv {
				out = append(out, FieldAccess{fn, x, nil, "load"})
			}
		}
	})
	return out
}

// ---------------------------------------------------------------------------
// constants

func constInt(v ssa.Value) (int64, bool) {
	c, ok := v.(*ssa.Const)
	if !ok || c.Value == nil {
		return 0, false
	}
	if c.Value.Kind() != constant.Int {
		return 0, false
	}
	if i, ok := constant.Int64Val(c.Value); ok {
		return i, true
	}
	if u, ok := constant.Uint64Val(c.Value); ok {
		return int64(u), true
	}
	return 0, false
}

func constString(v ssa.Value) (string, bool) {
	c, ok := v.(*ssa.Const)
	if !ok || c.Value == nil || c.Value.Kind() != constant.String {
		return "", false
	}
	return constant.StringVal(c.Value), true
}

func isNilConst(v ssa.Value) bool {
	c, ok := v.(*ssa.Const)
	return ok && c.Value == nil
}

// ---------------------------------------------------------------------------
// value keys (structural identity of pure values; go/ssa performs no CSE)

type keyer struct {
	memo map[ssa.Value]string
	// fwd forwards loads from local memory (store->load forwarding); may be nil.
	fwd func(load *ssa.UnOp) ssa.Value
	// fwdLocal: resolve loads of fields of non-escaping local structs to the stored value's key.
	fwdLocal bool
	// pureFieldLoads: treat loads of struct fields through pointers as pure (key = address shape).
	pureFieldLoads bool
	// paramPos: name parameters by position ("p:0") instead of by name.
	paramPos bool
	// loadKey, when set, names loads that are not forwarded (e.g. with a side-effect epoch).
	loadKey func(ld *ssa.UnOp, addrKey string) string
}

func newKeyer() *keyer { return &keyer{memo: map[ssa.Value]string{}} }

func (k *keyer) Key(v ssa.Value) string {
	if v == nil {
		return "<nil>"
	}
	if s, ok := k.memo[v]; ok {
		return s
	}
	k.memo[v] = "@" + v.Name() // cycle guard
	s := k.key(v)
	k.memo[v] = s
	return s
}

func (k *keyer) key(v ssa.Value) string {
	if cv := canonPhi(v); cv != v {
		return k.Key(cv)
	}
	switch x := v.(type) {
	case *ssa.Const:
		if x.Value == nil {
			return "nil"
		}
		return "c:" + x.Value.ExactString()
	case *ssa.Parameter:
		if k.paramPos && x.Parent() != nil {
			for i, q := range x.Parent().Params {
				if q == x {
					return fmt.Sprintf("p:%d", i)
				}
			}
		}
		return "p:" + x.Name()
	case *ssa.FreeVar:
		return "fv:" + x.Name()
	case *ssa.Global:
		return "g:" + x.String()
	case *ssa.Function:
		return "fn:" + x.String()
	case *ssa.Builtin:
		return "b:" + x.Name()
	case *ssa.BinOp:
		a, b := k.Key(x.X), k.Key(x.Y)
		switch x.Op {
		case token.ADD, token.MUL, token.AND, token.OR, token.XOR, token.EQL, token.NEQ:
			if _, isStr := x.X.Type().Underlying().(*types.Basic); isStr && x.X.Type().Underlying().(*types.Basic).Info()&types.IsString != 0 && x.Op == token.ADD {
				break // string concatenation is not commutative
			}
			if b < a {
				a, b = b, a
			}
		case token.GTR:
			return "(" + b + " < " + a + ")"
		case token.GEQ:
			return "(" + b + " <= " + a + ")"
		}
		return "(" + a + " " + x.Op.String() + " " + b + ")"
	case *ssa.UnOp:
		if x.Op == token.MUL {
			if k.fwd != nil {
				if f := k.fwd(x); f != nil {
					return k.Key(f)
				}
			}
			if k.fwdLocal {
				if fa, ok := x.X.(*ssa.FieldAddr); ok {
					if a, ok := fa.X.(*ssa.Alloc); ok {
						if s, ok := k.localFieldKey(a, fa.Field, x, 0); ok {
							return s
						}
					}
				}
			}
			if k.pureFieldLoads {
				return "*" + k.Key(x.X)
			}
			if d := deref(x); d != ssa.Value(x) {
				return k.Key(d)
			}
			if k.loadKey != nil {
				return k.loadKey(x, k.Key(x.X))
			}
			// loads are not pure: identity of the instruction, but expose the address shape for readability
			return "load#" + x.Name() + "(" + k.Key(x.X) + ")"
		}
		return x.Op.String() + k.Key(x.X)
	case *ssa.Convert:
		return "conv<" + x.Type().String() + ">(" + k.Key(x.X) + ")"
	case *ssa.ChangeType:
		return k.Key(x.X)
	case *ssa.FieldAddr:
		fv := fieldOfAddr(x)
		n := fmt.Sprint(x.Field)
		if fv != nil {
			n = fv.Name()
		}
		return "&" + k.Key(x.X) + "." + n
	case *ssa.Field:
		n := fmt.Sprint(x.Field)
		if st, ok := x.X.Type().Underlying().(*types.Struct); ok {
			n = st.Field(x.Field).Name()
		}
		return k.Key(x.X) + "." + n
	case *ssa.IndexAddr:
		return "&" + k.Key(x.X) + "[" + k.Key(x.Index) + "]"
	case *ssa.Slice:
		s := k.Key(x.X) + "["
		if x.Low != nil {
			s += k.Key(x.Low)
		}
		s += ":"
		if x.High != nil {
			s += k.Key(x.High)
		}
		if x.Max != nil {
			s += ":" + k.Key(x.Max)
		}
		return s + "]"
	case *ssa.Call:
		if b, ok := x.Call.Value.(*ssa.Builtin); ok && (b.Name() == "len" || b.Name() == "cap") {
			return b.Name() + "(" + k.Key(x.Call.Args[0]) + ")"
		}
		return "call#" + x.Name()
	case *ssa.Extract:
		return k.Key(x.Tuple) + "#" + fmt.Sprint(x.Index)
	case *ssa.Lookup:
		return "lookup(" + k.Key(x.X) + "," + k.Key(x.Index) + ")"
	case *ssa.Alloc:
		return "alloc#" + x.Name()
	}
	return fmt.Sprintf("%T#%s", v, v.Name())
}

// ---------------------------------------------------------------------------
// pretty printing of values for reports (source-like, line independent)

func (p *Prog) expr(v ssa.Value) string {
	return exprDepth(v, 0)
}

// exprCanon prints like expr but names parameters by position ($0, $1, ...), so that the text is
// stable under renaming of parameters and receivers.
func exprCanon(v ssa.Value) string {
	canonParams = true
	defer func() { canonParams = false }()
	return exprDepth(v, 0)
}

var canonParams bool

func exprDepth(v ssa.Value, d int) string {
	if v == nil {
		return ""
	}
	if canonParams {
		if pa, ok := v.(*ssa.Parameter); ok && pa.Parent() != nil {
			for i, q := range pa.Parent().Params {
				if q == pa {
					return fmt.Sprintf("$%d", i)
				}
			}
		}
	}
	if d > 6 {
		return v.Name()
	}
	switch x := v.(type) {
	case *ssa.Const:
		if x.Value == nil {
			return "nil"
		}
		return x.Value.String()
	case *ssa.Parameter:
		return x.Name()
	case *ssa.FreeVar:
		return x.Name()
	case *ssa.Global:
		return x.Name()
	case *ssa.BinOp:
		return exprDepth(x.X, d+1) + " " + x.Op.String() + " " + exprDepth(x.Y, d+1)
	case *ssa.UnOp:
		if x.Op == token.MUL {
			return exprDepth(x.X, d+1)
		}
		return x.Op.String() + exprDepth(x.X, d+1)
	case *ssa.Convert:
		return typeShort(x.Type()) + "(" + exprDepth(x.X, d+1) + ")"
	case *ssa.ChangeType:
		return exprDepth(x.X, d+1)
	case *ssa.FieldAddr:
		fv := fieldOfAddr(x)
		if fv != nil {
			return exprDepth(x.X, d+1) + "." + fv.Name()
		}
	case *ssa.Field:
		if st, ok := x.X.Type().Underlying().(*types.Struct); ok {
			return exprDepth(x.X, d+1) + "." + st.Field(x.Field).Name()
		}
	case *ssa.IndexAddr:
		return exprDepth(x.X, d+1) + "[" + exprDepth(x.Index, d+1) + "]"
	case *ssa.Index:
		return exprDepth(x.X, d+1) + "[" + exprDepth(x.Index, d+1) + "]"
	case *ssa.Slice:
		s := exprDepth(x.X, d+1) + "["
		if x.Low != nil {
			s += exprDepth(x.Low, d+1)
		}
		s += ":"
		if x.High != nil {
			s += exprDepth(x.High, d+1)
		}
		return s + "]"
	case *ssa.Call:
		if b, ok := x.Call.Value.(*ssa.Builtin); ok {
			var as []string
			for _, a := range x.Call.Args {
				as = append(as, exprDepth(a, d+1))
			}
			return b.Name() + "(" + strings.Join(as, ", ") + ")"
		}
		if f := x.Call.StaticCallee(); f != nil {
			return f.Name() + "(...)"
		}
		if x.Call.IsInvoke() {
			return exprDepth(x.Call.Value, d+1) + "." + x.Call.Method.Name() + "(...)"
		}
		return exprDepth(x.Call.Value, d+1) + "(...)"
	case *ssa.Extract:
		return exprDepth(x.Tuple, d+1) + "#" + fmt.Sprint(x.Index)
	case *ssa.Alloc:
		if canonParams {
			return "local"
		}
		if x.Comment != "" {
			return x.Comment
		}
	case *ssa.Phi:
		if canonParams {
			return "phi"
		}
		if x.Comment != "" {
			return x.Comment
		}
	case *ssa.Lookup:
		return exprDepth(x.X, d+1) + "[" + exprDepth(x.Index, d+1) + "]"
	case *ssa.MakeSlice:
		return "make(" + typeShort(x.Type()) + ", " + exprDepth(x.Len, d+1) + ")"
	}
	return v.Name()
}

func typeShort(t types.Type) string {
	return types.TypeString(t, func(p *types.Package) string { return p.Name() })
}

// ---------------------------------------------------------------------------

func sortedKeys[M ~map[string]V, V any](m M) []string {
	var ks []string
	for k := range m {
		ks = append(ks, k)
	}
	sort.Strings(ks)
	return ks
}

// returnsOf lists the Return instructions of fn.
func returnsOf(fn *ssa.Function) []*ssa.Return {
	var out []*ssa.Return
	for _, b := range fn.Blocks {
		if len(b.Instrs) == 0 {
			continue
		}
		if r, ok := b.Instrs[len(b.Instrs)-1].(*ssa.Return); ok {
			out = append(out, r)
		}
	}
	return out
}

// errorResultIndex returns the index of the last result of type error, or -1.
func errorResultIndex(fn *ssa.Function) int {
	res := fn.Signature.Results()
	for i := res.Len() - 1; i >= 0; i-- {
		if types.Identical(res.At(i).Type(), types.Universe.Lookup("error").Type()) {
			return i
		}
	}
	return -1
}

// localFieldKey: key of the value held by field fld of local alloc a at instruction at.
func (k *keyer) localFieldKey(a *ssa.Alloc, fld int, at ssa.Instruction, depth int) (string, bool) {
	if depth > 6 || !localAllocOK(a) {
		return "", false
	}
	v, zero, whole := localFieldSource(a, fld, at)
	if zero {
		return "zero", true
	}
	if v == nil {
		return "", false
	}
	if !whole {
		return k.Key(v), true
	}
	// whole-struct store of value v: field fld of v
	pt, _ := a.Type().Underlying().(*types.Pointer)
	name := fmt.Sprint(fld)
	if pt != nil {
		if st, ok := pt.Elem().Underlying().(*types.Struct); ok && fld < st.NumFields() {
			name = st.Field(fld).Name()
		}
	}
	if ld, ok := v.(*ssa.UnOp); ok && ld.Op == token.MUL {
		if b, ok := ld.X.(*ssa.Alloc); ok {
			return k.localFieldKey(b, fld, ld, depth+1)
		}
	}
	if c, ok := v.(*ssa.Const); ok && c.Value == nil {
		return "zero", true
	}
	return k.Key(v) + "." + name, true
}

// paramIndex: position of parameter pa among fn.Params (-1 if it is not one of them).
func paramIndex(fn *ssa.Function, pa *ssa.Parameter) int {
	for i, q := range fn.Params {
		if q == pa {
			return i
		}
	}
	return -1
}

// isErrorType: the predeclared error interface.
func isErrorType(t types.Type) bool {
	return types.Identical(t, types.Universe.Lookup("error").Type())
}
